module gmverif

go 1.22

require github.com/yuin/goldmark v0.0.0

replace github.com/yuin/goldmark => /repo
