// gmharness: drives the real goldmark implementation (built from /repo's working tree, -tags verif) and
// the Lean model driver with the same cases, compares, and evaluates property oracles.
package main

import (
	"encoding/json"
	"flag"
	"fmt"
	"os"
	"sort"
	"strconv"
)

func usage() {
	fmt.Fprintln(os.Stderr, "usage: gmharness run <component> [-seed N] [-tier quick|thorough] [-driver path] [-out file] [-corpus file]")
	fmt.Fprintln(os.Stderr, "       gmharness replay <component> -case '<json case>' [-driver path]")
	fmt.Fprintln(os.Stderr, "       gmharness list")
	os.Exit(2)
}

func main() {
	if len(os.Args) < 2 {
		usage()
	}
	switch os.Args[1] {
	case "list":
		var names []string
		for n := range components {
			names = append(names, n)
		}
		sort.Strings(names)
		for _, n := range names {
			fmt.Println(n)
		}
	case "run", "replay":
		if len(os.Args) < 3 {
			usage()
		}
		c, ok := components[os.Args[2]]
		if !ok {
			fmt.Fprintln(os.Stderr, "unknown component", os.Args[2])
			os.Exit(2)
		}
		fs := flag.NewFlagSet("run", flag.ExitOnError)
		seed := fs.Uint64("seed", 1, "seed")
		tier := fs.String("tier", "quick", "tier")
		driver := fs.String("driver", "/verif/lean/.lake/build/bin/gmdriver", "lean driver")
		out := fs.String("out", "-", "result json")
		corpus := fs.String("corpus", "", "json file with a list of cases to run first")
		caseJSON := fs.String("case", "", "single case (replay)")
		nomodel := fs.Bool("nomodel", false, "skip the Lean driver (oracles only)")
		budget := fs.Float64("budget", 0, "wall-clock budget in seconds (0 = none): stop evaluating generated cases when half of it is used")
		fs.Parse(os.Args[3:])
		budgetS = *budget
		noModel = *nomodel
		driverPath = *driver
		if s := os.Getenv("VERIF_SEED"); s != "" && !isFlagSet(fs, "seed") {
			if v, err := strconv.ParseUint(s, 10, 64); err == nil {
				*seed = v
			}
		}
		var cs []Case
		if *corpus != "" {
			if b, err := os.ReadFile(*corpus); err == nil {
				if err := json.Unmarshal(b, &cs); err != nil {
					fmt.Fprintln(os.Stderr, "bad corpus:", err)
					os.Exit(2)
				}
			}
		}
		if os.Args[1] == "replay" {
			var one Case
			if err := json.Unmarshal([]byte(*caseJSON), &one); err != nil {
				fmt.Fprintln(os.Stderr, "bad case:", err)
				os.Exit(2)
			}
			cc := *c
			cc.Gen = func(string, *RNG, func(Case)) {}
			res := RunComponent(&cc, *tier, *seed, *driver, []Case{one})
			writeJSON(*out, res)
			return
		}
		res := RunComponent(c, *tier, *seed, *driver, cs)
		writeJSON(*out, res)
	default:
		usage()
	}
}

var noModel bool

func isFlagSet(fs *flag.FlagSet, name string) bool {
	set := false
	fs.Visit(func(f *flag.Flag) {
		if f.Name == name {
			set = true
		}
	})
	return set
}
