// gmharness: drives the real goldmark implementation (built from /repo's working tree, -tags verif) and
// the Lean model driver with the same cases, compares, and evaluates property oracles.
package main

import (
	"context"
	"encoding/json"
	"flag"
	"fmt"
	"os"
	"os/exec"
	"sort"
	"strconv"
	"sync"
	"syscall"
	"time"
)

func usage() {
	fmt.Fprintln(os.Stderr, "usage: gmharness run <component> [-seed N] [-tier quick|thorough] [-driver path] [-out file] [-corpus file]")
	fmt.Fprintln(os.Stderr, "       gmharness replay <component> -case '<json case>' [-driver path]")
	fmt.Fprintln(os.Stderr, "       gmharness list")
	os.Exit(2)
}

func main() {
	if len(os.Args) < 2 {
		usage()
	}
	switch os.Args[1] {
	case "list":
		var names []string
		for n := range components {
			names = append(names, n)
		}
		sort.Strings(names)
		for _, n := range names {
			fmt.Println(n)
		}
	case "run", "replay":
		if len(os.Args) < 3 {
			usage()
		}
		c, ok := components[os.Args[2]]
		if !ok {
			fmt.Fprintln(os.Stderr, "unknown component", os.Args[2])
			os.Exit(2)
		}
		fs := flag.NewFlagSet("run", flag.ExitOnError)
		seed := fs.Uint64("seed", 1, "seed")
		tier := fs.String("tier", "quick", "tier")
		driver := fs.String("driver", "/verif/lean/.lake/build/bin/gmdriver", "lean driver")
		out := fs.String("out", "-", "result json")
		corpus := fs.String("corpus", "", "json file with a list of cases to run first")
		caseJSON := fs.String("case", "", "single case (replay)")
		nomodel := fs.Bool("nomodel", false, "skip the Lean driver (oracles only)")
		budget := fs.Float64("budget", 0, "wall-clock budget in seconds (0 = none): stop evaluating generated cases when half of it is used")
		fs.Parse(os.Args[3:])
		budgetS = *budget
		noModel = *nomodel
		driverPath = *driver
		if s := os.Getenv("VERIF_SEED"); s != "" && !isFlagSet(fs, "seed") {
			if v, err := strconv.ParseUint(s, 10, 64); err == nil {
				*seed = v
			}
		}
		var cs []Case
		if *corpus != "" {
			if b, err := os.ReadFile(*corpus); err == nil {
				if err := json.Unmarshal(b, &cs); err != nil {
					fmt.Fprintln(os.Stderr, "bad corpus:", err)
					os.Exit(2)
				}
			}
		}
		if os.Args[1] == "replay" {
			var one Case
			if err := json.Unmarshal([]byte(*caseJSON), &one); err != nil {
				fmt.Fprintln(os.Stderr, "bad case:", err)
				os.Exit(2)
			}
			cc := *c
			cc.Gen = func(string, *RNG, func(Case)) {}
			res := RunComponent(&cc, *tier, *seed, *driver, []Case{one})
			writeJSON(*out, res)
			return
		}
		res := RunComponent(c, *tier, *seed, *driver, cs)
		if len(res.Suspects) > 0 && os.Getenv("VERIF_NO_ISOLATE") == "" {
			// write what there is, then REPLACE this process (its runaway goroutine cannot be stopped otherwise) by
			// the isolating pass, which re-runs every suspect alone in a child process and writes the final result
			tmp := *out + ".partial"
			if *out == "-" {
				tmp = fmt.Sprintf("%s/gmharness-partial-%d.json", os.TempDir(), os.Getpid())
			}
			writeJSON(tmp, res)
			exe, err := os.Executable()
			if err == nil {
				err = syscall.Exec(exe, []string{exe, "isolate", os.Args[2], tmp, *out}, os.Environ())
			}
			fmt.Fprintln(os.Stderr, "isolate: exec failed:", err)
		}
		writeJSON(*out, res)
	case "isolate":
		if len(os.Args) != 5 {
			usage()
		}
		isolate(os.Args[2], os.Args[3], os.Args[4])
	default:
		usage()
	}
}

var noModel bool

func isFlagSet(fs *flag.FlagSet, name string) bool {
	set := false
	fs.Visit(func(f *flag.Flag) {
		if f.Name == name {
			set = true
		}
	})
	return set
}

// isolate: second pass after a memory runaway (see engine.go). Every suspect is run alone in a child process
// (`replay -nomodel`, 90 s per-case watchdog, 6 GB memory guard, 150 s overall); a child that is killed, times out, or
// reports violations makes its case a violation of the property under check.
func isolate(comp, partial, out string) {
	var res Result
	b, err := os.ReadFile(partial)
	if err == nil {
		err = json.Unmarshal(b, &res)
	}
	if err != nil {
		fmt.Fprintln(os.Stderr, "isolate: cannot read the partial result:", err)
		os.Exit(2)
	}
	os.Remove(partial)
	exe, _ := os.Executable()
	type verdict struct {
		viols []Violation
		note  string
	}
	vs := make([]verdict, len(res.Suspects))
	var wg sync.WaitGroup
	sem := make(chan struct{}, 4)
	for i, cs := range res.Suspects {
		wg.Add(1)
		go func(i int, cs Case) {
			defer wg.Done()
			sem <- struct{}{}
			defer func() { <-sem }()
			cj, _ := json.Marshal(cs)
			ctx, cancel := context.WithTimeout(context.Background(), 150*time.Second)
			defer cancel()
			cmd := exec.CommandContext(ctx, exe, "replay", comp, "-case", string(cj), "-nomodel", "-out", "-")
			cmd.Env = append(os.Environ(), "VERIF_NO_ISOLATE=1", "VERIF_CASE_TIMEOUT=90", "VERIF_MEM_LIMIT_GB=6")
			o, err := cmd.Output()
			var r Result
			if err != nil || json.Unmarshal(o, &r) != nil {
				vs[i].viols = []Violation{{Component: comp, Property: "*", Clause: "runaway-in-" + comp,
					Detail: fmt.Sprintf("the case, run alone in a child process, did not finish (%v): killed, out of memory or hung", err), Case: cs}}
				return
			}
			vs[i].viols = r.Violations
		}(i, cs)
	}
	wg.Wait()
	culprits := 0
	for _, v := range vs {
		if len(v.viols) > 0 {
			culprits++
		}
		for _, x := range v.viols {
			res.NViolations++
			if res.ViolClauses == nil {
				res.ViolClauses = map[string]int{}
			}
			res.ViolClauses[x.Property+"/"+x.Clause]++
			if len(res.Violations) < maxKept {
				res.Violations = append(res.Violations, x)
			}
		}
	}
	res.Notes = append(res.Notes, fmt.Sprintf("isolate: %d suspects re-run alone, %d of them failed", len(res.Suspects), culprits))
	if culprits == 0 && res.Extra["runaway"] == "1" {
		// the runaway happened but no single case reproduces it: still not a clean run
		res.NViolations++
		res.Violations = append(res.Violations, Violation{Component: comp, Property: "*", Clause: "runaway-in-" + comp,
			Detail: "the harness process ran away with memory, but none of the cases in flight reproduces it when run alone", Case: Case{Op: "none"}})
	}
	writeJSON(out, &res)
}
