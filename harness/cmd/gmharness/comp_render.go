package main

// Component `render`: the real parser's tree (or a random tree built through the public AST API) is
// dumped, rendered by the real renderer and by GM.Model.Render; the bytes must be equal. Every real
// safe-mode output is also handed to the Lean-defined oracles of C03 (`tok safe`) and C04 (`tok urls`).

import (
	"bytes"
	"fmt"
	"regexp"
	"sort"
	"strconv"
	"strings"

	"github.com/yuin/goldmark/ast"
	east "github.com/yuin/goldmark/extension/ast"
	"github.com/yuin/goldmark/text"
)

func init() {
	register(&Component{
		Name: "render",
		Rule: "documents: the repo's corpora (spec.json, _test/*.txt, extension/_test/*.txt) + mutants + grammar-generated + adversarial fragments, each under several configurations; trees: random ASTs built through the public node constructors (not parser-shaped); non-trivial = the tree has an inline non-text kind or >= 2 block kinds; distinct = distinct (configuration class, kind multiset)",
		Gen:  genRender,
		Impl: implRender,
		// per-property projection of a disagreement: C03 and C10 are about every byte; C04 only about href/src values
		Affects: func(cs Case, impl, model string) []string {
			r := []string{"C03", "C10"}
			if !equalStrings(renderURLAttrValues(impl), renderURLAttrValues(model)) {
				r = append(r, "C04")
			}
			return r
		},
		Scope: func(tier string) string {
			if tier == "thorough" {
				return "all corpus documents x 8 corner configurations + 60k generated documents x random configurations of the full lattice + 30k random API-built trees"
			}
			return "all corpus documents x 8 corner configurations + 6k generated documents x random configurations + 3k random API-built trees"
		},
	})
}

func genRender(tier string, rng *RNG, emit func(Case)) {
	ndocs, ntrees := 6000, 3000
	if tier == "thorough" {
		ndocs, ntrees = 60000, 30000
	}
	corners := CornerCfgs()
	for _, d := range CorpusDocs() {
		for _, c := range corners {
			emit(Case{Op: "doc", Args: []string{c.Name(), hx(d)}})
		}
	}
	n := 0
	DocStream(rng, len(CorpusDocs())+ndocs, func(kind string, d []byte) {
		n++
		if kind == "corpus" {
			return
		}
		var c Cfg
		if rng.Chance(50) {
			c = corners[rng.Intn(len(corners))]
		} else {
			c = randCfg(rng)
		}
		emit(Case{Op: "doc", Args: []string{c.Name(), hx(d)}})
	})
	// EVERY name of the HTML5 entity table (read from the tree under test) as a reference in text, a link title, an image
	// description and an info string, 40 names per document, safe mode with and without XHTML: a handful of entities expand to
	// text that starts with a character the writers must escape (nvlt, nvgt, ...)
	if entityNameList == nil {
		entityNameList = loadEntityNames()
	}
	for i := 0; i < len(entityNameList); i += 40 {
		j := i + 40
		if j > len(entityNameList) {
			j = len(entityNameList)
		}
		var refs []string
		for _, nmE := range entityNameList[i:j] {
			refs = append(refs, "&"+nmE+";")
		}
		all := strings.Join(refs, " ")
		d := "a " + all + "\n\n[l](/u \"" + strings.Join(refs, "") + "\") ![" + strings.Join(refs, "x") + "](/i)\n\n```" + strings.Join(refs[:3], "") + "\nc\n```\n"
		emit(Case{Op: "doc", Args: []string{Cfg{XHTML: (i/40)%2 == 0}.Name(), hx([]byte(d))}})
	}
	// near misses of allowed attribute names on headings (Attribute option on), in safe mode
	nm := NearMissAttrNames()
	step := 1
	if tier != "thorough" && len(nm) > 1500 {
		step = len(nm)/1500 + 1
	}
	for i := 0; i < len(nm); i += step {
		d := "# h {" + nm[i] + "=v " + nm[(i*7+3)%len(nm)] + "=\"w\"}\n"
		emit(Case{Op: "doc", Args: []string{Cfg{Exts: "tskldfy", Attr: true, XHTML: i%2 == 0}.Name(), hx([]byte(d))}})
	}
	// names the real global attribute filter accepts although they are not allowed (directed search; none expected)
	for i, n := range DirectedAttrNames() {
		d := "# h {" + n + "=v}\n\nx\n===\n{" + n + "=\"w\"}\n"
		emit(Case{Op: "doc", Args: []string{Cfg{Exts: "tskldfy", Attr: true, XHTML: i%2 == 0}.Name(), hx([]byte(d))}})
	}
	for i := 0; i < ntrees; i++ {
		c := randCfg(rng)
		c.Exts = []string{"tskdf", "tskdf", "", "t", "f", "tskdf1", "tskdf2e"}[rng.Intn(7)]
		emit(Case{Op: "tree", Args: []string{c.Name(), strconv.FormatUint(rng.Next(), 10)}})
	}
}

func kindKey(kinds map[string]int) (string, bool) {
	var ks []string
	blocks, inl := 0, 0
	for k := range kinds {
		ks = append(ks, k)
		switch k {
		case "Document", "Text", "TextBlock":
		case "Paragraph", "Heading", "Blockquote", "CodeBlock", "FencedCodeBlock", "HTMLBlock", "List", "ListItem", "ThematicBreak", "Table", "TableHeader", "TableRow", "TableCell", "DefinitionList", "DefinitionTerm", "DefinitionDescription", "Footnote", "FootnoteList":
			blocks++
		default:
			inl++
		}
	}
	sort.Strings(ks)
	return strings.Join(ks, ","), inl >= 1 || blocks >= 2
}

func renderReal(c Cfg, src []byte, doc ast.Node) ([]byte, error) {
	var buf bytes.Buffer
	err := c.Build().Renderer().Render(&buf, src, doc)
	return buf.Bytes(), err
}

func safetyChecks(c Cfg, out []byte) []ModelCheck {
	if c.Unsafe {
		return nil
	}
	return []ModelCheck{
		{Line: "tok safe " + b2s(c.XHTML) + " " + hx(out), Property: "C03"},
		{Line: "tok urls " + hx(out), Property: "C04"},
	}
}

func implRender(cs Case) ImplResult {
	c := ParseCfg(cs.Args[0])
	var src []byte
	var doc ast.Node
	switch cs.Op {
	case "doc":
		src = unhx(cs.Args[1])
		doc = c.Build().Parser().Parse(text.NewReader(src))
	case "tree":
		seed, _ := strconv.ParseUint(cs.Args[1], 10, 64)
		src, doc = buildRandomTree(NewRNG(seed))
	default:
		return ImplResult{Out: "bad-op"}
	}
	kinds := map[string]int{}
	toks, ok := DumpTree(doc, src, c.EAStyle(), kinds)
	out, err := renderReal(c, src, doc)
	res := ImplResult{Out: hx(out)}
	if err != nil {
		res.Fails = append(res.Fails, OracleFail{"C01", "render-error", fmt.Sprintf("Render returned %v", err)})
	}
	o, e := c.ModelCfg()
	res.ModelLine = "render html " + o + " " + e + " " + toks
	res.NoModel = !ok
	key, nontrivial := kindKey(kinds)
	if nontrivial {
		res.Key = o + e + "|" + key
	}
	if cs.Op == "doc" {
		// safety oracles only make sense for parser-produced trees (API-built trees can hold anything)
		res.Checks = safetyChecks(c, out)
		if !c.Unsafe && ok {
			res.Checks = append(res.Checks, ModelCheck{Line: "render inv " + o + " " + e + " " + toks, Property: "C03"})
		}
	}
	for k := range kinds {
		res.Stats = append(res.Stats, "kind:"+k)
	}
	return res
}

// ---------- random trees through the public API ----------

type treeBuilder struct {
	rng *RNG
	src []byte
}

var treeTexts = []string{"a", "b c", "<x>", "\"q\"", "&amp;", "&#35;", "\\*", "é", "日本", "語", "", "a\n", "&nosuch;", "\x00", "1 < 2 & 3", "x\\", "\\ ", "www", "\xff"}

func (b *treeBuilder) seg(s string) text.Segment {
	start := len(b.src)
	b.src = append(b.src, s...)
	b.src = append(b.src, '|')
	return text.NewSegment(start, start+len(s))
}

func (b *treeBuilder) pick(xs []string) string { return xs[b.rng.Intn(len(xs))] }

var attrNames = []string{"id", "class", "title", "style", "align", "data-x", "onclick", "href", "start", "width", "lang", "x", "cite", "value"}

func (b *treeBuilder) setAttrs(n ast.Node) {
	if !b.rng.Chance(25) {
		return
	}
	for i, k := 0, 1+b.rng.Intn(3); i < k; i++ {
		name := b.pick(attrNames)
		if name == "style" {
			// the table cell renderer asserts []byte for an existing style attribute
			n.SetAttributeString(name, []byte(b.pick(treeTexts)))
			continue
		}
		switch b.rng.Intn(4) {
		case 0, 1:
			n.SetAttributeString(name, []byte(b.pick(treeTexts)))
		case 2:
			n.SetAttributeString(name, b.pick(treeTexts))
		case 3:
			n.SetAttributeString(name, 1.5)
		}
	}
}

func (b *treeBuilder) lines(n ast.Node) {
	for i, k := 0, b.rng.Intn(3); i < k; i++ {
		n.Lines().Append(b.seg(b.pick(treeTexts) + "\n"))
	}
}

func (b *treeBuilder) node(depth int) ast.Node {
	r := b.rng
	var n ast.Node
	k := r.Intn(34)
	if depth <= 0 {
		k = 16 + r.Intn(6)
	}
	leaf := false
	switch k {
	case 0:
		h := ast.NewHeading(1 + r.Intn(6))
		n = h
	case 1:
		n = ast.NewBlockquote()
	case 2:
		n = ast.NewCodeBlock()
		b.lines(n)
	case 3:
		var info *ast.Text
		if r.Bool() {
			info = ast.NewTextSegment(b.seg(b.pick([]string{"go", "a b", "\"x", "&amp;", ""})))
		}
		n = ast.NewFencedCodeBlock(info)
		b.lines(n)
	case 4:
		hb := ast.NewHTMLBlock(ast.HTMLBlockType(1 + r.Intn(7)))
		b.lines(hb)
		if r.Bool() {
			hb.ClosureLine = b.seg("</x>\n")
		}
		n = hb
	case 5:
		l := ast.NewList([]byte{'-', '.', ')', '*'}[r.Intn(4)])
		l.Start = []int{1, 0, 2, 17}[r.Intn(4)]
		n = l
	case 6:
		n = ast.NewListItem(2)
	case 7:
		n = ast.NewParagraph()
	case 8:
		n = ast.NewTextBlock()
	case 9:
		n = ast.NewThematicBreak()
		leaf = true
	case 10:
		typ := ast.AutoLinkURL
		if r.Bool() {
			typ = ast.AutoLinkEmail
		}
		al := ast.NewAutoLink(typ, ast.NewTextSegment(b.seg(b.pick([]string{"http://a.b/?x=<&\"", "a@b.c", "MAILTO:a@b.c", "javascript:x", "ma\xc4\xb0lto:x", "data:image/png;x", "a b"}))))
		if r.Chance(20) {
			al.Protocol = []byte("http")
		}
		n = al
		leaf = true
	case 11:
		n = ast.NewCodeSpan()
		for i, k := 0, r.Intn(3); i < k; i++ {
			n.AppendChild(n, ast.NewTextSegment(b.seg(b.pick(treeTexts))))
		}
		leaf = true
	case 12:
		n = ast.NewEmphasis(1 + r.Intn(2))
	case 13, 14:
		l := ast.NewLink()
		l.Destination = []byte(b.pick([]string{"/u", "javascript:x", "a b", "&amp;", "\\(", "data:image/gif;x", "JAVASCRIPT&colon;x", "%zz", "é", ""}))
		if r.Bool() {
			l.Title = []byte(b.pick(treeTexts))
		}
		if k == 13 {
			n = l
		} else {
			n = ast.NewImage(l)
		}
	case 15:
		rh := ast.NewRawHTML()
		for i, k := 0, 1+r.Intn(2); i < k; i++ {
			rh.Segments.Append(b.seg(b.pick([]string{"<b>", "<!-- x -->", "<a\n", "x=\"y\">"})))
		}
		n = rh
		leaf = true
	case 16, 17, 18, 19:
		var t *ast.Text
		if r.Chance(20) {
			t = ast.NewRawTextSegment(b.seg(b.pick(treeTexts)))
		} else {
			t = ast.NewTextSegment(b.seg(b.pick(treeTexts)))
		}
		switch r.Intn(4) {
		case 0:
			t.SetSoftLineBreak(true)
		case 1:
			t.SetHardLineBreak(true)
		}
		n = t
		leaf = true
	case 20, 21:
		s := ast.NewString([]byte(b.pick(treeTexts)))
		if r.Chance(30) {
			s.SetRaw(true)
		}
		if r.Chance(20) {
			s.Value = []byte(b.pick([]string{"&ldquo;", "&mdash;", "&hellip;"}))
			s.SetCode(true)
		}
		n = s
		leaf = true
	case 22:
		n = east.NewTable()
	case 23:
		n = east.NewTableHeader(east.NewTableRow(nil))
	case 24:
		n = east.NewTableRow(nil)
	case 25:
		c := east.NewTableCell()
		c.Alignment = east.Alignment(1 + r.Intn(4))
		n = c
	case 26:
		n = east.NewStrikethrough()
	case 27:
		n = east.NewTaskCheckBox(r.Bool())
		leaf = true
	case 28:
		n = east.NewDefinitionList(2, ast.NewParagraph())
	case 29:
		n = east.NewDefinitionTerm()
	case 30:
		d := east.NewDefinitionDescription()
		d.IsTight = r.Bool()
		n = d
	case 31:
		fl := east.NewFootnoteLink(1 + r.Intn(12))
		fl.RefCount = r.Intn(3)
		fl.RefIndex = r.Intn(3)
		n = fl
		leaf = true
	case 32:
		fb := east.NewFootnoteBacklink(1 + r.Intn(12))
		fb.RefCount = r.Intn(3)
		fb.RefIndex = r.Intn(3)
		n = fb
		leaf = true
	case 33:
		if r.Bool() {
			f := east.NewFootnote([]byte("x"))
			f.Index = 1 + r.Intn(12)
			n = f
		} else {
			n = east.NewFootnoteList()
		}
	}
	b.setAttrs(n)
	if !leaf {
		for i, k := 0, r.Intn(4); i < k; i++ {
			n.AppendChild(n, b.node(depth-1))
		}
	}
	return n
}

func buildRandomTree(rng *RNG) ([]byte, ast.Node) {
	b := &treeBuilder{rng: rng}
	doc := ast.NewDocument()
	for i, k := 0, 1+rng.Intn(4); i < k; i++ {
		doc.AppendChild(doc, b.node(3))
	}
	return b.src, doc
}

var renderURLAttrRe = regexp.MustCompile(`(?:href|src)="([^"]*)"`)

func renderURLAttrValues(hexOut string) []string {
	if strings.HasPrefix(hexOut, "panic") || hexOut == "bad-op" {
		return []string{hexOut}
	}
	var r []string
	for _, m := range renderURLAttrRe.FindAllSubmatch(unhxSafe(hexOut), -1) {
		r = append(r, string(m[1]))
	}
	return r
}

func unhxSafe(s string) (b []byte) {
	defer func() {
		if recover() != nil {
			b = []byte(s)
		}
	}()
	return unhx(s)
}

func equalStrings(a, b []string) bool {
	if len(a) != len(b) {
		return false
	}
	for i := range a {
		if a[i] != b[i] {
			return false
		}
	}
	return true
}
