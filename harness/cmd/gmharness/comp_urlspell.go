package main

// Component `urlspell` (C04): spellings of the dangerous URL schemes.
//
//   emit <kind> <hex v>        the REAL renderer (safe mode) on an API-built Link / Image / AutoLink node that
//                              holds v; the href/src value it wrote is compared with the expression the C04
//                              theorems are about (`url emit`, GM.Props.C04.safe_href / safe_autolink).
//   guard <hex v>              html.IsDangerousURL(v) next to the spec's scheme reader on v (`url guard`);
//                              oracle: spec-dangerous implies guard-dangerous (theorem guard_covers_spec).
//   doc <construct> <cfg> <hex spelling>
//                              the REAL parser + renderer on a document that puts the spelling into one
//                              URL-bearing construct; compared with the render model on the real parse, and
//                              every href/src of the output is judged by the Lean-defined predicate
//                              (`tok urls`) and by an independent Go one (html.UnescapeString based).

import (
	"bytes"
	stdhtml "html"
	"regexp"
	"strings"

	"github.com/yuin/goldmark/ast"
	"github.com/yuin/goldmark/renderer/html"
	"github.com/yuin/goldmark/text"
)

func init() {
	register(&Component{
		Name:       "urlspell",
		Rule:       "emit/guard: all strings of length <= N over an alphabet of URL fragments (schemes in two cases, ':', entity/percent/backslash spellings of ':' and 'j', controls, media types) + random longer ones; doc: every letter case of the four schemes, and every position of scheme+':' x every replacement (backslash, decimal/hex/octal-looking/semicolon-less references, named reference, percent) and insertion (controls, spaces, their references, invisible characters, markup bytes) x 3 case patterns x payloads, in 14 URL-bearing constructs, all-extensions safe configuration (+ random other safe configurations); non-trivial = the output has an href/src; distinct = distinct (op, construct, verdict class, value shape)",
		Gen:        genURLSpell,
		Impl:       implURLSpell,
		Exhaustive: true,
		// C04's theorems are about the href/src values only: a whole-document disagreement elsewhere is not its business
		Affects: func(cs Case, impl, model string) []string {
			if cs.Op != "doc" || !equalStrings(renderURLAttrValues(impl), renderURLAttrValues(model)) {
				return []string{"C04"}
			}
			return nil
		},
		Scope: func(tier string) string {
			if tier == "thorough" {
				return "emit: exhaustive length<=3 over 34 fragments x 4 node kinds + 100k random; guard: exhaustive length<=4 over 20 fragments; doc: all single splits + all letter cases x 14 constructs x 3 safe configurations + 60k random double splits"
			}
			return "emit: exhaustive length<=2 over 34 fragments x 4 node kinds + 10k random; guard: exhaustive length<=3 over 20 fragments; doc: all single splits + all letter cases x 14 constructs x 1 safe configuration + 6k random double splits under random safe configurations"
		},
	})
}

// ---------- the Go-side reading of an attribute value (independent of the Lean spec and of goldmark) ----------

var allowedDataPrefixes = []string{"data:image/png;", "data:image/gif;", "data:image/jpeg;", "data:image/webp;", "data:image/svg+xml;"}

// goHrefDangerous: decode character references with the Go standard library (which, like browsers, also
// accepts semicolon-less numeric and legacy named references), trim C0/space at both ends, drop tab/CR/LF,
// fold ASCII case, compare prefixes.
func goHrefDangerous(attr []byte) bool {
	s := stdhtml.UnescapeString(string(attr))
	b := []byte(s)
	for len(b) > 0 && b[0] <= 0x20 {
		b = b[1:]
	}
	for len(b) > 0 && b[len(b)-1] <= 0x20 {
		b = b[:len(b)-1]
	}
	var c []byte
	for _, x := range b {
		if x == '\t' || x == '\n' || x == '\r' {
			continue
		}
		if 'A' <= x && x <= 'Z' {
			x += 32
		}
		c = append(c, x)
	}
	l := string(c)
	for _, p := range []string{"javascript:", "vbscript:", "file:"} {
		if strings.HasPrefix(l, p) {
			return true
		}
	}
	if strings.HasPrefix(l, "data:") {
		for _, p := range allowedDataPrefixes {
			if strings.HasPrefix(l, p) {
				return false
			}
		}
		return true
	}
	return false
}

// in safe mode every `"` outside a tag is written as &quot;, so this finds exactly the attribute values
var urlAttrRe = regexp.MustCompile(`(?:\s|^)(?:href|src)="([^"]*)"`)

func urlAttrValues(out []byte) [][]byte {
	var r [][]byte
	for _, m := range urlAttrRe.FindAllSubmatch(out, -1) {
		r = append(r, m[1])
	}
	return r
}

func valueShape(v []byte) string {
	switch {
	case len(v) == 0:
		return "empty"
	case v[0] == '#':
		return "fragment"
	case bytes.HasPrefix(v, []byte("mailto:")):
		return "mailto"
	}
	i := bytes.IndexByte(v, ':')
	if i < 0 {
		return "noscheme"
	}
	sch := strings.ToLower(string(v[:i]))
	if len(sch) > 12 {
		sch = sch[:12]
	}
	sh := "scheme:" + sch
	if bytes.ContainsAny(v, "%") {
		sh += "+pct"
	}
	if bytes.Contains(v, []byte("&amp;")) {
		sh += "+amp"
	}
	return sh
}

// ---------- generators ----------

var emitAlphabet = syms("javascript", "JaVaScRiPt", "vbscript", "file", "data", "DATA", ":", "&colon;", "&#58;", "&#x3a;", "%3a", "\\:", "\\", "&",
	"j", "&#106;", "&#x6A", " ", "\t", "\n", "\x00", "\x01", "\x7f", "\x80", "\xc3", "image/", "png;", "SVG+XML;", "text/html,", "mailto:", "MA\xc4\xb0LTO:", "a@b.c", "\"", "<")

var guardAlphabet = syms("javascript", "JAVASCRIPT", "vbscript", "file", "data", "DaTa", ":", "image/", "IMAGE/", "png;", "PNG;", "svg+xml;", "jpeg", ";", "x", "+", "-", "1", " ", "\xe2\x84\xaa")

var schemeTails = map[string][]string{
	"javascript": {"alert(1)"},
	"vbscript":   {"msgbox(1)"},
	"file":       {"///etc/passwd"},
	"data":       {"text/html,<script>alert(1)</script>", "image/png;base64,AA==", "IMAGE/SVG+XML;x", "image/bmp;x", "image/png", "image/&#112;ng;x"},
}
var schemeNames = []string{"javascript", "vbscript", "file", "data"}

func refSpellings(ch byte) []string {
	d := func(f string) string { return strings.ReplaceAll(strings.ReplaceAll(f, "D", itoa(int(ch))), "H", hex2(ch)) }
	r := []string{"\\" + string(ch), d("&#D;"), d("&#xH;"), d("&#XH;"), d("&#0D;"), d("&#00000D;"), d("&#D"), d("&#xH"), "%" + hex2(ch), "%" + strings.ToUpper(hex2(ch)), d("&amp;#D;"), d("\\&#D;")}
	if ch == ':' {
		r = append(r, "&colon;", "&colon", "&COLON;", "\\&colon;", "&amp;colon;", "\xef\xbc\x9a", "\xcb\x90")
	}
	return r
}

func itoa(n int) string {
	if n == 0 {
		return "0"
	}
	var b []byte
	for n > 0 {
		b = append([]byte{byte('0' + n%10)}, b...)
		n /= 10
	}
	return string(b)
}
func hex2(c byte) string { const h = "0123456789abcdef"; return string([]byte{h[c>>4], h[c&15]}) }

var insertions = []string{"\t", "\n", "\r", " ", "\x00", "\x01", "\x0b", "\x0c", "\x1f", "\x7f", "\x80", "\xc2\xa0", "\xe2\x80\x8b", "\xef\xbb\xbf", "\xc2\xad",
	"&#9;", "&#10;", "&#13;", "&#x9;", "&#xA;", "&#xa", "&Tab;", "&NewLine;", "&#0;", "&#1;", "&#32;", "&nbsp;", "&ZeroWidthSpace;", "&shy;", "&zwnj;",
	"\\\n", "\\\t", "\\ ", "\\", "\\\\", "%09", "%0a", "%0D", "%00", "%20", "&amp;", "&", "<", ">", "\"", "'", "(", ")", "[", "]", "\\<", "\\>", "&lt;", "&#x3c;", "#", "?", "/", "//"}

func casePattern(s string, k int, rng *RNG) string {
	b := []byte(s)
	for i := range b {
		up := false
		switch k {
		case 1:
			up = true
		case 2:
			up = i%2 == 0
		case 3:
			up = rng.Bool()
		}
		if up && 'a' <= b[i] && b[i] <= 'z' {
			b[i] -= 32
		}
	}
	return string(b)
}

// every letter case of one scheme
func allCases(s string, f func(string)) {
	n := len(s)
	for m := 0; m < 1<<n; m++ {
		b := []byte(s)
		for i := 0; i < n; i++ {
			if m>>i&1 == 1 {
				b[i] -= 32
			}
		}
		f(string(b))
	}
}

// singleSplits: scheme+":" with one position replaced or one insertion made (positions 0..len, i.e. also in
// front of the scheme, just before and just after the colon)
func singleSplits(rng *RNG, f func(string)) {
	for _, sch := range schemeNames {
		tails := schemeTails[sch]
		for pat := 0; pat < 3; pat++ {
			head := casePattern(sch, pat, rng) + ":"
			for pos := 0; pos <= len(head); pos++ {
				for ti, tail := range tails {
					if ti > 0 && pos < len(head)-1 && pat > 0 {
						continue // the payload matters only near the colon
					}
					for _, ins := range insertions {
						f(head[:pos] + ins + head[pos:] + tail)
					}
					if pos < len(head) {
						for _, rep := range refSpellings(head[pos]) {
							f(head[:pos] + rep + head[pos+1:] + tail)
						}
					}
				}
			}
		}
	}
}

func randomSplit(rng *RNG) string {
	sch := schemeNames[rng.Intn(len(schemeNames))]
	head := casePattern(sch, rng.Intn(4), rng) + ":"
	tail := schemeTails[sch][rng.Intn(len(schemeTails[sch]))]
	var sb strings.Builder
	for i := 0; i <= len(head); i++ {
		if rng.Chance(18) {
			sb.WriteString(insertions[rng.Intn(len(insertions))])
		}
		if i < len(head) {
			if rng.Chance(18) {
				r := refSpellings(head[i])
				sb.WriteString(r[rng.Intn(len(r))])
			} else {
				sb.WriteByte(head[i])
			}
		}
	}
	return sb.String() + tail
}

// URL-bearing constructs; `l` in the needed-extension column means Linkify must be on for the construct to bite
var spellConstructs = []string{"inline", "angle", "title", "image", "imageangle", "auto", "refdef", "refangle", "imageref", "bare", "www", "http", "email", "nested"}

func spellDoc(construct string, s string) []byte {
	switch construct {
	case "inline":
		return []byte("[a](" + s + ")\n")
	case "angle":
		return []byte("[a](<" + s + ">)\n")
	case "title":
		return []byte("[a](" + s + " \"t\")\n")
	case "image":
		return []byte("![a](" + s + ")\n")
	case "imageangle":
		return []byte("![a](<" + s + ">)\n")
	case "auto":
		return []byte("<" + s + ">\n")
	case "refdef":
		return []byte("[a]: " + s + "\n\n[a]\n")
	case "refangle":
		return []byte("[a]: <" + s + "> 't'\n\n[a] ![b][a]\n")
	case "imageref":
		return []byte("![b][a]\n\n[a]: " + s + "\n")
	case "bare":
		return []byte(s + "\n")
	case "www":
		return []byte("www." + s + " www.a.b/" + s + "\n")
	case "http":
		return []byte("http://" + s + " https://a.b/?" + s + " ftp://" + s + "\n")
	case "email":
		return []byte(s + "@a.bc <" + s + "@a.bc> a@" + s + ".bc\n")
	case "nested":
		return []byte("> - [a](" + s + ") | <" + s + ">\n>   [^1]\n\n[^1]: [b](<" + s + ">)\n")
	}
	return []byte(s)
}

var spellSafeCfgs = []Cfg{
	{Exts: "tskldfy", AutoID: true, Attr: true},
	{},
	{Exts: "tskldfy2e", Attr: true, XHTML: true, HardWraps: true},
}

func genURLSpell(tier string, rng *RNG, emit func(Case)) {
	nEmit, nGuard, nRandEmit, nRandDoc, ncfg := 2, 3, 10000, 6000, 1
	if tier == "thorough" {
		nEmit, nGuard, nRandEmit, nRandDoc, ncfg = 3, 4, 100000, 60000, 3
	}
	kinds := []string{"link", "image", "auto", "email"}
	enumStrings(emitAlphabet, nEmit, func(b []byte) {
		for _, k := range kinds {
			emit(Case{Op: "emit", Args: []string{k, hx(b)}})
		}
	})
	for i := 0; i < nRandEmit; i++ {
		emit(Case{Op: "emit", Args: []string{kinds[rng.Intn(4)], hx(randString(rng, emitAlphabet, 8))}})
	}
	enumStrings(guardAlphabet, nGuard, func(b []byte) { emit(Case{Op: "guard", Args: []string{hx(b)}}) })
	for i := 0; i < nRandEmit; i++ {
		emit(Case{Op: "guard", Args: []string{hx(randString(rng, guardAlphabet, 8))}})
	}
	// spellings straight into nodes and into the guard as well
	var spellings []string
	for _, sch := range schemeNames {
		allCases(sch, func(s string) { spellings = append(spellings, s+":"+schemeTails[sch][0]) })
	}
	singleSplits(rng, func(s string) { spellings = append(spellings, s) })
	for _, s := range spellings {
		for _, k := range kinds {
			emit(Case{Op: "emit", Args: []string{k, hx([]byte(s))}})
		}
	}
	for c := 0; c < ncfg; c++ {
		name := spellSafeCfgs[c].Name()
		for _, s := range spellings {
			for _, con := range spellConstructs {
				emit(Case{Op: "doc", Args: []string{con, name, hx([]byte(s))}})
			}
		}
	}
	for i := 0; i < nRandDoc; i++ {
		c := randCfg(rng)
		c.Unsafe = false
		if rng.Chance(60) && !c.has('l') {
			c.Exts += "l"
		}
		emit(Case{Op: "doc", Args: []string{spellConstructs[rng.Intn(len(spellConstructs))], c.Name(), hx([]byte(randomSplit(rng)))}})
	}
}

// ---------- implementation runs ----------

func emitNodeDoc(kind string, v []byte) ([]byte, ast.Node) {
	doc := ast.NewDocument()
	p := ast.NewParagraph()
	doc.AppendChild(doc, p)
	switch kind {
	case "link", "image":
		l := ast.NewLink()
		l.Destination = v
		if kind == "link" {
			p.AppendChild(p, l)
		} else {
			p.AppendChild(p, ast.NewImage(l))
		}
		return nil, doc
	default:
		typ := ast.AutoLinkURL
		if kind == "email" {
			typ = ast.AutoLinkEmail
		}
		src := append([]byte{}, v...)
		p.AppendChild(p, ast.NewAutoLink(typ, ast.NewTextSegment(text.NewSegment(0, len(src)))))
		return src, doc
	}
}

func c04Oracle(res *ImplResult, out []byte) (nvals int, shape string) {
	vals := urlAttrValues(out)
	for _, v := range vals {
		if goHrefDangerous(v) {
			res.Fails = append(res.Fails, OracleFail{"C04", "dangerous-url-go", "safe-mode output has href/src value " + strconvQuote(v)})
		}
		if shape == "" || valueShape(v) != "fragment" {
			shape = valueShape(v)
		}
	}
	return len(vals), shape
}

func strconvQuote(b []byte) string {
	var sb strings.Builder
	sb.WriteByte('"')
	for _, c := range b {
		if c < 0x20 || c >= 0x7f || c == '"' || c == '\\' {
			sb.WriteString("\\x" + hex2(c))
		} else {
			sb.WriteByte(c)
		}
	}
	sb.WriteByte('"')
	return sb.String()
}

func implURLSpell(cs Case) ImplResult {
	switch cs.Op {
	case "emit":
		kind := cs.Args[0]
		v := unhx(cs.Args[1])
		src, doc := emitNodeDoc(kind, v)
		out, err := renderReal(Cfg{}, src, doc)
		res := ImplResult{}
		if err != nil {
			res.Fails = append(res.Fails, OracleFail{"C01", "render-error", err.Error()})
		}
		// the value sits between the first `href="`/`src="` and the next `"` (a raw `"` cannot occur inside: C19/C03)
		marker := []byte(`href="`)
		if kind == "image" {
			marker = []byte(`src="`)
		}
		val := []byte{}
		if i := bytes.Index(out, marker); i >= 0 {
			rest := out[i+len(marker):]
			if j := bytes.IndexByte(rest, '"'); j >= 0 {
				val = rest[:j]
			}
		} else {
			res.Fails = append(res.Fails, OracleFail{"C04", "no-url-attribute", "emitter wrote no " + string(marker)})
		}
		res.Out = hx(val) + " " + b2s(goHrefDangerous(val))
		res.ModelLine = "url emit " + kind + " " + cs.Args[1]
		if goHrefDangerous(val) {
			res.Fails = append(res.Fails, OracleFail{"C04", "dangerous-url-go", kind + " node holding " + strconvQuote(v) + " wrote " + strconvQuote(val)})
		}
		res.Checks = []ModelCheck{{Line: "tok urls " + hx(out), Property: "C04"}}
		sh := valueShape(val)
		if sh != "noscheme" {
			res.Key = kind + "|" + sh + "|" + b2s(len(val) != len(v))
		}
		return res
	case "guard":
		v := unhx(cs.Args[0])
		g := html.IsDangerousURL(v)
		// the spec-side bit is computed by the Go reading on the raw value (no references to decode here: the
		// guard is applied to the resolved value); cleaned the same way the Lean side does
		s := goSchemeDangerous(v)
		res := ImplResult{Out: b2s(s) + " " + b2s(g), ModelLine: "url guard " + cs.Args[0]}
		if s && !g {
			res.Fails = append(res.Fails, OracleFail{"C04", "guard-misses-scheme", "IsDangerousURL(" + strconvQuote(v) + ") = false"})
		}
		if g || s {
			res.Key = b2s(s) + b2s(g) + "|" + valueShape(v)
		}
		return res
	case "doc":
		con, cfgName, s := cs.Args[0], cs.Args[1], unhx(cs.Args[2])
		c := ParseCfg(cfgName)
		c.Unsafe = false
		src := spellDoc(con, string(s))
		res := implRender(Case{Op: "doc", Args: []string{c.Name(), hx(src)}})
		out := unhx(res.Out)
		n, shape := c04Oracle(&res, out)
		res.Key = ""
		if n > 0 {
			res.Key = con + "|" + shape
			res.Stats = append(res.Stats, "urlattrs:"+con)
		}
		return res
	}
	return ImplResult{Out: "bad-op"}
}

// goSchemeDangerous mirrors Spec.dangerousUrl on an already cleaned value: WHATWG scheme = alpha (alnum|+|-|.)* ':'
func goSchemeDangerous(v []byte) bool {
	if len(v) == 0 || !isAlphaByte(v[0]) {
		return false
	}
	i := 1
	for i < len(v) && (isAlphaByte(v[i]) || ('0' <= v[i] && v[i] <= '9') || v[i] == '+' || v[i] == '-' || v[i] == '.') {
		i++
	}
	if i >= len(v) || v[i] != ':' {
		return false
	}
	sch := strings.ToLower(string(v[:i]))
	switch sch {
	case "javascript", "vbscript", "file":
		return true
	case "data":
		rest := asciiLower(v[i+1:])
		for _, p := range allowedDataPrefixes {
			if strings.HasPrefix(rest, p[len("data:"):]) {
				return false
			}
		}
		return true
	}
	return false
}

func isAlphaByte(c byte) bool { return ('a' <= c && c <= 'z') || ('A' <= c && c <= 'Z') }
func asciiLower(b []byte) string {
	c := make([]byte, len(b))
	for i, x := range b {
		if 'A' <= x && x <= 'Z' {
			x += 32
		}
		c[i] = x
	}
	return string(c)
}
