package main

// Component `history` (C06 search): one long-used instance versus fresh instances.
//   * every call of a history (Convert / Parse+Render on the shared Markdown, Parser, Renderer) must return
//     the bytes a fresh instance returns for that source alone;
//   * Convert == Parse followed by Render;
//   * rendering the same parsed tree k times yields the same bytes, and leaves the tree (as seen by the
//     dumper: kinds, attributes, resolved text) unchanged.
// Histories are ordered adversarially: documents that define link references, heading ids, footnotes and
// open typographic quotes come right before documents that would pick such state up.

import (
	"github.com/yuin/goldmark/ast"
	"bytes"
	"strings"
	"fmt"
	"strconv"

	"github.com/yuin/goldmark/text"
)

func init() {
	register(&Component{
		Name: "history",
		Rule: "each case: a history of 10 documents on one shared instance (state-leaving documents first: reference definitions, duplicate headings, footnotes, unbalanced quotes, open fences; then probes using the same labels/ids), each call compared with a fresh instance; plus re-rendering each parsed tree 3 times; non-trivial = history contains a state-leaving document and a probe; distinct = distinct (configuration, history)",
		Gen:  genHistory,
		Impl: implHistory,
		Scope: func(tier string) string {
			if tier == "thorough" {
				return "3000 histories over random lattice configurations"
			}
			return "8 corner configurations x 12 histories + 200 random-configuration histories"
		},
	})
}

var stateLeaving = []string{
	"[foo]: /url \"title\"\n\n[foo]\n", "[bar]: <b>\n", "# a\n\n# a\n\n# a-1\n", "## heading\n", "[^1]: note\n\nx[^1]\n", "[^n]: n\n[^m]: m\n\n[^m][^n][^m]\n",
	"\"open quote\n", "'single\n", "```\nunclosed fence\n", "<div>\nunclosed html\n", "- item\n\n  - nested\n", "> quote\n> - l\n", "| a | b |\n|:-|-:|\n| c | d |\n",
	"term\n: def\n", "- [x] task\n", "a\n===\n", "*unclosed emphasis\n", "[unclosed link\n", "![img][foo]\n\n[foo]: /img\n", "www.example.com \"q\n", "{#id}\n# h {#custom}\n",
}

var probes = []string{
	"\xef\xbb\xbf# Title\n", "[a](https://example.com/aaaaaaaaaaaa)\n", "[a](javascript:alert(1)//aaaaaa)\n", "![i](https://example.com/iiiiiiiiiiii)\n", "![i](javascript:alert(1)//iiiiii)\n",
	"x[^1]\n\n[^1]: one\n", "x[^1] y[^1] z[^1]\n\n[^1]: three\n",
	"[foo]\n", "[bar]\n", "[foo][]\n", "# a\n", "## heading\n", "x[^1]\n", "[^1]\n", "\"quoted\" 'single'\n", "text\n", "    code?\n", "- a\n- b\n", "c | d\n", ": def\n", "![img][foo]\n", "# h\n# h\n",
}

func genHistory(tier string, rng *RNG, emit func(Case)) {
	var cfgs []Cfg
	if tier == "thorough" {
		for i := 0; i < 3000; i++ {
			cfgs = append(cfgs, randCfg(rng))
		}
	} else {
		for _, c := range CornerCfgs() {
			for i := 0; i < 12; i++ {
				cfgs = append(cfgs, c)
			}
		}
		for i := 0; i < 200; i++ {
			cfgs = append(cfgs, randCfg(rng))
		}
	}
	for _, c := range cfgs {
		emit(Case{Op: "run", Args: []string{c.Name(), strconv.FormatUint(rng.Next(), 10)}})
	}
}

func implHistory(cs Case) ImplResult {
	c := ParseCfg(cs.Args[0])
	seed, _ := strconv.ParseUint(cs.Args[1], 10, 64)
	rng := NewRNG(seed)
	var hist [][]byte
	corpus := CorpusDocs()
	for len(hist) < 10 {
		switch rng.Intn(5) {
		case 0, 1:
			hist = append(hist, []byte(stateLeaving[rng.Intn(len(stateLeaving))]))
		case 2:
			hist = append(hist, []byte(probes[rng.Intn(len(probes))]))
		case 3:
			if len(corpus) > 0 {
				hist = append(hist, corpus[rng.Intn(len(corpus))])
			}
		default:
			hist = append(hist, GenDoc(rng))
		}
	}
	// a very large document early in the history (state kept only for "big" documents: pools / caches with a size guard)
	if rng.Chance(30) {
		big := strings.Repeat("# a\n\n## b c\n\n[^1]: n\n\nx[^1] \"q\n\n[r]: /u\n\n", 140+rng.Intn(200))
		hist = append([][]byte{[]byte(big)}, hist...)
		hist = append(hist, []byte("# a\n\n## b c\n\n[r]\n"))
	}
	// a pair of same-length, same-offset link documents (an accepted URL, then a dangerous one): stale per-slice state shows here
	if rng.Chance(60) {
		pairs := [][2]string{
			{"[a](https://example.com/aaaaaaa)\n", "[a](javascript:alert(1)//aaaaaa)\n"},
			{"![i](https://example.com/iiiiiii)\n", "![i](javascript:alert(1)//iiiiii)\n"},
			{"<https://example.com/aaaaaaa>\n", "<javascript:alert(1)//aaaaaa>\n"},
			{"x[^1]\n\n[^1]: one\n", "x[^1] y[^1]\n\n[^1]: two\n"},
		}
		pr := pairs[rng.Intn(len(pairs))]
		hist = append(hist, []byte(pr[0]), []byte(pr[1]))
	}
	// always end with probes
	hist = append(hist, []byte(probes[rng.Intn(len(probes))]), []byte(probes[rng.Intn(len(probes))]))
	shared := c.Build()
	reuse := rng.Chance(50) // half of the histories feed every source through one reused buffer (as a server reading requests would)
	var reusedBuf [4096]byte
	var fails []OracleFail
	var checks []ModelCheck
	fail := func(clause, f string, a ...interface{}) {
		if len(fails) < 3 {
			fails = append(fails, OracleFail{"C06", clause, fmt.Sprintf(f, a...)})
		}
	}
	// trees parsed EARLY in the history are kept and rendered again at its END: a tree must not alias parser-owned
	// scratch memory that later parses reuse (pooled buffers behind titles, labels, destinations, attribute values)
	type kept struct {
		src   []byte
		doc   ast.Node
		first []byte
		dump  string
	}
	var retained []kept
	multi := []string{"[home page](/index \"Go to the\nhome page\")\n", "[a]: /u \"multi\nline title\"\n\n[a] ![a]\n", "[foo\nbar]\n\n[foo bar]: /u 'x\ny'\n",
		"![i](/s (t1\nt2))\n", "[l](</d> \"a\nb\nc\")\n", "# h {title=\"a b\"}\n\n[x][y\nz]\n\n[y z]: /q\n"}
	hist = append([][]byte{[]byte(multi[rng.Intn(len(multi))]), []byte(multi[rng.Intn(len(multi))])}, hist...)
	for step, src0 := range hist {
		src := src0
		if reuse && len(src0) <= len(reusedBuf) {
			n := copy(reusedBuf[:], src0)
			src = reusedBuf[:n:n]
		}
		var want bytes.Buffer
		if err := c.Build().Convert(append([]byte{}, src0...), &want); err != nil {
			fail("convert-error", "fresh Convert(%q): %v", src, err)
		}
		var got bytes.Buffer
		mode := rng.Intn(2)
		if mode == 0 {
			_ = shared.Convert(src, &got)
		} else {
			doc := shared.Parser().Parse(text.NewReader(src))
			_ = shared.Renderer().Render(&got, src, doc)
		}
		if !c.Unsafe {
			// C04's own oracle (Lean-defined) on what the long-used instance wrote
			checks = append(checks, ModelCheck{Line: "tok urls " + hx(got.Bytes()), Property: "C04"})
		}
		if !bytes.Equal(got.Bytes(), want.Bytes()) {
			fail("history-dependent-output", "step %d (mode %d) of history: source %q gives %q on the used instance, %q on a fresh one", step, mode, src, got.Bytes(), want.Bytes())
		}
		// Convert == Parse + Render on a fresh instance
		fresh := c.Build()
		doc := fresh.Parser().Parse(text.NewReader(src))
		before, _ := DumpTree(doc, src, c.EAStyle(), nil)
		var r1 bytes.Buffer
		_ = fresh.Renderer().Render(&r1, src, doc)
		if !bytes.Equal(r1.Bytes(), want.Bytes()) {
			fail("convert-differs-from-parse-render", "source %q: Convert %q, Parse+Render %q", src, want.Bytes(), r1.Bytes())
		}
		for k := 0; k < 2; k++ {
			var rk bytes.Buffer
			_ = fresh.Renderer().Render(&rk, src, doc)
			if !bytes.Equal(rk.Bytes(), r1.Bytes()) {
				fail("rerender-differs", "source %q: render #1 %q, render #%d %q", src, r1.Bytes(), k+2, rk.Bytes())
			}
		}
		after, _ := DumpTree(doc, src, c.EAStyle(), nil)
		if before != after {
			fail("render-alters-tree", "source %q: tree dump differs after rendering", src)
		}
		if step < 4 {
			own := append([]byte{}, src0...)
			d2 := shared.Parser().Parse(text.NewReader(own))
			var f1 bytes.Buffer
			_ = shared.Renderer().Render(&f1, own, d2)
			dump, _ := DumpTree(d2, own, c.EAStyle(), nil)
			retained = append(retained, kept{own, d2, f1.Bytes(), dump})
		}
	}
	for _, k := range retained {
		var again bytes.Buffer
		_ = shared.Renderer().Render(&again, k.src, k.doc)
		if !bytes.Equal(again.Bytes(), k.first) {
			fail("retained-tree-render-differs", "source %q: the tree parsed early in the history rendered %q then, %q after %d more documents", k.src, k.first, again.Bytes(), len(hist))
		}
		if dump, _ := DumpTree(k.doc, k.src, c.EAStyle(), nil); dump != k.dump {
			fail("retained-tree-changed", "source %q: the tree parsed early in the history changed while later documents were parsed", k.src)
		}
	}
	return ImplResult{Out: "ok", NoModel: true, Fails: fails, Checks: checks, Key: cs.Args[0] + "|" + cs.Args[1]}
}
