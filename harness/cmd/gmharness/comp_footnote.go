package main

// Component `footnote` (property C16): documents mixing footnote definitions and references.
//
// Real implementation: goldmark with extension.Table + extension.Footnote. Two passive probes are added:
//   - an inline parser at priority 100 that *delegates* to the real footnote inline parser (registered by the
//     extension at 101) and records, for every link it returns, the node and the label bytes it consumed;
//   - an AST transformer at priority 998 (the footnote transformer runs at 999) that finds the definition list
//     and the link list in the parser.Context by scanning all context keys, and records the definitions in
//     block-phase order and, for every link, whether it has an Image ancestor and which definition hosts it.
// From these the model's input (labels, events) is derived; the model must then predict every id, href and
// shown number of the real HTML, the (Index, RefCount, RefIndex) of every FootnoteLink / FootnoteBacklink node,
// and which definition each rendered item comes from.
//
// ORACLE (independent of the model): the C16 clauses are evaluated on the ids/hrefs extracted from the HTML.
// The two inputs of the former finding F13 (fixed by 97633bf) are fixed regression cases of the generator.

import (
	"bytes"
	"fmt"
	"regexp"
	"strconv"
	"strings"
	"sync"

	"github.com/yuin/goldmark"
	gast "github.com/yuin/goldmark/ast"
	"github.com/yuin/goldmark/extension"
	east "github.com/yuin/goldmark/extension/ast"
	"github.com/yuin/goldmark/parser"
	"github.com/yuin/goldmark/renderer"
	"github.com/yuin/goldmark/text"
	"github.com/yuin/goldmark/util"
)

var fnProbeKey = parser.NewContextKey()

type fnParsed struct {
	node  *east.FootnoteLink
	label []byte
	shape bool // consumed text had the form [^label] / !?^label]
}

type fnProbeData struct {
	parsed   []fnParsed
	list     *east.FootnoteList
	fnlist   []*east.FootnoteLink
	defs     []*east.Footnote
	dropped  []bool // per parsed link: Image ancestor or detached from the document
	detached []bool
	host     []int // per parsed link: position of the hosting definition, -1 none
	probeRan bool
}

func fnData(pc parser.Context) *fnProbeData {
	if v := pc.Get(fnProbeKey); v != nil {
		return v.(*fnProbeData)
	}
	d := &fnProbeData{}
	pc.Set(fnProbeKey, d)
	return d
}

type fnWrapParser struct{ inner parser.InlineParser }

func (w *fnWrapParser) Trigger() []byte { return w.inner.Trigger() }

func (w *fnWrapParser) Parse(parent gast.Node, block text.Reader, pc parser.Context) gast.Node {
	line0, _ := block.PeekLine()
	l0, p0 := block.Position()
	n := w.inner.Parse(parent, block, pc)
	if n == nil {
		return nil
	}
	l1, p1 := block.Position()
	k := len(line0)
	if l1 == l0 {
		k = p1.Start - p0.Start
	}
	rec := fnParsed{}
	rec.node, _ = n.(*east.FootnoteLink)
	if k >= 0 && k <= len(line0) {
		cons := line0[:k]
		open := 2
		if len(cons) > 0 && cons[0] == '!' {
			open = 3
		}
		if len(cons) >= open+1 && cons[open-1] == '^' && cons[len(cons)-1] == ']' {
			rec.label = append([]byte{}, cons[open:len(cons)-1]...)
			rec.shape = true
		}
	}
	d := fnData(pc)
	d.parsed = append(d.parsed, rec)
	return n
}

type fnProbeTransformer struct{}

func (fnProbeTransformer) Transform(doc *gast.Document, reader text.Reader, pc parser.Context) {
	d := fnData(pc)
	d.probeRan = true
	for k := parser.ContextKey(0); k <= parser.ContextKeyMax; k++ {
		switch v := pc.Get(k).(type) {
		case *east.FootnoteList:
			d.list = v
		case []*east.FootnoteLink:
			d.fnlist = v
		}
	}
	if d.list != nil {
		for c := d.list.FirstChild(); c != nil; c = c.NextSibling() {
			if f, ok := c.(*east.Footnote); ok {
				d.defs = append(d.defs, f)
			}
		}
	}
	for _, p := range d.parsed {
		dropped, detached, host := false, false, -1
		var cur gast.Node = p.node
		for steps := 0; ; steps++ {
			if steps > 100000 {
				detached = true
				break
			}
			par := cur.Parent()
			if par == nil {
				detached = true
				break
			}
			if par.Kind() == gast.KindImage {
				dropped = true
			}
			if f, ok := par.(*east.Footnote); ok {
				for i, df := range d.defs {
					if df == f {
						host = i
					}
				}
				if host < 0 {
					detached = true
				}
				break
			}
			if par.Kind() == gast.KindDocument {
				break
			}
			cur = par
		}
		d.dropped = append(d.dropped, dropped || detached)
		d.detached = append(d.detached, detached)
		d.host = append(d.host, host)
	}
}

var fnMDs sync.Map // prefix -> goldmark.Markdown

func fnMarkdown(prefix string) goldmark.Markdown {
	if v, ok := fnMDs.Load(prefix); ok {
		return v.(goldmark.Markdown)
	}
	var fe goldmark.Extender = extension.Footnote
	if prefix != "" {
		fe = extension.NewFootnote(extension.WithFootnoteIDPrefix(prefix))
	}
	md := goldmark.New(
		goldmark.WithExtensions(extension.Table, fe),
		goldmark.WithParserOptions(
			parser.WithInlineParsers(util.Prioritized(&fnWrapParser{inner: extension.NewFootnoteParser()}, 100)),
			parser.WithASTTransformers(util.Prioritized(fnProbeTransformer{}, 998)),
		),
	)
	v, _ := fnMDs.LoadOrStore(prefix, md)
	return v.(goldmark.Markdown)
}

// ---------- running one document ----------

type fnRun struct {
	d      *fnProbeData
	doc    gast.Node
	html   string
	labels string // protocol form
	events string
	errs   []string
}

func fnParse(prefix string, src []byte) *fnRun { return fnParseWith(fnMarkdown(prefix), src) }

func fnParseWith(md goldmark.Markdown, src []byte) *fnRun {
	pc := parser.NewContext()
	doc := md.Parser().Parse(text.NewReader(src), parser.WithContext(pc))
	r := &fnRun{d: fnData(pc), doc: doc}
	d := r.d
	if !d.probeRan {
		r.errs = append(r.errs, "probe-transformer-did-not-run")
	}
	if len(d.fnlist) != len(d.parsed) {
		r.errs = append(r.errs, fmt.Sprintf("link-list-has-%d-links-wrapper-saw-%d", len(d.fnlist), len(d.parsed)))
	} else {
		for i := range d.fnlist {
			if d.fnlist[i] != d.parsed[i].node {
				r.errs = append(r.errs, "link-list-order-differs-from-call-order")
				break
			}
		}
	}
	var ls, es []string
	for _, f := range d.defs {
		ls = append(ls, hx(f.Ref))
	}
	for i, p := range d.parsed {
		if !p.shape {
			r.errs = append(r.errs, "consumed-text-not-a-reference")
		}
		es = append(es, hx(p.label)+":"+b2s(d.dropped[i])+":"+strconv.Itoa(d.host[i]))
	}
	r.labels, r.events = "_", "_"
	if len(ls) > 0 {
		r.labels = strings.Join(ls, ",")
	}
	if len(es) > 0 {
		r.events = strings.Join(es, ",")
	}
	return r
}

func (r *fnRun) render(prefix string, src []byte) {
	var buf bytes.Buffer
	if err := fnMarkdown(prefix).Renderer().Render(&buf, src, r.doc); err != nil {
		r.errs = append(r.errs, "render-error:"+err.Error())
	}
	r.html = buf.String()
}

// ---------- HTML extraction ----------

type fnItem struct {
	id    string
	backs []string
}
type fnRef struct{ id, href, text string }
type fnHTML struct {
	items []fnItem
	refs  []fnRef
	bad   []string
}

var fnRe = regexp.MustCompile(`<li id="([^"]*)"|<sup id="([^"]*)"><a href="#([^"]*)" class="footnote-ref" role="doc-noteref">([^<]*)</a></sup>|&#160;<a href="#([^"]*)" class="footnote-backref" role="doc-backlink">`)

func fnExtract(html string) fnHTML {
	var h fnHTML
	nb := 0
	for _, m := range fnRe.FindAllStringSubmatchIndex(html, -1) {
		g := func(i int) string { return html[m[2*i]:m[2*i+1]] }
		switch {
		case m[2] >= 0:
			h.items = append(h.items, fnItem{id: g(1)})
		case m[4] >= 0:
			h.refs = append(h.refs, fnRef{g(2), g(3), g(4)})
		case m[10] >= 0:
			nb++
			if len(h.items) == 0 {
				h.bad = append(h.bad, "back-link outside any item")
			} else {
				it := &h.items[len(h.items)-1]
				it.backs = append(it.backs, g(5))
			}
		}
	}
	if n := strings.Count(html, `<li id=`); n != len(h.items) {
		h.bad = append(h.bad, fmt.Sprintf("%d '<li id=' but %d items extracted", n, len(h.items)))
	}
	if n := strings.Count(html, `doc-noteref`); n != len(h.refs) {
		h.bad = append(h.bad, fmt.Sprintf("%d doc-noteref but %d refs extracted", n, len(h.refs)))
	}
	if n := strings.Count(html, `doc-backlink`); n != nb {
		h.bad = append(h.bad, fmt.Sprintf("%d doc-backlink but %d back-links extracted", n, nb))
	}
	if n := strings.Count(html, `<sup id=`); n != len(h.refs) {
		h.bad = append(h.bad, fmt.Sprintf("%d '<sup id=' but %d refs extracted", n, len(h.refs)))
	}
	return h
}

// ---------- the property's own oracle ----------

var fnRefIDRe = regexp.MustCompile(`^fnref([0-9]*):(-?[0-9]+)$`)

// classify a back-link whose target id is not rendered
func fnClassifyDangling(prefix, target string, r *fnRun) string {
	if !strings.HasPrefix(target, prefix) {
		return "backlink-dangling-other"
	}
	m := fnRefIDRe.FindStringSubmatch(target[len(prefix):])
	if m == nil {
		return "backlink-dangling-other"
	}
	ri := 0
	if m[1] != "" {
		ri, _ = strconv.Atoi(m[1])
	}
	idx, _ := strconv.Atoi(m[2])
	d := r.d
	for i, p := range d.parsed {
		if p.node == nil || p.node.Index != idx || p.node.RefIndex != ri {
			continue
		}
		if d.detached[i] {
			return "backlink-dangling-other"
		}
		if d.dropped[i] {
			return "backlink-target-not-rendered-image-alt"
		}
		if h := d.host[i]; h >= 0 && d.defs[h].Index < 0 {
			return "backlink-target-not-rendered-removed-footnote"
		}
		return "backlink-dangling-other"
	}
	return "backlink-dangling-other"
}

func fnOracle(prefix string, src []byte, h fnHTML, r *fnRun, itemSrc []int) []OracleFail {
	var fails []OracleFail
	seen := map[string]bool{}
	add := func(clause, detail string) {
		if seen[clause] {
			return
		}
		seen[clause] = true
		fails = append(fails, OracleFail{"C16", clause, fmt.Sprintf("%s; source %q", detail, src)})
	}
	for _, b := range h.bad {
		add("html-shape", b)
	}
	ids := map[string]int{}
	itemPos := map[string]int{}
	for k, it := range h.items {
		if want := prefix + "fn:" + strconv.Itoa(k+1); it.id != want {
			add("numbering-not-consecutive", fmt.Sprintf("item %d of the list has id %q, want %q", k+1, it.id, want))
		}
		ids[it.id]++
		if _, ok := itemPos[it.id]; !ok {
			itemPos[it.id] = k + 1
		}
	}
	refByID := map[string]fnRef{}
	for _, rf := range h.refs {
		ids[rf.id]++
		refByID[rf.id] = rf
	}
	for id, n := range ids {
		if n > 1 {
			add("duplicate-id", fmt.Sprintf("id %q is generated %d times", id, n))
		}
	}
	backCount := map[string]int{}
	for _, it := range h.items {
		for _, b := range it.backs {
			backCount[b]++
		}
	}
	for _, rf := range h.refs {
		pos, ok := itemPos[rf.href]
		if !ok {
			add("ref-links-no-item", fmt.Sprintf("reference %q links to #%s, no such item", rf.id, rf.href))
		} else if rf.text != strconv.Itoa(pos) {
			add("ref-shows-wrong-number", fmt.Sprintf("reference %q shows %q but links to item number %d", rf.id, rf.text, pos))
		}
		switch n := backCount[rf.id]; {
		case n == 0:
			add("ref-without-backlink", fmt.Sprintf("no back-link points to reference %q", rf.id))
		case n > 1:
			add("backlink-duplicate", fmt.Sprintf("%d back-links point to reference %q", n, rf.id))
		}
	}
	for _, it := range h.items {
		for _, b := range it.backs {
			rf, ok := refByID[b]
			if !ok {
				add(fnClassifyDangling(prefix, b, r), fmt.Sprintf("item %q has a back-link to #%s but no element with that id is rendered", it.id, b))
			} else if rf.href != it.id {
				add("backlink-wrong-item", fmt.Sprintf("item %q has a back-link to %q, which links to #%s", it.id, b, rf.href))
			}
		}
	}
	// a definition never referenced produces no output: every rendered item's definition must be the first
	// definition carrying the label of some reference of the source
	if len(itemSrc) != len(h.items) {
		add("html-shape", fmt.Sprintf("%d Footnote nodes in the final tree, %d items in the output", len(itemSrc), len(h.items)))
	}
	for _, s := range itemSrc {
		okRef := false
		if s >= 0 {
			first := true
			for j := 0; j < s; j++ {
				if bytes.Equal(r.d.defs[j].Ref, r.d.defs[s].Ref) {
					first = false
				}
			}
			if first {
				for _, p := range r.d.parsed {
					if bytes.Equal(p.label, r.d.defs[s].Ref) {
						okRef = true
					}
				}
			}
		}
		if !okRef {
			add("unreferenced-def-rendered", fmt.Sprintf("definition #%d is rendered although no reference resolves to it", s))
		}
	}
	return fails
}

// ---------- Impl ----------

func linkStr(i, rc, ri int) string { return fmt.Sprintf("%d.%d.%d", i, rc, ri) }

func implFootnote(c Case) ImplResult {
	if c.Op == "nested" {
		return implFootnoteNested(c)
	}
	var res ImplResult
	if len(c.Args) < 4 {
		res.Out = "bad-case"
		return res
	}
	prefix := string(unhx(c.Args[0]))
	src := unhx(c.Args[3])
	r := fnParse(prefix, src)
	r.render(prefix, src)
	if r.labels != c.Args[1] || r.events != c.Args[2] {
		r.errs = append(r.errs, fmt.Sprintf("abstraction-differs-from-case:%s/%s", r.labels, r.events))
	}
	h := fnExtract(r.html)
	// final tree: kept footnotes (and which definition each is), back-link nodes
	var itemSrc []int
	var bl []string
	_ = gast.Walk(r.doc, func(n gast.Node, entering bool) (gast.WalkStatus, error) {
		if !entering {
			return gast.WalkContinue, nil
		}
		switch v := n.(type) {
		case *east.Footnote:
			s := -1
			for i, df := range r.d.defs {
				if df == v {
					s = i
				}
			}
			itemSrc = append(itemSrc, s)
		case *east.FootnoteBacklink:
			bl = append(bl, linkStr(v.Index, v.RefCount, v.RefIndex))
		}
		return gast.WalkContinue, nil
	})
	res.Fails = fnOracle(prefix, src, h, r, itemSrc)

	var items, refs, links []string
	for k, it := range h.items {
		s := -1
		if k < len(itemSrc) {
			s = itemSrc[k]
		}
		items = append(items, fmt.Sprintf("%d:%s[%s]", s, it.id, strings.Join(it.backs, " ")))
	}
	for _, rf := range h.refs {
		refs = append(refs, rf.id+">"+rf.href+">"+rf.text)
	}
	for _, p := range r.d.parsed {
		if p.node != nil {
			links = append(links, linkStr(p.node.Index, p.node.RefCount, p.node.RefIndex))
		} else {
			links = append(links, "?")
		}
	}
	vis := true
	for i := range r.d.parsed {
		if r.d.dropped[i] {
			vis = false
		} else if hst := r.d.host[i]; hst >= 0 && r.d.defs[hst].Index < 0 {
			vis = false
		}
	}
	res.Out = "items=" + strings.Join(items, ",") + ";refs=" + strings.Join(refs, ",") + ";links=" + strings.Join(links, ",") +
		";bl=" + strings.Join(bl, ",") + ";vis=" + b2s(vis)
	if len(r.errs) > 0 {
		res.Out = "probe-error:" + strings.Join(r.errs, "|") + ";" + res.Out
	}
	if len(h.items) > 0 {
		res.Key = res.Out
	}
	return res
}


// ---------- op `nested` (oracle only): a render of document B on the SAME Markdown starts while document A is inside its
// footnote list (a node renderer that renders an embedded document), ids prefixed per document by
// WithFootnoteIDPrefixFunction. Every rendered document - A and B - must satisfy C16 with its own prefix. ----------

var fnNestKind = gast.NewNodeKind("VerifNestedRender")

type fnNestNode struct{ gast.BaseInline }

func (n *fnNestNode) Kind() gast.NodeKind         { return fnNestKind }
func (n *fnNestNode) Dump(src []byte, level int) {}

type fnNestState struct {
	md    goldmark.Markdown
	srcB  []byte
	htmlB string
	runB  *fnRun
	done  bool
	errs  []string
}

var fnNestCur *fnNestState // set under fnNestMu for the duration of one case
var fnNestMu sync.Mutex
var fnNestMD goldmark.Markdown

type fnNestTransformer struct{}

func (fnNestTransformer) Transform(doc *gast.Document, reader text.Reader, pc parser.Context) {
	if !fnNestWant {
		return
	}
	fnNestWant = false // only the outer document
	_ = gast.Walk(doc, func(n gast.Node, entering bool) (gast.WalkStatus, error) {
		if f, ok := n.(*east.Footnote); ok && entering {
			if para := f.FirstChild(); para != nil && para.Type() == gast.TypeBlock && !para.IsRaw() {
				nn := &fnNestNode{}
				if fc := para.FirstChild(); fc != nil {
					para.InsertBefore(para, fc, nn)
				} else {
					para.AppendChild(para, nn)
				}
				return gast.WalkStop, nil
			}
		}
		return gast.WalkContinue, nil
	})
}

type fnNestRenderer struct{}

func (fnNestRenderer) RegisterFuncs(reg renderer.NodeRendererFuncRegisterer) {
	reg.Register(fnNestKind, func(w util.BufWriter, source []byte, n gast.Node, entering bool) (gast.WalkStatus, error) {
		st := fnNestCur
		if entering && st != nil && !st.done {
			st.done = true
			rb := fnParseWith(st.md, st.srcB)
			rb.doc.OwnerDocument().Meta()["p"] = "b-"
			var buf bytes.Buffer
			if err := st.md.Renderer().Render(&buf, st.srcB, rb.doc); err != nil {
				st.errs = append(st.errs, "nested-render-error:"+err.Error())
			}
			rb.html = buf.String()
			st.runB, st.htmlB = rb, rb.html
		}
		return gast.WalkContinue, nil
	})
}

func fnNestMarkdown() goldmark.Markdown {
	if fnNestMD == nil {
		fnNestMD = goldmark.New(
			goldmark.WithExtensions(extension.Table, extension.NewFootnote(extension.WithFootnoteIDPrefixFunction(func(n gast.Node) []byte {
				if p, ok := n.OwnerDocument().Meta()["p"].(string); ok {
					return []byte(p)
				}
				return nil
			}))),
			goldmark.WithParserOptions(
				parser.WithInlineParsers(util.Prioritized(&fnWrapParser{inner: extension.NewFootnoteParser()}, 100)),
				parser.WithASTTransformers(util.Prioritized(fnProbeTransformer{}, 998), util.Prioritized(fnNestTransformer{}, 1000)),
			),
			goldmark.WithRendererOptions(renderer.WithNodeRenderers(util.Prioritized(fnNestRenderer{}, 500))),
		)
	}
	return fnNestMD
}

func fnItemSrc(r *fnRun) []int {
	var itemSrc []int
	_ = gast.Walk(r.doc, func(n gast.Node, entering bool) (gast.WalkStatus, error) {
		if v, ok := n.(*east.Footnote); ok && entering {
			s := -1
			for i, df := range r.d.defs {
				if df == v {
					s = i
				}
			}
			itemSrc = append(itemSrc, s)
		}
		return gast.WalkContinue, nil
	})
	return itemSrc
}

func implFootnoteNested(c Case) ImplResult {
	res := ImplResult{NoModel: true}
	srcA, srcB := unhx(c.Args[0]), unhx(c.Args[1])
	fnNestMu.Lock()
	defer fnNestMu.Unlock()
	md := fnNestMarkdown()
	st := &fnNestState{md: md, srcB: srcB}
	fnNestCur = st
	defer func() { fnNestCur = nil }()
	// A: parsed with the marker that makes the transformer plant the nested-render node
	pc := parser.NewContext()
	_ = pc
	ra := fnParseNest(md, srcA)
	ra.doc.OwnerDocument().Meta()["p"] = "a-"
	var buf bytes.Buffer
	if err := md.Renderer().Render(&buf, srcA, ra.doc); err != nil {
		st.errs = append(st.errs, "render-error:"+err.Error())
	}
	ra.html = buf.String()
	res.Fails = append(res.Fails, fnOracle("a-", srcA, fnExtract(ra.html), ra, fnItemSrc(ra))...)
	if st.runB != nil {
		res.Fails = append(res.Fails, fnOracle("b-", srcB, fnExtract(st.htmlB), st.runB, fnItemSrc(st.runB))...)
	}
	for i := range res.Fails {
		res.Fails[i].Detail = "document rendered while another render on the same Markdown was inside its footnote list (per-document id prefixes a- / b-): " + res.Fails[i].Detail
	}
	res.Out = fmt.Sprintf("nested=%v itemsA=%d", st.done, len(fnExtract(ra.html).items))
	if st.done && len(fnExtract(ra.html).items) > 1 {
		res.Key = c.Args[0] + "/" + c.Args[1]
	}
	if len(st.errs) > 0 {
		res.Out = "probe-error:" + strings.Join(st.errs, "|") + ";" + res.Out
	}
	return res
}

// fnParseNest: as fnParseWith, with Meta()["nest"] set before the AST transformers run (a probe paragraph transformer
// cannot reach the document, so the flag travels in a package variable read by a transformer at priority 997)
func fnParseNest(md goldmark.Markdown, src []byte) *fnRun {
	fnNestWant = true
	defer func() { fnNestWant = false }()
	return fnParseWith(md, src)
}

var fnNestWant bool

// ---------- generator ----------

func fnCase(prefix string, src []byte) Case {
	r := fnParse(prefix, src)
	return Case{Op: "render", Args: []string{hx([]byte(prefix)), r.labels, r.events, hx(src)}}
}

var fnTokens = []string{"[^a]", "[^b]", "![i[^a]](u)", "![i[^b]](u)", "\n\n[^a]: ", "\n\n[^b]: ", "\n\n", "x "}

var fnLabels = []string{"a", "b", "c", "1", "d e", "a"}
var fnPrefixes = []string{"", "", "p-", "1", "fnref"}

type fnGen struct{ rng *RNG }

func (g *fnGen) label() string { return fnLabels[g.rng.Intn(len(fnLabels))] }

func (g *fnGen) inline(depth int, inTable bool) string {
	var sb strings.Builder
	n := 1 + g.rng.Intn(4)
	for i := 0; i < n; i++ {
		k := g.rng.Intn(16)
		if depth <= 0 && k >= 6 {
			k = g.rng.Intn(6)
		}
		switch k {
		case 0, 1, 2:
			sb.WriteString("[^" + g.label() + "]")
		case 3:
			sb.WriteString(g.rng.Pick([]string{"w", "x y", "z", "q!", "t "}))
		case 4:
			sb.WriteString("![^" + g.label() + "]")
		case 5:
			sb.WriteString(g.rng.Pick([]string{" ", " ", "`[^a]`", "\\[^a]", "[^nodef]", "[^]", "!"}))
		case 6, 7:
			sb.WriteString("*" + g.inline(depth-1, inTable) + "*")
		case 8:
			sb.WriteString("**" + g.inline(depth-1, inTable) + "**")
		case 9, 10:
			sb.WriteString("[" + g.inline(depth-1, inTable) + "](u)")
		case 11, 12:
			sb.WriteString("![" + g.inline(depth-1, inTable) + "](y)")
		case 13:
			sb.WriteString("[" + g.inline(depth-1, inTable) + "]")
		case 14:
			sb.WriteString("![" + g.inline(depth-1, inTable) + "][r]")
		case 15:
			if inTable {
				sb.WriteString(" ")
			} else {
				sb.WriteString("\n")
			}
		}
	}
	return sb.String()
}

func (g *fnGen) def(depth int) string {
	s := "[^" + g.label() + "]:"
	switch g.rng.Intn(8) {
	case 0:
		// empty body
	case 1:
		s += " > " + g.inline(1, false)
	case 2:
		s += " - " + g.inline(1, false)
	default:
		s += " " + strings.ReplaceAll(g.inline(2, false), "\n", "\n    ")
	}
	for g.rng.Chance(25) {
		s += "\n\n    " + strings.ReplaceAll(g.inline(1, false), "\n", "\n    ")
	}
	if depth > 0 && g.rng.Chance(12) {
		s += "\n    " + strings.ReplaceAll(g.def(depth-1), "\n", "\n    ")
	}
	return s
}

func (g *fnGen) block() string {
	switch g.rng.Intn(14) {
	case 0, 1, 2:
		return g.inline(2, false)
	case 3, 4, 5, 6:
		return g.def(1)
	case 7:
		return "# " + strings.ReplaceAll(g.inline(2, false), "\n", " ")
	case 8:
		return strings.ReplaceAll(g.inline(1, false), "\n", " ") + "\n==="
	case 9:
		if g.rng.Bool() {
			return "> " + strings.ReplaceAll(g.def(0), "\n", "\n> ")
		}
		return "> " + strings.ReplaceAll(g.inline(2, false), "\n", "\n> ")
	case 10:
		if g.rng.Bool() {
			return "- " + strings.ReplaceAll(g.def(0), "\n", "\n  ")
		}
		return "1. " + strings.ReplaceAll(g.inline(2, false), "\n", "\n   ")
	case 11, 12:
		cell := func() string { return strings.ReplaceAll(g.inline(1, true), "|", "") }
		return "| " + cell() + " | " + cell() + " |\n|---|:-:|\n| " + cell() + " | " + cell() + " |"
	default:
		return g.rng.Pick([]string{"```\n[^a]\n```", "    [^a]: code", "[r]: /url \"[^a]\"", "<div>[^a]</div>", "---"})
	}
}

func (g *fnGen) doc() []byte {
	n := 1 + g.rng.Intn(7)
	var sb strings.Builder
	for i := 0; i < n; i++ {
		if i > 0 {
			if g.rng.Chance(15) {
				sb.WriteString("\n")
			} else {
				sb.WriteString("\n\n")
			}
		}
		sb.WriteString(g.block())
	}
	if g.rng.Chance(50) {
		sb.WriteString("\n")
	}
	return []byte(sb.String())
}

func genFootnote(tier string, rng *RNG, emit func(Case)) {
	depth, nrand := 5, 20000
	if tier == "thorough" {
		depth, nrand = 6, 250000
	}
	// fixed regression inputs (design-time finding F13 and container cases)
	for _, s := range []string{
		"![x[^1]](y)\n\n[^1]: d",
		"[^a]: see[^b]\n\n[^b]: bee",
		"[^a]: x\n    [^b]: y\n\nref[^a] and[^b]",
		"> [^a]: x\n\nref[^a]",
		"- [^a]: x\n\nref[^a]",
		"a[^1] b[^2] c[^1]\n\n[^2]: two\n[^1]: one [^2]\n[^3]: three",
		"| a[^1] | b |\n|---|---|\n| c[^1] | [d[^2]](u) |\n\n[^1]: one\n[^2]: two",
	} {
		for _, p := range []string{"", "p-"} {
			emit(fnCase(p, []byte(s)))
		}
	}
	var toks [][]byte
	for _, t := range fnTokens {
		toks = append(toks, []byte(t))
	}
	enumStrings(toks, depth, func(b []byte) { emit(fnCase("", b)) })
	g := &fnGen{rng: rng}
	for i := 0; i < nrand; i++ {
		emit(fnCase(fnPrefixes[rng.Intn(len(fnPrefixes))], g.doc()))
	}
	// nested renders with per-document id prefixes (oracle only)
	nestA := []string{"a[^1] b[^2] c[^1]\n\n[^1]: one\n[^2]: two [^1]\n", "x[^a]\n\n[^a]: p\n\n    q\n[^b]: r\n\ny[^b] z[^a]\n"}
	nestB := []string{"k[^1]\n\n[^1]: other\n", "m[^x] n[^y]\n\n[^y]: why\n[^x]: ex\n", "no footnotes here\n"}
	for _, a := range nestA {
		for _, b := range nestB {
			emit(Case{Op: "nested", Args: []string{hx([]byte(a)), hx([]byte(b))}})
		}
	}
	for i := 0; i < nrand/100; i++ {
		emit(Case{Op: "nested", Args: []string{hx(g.doc()), hx(g.doc())}})
	}
}

func init() {
	register(&Component{
		Name: "footnote",
		Rule: "every document made of <= N tokens from {[^a], [^b], ![i[^a]](u), ![i[^b]](u), definition of a, definition of b, paragraph break, text} " +
			"+ random documents (references in emphasis, links, images, tables, headings, other footnotes, unreferenced and duplicate definitions, definitions in containers, 4 id prefixes); " +
			"+ op nested (oracle only): a second document rendered on the same Markdown while the first is inside its footnote list, per-document id prefixes through WithFootnoteIDPrefixFunction; non-trivial = at least one footnote item rendered; distinct = distinct (ids, hrefs, numbers, link counters) outputs",
		Gen:        genFootnote,
		Impl:       implFootnote,
		Exhaustive: true,
		Scope: func(tier string) string {
			if tier == "thorough" {
				return "exhaustive documents of <=6 tokens over 8 tokens (299,593) + 250k random documents"
			}
			return "exhaustive documents of <=5 tokens over 8 tokens (37,449) + 20k random documents"
		},
	})
}
