package main

// Components `ast` and `walk` (property C13): the ast.BaseNode mutation API (AppendChild, InsertBefore,
// InsertAfter, ReplaceChild, RemoveChild, RemoveChildren, SortChildren) and ast.Walk, driven by op
// sequences over a small pool of nodes and observed through the complete navigation API after every op.
// Oracle: a plain ordered list-of-children tree (kids [][]int); it applies as long as every op of the
// sequence satisfied the property's proviso Pre (child not nil, not the parent itself nor one of its
// ancestors, reference != child, ReplaceChild reference not nil).
//
// Case lines:
//   ast  run <N> <cmp> <ops>
//   walk run <N> <ops> <root> <script>
// <ops> = tokens joined by ';' ("-" = no ops, only used by walk):
//   a<p><c> AppendChild | b<p><v><c> InsertBefore | f<p><v><c> InsertAfter | r<p><v><c> ReplaceChild |
//   d<p><c> RemoveChild | x<p> RemoveChildren | s<p> SortChildren      (p digit; v,c digit or 'n' = nil)

import (
	"errors"
	"fmt"
	"strconv"
	"strings"

	"github.com/yuin/goldmark/ast"
)

func init() {
	register(&Component{
		Name:       "ast",
		Rule:       "distinct = distinct final observable state reached through >=1 state-changing op with Pre respected",
		Gen:        genAst,
		Impl:       implAst,
		Exhaustive: true,
		Scope: func(tier string) string {
			if tier == "thorough" {
				return "6 fixed regression cases; family A (N=5, parents {0,1}, children {2,3,4}, refs {2,3,4,nil}, 88 op tokens): every sequence of <=3 ops in which a Pre-violating op is followed by at most one more (non-sort) op, plus after each of 4 preludes every Pre-respecting continuation of <=3 ops under the identity and the reversed comparator; family B (N=3, every node parent/child/ref, nil child and nil ref, 174 op tokens): every such sequence of <=3 ops plus every Pre-respecting sequence of 4 ops whose first op acts on parent 0; family W (1500 cases); 400000 random sequences (N 3..7, 1..40 ops, 15% with one Pre-violating op followed by <=5 non-sort ops; comparators: identity / keyed with ties / arbitrary table)"
			}
			return "6 fixed regression cases; family A (N=5, parents {0,1}, children {2,3,4}, refs {2,3,4,nil}, 88 op tokens): every sequence of <=3 ops in which a Pre-violating op is followed by at most one more (non-sort) op; family B (N=3, every node parent/child/ref, nil child and nil ref, 174 op tokens): every such sequence of <=3 ops; family W (one parent with 11..35 children: sorted under reversed / tie-rich / permuted comparators, mutated at head, tail and middle, sorted again; 60 cases); 20000 random sequences (N 3..7, 1..40 ops, 15% with one Pre-violating op followed by <=5 non-sort ops; comparators: identity / keyed with ties / arbitrary table)"
		},
	})
	register(&Component{
		Name:       "walk",
		Rule:       "distinct = distinct event trace + error flag of a Walk whose script has a consulted non-continue entry or whose walked tree has >=3 nodes",
		Gen:        genWalk,
		Impl:       implWalk,
		Exhaustive: true,
		Scope: func(tier string) string {
			if tier == "thorough" {
				return "every increasing tree with <=6 nodes (1+1+2+6+24+120), root 0, x every walker script with <=2 non-continue answers (7 alternatives each: skip, stop, status 0, and continue/skip/stop/0 with an error), <=3 for trees of <=4 nodes; 300000 random forests (N 2..8, <=25 Pre-respecting ops of all kinds) with random root (65%: the biggest tree) and random script (60/85/95% continue)"
			}
			return "every increasing tree with <=5 nodes (1+1+2+6+24), root 0, x every walker script with <=2 non-continue answers (7 alternatives each: skip, stop, status 0, and continue/skip/stop/0 with an error); 20000 random forests (N 2..8, <=25 Pre-respecting ops of all kinds) with random root (65%: the biggest tree) and random script (60/85/95% continue)"
		},
	})
}

// ---------- ops ----------

type astOp struct {
	k       byte // a b f r d x s
	p, v, c int  // node ids; -1 = nil (also for the fields an op kind does not use)
}

// node ids are single characters: 0..9, then A..Z for 10..35 (never 'n', which is nil)
const astIdChars = "0123456789ABCDEFGHIJKLMNOPQRSTUVWXYZ"

func astDig(i int) string {
	if i < 0 {
		return "n"
	}
	return astIdChars[i : i+1]
}

func (o astOp) String() string {
	switch o.k {
	case 'a', 'd':
		return string(o.k) + astDig(o.p) + astDig(o.c)
	case 'b', 'f', 'r':
		return string(o.k) + astDig(o.p) + astDig(o.v) + astDig(o.c)
	}
	return string(o.k) + astDig(o.p)
}

// panics: the op panics on every heap (nil child; ReplaceChild with a nil reference)
func (o astOp) panics() bool {
	switch o.k {
	case 'a', 'b', 'f', 'd':
		return o.c < 0
	case 'r':
		return o.c < 0 || o.v < 0
	}
	return false
}

func astParseDig(ch byte, n int, nilOK bool) int {
	if ch == 'n' && nilOK {
		return -1
	}
	i := strings.IndexByte(astIdChars, ch)
	if i < 0 || i >= n {
		panic("bad ast node id " + string(ch))
	}
	return i
}

func astParseOps(s string, n int) []astOp {
	if s == "-" || s == "" {
		return nil
	}
	var r []astOp
	for _, t := range strings.Split(s, ";") {
		o := astOp{k: t[0], p: -1, v: -1, c: -1}
		want := 0
		switch o.k {
		case 'a', 'd':
			want = 3
		case 'b', 'f', 'r':
			want = 4
		case 'x', 's':
			want = 2
		}
		if len(t) != want || want == 0 {
			panic("bad ast op " + t)
		}
		o.p = astParseDig(t[1], n, false)
		switch want {
		case 3:
			o.c = astParseDig(t[2], n, true)
		case 4:
			o.v = astParseDig(t[2], n, true)
			o.c = astParseDig(t[3], n, true)
		}
		r = append(r, o)
	}
	return r
}

func astJoin(ops []astOp) string {
	if len(ops) == 0 {
		return "-"
	}
	s := make([]string, len(ops))
	for i, o := range ops {
		s[i] = o.String()
	}
	return strings.Join(s, ";")
}

// ---------- comparators ----------

func sign(x int) int {
	switch {
	case x < 0:
		return -1
	case x > 0:
		return 1
	}
	return 0
}

// astCmpFn: "-" = sign(a-b); else N*N chars over l,e,g, row-major
func astCmpFn(tab string, n int) func(a, b int) int {
	if tab == "-" {
		return func(a, b int) int { return sign(a - b) }
	}
	if len(tab) != n*n {
		panic("bad comparator table " + tab)
	}
	return func(a, b int) int {
		switch tab[a*n+b] {
		case 'l':
			return -1
		case 'e':
			return 0
		case 'g':
			return 1
		}
		panic("bad comparator table " + tab)
	}
}

func astCmpFromKeys(key []int) string {
	var sb strings.Builder
	for a := range key {
		for b := range key {
			sb.WriteByte("leg"[sign(key[a]-key[b])+1])
		}
	}
	return sb.String()
}

func astRandCmp(rng *RNG, n int) string {
	switch rng.Intn(3) {
	case 0:
		return "-"
	case 1:
		key := make([]int, n)
		for i := range key {
			key[i] = rng.Intn(3)
		}
		return astCmpFromKeys(key)
	}
	b := make([]byte, n*n)
	for i := range b {
		b[i] = "leg"[rng.Intn(3)]
	}
	return string(b)
}

// ---------- spec: plain list-of-children forest ----------

type astSpec struct{ kids [][]int }

func newAstSpec(n int) *astSpec { return &astSpec{kids: make([][]int, n)} }

func (s *astSpec) clone() *astSpec {
	t := &astSpec{kids: make([][]int, len(s.kids))}
	for i, k := range s.kids {
		if len(k) > 0 {
			t.kids[i] = append([]int(nil), k...)
		}
	}
	return t
}

func (s *astSpec) index(p, c int) int {
	for i, x := range s.kids[p] {
		if x == c {
			return i
		}
	}
	return -1
}

func (s *astSpec) parent(c int) int {
	for p := range s.kids {
		if s.index(p, c) >= 0 {
			return p
		}
	}
	return -1
}

func (s *astSpec) detach(c int) {
	for p := range s.kids {
		if i := s.index(p, c); i >= 0 {
			s.removeAt(p, i)
		}
	}
}

func (s *astSpec) removeAt(p, i int) {
	old := s.kids[p]
	nk := make([]int, 0, len(old)-1)
	nk = append(nk, old[:i]...)
	nk = append(nk, old[i+1:]...)
	s.kids[p] = nk
}

func astInsert(l []int, i, c int) []int {
	nk := make([]int, 0, len(l)+1)
	nk = append(nk, l[:i]...)
	nk = append(nk, c)
	nk = append(nk, l[i:]...)
	return nk
}

// ancOrSelf: c is p or an ancestor of p
func (s *astSpec) ancOrSelf(c, p int) bool {
	for i, q := 0, p; q >= 0 && i <= len(s.kids); i, q = i+1, s.parent(q) {
		if q == c {
			return true
		}
	}
	return false
}

// pre: the proviso of C13 for op o in this state
func (s *astSpec) pre(o astOp) bool {
	switch o.k {
	case 'x', 's':
		return true
	case 'd':
		return o.c >= 0
	}
	if o.c < 0 {
		return false
	}
	if o.k == 'r' && o.v < 0 {
		return false
	}
	if s.ancOrSelf(o.c, o.p) {
		return false
	}
	if o.k != 'a' && o.v == o.c {
		return false
	}
	return true
}

// apply: the meaning of op o (only called when pre holds)
func (s *astSpec) apply(o astOp, cmp func(a, b int) int) {
	switch o.k {
	case 'a':
		s.detach(o.c)
		s.kids[o.p] = astInsert(s.kids[o.p], len(s.kids[o.p]), o.c)
	case 'b', 'f', 'r':
		s.detach(o.c)
		i := -1
		if o.v >= 0 {
			i = s.index(o.p, o.v)
		}
		switch {
		case i < 0:
			s.kids[o.p] = astInsert(s.kids[o.p], len(s.kids[o.p]), o.c)
		case o.k == 'b':
			s.kids[o.p] = astInsert(s.kids[o.p], i, o.c)
		case o.k == 'f':
			s.kids[o.p] = astInsert(s.kids[o.p], i+1, o.c)
		default:
			nk := append([]int(nil), s.kids[o.p]...)
			nk[i] = o.c
			s.kids[o.p] = nk
		}
	case 'd':
		if i := s.index(o.p, o.c); i >= 0 {
			s.removeAt(o.p, i)
		}
	case 'x':
		s.kids[o.p] = nil
	case 's':
		var res []int
		for _, x := range s.kids[o.p] {
			pos := len(res)
			for i, a := range res {
				if !(cmp(a, x) < 0) {
					pos = i
					break
				}
			}
			res = astInsert(res, pos, x)
		}
		s.kids[o.p] = res
	}
}

func (s *astSpec) subtreeSize(r int) int {
	n := 1
	for _, c := range s.kids[r] {
		n += s.subtreeSize(c)
	}
	return n
}

func astDigits(l []int, reverse bool) string {
	b := make([]byte, len(l))
	for i, x := range l {
		if reverse {
			b[len(l)-1-i] = astIdChars[x]
		} else {
			b[i] = astIdChars[x]
		}
	}
	return string(b)
}

// ---------- the real heap ----------

type astHeap struct{ pool []ast.Node }

func astPool(n int) *astHeap {
	pool := make([]ast.Node, n)
	for i := 0; i < n; i++ {
		switch i % 4 {
		case 0:
			pool[i] = ast.NewDocument()
		case 1:
			pool[i] = ast.NewParagraph()
		case 2:
			pool[i] = ast.NewText()
		default:
			pool[i] = ast.NewEmphasis(1)
		}
	}
	return &astHeap{pool}
}

// id: pool index of a node, -1 for nil (the pool has at most 9 nodes: a scan beats a map)
func (h *astHeap) id(x ast.Node) int {
	if x == nil {
		return -1
	}
	for i, p := range h.pool {
		if p == x {
			return i
		}
	}
	panic("node outside the pool")
}

func (h *astHeap) node(i int) ast.Node {
	if i < 0 {
		return nil // the nil interface
	}
	return h.pool[i]
}

// exec runs one op on the real nodes, recovering a panic. kind: "" | "nil" | "explicit"
func (h *astHeap) exec(o astOp, cmp func(a, b int) int) (kind string, msg string) {
	defer func() {
		if r := recover(); r != nil {
			msg = fmt.Sprint(r)
			if strings.Contains(msg, "nil pointer") {
				kind = "nil"
			} else {
				kind = "explicit"
			}
		}
	}()
	p := h.pool[o.p]
	switch o.k {
	case 'a':
		p.AppendChild(p, h.node(o.c))
	case 'b':
		p.InsertBefore(p, h.node(o.v), h.node(o.c))
	case 'f':
		p.InsertAfter(p, h.node(o.v), h.node(o.c))
	case 'r':
		p.ReplaceChild(p, h.node(o.v), h.node(o.c))
	case 'd':
		p.RemoveChild(p, h.node(o.c))
	case 'x':
		p.RemoveChildren(p)
	case 's':
		// SortChildren only terminates when the next-chain from FirstChild ends; refuse otherwise
		// (never the case for generated sequences: no sort is emitted after a Pre-violating op)
		cur, k := p.FirstChild(), 0
		for ; cur != nil && k <= len(h.pool); k++ {
			cur = cur.NextSibling()
		}
		if cur != nil {
			panic("sort on a cyclic child list")
		}
		p.SortChildren(func(a, b ast.Node) int { return cmp(h.id(a), h.id(b)) })
	default:
		panic("bad ast op kind")
	}
	return "", ""
}

// astChain: ids of a sibling chain as digits; at most N+1 nodes, then '*' if the chain goes on
type astChain struct {
	b [40]byte
	n int
}

func (c *astChain) String() string { return string(c.b[:c.n]) }

func (c *astChain) eq(l []int, reverse bool) bool {
	if c.n != len(l) {
		return false
	}
	for i, x := range l {
		j := i
		if reverse {
			j = len(l) - 1 - i
		}
		if c.b[j] != astIdChars[x] {
			return false
		}
	}
	return true
}

type astObs struct {
	par, nx, pv int // -1 = nil
	cnt         int
	has         bool
	fwd, bwd    astChain
}

func (h *astHeap) chain(c *astChain, cur ast.Node, forward bool) {
	c.n = 0
	for k := 0; cur != nil && k < len(h.pool)+1; k++ {
		c.b[c.n] = astIdChars[h.id(cur)]
		c.n++
		if forward {
			cur = cur.NextSibling()
		} else {
			cur = cur.PreviousSibling()
		}
	}
	if cur != nil {
		c.b[c.n] = '*'
		c.n++
	}
}

// observe fills obs (len N) and returns the state dump
func (h *astHeap) observe(obs []astObs, buf []byte) []byte {
	for i, nd := range h.pool {
		o := &obs[i]
		o.par, o.nx, o.pv = h.id(nd.Parent()), h.id(nd.NextSibling()), h.id(nd.PreviousSibling())
		o.cnt, o.has = nd.ChildCount(), nd.HasChildren()
		h.chain(&o.fwd, nd.FirstChild(), true)
		h.chain(&o.bwd, nd.LastChild(), false)
		if i > 0 {
			buf = append(buf, ';')
		}
		buf = append(buf, astIdCh(o.par)[0], ',', astIdCh(o.nx)[0], ',', astIdCh(o.pv)[0], ',')
		buf = strconv.AppendInt(buf, int64(o.cnt), 10)
		buf = append(buf, ',', b2s(o.has)[0], ',')
		buf = append(buf, o.fwd.b[:o.fwd.n]...)
		buf = append(buf, ',')
		buf = append(buf, o.bwd.b[:o.bwd.n]...)
	}
	return buf
}

func astIdCh(i int) string {
	if i < 0 {
		return "-"
	}
	return astIdChars[i : i+1]
}

var astClauses = []string{"children-forward", "children-backward", "parent", "childcount", "haschildren", "sibling-links"}

// astCheck compares the observed heap with the spec; at most one failure per clause
func astCheck(obs []astObs, s *astSpec, ops []astOp) []OracleFail {
	var fails []OracleFail
	seen := 0
	fail := func(clause int, node int, what, got, want string) {
		if seen&(1<<clause) != 0 {
			return
		}
		seen |= 1 << clause
		fails = append(fails, OracleFail{"C13", astClauses[clause], fmt.Sprintf("after %s: node %d %s = %s, the list-of-children tree says %s", astJoin(ops), node, what, got, want)})
	}
	for i := range obs {
		o := &obs[i]
		k := s.kids[i]
		if !o.fwd.eq(k, false) {
			fail(0, i, "FirstChild/NextSibling chain", "["+o.fwd.String()+"]", "["+astDigits(k, false)+"]")
		}
		if !o.bwd.eq(k, true) {
			fail(1, i, "LastChild/PreviousSibling chain", "["+o.bwd.String()+"]", "["+astDigits(k, true)+"]")
		}
		par := s.parent(i)
		if o.par != par {
			fail(2, i, "Parent()", astIdCh(o.par), astIdCh(par))
		}
		if o.cnt != len(k) {
			fail(3, i, "ChildCount()", strconv.Itoa(o.cnt), strconv.Itoa(len(k)))
		}
		if o.has != (len(k) > 0) {
			fail(4, i, "HasChildren()", b2s(o.has), b2s(len(k) > 0))
		}
		nx, pv := -1, -1
		if par >= 0 {
			sib := s.kids[par]
			j := s.index(par, i)
			if j+1 < len(sib) {
				nx = sib[j+1]
			}
			if j > 0 {
				pv = sib[j-1]
			}
		}
		if o.nx != nx {
			fail(5, i, "NextSibling()", astIdCh(o.nx), astIdCh(nx))
		}
		if o.pv != pv {
			fail(5, i, "PreviousSibling()", astIdCh(o.pv), astIdCh(pv))
		}
	}
	return fails
}

// ---------- component ast: Impl ----------

func implAst(c Case) ImplResult {
	var r ImplResult
	n, err := strconv.Atoi(c.Args[0])
	if err != nil || n < 1 || n > 36 {
		panic("bad pool size " + c.Args[0])
	}
	cmp := astCmpFn(c.Args[1], n)
	ops := astParseOps(c.Args[2], n)
	h := astPool(n)
	spec := newAstSpec(n)
	preHeld := true  // every op so far satisfied Pre
	checking := true // no oracle failure reported yet
	changed := false
	obs := make([]astObs, n)
	out := make([]byte, 0, 64*len(ops))
	prev := string(h.observe(obs, nil))
	for i, o := range ops {
		if preHeld && !spec.pre(o) {
			preHeld = false
		}
		if i > 0 {
			out = append(out, '|')
		}
		kind, msg := h.exec(o, cmp)
		if kind != "" {
			out = append(out, "panic:"+kind...)
			if preHeld && checking {
				r.Fails = append(r.Fails, OracleFail{"C13", "panic", fmt.Sprintf("after %s: panic although the proviso holds: %s", astJoin(ops[:i+1]), msg)})
			}
			preHeld = false // the state after a panic is not observed: nothing to key on
			break
		}
		start := len(out)
		out = h.observe(obs, out)
		if dump := out[start:]; string(dump) != prev {
			changed = true
			prev = string(dump)
		}
		if preHeld {
			spec.apply(o, cmp)
			if checking {
				if f := astCheck(obs, spec, ops[:i+1]); len(f) > 0 {
					r.Fails = append(r.Fails, f...)
					checking = false
				}
			}
		}
	}
	r.Out = string(out)
	if preHeld && changed {
		r.Key = prev
	}
	return r
}

// ---------- component ast: generator ----------

func astAlphabet(ps, vs, cs []int) []astOp {
	var r []astOp
	for _, k := range []byte("abfrdxs") {
		for _, p := range ps {
			switch k {
			case 'a', 'd':
				for _, c := range cs {
					r = append(r, astOp{k, p, -1, c})
				}
			case 'b', 'f', 'r':
				for _, v := range vs {
					for _, c := range cs {
						r = append(r, astOp{k, p, v, c})
					}
				}
			default:
				r = append(r, astOp{k, p, -1, -1})
			}
		}
	}
	return r
}

// astEnum emits, after the Pre-respecting prelude, every op sequence of 1..depth ops over the alphabet such
// that a Pre-violating op (only if withViol) is followed by at most one more op, which is not a sort and
// only exists if the violating op does not panic outright. Every sequence is its own case.
func astEnum(n int, cmpTab string, prelude []astOp, alphabet []astOp, depth int, withViol bool, emit func(Case)) {
	cmp := astCmpFn(cmpTab, n)
	ns := strconv.Itoa(n)
	out := func(ops string) { emit(Case{Op: "run", Args: []string{ns, cmpTab, ops}}) }
	sp0 := newAstSpec(n)
	pre := ""
	for _, o := range prelude {
		if !sp0.pre(o) {
			panic("prelude violates Pre")
		}
		sp0.apply(o, cmp)
		pre += o.String() + ";"
	}
	var rec func(prefix string, sp *astSpec, d int)
	rec = func(prefix string, sp *astSpec, d int) {
		if d == depth {
			return
		}
		for _, o := range alphabet {
			seq := prefix + o.String()
			if sp.pre(o) {
				out(seq)
				if d+1 < depth {
					nsp := sp.clone()
					nsp.apply(o, cmp)
					rec(seq+";", nsp, d+1)
				}
				continue
			}
			if !withViol {
				continue
			}
			out(seq)
			if o.panics() || d+2 > depth {
				continue
			}
			for _, o2 := range alphabet {
				if o2.k != 's' {
					out(seq + ";" + o2.String())
				}
			}
		}
	}
	rec(pre, sp0, 0)
}

// astRandPreOp: a random op satisfying Pre in state s (rejection sampling). grow biases towards insertions.
func astRandPreOp(rng *RNG, s *astSpec, grow bool) astOp {
	n := len(s.kids)
	kinds := "aaaaaabbbbfffffrrrrddddxsss"
	if grow {
		kinds = "aaaaaaaaaabbbbbbfffffffrrrdxss"
	}
	for try := 0; try < 60; try++ {
		o := astOp{k: kinds[rng.Intn(len(kinds))], p: rng.Intn(n), v: -1, c: -1}
		kp := s.kids[o.p]
		switch o.k {
		case 'a':
			o.c = rng.Intn(n)
		case 'b', 'f', 'r':
			o.c = rng.Intn(n)
			switch t := rng.Intn(100); {
			case t < 55 && len(kp) > 0:
				o.v = kp[rng.Intn(len(kp))] // a child of p
			case t < 70:
				o.v = -1 // nil reference
			default:
				o.v = rng.Intn(n) // any node: mostly foreign
			}
		case 'd':
			if len(kp) > 0 && rng.Chance(65) {
				o.c = kp[rng.Intn(len(kp))]
			} else {
				o.c = rng.Intn(n)
			}
		}
		if s.pre(o) {
			return o
		}
	}
	return astOp{k: 'x', p: rng.Intn(n), v: -1, c: -1}
}

func astNilOr(rng *RNG, n int, pNil int) int {
	if rng.Chance(pNil) {
		return -1
	}
	return rng.Intn(n)
}

// astRandBadOp: a random op violating Pre in state s
func astRandBadOp(rng *RNG, s *astSpec) astOp {
	n := len(s.kids)
	for {
		o := astOp{p: rng.Intn(n), v: -1, c: -1}
		switch rng.Intn(6) {
		case 0: // nil child
			o.k = "abfrd"[rng.Intn(5)]
			if o.k == 'b' || o.k == 'f' || o.k == 'r' {
				o.v = astNilOr(rng, n, 25)
			}
		case 1: // replace with a nil reference
			o.k = 'r'
			o.c = rng.Intn(n)
		case 2: // child == parent
			o.k = "abfr"[rng.Intn(4)]
			o.c = o.p
			if o.k != 'a' {
				o.v = astNilOr(rng, n, 25)
			}
		case 3, 4: // child is a proper ancestor of the parent
			o.k = "abfr"[rng.Intn(4)]
			var anc []int
			for q := s.parent(o.p); q >= 0; q = s.parent(q) {
				anc = append(anc, q)
			}
			if len(anc) == 0 {
				continue
			}
			o.c = anc[rng.Intn(len(anc))]
			if o.k != 'a' {
				o.v = astNilOr(rng, n, 25)
				if kp := s.kids[o.p]; len(kp) > 0 && rng.Bool() {
					o.v = kp[rng.Intn(len(kp))]
				}
			}
		default: // reference == child
			o.k = "bfr"[rng.Intn(3)]
			o.c = rng.Intn(n)
			if kp := s.kids[o.p]; len(kp) > 0 && rng.Bool() {
				o.c = kp[rng.Intn(len(kp))]
			}
			o.v = o.c
		}
		if !s.pre(o) {
			return o
		}
	}
}

// astRandTailOp: any non-sort op (after a Pre violation the spec no longer applies)
func astRandTailOp(rng *RNG, n int) astOp {
	o := astOp{k: "aabbffrrddx"[rng.Intn(11)], p: rng.Intn(n), v: -1, c: -1}
	switch o.k {
	case 'a', 'd':
		o.c = astNilOr(rng, n, 4)
	case 'b', 'f':
		o.v = astNilOr(rng, n, 20)
		o.c = astNilOr(rng, n, 4)
	case 'r':
		o.v = astNilOr(rng, n, 4)
		o.c = astNilOr(rng, n, 4)
	}
	return o
}

// astRandSeq: a random case body (ops) for pool size n
func astRandSeq(rng *RNG, n int, cmpTab string) []astOp {
	cmp := astCmpFn(cmpTab, n)
	sp := newAstSpec(n)
	length := 1 + rng.Intn(40)
	bad := -1
	if rng.Chance(15) {
		bad = rng.Intn(length)
	}
	var ops []astOp
	for i := 0; i < length; i++ {
		if i == bad {
			o := astRandBadOp(rng, sp)
			ops = append(ops, o)
			if o.panics() {
				return ops
			}
			for k := rng.Intn(6); k > 0; k-- {
				t := astRandTailOp(rng, n)
				ops = append(ops, t)
				if t.panics() {
					break
				}
			}
			return ops
		}
		o := astRandPreOp(rng, sp, false)
		sp.apply(o, cmp)
		ops = append(ops, o)
	}
	return ops
}

func genAst(tier string, rng *RNG, emit func(Case)) {
	thorough := tier == "thorough"
	for _, s := range []string{"a01;a02;b0n3", "a01;a02;f023", "a01;a12;b023", "a01;a12;r023", "a01;f0n2", "a01;a02;f012"} {
		emit(Case{Op: "run", Args: []string{"4", "-", s}})
	}
	// family A
	alphaA := astAlphabet([]int{0, 1}, []int{2, 3, 4, -1}, []int{2, 3, 4})
	astEnum(5, "-", nil, alphaA, 3, true, emit)
	if thorough {
		rev := astCmpFromKeys([]int{4, 3, 2, 1, 0})
		for _, pl := range []string{"a02;a03;a04", "a02;a03;a14", "a02;a13", "a04;a03;a02"} {
			for _, tab := range []string{"-", rev} {
				astEnum(5, tab, astParseOps(pl, 5), alphaA, 3, false, emit)
			}
		}
	}
	// family B
	alphaB := astAlphabet([]int{0, 1, 2}, []int{0, 1, 2, -1}, []int{0, 1, 2, -1})
	astEnum(3, "-", nil, alphaB, 3, true, emit)
	if thorough {
		// the Pre-respecting sequences of exactly 4 ops (the shorter ones are part of the enumeration above)
		// whose first op acts on parent 0: up to renaming of the nodes that is all of them, and it keeps the
		// case list (which the engine holds in memory) at a third: 4.2M instead of 12.6M
		astEnum(3, "-", nil, alphaB, 4, false, func(c Case) {
			if strings.Count(c.Args[2], ";") == 3 && c.Args[2][1] == '0' {
				emit(c)
			}
		})
	}
	// family W (wide): ONE parent with 11..35 children (a sort that switches algorithm with the list length, a relink
	// that forgets an end of a long list), sorted under a keyed comparator with ties / the reversed order / a random
	// permutation, then mutated at the head, the tail and in the middle, sorted again
	nwide := 60
	if thorough {
		nwide = 1500
	}
	for i := 0; i < nwide; i++ {
		n := 12 + rng.Intn(24) // pool size; node 0 is the parent
		kids := n - 1 - rng.Intn(2)
		key := make([]int, n)
		switch i % 3 {
		case 0:
			for j := range key {
				key[j] = n - j // reversed: the head certainly moves
			}
		case 1:
			for j := range key {
				key[j] = rng.Intn(4) // many ties
			}
		default:
			for j := range key {
				key[j] = j
			}
			for j := n - 1; j > 0; j-- {
				k := rng.Intn(j + 1)
				key[j], key[k] = key[k], key[j]
			}
		}
		tab := astCmpFromKeys(key)
		cmp := astCmpFn(tab, n)
		sp := newAstSpec(n)
		var ops []astOp
		do := func(o astOp) {
			if sp.pre(o) {
				sp.apply(o, cmp)
				ops = append(ops, o)
			}
		}
		for c := 1; c <= kids; c++ {
			do(astOp{k: 'a', p: 0, v: -1, c: c})
		}
		do(astOp{k: 's', p: 0, v: -1, c: -1})
		for k := 0; k < 6; k++ {
			kp := sp.kids[0]
			if len(kp) < 3 {
				break
			}
			var o astOp
			switch rng.Intn(6) {
			case 0:
				o = astOp{k: 'd', p: 0, v: -1, c: kp[0]} // remove the head
			case 1:
				o = astOp{k: 'd', p: 0, v: -1, c: kp[len(kp)-1]} // remove the tail
			case 2:
				o = astOp{k: 'b', p: 0, v: kp[0], c: kp[len(kp)/2]} // move a middle child in front of the head
			case 3:
				o = astOp{k: 'f', p: 0, v: kp[len(kp)-1], c: kp[1]} // move the second child behind the tail
			case 4:
				o = astOp{k: 'r', p: 0, v: kp[0], c: kp[len(kp)-1]} // replace the head by the tail
			default:
				o = astOp{k: 's', p: 0, v: -1, c: -1}
			}
			do(o)
		}
		do(astOp{k: 's', p: 0, v: -1, c: -1})
		emit(Case{Op: "run", Args: []string{strconv.Itoa(n), tab, astJoin(ops)}})
	}
	// random stream
	nrand := 20000
	if thorough {
		nrand = 400000
	}
	for i := 0; i < nrand; i++ {
		n := 3 + rng.Intn(5)
		tab := astRandCmp(rng, n)
		ops := astRandSeq(rng, n, tab)
		emit(Case{Op: "run", Args: []string{strconv.Itoa(n), tab, astJoin(ops)}})
	}
}

// ---------- component walk ----------

var errWalk = errors.New("e")

func walkAnswer(ch byte) (st ast.WalkStatus, withErr bool) {
	switch ch {
	case 'c', 'C':
		st = ast.WalkContinue
	case 'k', 'K':
		st = ast.WalkSkipChildren
	case 's', 'S':
		st = ast.WalkStop
	case 'z', 'Z':
		st = ast.WalkStatus(0)
	default:
		panic("bad walk script char " + string(ch))
	}
	return st, ch < 'a'
}

// walkSpec: textbook DFS over the list-of-children tree. Returns the events and the error flag.
func walkSpec(s *astSpec, root int, script string) (string, bool) {
	var ev []byte
	halted, herr := false, false
	call := func(n int, entering bool) ast.WalkStatus {
		pos := 2*n + 1
		if entering {
			pos = 2 * n
			ev = append(ev, astIdChars[n], 'e')
		} else {
			ev = append(ev, astIdChars[n], 'l')
		}
		st, e := walkAnswer(script[pos])
		if e || st == ast.WalkStop {
			halted, herr = true, e
		}
		return st
	}
	var visit func(n int)
	visit = func(n int) {
		st := call(n, true)
		if halted {
			return
		}
		if st != ast.WalkSkipChildren {
			for _, c := range s.kids[n] {
				visit(c)
				if halted {
					return
				}
			}
		}
		call(n, false)
	}
	visit(root)
	return string(ev), herr
}

func implWalk(c Case) ImplResult {
	var r ImplResult
	n, err := strconv.Atoi(c.Args[0])
	if err != nil || n < 1 || n > 36 {
		panic("bad pool size " + c.Args[0])
	}
	ops := astParseOps(c.Args[1], n)
	root := astParseDig(c.Args[2][0], n, false)
	script := c.Args[3]
	if len(c.Args[2]) != 1 || len(script) != 2*n {
		panic("bad walk case")
	}
	cmp := astCmpFn("-", n)
	h := astPool(n)
	spec := newAstSpec(n)
	preHeld := true
	for _, o := range ops {
		if preHeld && !spec.pre(o) {
			preHeld = false
		}
		if kind, _ := h.exec(o, cmp); kind != "" {
			r.Out = "panic:" + kind
			return r
		}
		if preHeld {
			spec.apply(o, cmp)
		}
	}
	var ev []byte
	consulted := false
	calls := 0
	walker := func(nd ast.Node, entering bool) (ast.WalkStatus, error) {
		// a walk over a forest calls the walker at most twice per node; anything more is a cycle
		if calls++; calls > 2*n {
			panic("walk does not terminate")
		}
		id := h.id(nd)
		pos := 2*id + 1
		if entering {
			pos = 2 * id
			ev = append(ev, astIdChars[id], 'e')
		} else {
			ev = append(ev, astIdChars[id], 'l')
		}
		if script[pos] != 'c' {
			consulted = true
		}
		st, e := walkAnswer(script[pos])
		if e {
			return st, errWalk
		}
		return st, nil
	}
	gotErr, pkind := func() (werr error, kind string) {
		defer func() {
			if rec := recover(); rec != nil {
				kind = "explicit"
				if strings.Contains(fmt.Sprint(rec), "nil pointer") {
					kind = "nil"
				}
			}
		}()
		return ast.Walk(h.pool[root], walker), ""
	}()
	if pkind != "" {
		r.Out = "panic:" + pkind
		if preHeld {
			r.Fails = append(r.Fails, OracleFail{"C13", "panic", fmt.Sprintf("Walk from %d after %s panicked (events so far %s)", root, astJoin(ops), ev)})
		}
		return r
	}
	flag := "-"
	if gotErr != nil {
		flag = "E"
	}
	r.Out = string(ev) + ":" + flag
	if !preHeld {
		return r
	}
	wantEv, wantErr := walkSpec(spec, root, script)
	if wantEv != string(ev) {
		r.Fails = append(r.Fails, OracleFail{"C13", "walk-events", fmt.Sprintf("Walk from %d after %s with script %s: events %s, a depth-first walk gives %s", root, astJoin(ops), script, ev, wantEv)})
	}
	if wantErr != (gotErr != nil) {
		r.Fails = append(r.Fails, OracleFail{"C13", "walk-error", fmt.Sprintf("Walk from %d after %s with script %s: error returned = %v, expected %v", root, astJoin(ops), script, gotErr != nil, wantErr)})
	}
	if consulted || spec.subtreeSize(root) >= 3 {
		r.Key = r.Out
	}
	return r
}

const walkAlts = "kszCKSZ"

// walkScripts calls f with every script of length m having at most maxNon non-'c' positions
func walkScripts(m, maxNon int, f func(string)) {
	b := []byte(strings.Repeat("c", m))
	var rec func(from, left int)
	rec = func(from, left int) {
		f(string(b))
		if left == 0 {
			return
		}
		for i := from; i < m; i++ {
			for j := 0; j < len(walkAlts); j++ {
				b[i] = walkAlts[j]
				rec(i+1, left-1)
			}
			b[i] = 'c'
		}
	}
	rec(0, maxNon)
}

// walkTrees calls f with the building ops of every increasing tree on n nodes (parent of i is < i)
func walkTrees(n int, f func(string)) {
	pv := make([]int, n)
	var rec func(i int)
	rec = func(i int) {
		if i == n {
			var ops []astOp
			for k := 1; k < n; k++ {
				ops = append(ops, astOp{'a', pv[k], -1, k})
			}
			f(astJoin(ops))
			return
		}
		for p := 0; p < i; p++ {
			pv[i] = p
			rec(i + 1)
		}
	}
	rec(1)
}

func genWalk(tier string, rng *RNG, emit func(Case)) {
	thorough := tier == "thorough"
	maxN, nrand := 5, 20000
	if thorough {
		maxN, nrand = 6, 300000
	}
	for n := 1; n <= maxN; n++ {
		maxNon := 2
		if thorough && n <= 4 {
			maxNon = 3
		}
		walkTrees(n, func(ops string) {
			walkScripts(2*n, maxNon, func(script string) {
				emit(Case{Op: "run", Args: []string{strconv.Itoa(n), ops, "0", script}})
			})
		})
	}
	// DEEP trees: a chain of 30..35 nested nodes (a walker with an explicit stack grows it at some depth; a recursive one has
	// a frame per level) with side branches, walked from the root and from inner nodes under random scripts
	ndeep := 40
	if thorough {
		ndeep = 1500
	}
	for i := 0; i < ndeep; i++ {
		n := 31 + rng.Intn(6)
		chain := n - 1 - rng.Intn(4) // nodes 0..chain form a chain; the rest hang off random chain nodes
		var ops []astOp
		for c := 1; c <= chain; c++ {
			ops = append(ops, astOp{k: 'a', p: c - 1, v: -1, c: c})
		}
		for c := chain + 1; c < n; c++ {
			ops = append(ops, astOp{k: 'a', p: rng.Intn(chain + 1), v: -1, c: c})
		}
		script := make([]byte, 2*n)
		for j := range script {
			script[j] = 'c'
			if i%3 != 0 && !rng.Chance(93) {
				script[j] = walkAlts[rng.Intn(len(walkAlts))]
			}
		}
		root := 0
		if i%5 == 4 {
			root = rng.Intn(4)
		}
		emit(Case{Op: "run", Args: []string{strconv.Itoa(n), astJoin(ops), astDig(root), string(script)}})
	}
	cmpTab := "-"
	for i := 0; i < nrand; i++ {
		n := 2 + rng.Intn(7)
		cmp := astCmpFn(cmpTab, n)
		sp := newAstSpec(n)
		var ops []astOp
		for k := rng.Intn(26); k > 0; k-- {
			o := astRandPreOp(rng, sp, true)
			sp.apply(o, cmp)
			ops = append(ops, o)
		}
		root := rng.Intn(n)
		if rng.Chance(65) { // mostly walk the biggest tree of the forest
			for q := 0; q < n; q++ {
				if sp.subtreeSize(q) > sp.subtreeSize(root) {
					root = q
				}
			}
		}
		script := make([]byte, 2*n)
		pc := []int{60, 85, 95}[rng.Intn(3)] // per case: how often the walker just continues
		for j := range script {
			script[j] = 'c'
			if !rng.Chance(pc) {
				script[j] = walkAlts[rng.Intn(len(walkAlts))]
			}
		}
		emit(Case{Op: "run", Args: []string{strconv.Itoa(n), astJoin(ops), strconv.Itoa(root), string(script)}})
	}
}
