package main

// Component `bufio` (property C14).
//
//   replay <dest> <sw> <mode> <k,k,…> <nodeErr> <calls> <src> <cfg>
//
// <src> is converted by the real library into a fault-injecting writer, once per k:
//   dest = wrap : plain `Convert(src, faultWriter)` — Render wraps the writer in bufio.NewWriter itself;
//   dest = N    : `Convert(src, rec)` where rec is a *recording* util.BufWriter forwarding to a real
//                 bufio.NewWriterSize(faultWriter, N): Render uses it as is (caller-supplied BufWriter path) and
//                 the exact sequence of Write/WriteString/WriteByte/WriteRune calls the node renderers make is known.
//   mode = short (accept k more bytes, then short write + error, on that and every later call), always (error on
//   every call), ok (no fault); sw = the destination also implements io.StringWriter.
//   nodeErr = '-' or j: <cfg> registers a node renderer that fails; it does so after j calls.
// <calls> is the call sequence recorded by the generator on a fault-free run; here it is re-recorded (under the
// fault, when dest = N) and must be identical. The Lean model replays <calls> against the same fault and must
// predict, for every k: number and FNV-32 of the bytes the destination accepted, the error Render returned
// (0 nil, 1 the injected one, 2 io.ErrShortWrite, 3 the node renderer's), the number of calls the destination
// received and (dest = N) bufio's Buffered() afterwards.
// Oracles (C14, independent of the model): no panic; accepted bytes are a prefix of the fault-free output; if the
// destination returned an error, Convert returns a non-nil error that errors.Is the injected one; no fault =>
// nil error and the complete output.

import (
	"bufio"
	"bytes"
	"encoding/json"
	"errors"
	"fmt"
	"hash/fnv"
	"io"
	"os"
	"path/filepath"
	"sort"
	"strconv"
	"strings"

	"github.com/yuin/goldmark"
	"github.com/yuin/goldmark/ast"
	"github.com/yuin/goldmark/extension"
	"github.com/yuin/goldmark/parser"
	"github.com/yuin/goldmark/renderer"
	"github.com/yuin/goldmark/renderer/html"
	"github.com/yuin/goldmark/util"
)

func init() {
	register(&Component{
		Name: "bufio",
		Rule: "corpus documents (spec.json, _test/*.txt cases and whole files, generated large documents with outputs beyond 4096/8192 bytes and writes straddling the buffer boundary) x destinations {plain writer, plain StringWriter, caller-supplied bufio of sizes 4096/16/3/1/64} x modes {short, always, ok} x fault offsets: every k for small outputs, stratified around multiples of the buffer size otherwise; non-trivial = the fault was hit after at least one accepted byte; distinct = distinct (document, destination, outcome list)",
		Gen:        genBufio,
		Impl:       implBufio,
		Exhaustive: true,
		Scope: func(tier string) string {
			if tier == "thorough" {
				return "all corpus documents; every offset k for outputs <= 3000 bytes, else 400 stratified/random offsets"
			}
			return "about 300 corpus documents; every offset k for outputs <= 300 bytes, else 64 stratified/random offsets"
		},
	})
}

var bufioErrInjected = errors.New("injected writer failure")
var bufioErrNode = errors.New("node renderer failure")

// ---------- fault-injecting destination ----------

type faultW struct {
	mode   string
	room   int
	acc    []byte
	failed bool
	calls  int
}

func (f *faultW) Write(p []byte) (int, error) {
	f.calls++
	switch f.mode {
	case "ok":
		f.acc = append(f.acc, p...)
		return len(p), nil
	case "always":
		f.failed = true
		return 0, bufioErrInjected
	default: // short
		if len(p) <= f.room {
			f.acc = append(f.acc, p...)
			f.room -= len(p)
			return len(p), nil
		}
		n := f.room
		f.acc = append(f.acc, p[:n]...)
		f.room = 0
		f.failed = true
		return n, bufioErrInjected
	}
}

// the same destination, additionally an io.StringWriter
type faultWS struct{ *faultW }

func (f faultWS) WriteString(s string) (int, error) { return f.faultW.Write([]byte(s)) }

// the same destination with the method set of an in-memory buffer (Write, WriteString, WriteByte, WriteRune): a
// caller may well pass such a size-capped buffer, and an implementation that special-cases "buffer-like" writers
// must still surface its errors
type faultBuf struct{ *faultW }

func (f faultBuf) WriteString(s string) (int, error) { return f.faultW.Write([]byte(s)) }
func (f faultBuf) WriteByte(c byte) error {
	_, err := f.faultW.Write([]byte{c})
	return err
}
func (f faultBuf) WriteRune(r rune) (int, error) { return f.faultW.Write([]byte(string(r))) }

func newFault(mode string, k int, sw bool) (*faultW, io.Writer) {
	f := &faultW{mode: mode, room: k}
	if sw {
		return f, faultWS{f}
	}
	return f, f
}

// ---------- recording util.BufWriter ----------

type recBW struct {
	bw    *bufio.Writer
	calls []string
}

var _ util.BufWriter = (*recBW)(nil)

func (r *recBW) Write(p []byte) (int, error) {
	r.calls = append(r.calls, "w:"+hx(p))
	return r.bw.Write(p)
}
func (r *recBW) WriteString(s string) (int, error) {
	r.calls = append(r.calls, "s:"+hx([]byte(s)))
	return r.bw.WriteString(s)
}
func (r *recBW) WriteByte(c byte) error {
	r.calls = append(r.calls, "b:"+hx([]byte{c}))
	return r.bw.WriteByte(c)
}
func (r *recBW) WriteRune(c rune) (int, error) {
	r.calls = append(r.calls, "r:"+strconv.Itoa(int(c)))
	return r.bw.WriteRune(c)
}
func (r *recBW) Available() int { return r.bw.Available() }
func (r *recBW) Buffered() int  { return r.bw.Buffered() }
func (r *recBW) Flush() error   { return r.bw.Flush() }

func bufioCallsArg(calls []string) string {
	if len(calls) == 0 {
		return "_"
	}
	return strings.Join(calls, ",")
}

// ---------- markdown configurations ----------

type failHR struct{}

func (failHR) RegisterFuncs(reg renderer.NodeRendererFuncRegisterer) {
	reg.Register(ast.KindThematicBreak, func(w util.BufWriter, source []byte, n ast.Node, entering bool) (ast.WalkStatus, error) {
		_, _ = w.WriteString("<hr data-fail>")
		return ast.WalkStop, bufioErrNode
	})
}

// cfg: d = default, g = GFM + footnotes + typographer + unsafe + hard wraps + auto heading ids, f = default + a
// thematic-break renderer that returns an error
func bufioMarkdown(cfg string) goldmark.Markdown {
	switch cfg {
	case "g":
		return goldmark.New(goldmark.WithExtensions(extension.GFM, extension.Footnote, extension.Typographer, extension.DefinitionList),
			goldmark.WithParserOptions(parser.WithAutoHeadingID(), parser.WithAttribute()),
			goldmark.WithRendererOptions(html.WithUnsafe(), html.WithHardWraps(), html.WithXHTML()))
	case "f":
		return goldmark.New(goldmark.WithRendererOptions(renderer.WithNodeRenderers(util.Prioritized(failHR{}, 100))))
	default:
		return goldmark.New()
	}
}

// ---------- corpus ----------

func bufioGoldmarkDir() string {
	if d := os.Getenv("GOLDMARK_DIR"); d != "" {
		return d
	}
	return "/repo"
}

type bufDoc struct {
	src []byte
	cfg string
}

func loadBufioCorpus() (small []bufDoc, large []bufDoc) {
	dir := bufioGoldmarkDir()
	var all bytes.Buffer
	if b, err := os.ReadFile(filepath.Join(dir, "_test", "spec.json")); err == nil {
		var cases []struct {
			Markdown string `json:"markdown"`
		}
		if json.Unmarshal(b, &cases) == nil {
			for i, c := range cases {
				cfg := "d"
				if i%3 == 1 {
					cfg = "g"
				}
				small = append(small, bufDoc{[]byte(c.Markdown), cfg})
				all.WriteString(c.Markdown)
				all.WriteString("\n\n")
			}
		}
	}
	files, _ := filepath.Glob(filepath.Join(dir, "_test", "*.txt"))
	more, _ := filepath.Glob(filepath.Join(dir, "extension", "_test", "*.txt"))
	files = append(files, more...)
	sort.Strings(files)
	for _, f := range files {
		b, err := os.ReadFile(f)
		if err != nil {
			continue
		}
		large = append(large, bufDoc{b, "g"}) // the whole file as one document
		for i, blk := range strings.Split(string(b), "//= = = = = = = = = = = = = = = = = = = = = = = =//") {
			parts := strings.Split(blk, "//- - - - - - - - -//")
			if len(parts) >= 3 {
				cfg := "g"
				if i%2 == 1 {
					cfg = "d"
				}
				small = append(small, bufDoc{[]byte(strings.TrimPrefix(parts[1], "\n")), cfg})
			}
		}
	}
	if all.Len() > 0 {
		large = append(large, bufDoc{all.Bytes(), "d"}, bufDoc{append([]byte{}, all.Bytes()...), "g"})
	}
	return
}

// generated documents whose output is large or whose single writes straddle the 4096-byte buffer boundary
func genLargeDocs(rng *RNG, n int) []bufDoc {
	var docs []bufDoc
	rep := func(s string, k int) string { return strings.Repeat(s, k) }
	for _, k := range []int{4085, 4089, 4090, 4091, 4092, 4093, 4094, 4095, 4096, 4097, 8185, 8189, 8192} {
		// <p> + k letters, then a numeric reference rendered through WriteRune at the boundary
		docs = append(docs, bufDoc{[]byte(rep("a", k-3) + "&#233;&#x1F600;&#0;&amp;<b>\n"), "d"})
	}
	docs = append(docs,
		bufDoc{[]byte(rep("word ", 2000) + "\n"), "d"},                                  // one text segment > 8192
		bufDoc{[]byte("```\n" + rep("code line <&>\n", 700) + "```\n"), "d"},             // code block > 8192, line by line
		bufDoc{[]byte("<div>\n" + rep("<span>raw html</span>\n", 400) + "</div>\n"), "g"}, // raw HTML block lines
		bufDoc{[]byte(rep("* item *em* `c` [l](u \"t\")\n", 400)), "g"},
		bufDoc{[]byte(rep("> quote\n>\n", 300) + "\n" + rep("# h\n\n", 300)), "g"},
		bufDoc{[]byte(rep("|a|b|\n|-|-|\n|1|2|\n\n", 150)), "g"},
		bufDoc{[]byte(rep("é", 5000) + "\n"), "d"},
		bufDoc{[]byte("[" + rep("x", 5000) + "](/" + rep("y", 5000) + ")\n"), "d"},
		bufDoc{[]byte(rep("a", 100) + "\n\n***\n\n" + rep("b", 100) + "\n"), "f"},
		bufDoc{[]byte(rep("a", 5000) + "\n\n***\n\n" + rep("b", 100) + "\n"), "f"},
		bufDoc{[]byte("***\n"), "f"},
		bufDoc{[]byte(""), "d"},
		bufDoc{[]byte("\n"), "d"},
		bufDoc{[]byte("a\n"), "d"},
	)
	words := []string{"word", "*em*", "**strong**", "`code`", "[link](http://x/y?z=1&w=2)", "&amp;", "&#233;", "&#x1F600;", "<b>", "é", "日本語", "\\*", "![img](i.png)", "https://example.com", "~~s~~", "\"q\"", "--", "..."}
	for i := 0; i < n; i++ {
		var sb strings.Builder
		target := 3000 + rng.Intn(9000)
		for sb.Len() < target {
			switch rng.Intn(9) {
			case 0:
				sb.WriteString("\n\n" + rep("#", 1+rng.Intn(6)) + " ")
			case 1:
				sb.WriteString("\n\n- ")
			case 2:
				sb.WriteString("\n\n> ")
			case 3:
				sb.WriteString("\n\n```\n" + rep("x", rng.Intn(300)) + "\n```\n\n")
			case 4:
				sb.WriteString(rep("a", rng.Intn(1200)))
			default:
				sb.WriteString(words[rng.Intn(len(words))] + " ")
			}
		}
		sb.WriteString("\n")
		cfg := "d"
		if rng.Bool() {
			cfg = "g"
		}
		docs = append(docs, bufDoc{[]byte(sb.String()), cfg})
	}
	return docs
}

// record runs the real renderer on a fault-free destination through the recording BufWriter
func bufioRecordCalls(d bufDoc) (calls []string, out []byte, err error) {
	f, w := newFault("ok", 0, false)
	rec := &recBW{bw: bufio.NewWriterSize(w, 4096)}
	err = bufioMarkdown(d.cfg).Convert(d.src, rec)
	return rec.calls, f.acc, err
}

func bufioOffsets(rng *RNG, total int, allUpTo int, nStrat int) []int {
	set := map[int]bool{}
	add := func(k int) {
		if k >= 0 {
			set[k] = true
		}
	}
	if total <= allUpTo {
		for k := 0; k <= total+1; k++ {
			add(k)
		}
	} else {
		for _, k := range []int{0, 1, 2, 3, total - 2, total - 1, total, total + 1, total + 5000} {
			add(k)
		}
		for m := 4096; m <= total+4096; m += 4096 {
			for d := -5; d <= 5; d++ {
				if len(set) < nStrat*3/4 {
					add(m + d)
				}
			}
		}
		for len(set) < nStrat {
			add(rng.Intn(total + 2))
		}
	}
	var ks []int
	for k := range set {
		ks = append(ks, k)
	}
	sort.Ints(ks)
	return ks
}

func bufioKsArg(ks []int) string {
	var s []string
	for _, k := range ks {
		s = append(s, strconv.Itoa(k))
	}
	return strings.Join(s, ",")
}

func genBufio(tier string, rng *RNG, emit func(Case)) {
	small, large := loadBufioCorpus()
	nSmall, nGen, allUpTo, nStrat := 260, 12, 300, 64
	if tier == "thorough" {
		nSmall, nGen, allUpTo, nStrat = len(small), 60, 3000, 400
	}
	// a deterministic spread of the small corpus documents
	var docs []bufDoc
	if len(small) <= nSmall {
		docs = append(docs, small...)
	} else {
		step := float64(len(small)) / float64(nSmall)
		for i := 0; i < nSmall; i++ {
			docs = append(docs, small[int(float64(i)*step)])
		}
	}
	docs = append(docs, large...)
	docs = append(docs, genLargeDocs(rng, nGen)...)
	dests := []struct {
		dest string
		sw   string
	}{{"wrap", "0"}, {"wrap", "1"}, {"4096", "0"}, {"4096", "1"}, {"16", "0"}, {"3", "1"}, {"1", "0"}, {"64", "1"}, {"0", "0"}}
	for i, d := range docs {
		var calls []string
		var out []byte
		var err error
		func() {
			defer func() {
				if r := recover(); r != nil {
					err = fmt.Errorf("panic: %v", r)
				}
			}()
			calls, out, err = bufioRecordCalls(d)
		}()
		nodeErr := "-"
		if err != nil {
			if errors.Is(err, bufioErrNode) {
				nodeErr = strconv.Itoa(len(calls))
			} else {
				// fault-free conversion failed: leave it to Impl to report
				calls = nil
			}
		}
		_ = out
		ca := bufioCallsArg(calls)
		total := len(bufioCallBytes(ca))
		big := total > allUpTo
		for j, ds := range dests {
			// large documents: the two wrapped destinations, the 4096 buffer, and one rotating small buffer
			if big && j >= 3 && j != 3+(i%6) {
				continue
			}
			if len(ca) > 400000 && (ds.dest == "1" || ds.dest == "3") {
				continue // byte-at-a-time flushing of a huge document: the Go side is fine, the line is not worth it
			}
			ks := bufioOffsets(rng, total, allUpTo, nStrat)
			emit(Case{Op: "replay", Args: []string{ds.dest, ds.sw, "short", bufioKsArg(ks), nodeErr, ca, hx(d.src), d.cfg}})
		}
		emit(Case{Op: "replay", Args: []string{"wrap", "0", "always", "0", nodeErr, ca, hx(d.src), d.cfg}})
		emit(Case{Op: "replay", Args: []string{dests[2+i%7].dest, "1", "always", "0", nodeErr, ca, hx(d.src), d.cfg}})
		emit(Case{Op: "replay", Args: []string{dests[i%9].dest, dests[i%9].sw, "ok", "0", nodeErr, ca, hx(d.src), d.cfg}})
	}
}

func bufioErrCode(err error) string {
	switch {
	case err == nil:
		return "0"
	case err == bufioErrInjected:
		return "1"
	case err == io.ErrShortWrite:
		return "2"
	case err == bufioErrNode:
		return "3"
	}
	return "9"
}

func bufioFnv32(b []byte) uint32 {
	h := fnv.New32a()
	h.Write(b)
	return h.Sum32()
}

func bufioCallBytes(calls string) []byte {
	var out []byte
	if calls == "_" {
		return out
	}
	for _, c := range strings.Split(calls, ",") {
		if c[0] == 'r' {
			n, _ := strconv.Atoi(c[2:])
			out = append(out, []byte(string(rune(n)))...)
		} else {
			out = append(out, unhx(c[2:])...)
		}
	}
	return out
}

func implBufio(c Case) ImplResult {
	var r ImplResult
	dest, sw, mode, nodeErr, calls, cfg := c.Args[0], c.Args[1] == "1", c.Args[2], c.Args[4], c.Args[5], c.Args[7]
	src := unhx(c.Args[6])
	d := bufDoc{src, cfg}
	fail := func(clause, detail string) {
		r.Fails = append(r.Fails, OracleFail{"C14", clause, detail})
	}
	// fault-free reference output through plain Convert into a bytes.Buffer
	var ref bytes.Buffer
	refErr := bufioMarkdown(cfg).Convert(src, &ref)
	full := ref.Bytes()
	if nodeErr != "-" {
		if !errors.Is(refErr, bufioErrNode) {
			fail("node-error-lost", fmt.Sprintf("a node renderer returned an error but Convert returned %v", refErr))
		}
		full = bufioCallBytes(calls) // Render stops without flushing: compare with what the renderers wrote
	} else if refErr != nil {
		fail("no-fault-error", fmt.Sprintf("Convert into a bytes.Buffer returned %v", refErr))
	}
	// the recorded call sequence must be the one this source produces
	rc, _, _ := bufioRecordCalls(d)
	if bufioCallsArg(rc) != calls {
		r.Out = "seqdiff"
		return r
	}
	var outs []string
	hit := false
	for _, ks := range strings.Split(c.Args[3], ",") {
		k, _ := strconv.Atoi(ks)
		f, w := newFault(mode, k, sw)
		var err error
		buffered := "x"
		seqdiff := false
		func() {
			defer func() {
				if p := recover(); p != nil {
					fail("panic", fmt.Sprintf("dest=%s mode=%s k=%d: panic %v", dest, mode, k, p))
					err = fmt.Errorf("panic")
				}
			}()
			md := bufioMarkdown(cfg)
			if dest == "wrap" {
				err = md.Convert(src, w)
			} else {
				n, _ := strconv.Atoi(dest)
				rec := &recBW{bw: bufio.NewWriterSize(w, n)}
				err = md.Convert(src, rec)
				buffered = strconv.Itoa(rec.bw.Buffered())
				if bufioCallsArg(rec.calls) != calls {
					seqdiff = true
				}
			}
		}()
		where := fmt.Sprintf("dest=%s sw=%v mode=%s k=%d cfg=%s output=%d bytes", dest, sw, mode, k, cfg, len(full))
		// --- the property's own oracle ---
		if !bytes.HasPrefix(full, f.acc) {
			fail("accepted-not-prefix", fmt.Sprintf("%s: the %d bytes the writer accepted are not a prefix of the fault-free output", where, len(f.acc)))
		}
		if f.failed {
			if err == nil {
				fail("error-swallowed", where+": the writer returned an error but Convert returned nil")
			} else if nodeErr == "-" && !errors.Is(err, bufioErrInjected) {
				fail("error-replaced", fmt.Sprintf("%s: Convert returned %q which is not the writer's error", where, err))
			}
		} else if nodeErr == "-" {
			if err != nil {
				fail("spurious-error", fmt.Sprintf("%s: the writer never failed but Convert returned %q", where, err))
			}
			if !bytes.Equal(full, f.acc) {
				fail("incomplete-output", fmt.Sprintf("%s: the writer never failed but received %d bytes", where, len(f.acc)))
			}
		}
		if mode == "short" && nodeErr == "-" && k < len(full) && !f.failed {
			fail("error-swallowed", where+": output longer than the writer's capacity but the writer was never asked to take the rest")
		}
		if f.failed && len(f.acc) > 0 {
			hit = true
		}
		// the same fault through a buffer-like destination (oracle only; the model's destination has Write/WriteString)
		if dest == "wrap" && nodeErr == "-" {
			fb := &faultW{mode: mode, room: k}
			var errB error
			func() {
				defer func() {
					if p := recover(); p != nil {
						fail("panic", fmt.Sprintf("buffer-like destination mode=%s k=%d: panic %v", mode, k, p))
						errB = fmt.Errorf("panic")
					}
				}()
				errB = bufioMarkdown(cfg).Convert(src, faultBuf{fb})
			}()
			if !bytes.HasPrefix(full, fb.acc) {
				fail("accepted-not-prefix", fmt.Sprintf("%s (buffer-like destination): accepted bytes are not a prefix of the fault-free output", where))
			}
			if fb.failed && errB == nil {
				fail("error-swallowed", where+" (buffer-like destination with WriteByte/WriteString/WriteRune): the writer returned an error but Convert returned nil")
			} else if fb.failed && !errors.Is(errB, bufioErrInjected) {
				fail("error-replaced", fmt.Sprintf("%s (buffer-like destination): Convert returned %q", where, errB))
			}
			if !fb.failed && (errB != nil || !bytes.Equal(full, fb.acc)) {
				fail("incomplete-output", fmt.Sprintf("%s (buffer-like destination): no fault but err=%v, %d of %d bytes", where, errB, len(fb.acc), len(full)))
			}
		}
		if seqdiff {
			outs = append(outs, "seqdiff")
		} else {
			outs = append(outs, fmt.Sprintf("%d:%d:%s:%d:%s", len(f.acc), bufioFnv32(f.acc), bufioErrCode(err), f.calls, buffered))
		}
	}
	r.Out = strings.Join(outs, ",")
	if hit {
		r.Key = fmt.Sprintf("%s|%v|%x|%s", dest, sw, hashKey(string(src)), r.Out)
	}
	return r
}
