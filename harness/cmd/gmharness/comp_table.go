package main

// Component `table` (property C17 "every rendered table is rectangular").
//
//   transform   extension.NewTableParagraphTransformer().Transform on a hand-built paragraph whose Lines() are
//               chosen segments over a source; the resulting AST (table or not, alignments, rows, per-cell
//               alignment + line segment + recorded escaped-pipe positions, remaining paragraph lines) is
//               compared with GM.Model.Table.transform. Oracle: the C17 clauses on the tree.
//   render      same input; the Table node is rendered by the real TableHTMLRenderer and the tag skeleton is
//               compared with GM.Model.Table.renderSkeleton. Oracle: the C17 clauses on the HTML.
//   rendernodes a hand-built Table with an arbitrary child list (headers/rows in any order) rendered by the real
//               renderer vs. GM.Model.Table.renderNodes (ties the "keyed on sibling position" logic).
//   doc         ORACLE ONLY (no model): whole documents of pipe/dash/colon soup through goldmark.Convert with
//               the Table extension / GFM; C17 is checked on the real HTML and on the real AST.

import (
	"bytes"
	"fmt"
	"os"
	"reflect"
	"strconv"
	"strings"

	"github.com/yuin/goldmark"
	gast "github.com/yuin/goldmark/ast"
	"github.com/yuin/goldmark/extension"
	east "github.com/yuin/goldmark/extension/ast"
	"github.com/yuin/goldmark/parser"
	"github.com/yuin/goldmark/renderer/html"
	"github.com/yuin/goldmark/text"
)

func init() {
	register(&Component{
		Name: "table",
		Rule: "transform/render: every paragraph in the enumerated scope (exhaustive) + random longer paragraphs with padding, tabs, CR/FF and unaligned segments; " +
			"doc: random pipe/dash/colon soup documents (tables in lists, block quotes, after paragraph text, escaped pipes, code spans) checked by the C17 oracle on HTML and AST; " +
			"non-trivial = a table was produced; distinct = distinct (alignments, row widths written in the source, paragraph remainder) shapes",
		Gen:        genTable,
		Impl:       implTable,
		Exhaustive: true,
		Scope: func(tier string) string {
			if tier == "thorough" {
				return "alphabet {|,\\,`,a,space,-,:}: all 2-line paragraphs header<=4 x delimiter<=5 over {|,-,:,space}, header=5 x delimiter<=3 (and <=3 x <=3 over the full alphabet); " +
					"all body lines <=6 and header lines <=6 against 6 fixed header/delimiter pairs of width 1-3; all 3-line paragraphs text<=2, header<=2, any delimiter line <=4 over {|,-,:,space}; " +
					"all child lists of <=3 header/row nodes with <=2 cells x 3 align methods; 400k random paragraphs; 200k random documents x 4 configs"
			}
			return "alphabet {|,\\,`,a,space,-,:}: all 2-line paragraphs header<=4 x delimiter<=4 over {|,-,:,space} (and <=3 x <=3 over the full alphabet); " +
				"all body lines <=5 and header lines <=5 against 6 fixed header/delimiter pairs of width 1-3; all 3-line paragraphs text<=1, header<=2, any delimiter line <=4 over {|,-,:,space}; " +
				"all child lists of <=3 header/row nodes with <=2 cells x 3 align methods; 60k random paragraphs; 30k random documents x 4 configs"
		},
	})
}

var tableDebug = os.Getenv("VERIF_TABLE_DEBUG") != ""

// ---------- real markdown instances ----------

var (
	mdTableStyle = goldmark.New(goldmark.WithExtensions(extension.Table))
	mdTableAttr  = goldmark.New(goldmark.WithExtensions(extension.NewTable(extension.WithTableCellAlignMethod(extension.TableCellAlignAttribute))))
	mdTableNone  = goldmark.New(goldmark.WithExtensions(extension.NewTable(extension.WithTableCellAlignMethod(extension.TableCellAlignNone))))
	mdTableXHTML = goldmark.New(goldmark.WithExtensions(extension.Table), goldmark.WithRendererOptions(html.WithXHTML()))
	mdGFM        = goldmark.New(goldmark.WithExtensions(extension.GFM))
)

func tableMD(name string) goldmark.Markdown {
	switch name {
	case "style", "table":
		return mdTableStyle
	case "attr", "table-attr":
		return mdTableAttr
	case "none":
		return mdTableNone
	case "table-xhtml":
		return mdTableXHTML
	case "gfm":
		return mdGFM
	}
	return nil
}

// ---------- segments ----------

func parseSegs(s string) []text.Segment {
	if s == "-" || s == "" {
		return nil
	}
	var out []text.Segment
	for _, p := range strings.Split(s, ",") {
		f := strings.Split(p, ":")
		a, _ := strconv.Atoi(f[0])
		b, _ := strconv.Atoi(f[1])
		c, _ := strconv.Atoi(f[2])
		out = append(out, text.NewSegmentPadding(a, b, c))
	}
	return out
}

func segsStr(segs []text.Segment) string {
	if len(segs) == 0 {
		return "-"
	}
	var parts []string
	for _, s := range segs {
		parts = append(parts, fmt.Sprintf("%d:%d:%d", s.Start, s.Stop, s.Padding))
	}
	return strings.Join(parts, ",")
}

func alignCh(a east.Alignment) string {
	switch a {
	case east.AlignLeft:
		return "l"
	case east.AlignRight:
		return "r"
	case east.AlignCenter:
		return "c"
	case east.AlignNone:
		return "n"
	}
	return "?"
}

// escapedPositions reads the (unexported) escaped-pipe list the transformer leaves in the parser context.
func escapedPositions(pc parser.Context) map[*east.TableCell][]int {
	res := map[*east.TableCell][]int{}
	for k := parser.ContextKey(0); k <= parser.ContextKeyMax; k++ {
		v := pc.Get(k)
		if v == nil {
			continue
		}
		rv := reflect.ValueOf(v)
		if rv.Type().String() != "[]*extension.escapedPipeCell" {
			continue
		}
		for i := 0; i < rv.Len(); i++ {
			e := rv.Index(i).Elem()
			cell, _ := e.FieldByName("Cell").Interface().(*east.TableCell)
			pos := e.FieldByName("Pos")
			for j := 0; j < pos.Len(); j++ {
				res[cell] = append(res[cell], int(pos.Index(j).Int()))
			}
		}
	}
	return res
}

// runTransform builds Document > Paragraph(lines) and runs the real transformer.
func runTransform(src []byte, segs []text.Segment) (doc *gast.Document, para *gast.Paragraph, table *east.Table, esc map[*east.TableCell][]int) {
	doc = gast.NewDocument()
	para = gast.NewParagraph()
	doc.AppendChild(doc, para)
	for _, s := range segs {
		para.Lines().Append(s)
	}
	reader := text.NewReader(src)
	pc := parser.NewContext()
	extension.NewTableParagraphTransformer().Transform(para, reader, pc)
	for c := doc.FirstChild(); c != nil; c = c.NextSibling() {
		if t, ok := c.(*east.Table); ok {
			table = t
		}
	}
	esc = escapedPositions(pc)
	return
}

func rowString(row gast.Node, esc map[*east.TableCell][]int) string {
	var cells []string
	for c := row.FirstChild(); c != nil; c = c.NextSibling() {
		tc, ok := c.(*east.TableCell)
		if !ok {
			cells = append(cells, "?"+c.Kind().String())
			continue
		}
		s := alignCh(tc.Alignment)
		switch tc.Lines().Len() {
		case 0:
			s += "_"
		case 1:
			l := tc.Lines().At(0)
			s += fmt.Sprintf("%d:%d", l.Start, l.Stop)
			if l.Padding != 0 {
				s += fmt.Sprintf("p%d", l.Padding)
			}
		default:
			s += fmt.Sprintf("lines%d", tc.Lines().Len())
		}
		if ps := esc[tc]; len(ps) > 0 {
			var ss []string
			for _, p := range ps {
				ss = append(ss, strconv.Itoa(p))
			}
			s += "e" + strings.Join(ss, ".")
		}
		cells = append(cells, s)
	}
	return strings.Join(cells, ";")
}

func paraLines(doc *gast.Document, para *gast.Paragraph) string {
	if para.Parent() == nil {
		return "-"
	}
	var segs []text.Segment
	for i := 0; i < para.Lines().Len(); i++ {
		segs = append(segs, para.Lines().At(i))
	}
	return segsStr(segs)
}

// ---------- the C17 oracle on a tree ----------

func trimSpaceTab(b []byte) []byte { return bytes.Trim(b, " \t\n\r") }

// goldmarkCellCount: the number of cells a row line denotes, written independently of parseRow as a count:
// trim, drop one leading and one trailing pipe, then one cell per maximal stretch ended by an unescaped pipe.
func rowCellCount(line []byte) int {
	line = trimSpaceTab(line)
	lo, hi := 0, len(line)
	if len(line) > 0 && line[0] == '|' {
		lo = 1
	}
	if len(line) > 0 && line[len(line)-1] == '|' {
		hi--
	}
	if lo >= hi {
		return 0
	}
	n := 1
	for k := lo; k < hi; k++ {
		if line[k] == '|' && !(k > 0 && line[k-1] == '\\') && k+1 < hi {
			n++
		}
	}
	return n
}

// checkTableTree checks the C17 clauses on one real Table node. Returns failures and (ncols, nrows).
func checkTableTree(t *east.Table, where string) (fails []OracleFail, widths []int) {
	fail := func(clause, f string, a ...interface{}) {
		fails = append(fails, OracleFail{Property: "C17", Clause: clause, Detail: where + ": " + fmt.Sprintf(f, a...)})
	}
	n := len(t.Alignments)
	if n == 0 {
		fail("no-columns", "table without columns")
	}
	idx := 0
	headers := 0
	for c := t.FirstChild(); c != nil; c = c.NextSibling() {
		isHeader := c.Kind() == east.KindTableHeader
		if isHeader {
			headers++
			if idx != 0 {
				fail("one-header", "TableHeader at child index %d", idx)
			}
		} else if c.Kind() == east.KindTableRow {
			if idx == 0 {
				fail("one-header", "first child of the table is a TableRow")
			}
		} else {
			fail("one-header", "child %d of the table is a %s", idx, c.Kind().String())
		}
		cnt := 0
		padSeen := false
		for cell := c.FirstChild(); cell != nil; cell = cell.NextSibling() {
			tc, ok := cell.(*east.TableCell)
			if !ok {
				fail("row-width", "row %d child %d is a %s", idx, cnt, cell.Kind().String())
				cnt++
				continue
			}
			written := tc.Lines().Len() > 0
			if written {
				if padSeen {
					fail("row-width", "row %d: cell %d written in the source follows a padding cell", idx, cnt)
				}
				if cnt < n && tc.Alignment != t.Alignments[cnt] {
					fail("column-align", "row %d cell %d has alignment %s, column has %s", idx, cnt, tc.Alignment.String(), t.Alignments[cnt].String())
				}
			} else {
				padSeen = true
				if isHeader {
					fail("header-count-mismatch", "header cell %d is not written in the source (header has fewer cells than the delimiter row)", cnt)
				}
				if tc.HasChildren() {
					fail("row-width", "row %d: padding cell %d has content", idx, cnt)
				}
			}
			cnt++
		}
		if cnt != c.ChildCount() {
			fail("row-width", "row %d: ChildCount()=%d but %d children", idx, c.ChildCount(), cnt)
		}
		if cnt != n {
			if isHeader {
				fail("header-count-mismatch", "header has %d cells, delimiter row has %d", cnt, n)
			} else {
				fail("row-width", "row %d has %d cells, table has %d columns", idx, cnt, n)
			}
		}
		widths = append(widths, cnt)
		idx++
	}
	if headers != 1 {
		fail("one-header", "%d header rows", headers)
	}
	return
}

// ---------- HTML skeleton ----------

type htmlTok struct {
	name  string // table thead tbody tr th td
	close bool
	align string // l r c n
	pos   int
	end   int
}

func attrAlign(attrs string) string {
	al := "n"
	for _, key := range []string{`style="text-align:`, `align="`} {
		if i := strings.Index(attrs, key); i >= 0 {
			rest := attrs[i+len(key):]
			switch {
			case strings.HasPrefix(rest, "left"):
				al = "l"
			case strings.HasPrefix(rest, "right"):
				al = "r"
			case strings.HasPrefix(rest, "center"):
				al = "c"
			default:
				al = "?"
			}
		}
	}
	return al
}

func tableToks(out []byte) []htmlTok {
	var toks []htmlTok
	for i := 0; i < len(out); i++ {
		if out[i] != '<' {
			continue
		}
		j := i + 1
		closeTag := false
		if j < len(out) && out[j] == '/' {
			closeTag = true
			j++
		}
		k := j
		for k < len(out) && (out[k] >= 'a' && out[k] <= 'z') {
			k++
		}
		name := string(out[j:k])
		switch name {
		case "table", "thead", "tbody", "tr", "th", "td":
		default:
			continue
		}
		// attributes up to '>' (quotes respected)
		e := k
		inq := false
		for e < len(out) && (inq || out[e] != '>') {
			if out[e] == '"' {
				inq = !inq
			}
			e++
		}
		if k < len(out) && !(out[k] == '>' || out[k] == ' ') {
			continue
		}
		t := htmlTok{name: name, close: closeTag, pos: i, end: e + 1, align: "n"}
		if !closeTag {
			t.align = attrAlign(string(out[k:e]))
		}
		toks = append(toks, t)
		i = e
	}
	return toks
}

func skeletonString(toks []htmlTok) string {
	code := map[string]string{"table": "T", "thead": "H", "tbody": "B", "tr": "R", "th": "h", "td": "d"}
	var parts []string
	for _, t := range toks {
		c := code[t.name]
		if t.close {
			parts = append(parts, c+">")
		} else if t.name == "th" || t.name == "td" {
			parts = append(parts, "<"+c+t.align)
		} else {
			parts = append(parts, "<"+c)
		}
	}
	return strings.Join(parts, " ")
}

type htmlTable struct {
	head  []string // alignment letters of the th cells
	rows  [][]string
	empty [][]bool
}

// checkTableHTML recognises  table thead tr th* /tr /thead [tbody (tr td* /tr)+ /tbody] /table  for every
// table in the output and checks widths/alignments. checkAlign=false when the renderer was told to omit them.
func checkTableHTML(out []byte, checkAlign bool) (fails []OracleFail, tables []htmlTable) {
	toks := tableToks(out)
	fail := func(clause, f string, a ...interface{}) {
		fails = append(fails, OracleFail{Property: "C17", Clause: clause, Detail: fmt.Sprintf(f, a...)})
	}
	i := 0
	peek := func(name string, closeTag bool) bool {
		return i < len(toks) && toks[i].name == name && toks[i].close == closeTag
	}
	expect := func(name string, closeTag bool, tno int) bool {
		if peek(name, closeTag) {
			i++
			return true
		}
		got := "end of output"
		if i < len(toks) {
			got = toks[i].name
			if toks[i].close {
				got = "/" + got
			}
		}
		want := name
		if closeTag {
			want = "/" + name
		}
		fail("html-structure", "table %d: expected <%s>, found <%s> (skeleton: %s)", tno, want, got, skeletonString(toks))
		return false
	}
	cells := func(name string) (al []string, empty []bool) {
		for peek(name, false) {
			open := toks[i]
			i++
			if !peek(name, true) {
				return
			}
			al = append(al, open.align)
			empty = append(empty, toks[i].pos == open.end)
			i++
		}
		return
	}
	tno := 0
	for i < len(toks) {
		tno++
		var t htmlTable
		ok := expect("table", false, tno) && expect("thead", false, tno) && expect("tr", false, tno)
		if !ok {
			return
		}
		t.head, _ = cells("th")
		if !(expect("tr", true, tno) && expect("thead", true, tno)) {
			return
		}
		if peek("tbody", false) {
			i++
			if !peek("tr", false) {
				fail("html-structure", "table %d: empty <tbody>", tno)
			}
			for peek("tr", false) {
				i++
				al, em := cells("td")
				t.rows = append(t.rows, al)
				t.empty = append(t.empty, em)
				if !expect("tr", true, tno) {
					return
				}
			}
			if !expect("tbody", true, tno) {
				return
			}
		}
		if !expect("table", true, tno) {
			return
		}
		if len(t.head) == 0 {
			fail("no-columns", "table %d: header row without cells", tno)
		}
		for r, row := range t.rows {
			if len(row) != len(t.head) {
				fail("row-width", "table %d: body row %d has %d <td>, header has %d <th>", tno, r, len(row), len(t.head))
				continue
			}
			if !checkAlign {
				continue
			}
			for c := range row {
				if row[c] != t.head[c] && !(row[c] == "n" && t.empty[r][c]) {
					fail("column-align", "table %d: body row %d cell %d aligned %s, header cell aligned %s", tno, r, c, row[c], t.head[c])
				}
			}
		}
		tables = append(tables, t)
	}
	return
}

// ---------- Impl ----------

func implTable(c Case) ImplResult {
	switch c.Op {
	case "transform", "render":
		src := unhx(c.Args[0])
		segs := parseSegs(c.Args[1])
		_, para, table, esc := runTransform(src, segs)
		var res ImplResult
		if table == nil {
			if c.Op == "render" {
				res.Out = "none"
			} else {
				res.Out = "none para=" + paraLines(nil, para)
			}
			return res
		}
		fails, widths := checkTableTree(table, "transform")
		res.Fails = fails
		// header guard, independently: the header line denotes as many cells as the delimiter row
		hdrIdx := 0 // the header is the line after the lines that remain in the paragraph
		if para.Parent() != nil {
			hdrIdx = para.Lines().Len()
		}
		if hdrIdx >= 0 && hdrIdx < len(segs) {
			hl := segs[hdrIdx]
			if k := rowCellCount(src[hl.Start:hl.Stop]); k != len(table.Alignments) {
				res.Fails = append(res.Fails, OracleFail{Property: "C17", Clause: "header-count-mismatch",
					Detail: fmt.Sprintf("header line %q denotes %d cells, the delimiter row has %d columns, yet a table was made", src[hl.Start:hl.Stop], k, len(table.Alignments))})
			}
			if hdrIdx+1 < len(segs) {
				dl := segs[hdrIdx+1]
				if !bytes.Contains(src[dl.Start:dl.Stop], []byte("-")) {
					res.Fails = append(res.Fails, OracleFail{Property: "C17", Clause: "delimiter-without-dash",
						Detail: fmt.Sprintf("delimiter line %q has no '-'", src[dl.Start:dl.Stop])})
				}
			}
		}
		if c.Op == "transform" {
			var al []string
			for _, a := range table.Alignments {
				al = append(al, alignCh(a))
			}
			var rows []string
			hdr := ""
			first := true
			for r := table.FirstChild(); r != nil; r = r.NextSibling() {
				if first {
					hdr = rowString(r, esc)
					if r.Kind() != east.KindTableHeader {
						hdr = "?" + hdr
					}
					first = false
					continue
				}
				rs := rowString(r, esc)
				if r.Kind() != east.KindTableRow {
					rs = "?" + rs
				}
				rows = append(rows, rs)
			}
			rowsS := "-"
			if len(rows) > 0 {
				rowsS = strings.Join(rows, "/")
			}
			res.Out = fmt.Sprintf("table al=%s para=%s hdr=%s rows=%s", strings.Join(al, ""), paraLines(nil, para), hdr, rowsS)
			res.Key = fmt.Sprintf("%s|%v|%d", strings.Join(al, ""), writtenWidths(table), len(segs)-len(widths)-1)
			return res
		}
		md := tableMD(c.Args[2])
		var buf bytes.Buffer
		if err := md.Renderer().Render(&buf, src, table); err != nil {
			res.Out = "error:" + err.Error()
			return res
		}
		res.Out = skeletonString(tableToks(buf.Bytes()))
		hf, _ := checkTableHTML(buf.Bytes(), c.Args[2] != "none")
		res.Fails = append(res.Fails, hf...)
		res.Key = res.Out
		return res
	case "rendernodes":
		t := east.NewTable()
		if c.Args[0] != "-" {
			for _, nd := range strings.Split(c.Args[0], ".") {
				row := east.NewTableRow(nil)
				for _, ch := range nd[1:] {
					cell := east.NewTableCell()
					switch ch {
					case 'l':
						cell.Alignment = east.AlignLeft
					case 'r':
						cell.Alignment = east.AlignRight
					case 'c':
						cell.Alignment = east.AlignCenter
					}
					row.AppendChild(row, cell)
				}
				if nd[0] == 'H' {
					t.AppendChild(t, east.NewTableHeader(row))
				} else {
					t.AppendChild(t, row)
				}
			}
		}
		var buf bytes.Buffer
		if err := tableMD(c.Args[1]).Renderer().Render(&buf, nil, t); err != nil {
			return ImplResult{Out: "error:" + err.Error()}
		}
		out := skeletonString(tableToks(buf.Bytes()))
		return ImplResult{Out: out, Key: out}
	case "doc":
		return implTableDoc(unhx(c.Args[0]), c.Args[1])
	}
	return ImplResult{Out: "bad-op"}
}

func writtenWidths(t *east.Table) []int {
	var w []int
	for r := t.FirstChild(); r != nil; r = r.NextSibling() {
		n := 0
		for c := r.FirstChild(); c != nil; c = c.NextSibling() {
			if tc, ok := c.(*east.TableCell); ok && tc.Lines().Len() > 0 {
				n++
			}
		}
		w = append(w, n)
	}
	return w
}

func implTableDoc(src []byte, cfg string) ImplResult {
	md := tableMD(cfg)
	res := ImplResult{NoModel: true, Out: "doc"}
	doc := md.Parser().Parse(text.NewReader(src))
	var astShapes []string
	tno := 0
	_ = gast.Walk(doc, func(n gast.Node, entering bool) (gast.WalkStatus, error) {
		if !entering {
			return gast.WalkContinue, nil
		}
		if t, ok := n.(*east.Table); ok {
			tno++
			fails, widths := checkTableTree(t, fmt.Sprintf("ast table %d", tno))
			res.Fails = append(res.Fails, fails...)
			path := ""
			for p := n.Parent(); p != nil; p = p.Parent() {
				path = p.Kind().String() + ">" + path
			}
			if n.PreviousSibling() != nil && n.PreviousSibling().Kind() == gast.KindParagraph {
				path += "afterP"
			}
			astShapes = append(astShapes, path+fmt.Sprint(widths))
			if tableDebug {
				fmt.Fprintln(os.Stderr, "TABLE", cfg, path, widths)
			}
			return gast.WalkSkipChildren, nil
		}
		return gast.WalkContinue, nil
	})
	var buf bytes.Buffer
	if err := md.Renderer().Render(&buf, src, doc); err != nil {
		res.Fails = append(res.Fails, OracleFail{Property: "C17", Clause: "render-error", Detail: err.Error()})
		return res
	}
	hf, tables := checkTableHTML(buf.Bytes(), true)
	res.Fails = append(res.Fails, hf...)
	var htmlShapes []string
	for _, t := range tables {
		w := []int{len(t.head)}
		for _, r := range t.rows {
			w = append(w, len(r))
		}
		htmlShapes = append(htmlShapes, fmt.Sprint(w))
	}
	var astW []string
	for _, a := range astShapes {
		astW = append(astW, a[strings.Index(a, "["):])
	}
	if len(hf) == 0 && strings.Join(astW, ";") != strings.Join(htmlShapes, ";") {
		res.Fails = append(res.Fails, OracleFail{Property: "C17", Clause: "ast-html-mismatch",
			Detail: fmt.Sprintf("tables in the AST %v, tables in the HTML %v", astW, htmlShapes)})
	}
	if len(astShapes) > 0 {
		res.Key = cfg + "|" + strings.Join(astShapes, ";")
	}
	return res
}

// ---------- generators ----------

var tableAlpha = syms("|", "\\", "`", "a", " ", "-", ":")
var delimAlpha = syms("|", "-", ":", " ")

func enumNonEmpty(alpha [][]byte, n int) [][]byte {
	var out [][]byte
	enumStrings(alpha, n, func(b []byte) {
		if len(b) > 0 {
			out = append(out, b)
		}
	})
	return out
}

// paragraph over whole lines: source = lines joined by \n (+ final \n), one segment per line incl. its newline
func linesCase(op string, lines [][]byte, finalNL bool, extra ...string) Case {
	var src []byte
	var segs []text.Segment
	for i, l := range lines {
		st := len(src)
		src = append(src, l...)
		if i < len(lines)-1 || finalNL {
			src = append(src, '\n')
		}
		segs = append(segs, text.NewSegment(st, len(src)))
	}
	return Case{Op: op, Args: append([]string{hx(src), segsStr(segs)}, extra...)}
}

var fixedPairs = [][2]string{
	{"a", "-"}, {"a|a", ":-|-:"}, {"|a|a|", "|:-:|-|"}, {"a|a|a", "-|:-|-:"}, {"|a|`|a|", "|-|-|-|"}, {"a\\|a|a", "-|-"},
}

var tableFrags = syms("|", "|", "|", "-", "-", "--", "---", ":", ":-", "-:", ":-:", " ", " ", "a", "b", "\\", "\\|", "`", "``", "`a|b`", "`a\\|b`",
	"\t", "*", "_", "[a](b)", "<b>", "&amp;", "\\\\|", "|-|-|", "| a | b |", "é")

var tableLineStarts = []string{"", "", "", "", "> ", "- ", "  ", "1. ", "    ", "   ", ">> ", "- > ", "* ", "\t"}

func randTableLine(rng *RNG, maxFrags int) []byte {
	switch rng.Intn(10) {
	case 0, 1, 2: // a plausible delimiter row
		n := 1 + rng.Intn(4)
		var b []byte
		if rng.Bool() {
			b = append(b, '|')
		}
		for i := 0; i < n; i++ {
			if i > 0 {
				b = append(b, '|')
			}
			b = append(b, []byte(rng.Pick([]string{"-", "---", ":-", "-:", ":-:", " - ", " :--", "--: ", ":", "", "- -"}))...)
		}
		if rng.Bool() {
			b = append(b, '|')
		}
		return b
	case 3, 4, 5: // a plausible row
		n := 1 + rng.Intn(5)
		var b []byte
		if rng.Bool() {
			b = append(b, '|')
		}
		for i := 0; i < n; i++ {
			if i > 0 {
				b = append(b, '|')
			}
			b = append(b, []byte(rng.Pick([]string{"a", " b ", "", " ", "`c`", "`d|e`", "`f\\|g`", "h\\|i", "\\", "*j*", "k\\", "`", "``l|``"}))...)
		}
		if rng.Bool() {
			b = append(b, '|')
		}
		return b
	}
	return randString(rng, tableFrags, maxFrags)
}

var tableCellFrags = []string{"a", " b ", "", " ", "`c`", "`d|e`", "`f\\|g`", "h\\|i", "\\", "*j*", "k\\", "`", "``l|``", "[m](n)", "<b>", "&amp;", ":-", "--", "\\\\|", "*x", "é", "\t"}

func randRow(rng *RNG, n int) []byte {
	var b []byte
	lead, trail := rng.Chance(60), rng.Chance(60)
	if lead {
		b = append(b, '|')
	}
	for i := 0; i < n; i++ {
		if i > 0 {
			b = append(b, '|')
		}
		b = append(b, rng.Pick(tableCellFrags)...)
	}
	if trail {
		b = append(b, '|')
	}
	return b
}

// randTableDoc: a table-shaped block (text lines, header, delimiter, rows of any width) in a random container.
func randTableDoc(rng *RNG) []byte {
	ncols := 1 + rng.Intn(4)
	var lines [][]byte
	for k := rng.Intn(3); k > 0; k-- {
		lines = append(lines, []byte(rng.Pick([]string{"text", "a | b", "some *text*", "x|y|z", "-", "| q |"})))
	}
	h := ncols
	if rng.Chance(15) {
		h = ncols + 1 - 2*rng.Intn(2)
	}
	lines = append(lines, randRow(rng, h))
	var d []byte
	if rng.Chance(60) {
		d = append(d, '|')
	}
	for i := 0; i < ncols; i++ {
		if i > 0 {
			d = append(d, '|')
		}
		d = append(d, rng.Pick([]string{"-", "---", ":-", "-:", ":-:", " - ", " :--", "--: ", " :-: "})...)
	}
	if rng.Chance(60) {
		d = append(d, '|')
	}
	lines = append(lines, d)
	for k := rng.Intn(5); k > 0; k-- {
		lines = append(lines, randRow(rng, rng.Intn(ncols+3)))
	}
	first := rng.Pick([]string{"", "", "", "> ", "- ", "1. ", ">> ", "- > ", "> - ", "  ", "   ", "* ", "- - "})
	cont := first
	if strings.ContainsAny(first, "-*1") {
		cont = strings.Map(func(r rune) rune {
			if r == '>' {
				return '>'
			}
			return ' '
		}, first)
	}
	var src []byte
	for i, l := range lines {
		if i == 0 {
			src = append(src, first...)
		} else if rng.Chance(92) {
			src = append(src, cont...)
		} // else: lazy continuation line
		src = append(src, l...)
		if i < len(lines)-1 || rng.Chance(70) {
			src = append(src, '\n')
		}
	}
	if rng.Chance(30) {
		src = append(src, "\nafter\n"...)
	}
	return src
}

func genTable(tier string, rng *RNG, emit func(Case)) {
	thorough := tier == "thorough"
	// NewRNG(seed) and NewRNG(seed+1) are the same SplitMix64 stream shifted by one step, and a generator that
	// consumes a variable number of draws per case re-synchronises after a few cases; forking decorrelates seeds.
	rng = rng.Fork()
	// regression inputs
	emit(linesCase("transform", [][]byte{[]byte("a"), []byte("|-|-|")}, true))
	emit(Case{Op: "doc", Args: []string{hx([]byte("a\n|-|-|\n")), "table"}})
	{ // one very wide table with many short rows: more than half a million padding cells in a single table
		cols, rows := 1100, 520
		var sb strings.Builder
		sb.WriteString("|" + strings.Repeat("h|", cols) + "\n|" + strings.Repeat("-|", cols) + "\n")
		for i := 0; i < rows; i++ {
			sb.WriteString("|x|\n")
		}
		emit(Case{Op: "doc", Args: []string{hx([]byte(sb.String())), "table"}})
	}
	emit(Case{Op: "doc", Args: []string{hx([]byte("a\n|-|-|\nx|y\n")), "gfm"}})

	delimMax, bodyMax, delim3, textMax := 4, 5, 4, 1
	nrand, ndoc := 60000, 30000
	if thorough {
		delimMax, bodyMax, delim3, textMax = 5, 6, 4, 2
		nrand, ndoc = 400000, 200000
	}
	// (a) header x delimiter
	delims4 := enumNonEmpty(delimAlpha, delimMax)
	for _, h := range enumNonEmpty(tableAlpha, 4) {
		for _, d := range delims4 {
			emit(linesCase("transform", [][]byte{h, d}, true))
		}
	}
	if thorough {
		delims3 := enumNonEmpty(delimAlpha, 3)
		for _, h := range enumNonEmpty(tableAlpha, 5) {
			if len(h) == 5 {
				for _, d := range delims3 {
					emit(linesCase("transform", [][]byte{h, d}, true))
				}
			}
		}
	}
	full3 := enumNonEmpty(tableAlpha, 3)
	for _, h := range full3 {
		for _, d := range full3 {
			emit(linesCase("transform", [][]byte{h, d}, true))
		}
	}
	// (b) body lines / header lines against fixed pairs
	for _, l := range enumNonEmpty(tableAlpha, bodyMax) {
		for pi, p := range fixedPairs {
			emit(linesCase("transform", [][]byte{[]byte(p[0]), []byte(p[1]), l}, true))
			emit(linesCase("transform", [][]byte{l, []byte(p[1])}, true))
			if len(l) <= 4 {
				emit(linesCase("render", [][]byte{[]byte(p[0]), []byte(p[1]), l}, true, []string{"style", "attr", "none"}[pi%3]))
			}
		}
	}
	// (c) text before the table
	short := enumNonEmpty(tableAlpha, 2)
	for _, d := range enumNonEmpty(delimAlpha, delim3) {
		for _, t := range enumNonEmpty(tableAlpha, textMax) {
			for _, h := range short {
				emit(linesCase("transform", [][]byte{t, h, d}, true))
			}
		}
	}
	// (d) arbitrary child lists
	var nodes []string
	for _, k := range []string{"H", "R"} {
		enumStrings(syms("l", "n"), 2, func(b []byte) { nodes = append(nodes, k+string(b)) })
	}
	var shapes []string
	shapes = append(shapes, "-")
	for _, a := range nodes {
		shapes = append(shapes, a)
		for _, b := range nodes {
			shapes = append(shapes, a+"."+b)
			for _, c := range nodes {
				shapes = append(shapes, a+"."+b+"."+c)
			}
		}
	}
	for _, s := range shapes {
		for _, m := range []string{"style", "attr", "none"} {
			emit(Case{Op: "rendernodes", Args: []string{s, m}})
		}
	}
	// (e) random paragraphs: longer lines, CR / FF / tabs, padding, segments not aligned with lines
	for i := 0; i < nrand; i++ {
		nl := 2 + rng.Intn(4)
		var src []byte
		var segs []text.Segment
		if rng.Chance(20) {
			src = append(src, randString(rng, tableFrags, 3)...)
		}
		for j := 0; j < nl; j++ {
			st := len(src)
			var l []byte
			for len(l) == 0 {
				l = randTableLine(rng, 8)
			}
			if rng.Chance(10) {
				l = append([]byte(rng.Pick([]string{" ", "  ", "   ", "    ", "\t", " \t"})), l...)
			}
			if rng.Chance(10) {
				l = append(l, []byte(rng.Pick([]string{" ", "\t", "\r", "\f", "  "}))...)
			}
			src = append(src, l...)
			if j < nl-1 || rng.Chance(80) {
				src = append(src, '\n')
			}
			seg := text.NewSegment(st, len(src))
			if rng.Chance(8) && seg.Stop-seg.Start > 1 {
				seg.Start += rng.Intn(seg.Stop - seg.Start - 1)
			}
			if rng.Chance(8) {
				seg.Padding = 1 + rng.Intn(4)
			}
			segs = append(segs, seg)
		}
		op := "transform"
		args := []string{hx(src), segsStr(segs)}
		if i%5 == 0 {
			op = "render"
			args = append(args, []string{"style", "attr", "none"}[rng.Intn(3)])
		}
		emit(Case{Op: op, Args: args})
	}
	// (f) documents (oracle only)
	cfgs := []string{"table", "gfm", "table-xhtml", "table-attr"}
	for i := 0; i < ndoc; i++ {
		var src []byte
		if i%2 == 0 {
			src = randTableDoc(rng)
			if tableDebug && i < 4 {
				fmt.Fprintf(os.Stderr, "GEN %q\n", src)
			}
			for _, cfg := range cfgs {
				emit(Case{Op: "doc", Args: []string{hx(src), cfg}})
			}
			continue
		}
		nl := 1 + rng.Intn(8)
		prefix := ""
		for j := 0; j < nl; j++ {
			if rng.Chance(35) {
				prefix = rng.Pick(tableLineStarts)
			}
			if rng.Chance(8) {
				src = append(src, '\n') // blank line
			}
			src = append(src, prefix...)
			if strings.HasPrefix(prefix, "- ") || strings.HasPrefix(prefix, "1. ") || strings.HasPrefix(prefix, "* ") {
				prefix = strings.Repeat(" ", len(prefix)) // continuation lines of the list item
			}
			src = append(src, randTableLine(rng, 6)...)
			if j < nl-1 || rng.Chance(70) {
				src = append(src, '\n')
			}
		}
		for _, cfg := range cfgs {
			emit(Case{Op: "doc", Args: []string{hx(src), cfg}})
		}
	}
}
