package main

// Component `util`: the exported byte transformers of util/util.go and html.IsDangerousURL, compared with
// GM.Model.Util; plus the C19 laws evaluated directly on the implementation's outputs (oracle) and the
// C12 "input slice untouched" check on every call.

import (
	"bytes"
	"math/big"
	"fmt"
	"strconv"
	"unicode/utf8"

	"github.com/yuin/goldmark/renderer/html"
	"github.com/yuin/goldmark/util"
)

func init() {
	register(&Component{
		Name:       "util",
		Rule:       "all strings of length <= N over a per-function alphabet (exhaustive) + random longer strings from one SplitMix64 stream; a case is non-trivial when the function's output differs from its input (or the predicate is true); distinct = distinct (op, input)",
		Gen:        genUtil,
		Impl:       implUtil,
		Exhaustive: true,
		Scope: func(tier string) string {
			if tier == "thorough" {
				return "exhaustive length<=5 (13-15 symbol alphabets) per function + every single byte (alone and in context) per function + every rune < U+20000 through caseFold/toLinkRef + 200k random strings of <=40 symbols per function"
			}
			return "exhaustive length<=4 (13-15 symbol alphabets) per function + every single byte (alone and in context) per function + every rune < U+3000 and every 7th up to U+20000 through caseFold/toLinkRef + 20k random strings of <=24 symbols per function"
		},
	})
}

var utilAlphabets = map[string][][]byte{
	"escapeHTML":      syms("<", ">", "\"", "&", "a", ";", "#", "q", "\xc3\xa9", "\x80", "'", " ", "\x00"),
	"unescapePunct":   syms("\\", "*", "a", "\\\\", "!", " ", "\xc3\xa9", "\n", "~", "1", "\x80", "[", "\""),
	"resolveNumeric":  syms("&", "#", "x", "X", ";", "0", "9", "1", "a", "f", "g", "8", "D", "\xc3\xa9", "&#"),
	"resolveEntities": syms("&", "#", ";", "a", "m", "p", "l", "t", "g", "1", "A", " ", "&amp;", "\xc3\xa9", "q"),
	"urlEscape":       syms("%", "4", "g", "a", " ", "\"", "<", "\xc3", "\xa9", "\xe2", "\x82", "\xf0", "\x80", "&", "\\"),
	"caseFold":        syms("A", "z", "\xc3\x84", "\xc3\x9f", "\xc4\xb0", "\xe1\xba\x9e", "\xc3", "\x84", " ", "\xe2\x84\xaa", "\xb5", "\xc2\xb5", "\xf0\x90\x90\x80", "\xef\xbf\xbd"),
	"replaceSpaces":   syms(" ", "\t", "\n", "\r", "a", "\x0b", "\x0c", "\xc2\xa0", "b"),
	"toLinkRef":       syms(" ", "\t", "\n", "A", "a", "\xc3\x84", "\xc3\xa4", "\x0b", "\xc3\x9f", "s", "\x0c", "\xe1\xba\x9e", "\x80"),
	"isDangerousURL":  syms("javascript:", "JAVASCRIPT:", "vbscript:", "file:", "data:", "image/", "png;", "svg+xml;", "gif", ";", "j", " ", "\xe2\x84\xaa", "DATA:IMAGE/", "jpeg;"),
	"decodeRune":      syms("a", "\xc2", "\xc3", "\xa9", "\x80", "\xbf", "\xe0", "\xa0", "\xed", "\x9f", "\xf0", "\x90", "\xf4", "\x8f", "\xe2", "\xf5"),
	"misc":            syms(" ", "\t", "\n", "a", "\r", "\x0b", "-"),
}

var utilStringOps = []string{"escapeHTML", "unescapePunct", "resolveNumeric", "resolveEntities", "caseFold", "toLinkRef", "isDangerousURL", "decodeRune", "validUtf8"}

func genUtil(tier string, rng *RNG, emit func(Case)) {
	n := 4
	nrand := 20000
	maxLen := 24
	if tier == "thorough" {
		n = 5
		nrand = 200000
		maxLen = 40
	}
	for _, op := range utilStringOps {
		alpha := utilAlphabets[op]
		if op == "validUtf8" {
			alpha = utilAlphabets["decodeRune"]
		}
		depth := n
		if len(alpha) > 14 && depth > 3 && tier != "thorough" {
			depth = n // keep
		}
		enumStrings(alpha, depth, func(b []byte) { emit(Case{Op: op, Args: []string{hx(b)}}) })
		for i := 0; i < nrand; i++ {
			emit(Case{Op: op, Args: []string{hx(randString(rng, alpha, maxLen))}})
		}
	}
	// every single byte, alone and between two letters, through every string function (per-byte table slips
	// such as "Z is not folded" are invisible to the small alphabets above)
	for _, op := range utilStringOps {
		for c := 0; c < 256; c++ {
			emit(Case{Op: op, Args: []string{hx([]byte{byte(c)})}})
			emit(Case{Op: op, Args: []string{hx([]byte{'a', byte(c), 'B'})}})
		}
	}
	// every rune (thorough) / a dense prefix plus a stride (quick) through the case-folding functions
	for r := 0x80; r < 0x20000; r++ {
		if tier != "thorough" && r >= 0x3000 && r%7 != 0 {
			continue
		}
		if r >= 0xd800 && r <= 0xdfff {
			continue
		}
		enc := []byte(string(rune(r)))
		emit(Case{Op: "caseFold", Args: []string{hx(enc)}})
		emit(Case{Op: "toLinkRef", Args: []string{hx(append(append([]byte("x "), enc...), 'Y'))}})
	}
	// every BMP scalar value (and a stride above) through urlEscape, alone and in context; long numeric references
	for r := 0; r < 0x110000; r++ {
		if r >= 0x10000 && r%61 != 0 {
			continue
		}
		if r >= 0xD800 && r <= 0xDFFF {
			continue
		}
		if tier != "thorough" && r >= 0x3000 && r < 0xFF00 && r%7 != 0 {
			continue
		}
		enc := []byte(string(rune(r)))
		emit(Case{Op: "urlEscape", Args: []string{hx(enc), "0"}})
		emit(Case{Op: "urlEscape", Args: []string{hx(append(append([]byte("/p"), enc...), 'q')), "1"}})
	}
	hexd := "0123456789abcdefABCDEF"
	for k := 1; k <= 20; k++ {
		for rep := 0; rep < 60; rep++ {
			var ds []byte
			switch rep % 3 {
			case 0: // 1 followed by zeros and a small tail: wraps to a harmless code point in a narrow accumulator
				ds = append(ds, '1')
				for len(ds) < k {
					ds = append(ds, '0')
				}
				if k >= 3 {
					tail := []string{"41", "3C", "26", "22", "00"}[rep/3%5]
					copy(ds[len(ds)-len(tail):], tail)
				}
			default:
				for len(ds) < k {
					ds = append(ds, hexd[rng.Intn(len(hexd))])
				}
			}
			for _, pre := range []string{"&#x", "&#X"} {
				v := []byte(pre + string(ds) + ";")
				emit(Case{Op: "resolveNumeric", Args: []string{hx(v)}})
				emit(Case{Op: "urlEscape", Args: []string{hx(append([]byte("/p"), v...)), "1"}})
			}
			var dd []byte
			for len(dd) < k {
				dd = append(dd, "0123456789"[rng.Intn(10)])
			}
			emit(Case{Op: "resolveNumeric", Args: []string{hx([]byte("&#" + string(dd) + ";"))}})
		}
	}
	for _, rr := range []string{"0", "1"} {
		for c := 0; c < 256; c++ {
			emit(Case{Op: "urlEscape", Args: []string{hx([]byte{byte(c)}), rr}})
			emit(Case{Op: "urlEscape", Args: []string{hx([]byte{'a', byte(c), 'b'}), rr}})
		}
		enumStrings(utilAlphabets["urlEscape"], n, func(b []byte) { emit(Case{Op: "urlEscape", Args: []string{hx(b), rr}}) })
		for i := 0; i < nrand; i++ {
			alpha := utilAlphabets["urlEscape"]
			if rr == "1" && i%2 == 0 {
				alpha = append(append([][]byte{}, alpha...), syms("&amp;", "&#37;", "&#x25;", "\\%", "&colon;", ";", "#", "x")...)
			}
			emit(Case{Op: "urlEscape", Args: []string{hx(randString(rng, alpha, maxLen)), rr}})
		}
	}
	for _, repl := range []string{"32", "45"} {
		enumStrings(utilAlphabets["replaceSpaces"], n+1, func(b []byte) { emit(Case{Op: "replaceSpaces", Args: []string{hx(b), repl}}) })
	}
	for _, op := range []string{"trimLeftSpace", "trimRightSpace", "trimLeftSpaceLength", "trimRightSpaceLength", "isBlank", "firstNonSpace"} {
		enumStrings(utilAlphabets["misc"], n+1, func(b []byte) { emit(Case{Op: op, Args: []string{hx(b)}}) })
	}
	for pos := 0; pos < 5; pos++ {
		enumStrings(syms(" ", "\t", "a"), 6, func(b []byte) { emit(Case{Op: "indentWidth", Args: []string{hx(b), strconv.Itoa(pos)}}) })
	}
	for c := 0; c < 256; c++ {
		emit(Case{Op: "byteClass", Args: []string{strconv.Itoa(c)}})
	}
	// runes: boundaries and a stride over the whole range (+ invalid ones)
	for _, r := range []int{0, 1, 0x7f, 0x80, 0x7ff, 0x800, 0xd7ff, 0xd800, 0xdfff, 0xe000, 0xfffd, 0xffff, 0x10000, 0x10ffff, 0x110000, 0x7fffffff} {
		emit(Case{Op: "encodeRune", Args: []string{strconv.Itoa(r)}})
	}
	for i := 0; i < 3000; i++ {
		emit(Case{Op: "encodeRune", Args: []string{strconv.Itoa(rng.Intn(0x120000))}})
	}
	// every entity name is looked up (ties the regenerated table to the runtime map)
	for _, nm := range entityNamesSample(rng) {
		emit(Case{Op: "lookupEntity", Args: []string{hx([]byte(nm))}})
	}
}

func entityNamesSample(rng *RNG) []string {
	base := []string{"amp", "lt", "gt", "quot", "colon", "Tab", "NewLine", "nbsp", "ouml", "AElig", "af", "zwnj", "nosuch", "AMP", "ngE", "bne", "", "a"}
	return base
}

func decodeEscapedHTML(b []byte) ([]byte, bool) {
	// inverse of EscapeHTML: only the four references may appear
	var out []byte
	for i := 0; i < len(b); {
		c := b[i]
		if c == '<' || c == '>' || c == '"' {
			return nil, false
		}
		if c == '&' {
			switch {
			case bytes.HasPrefix(b[i:], []byte("&quot;")):
				out = append(out, '"')
				i += 6
			case bytes.HasPrefix(b[i:], []byte("&amp;")):
				out = append(out, '&')
				i += 5
			case bytes.HasPrefix(b[i:], []byte("&lt;")):
				out = append(out, '<')
				i += 4
			case bytes.HasPrefix(b[i:], []byte("&gt;")):
				out = append(out, '>')
				i += 4
			default:
				return nil, false
			}
			continue
		}
		out = append(out, c)
		i++
	}
	return out, true
}

// soleHexRef: the input is exactly `&#x<hex digits>;` (any length); returns its value
func soleHexRef(in []byte) (*big.Int, bool) {
	if len(in) < 5 || in[0] != '&' || in[1] != '#' || (in[2] != 'x' && in[2] != 'X') || in[len(in)-1] != ';' {
		return nil, false
	}
	for _, c := range in[3 : len(in)-1] {
		if !isHexB(c) {
			return nil, false
		}
	}
	v, ok := new(big.Int).SetString(string(in[3:len(in)-1]), 16)
	return v, ok
}

func isHexB(c byte) bool {
	return c >= '0' && c <= '9' || c >= 'a' && c <= 'f' || c >= 'A' && c <= 'F'
}

// urlEscapeLaws returns the clauses of C19 that `out` (= URLEscape(in, resolve)) violates.
func urlEscapeLaws(in, out []byte, resolve bool) []OracleFail {
	var f []OracleFail
	for i, c := range out {
		if c <= 0x20 || c == 0x7f || c == '"' || c == '<' || c == '>' {
			f = append(f, OracleFail{"C19", "urlescape-forbidden-byte", fmt.Sprintf("byte %#x at %d in URLEscape(%q,%v)=%q", c, i, in, resolve, out)})
			break
		}
	}
	for i, c := range out {
		if c == '%' && !(i+2 < len(out) && isHexB(out[i+1]) && isHexB(out[i+2])) {
			f = append(f, OracleFail{"C19", "urlescape-percent", fmt.Sprintf("'%%' at %d not followed by two hex digits in URLEscape(%q,%v)=%q", i, in, resolve, out)})
			break
		}
	}
	if utf8.Valid(in) {
		for _, c := range out {
			if c >= 0x80 {
				f = append(f, OracleFail{"C19", "urlescape-ascii", fmt.Sprintf("non-ASCII output for valid UTF-8 input URLEscape(%q,%v)=%q", in, resolve, out)})
				break
			}
		}
	}
	again := util.URLEscape(append([]byte{}, out...), false)
	if !bytes.Equal(again, out) {
		f = append(f, OracleFail{"C19", "urlescape-idempotent", fmt.Sprintf("URLEscape(URLEscape(%q,%v),false)=%q != %q", in, resolve, again, out)})
	}
	if !resolve {
		// existing %XX triples are preserved: the triples the scanner sees, in order, appear in the output in order
		var triples [][]byte
		for i := 0; i < len(in); {
			if in[i] == '%' && i+2 < len(in) && isHexB(in[i+1]) && isHexB(in[i+2]) {
				triples = append(triples, in[i:i+3])
				i += 3
				continue
			}
			i++
		}
		pos := 0
		for _, t := range triples {
			k := bytes.Index(out[pos:], t)
			if k < 0 {
				f = append(f, OracleFail{"C19", "urlescape-keeps-triples", fmt.Sprintf("triple %q of %q lost in %q", t, in, out)})
				break
			}
			pos += k + 3
		}
	}
	return f
}

func implUtil(c Case) ImplResult {
	var r ImplResult
	arg := func(i int) []byte { return unhx(c.Args[i]) }
	checkUntouched := func(orig, after []byte) {
		if !bytes.Equal(orig, after) {
			r.Fails = append(r.Fails, OracleFail{"C12", "util-input-modified", fmt.Sprintf("%s modified its input %q -> %q", c.Op, orig, after)})
		}
	}
	byteFn := func(f func([]byte) []byte) []byte {
		in := arg(0)
		// give the input spare capacity so an in-place append would be visible as well
		buf := make([]byte, len(in), len(in)+8)
		copy(buf, in)
		spare := buf[:cap(buf)]
		for i := len(in); i < len(spare); i++ {
			spare[i] = 0xAA
		}
		out := f(buf)
		checkUntouched(in, buf)
		for i := len(in); i < len(spare); i++ {
			if spare[i] != 0xAA {
				r.Fails = append(r.Fails, OracleFail{"C12", "util-input-capacity-written", fmt.Sprintf("%s wrote into the spare capacity of its input %q", c.Op, in)})
				break
			}
		}
		if !bytes.Equal(out, in) {
			r.Key = c.Args[0]
		}
		return out
	}
	switch c.Op {
	case "escapeHTML":
		in := arg(0)
		out := byteFn(util.EscapeHTML)
		r.Out = hx(out)
		dec, ok := decodeEscapedHTML(out)
		if !ok {
			r.Fails = append(r.Fails, OracleFail{"C19", "escapehtml-clean", fmt.Sprintf("EscapeHTML(%q)=%q has a raw < > \" or a bare &", in, out)})
		} else if !bytes.Equal(dec, in) {
			r.Fails = append(r.Fails, OracleFail{"C19", "escapehtml-roundtrip", fmt.Sprintf("EscapeHTML(%q)=%q decodes to %q", in, out, dec)})
		}
	case "unescapePunct":
		in := arg(0)
		out := byteFn(util.UnescapePunctuations)
		r.Out = hx(out)
		if utf8.Valid(in) && !utf8.Valid(out) {
			r.Fails = append(r.Fails, OracleFail{"C19", "resolver-valid-utf8", fmt.Sprintf("UnescapePunctuations(%q)=%q is not valid UTF-8", in, out)})
		}
	case "resolveNumeric":
		in := arg(0)
		out := byteFn(util.ResolveNumericReferences)
		r.Out = hx(out)
		if utf8.Valid(in) && !utf8.Valid(out) {
			r.Fails = append(r.Fails, OracleFail{"C19", "resolver-valid-utf8", fmt.Sprintf("ResolveNumericReferences(%q)=%q is not valid UTF-8", in, out)})
		}
		// the law "out-of-range code points become U+FFFD", on inputs that are exactly one hexadecimal reference
		if v, ok := soleHexRef(in); ok {
			want := []byte("\ufffd")
			if v.Sign() > 0 && v.Cmp(big.NewInt(0x10FFFF)) <= 0 && !(v.Cmp(big.NewInt(0xD800)) >= 0 && v.Cmp(big.NewInt(0xDFFF)) <= 0) {
				want = []byte(string(rune(v.Int64())))
			}
			if !bytes.Equal(out, want) {
				r.Fails = append(r.Fails, OracleFail{"C19", "numeric-reference-value", fmt.Sprintf("ResolveNumericReferences(%q)=%q, the code point it names gives %q", in, out, want)})
			}
		}
	case "resolveEntities":
		in := arg(0)
		out := byteFn(util.ResolveEntityNames)
		r.Out = hx(out)
		if utf8.Valid(in) && !utf8.Valid(out) {
			r.Fails = append(r.Fails, OracleFail{"C19", "resolver-valid-utf8", fmt.Sprintf("ResolveEntityNames(%q)=%q is not valid UTF-8", in, out)})
		}
	case "urlEscape":
		in := arg(0)
		resolve := c.Args[1] == "1"
		out := byteFn(func(b []byte) []byte { return util.URLEscape(b, resolve) })
		r.Out = hx(out)
		r.Fails = append(r.Fails, urlEscapeLaws(in, out, resolve)...)
	case "caseFold":
		out := byteFn(util.DoFullUnicodeCaseFolding)
		r.Out = hx(out)
	case "replaceSpaces":
		repl, _ := strconv.Atoi(c.Args[1])
		out := byteFn(func(b []byte) []byte { return util.ReplaceSpaces(b, byte(repl)) })
		r.Out = hx(out)
	case "toLinkRef":
		in := arg(0)
		out := []byte(util.ToLinkReference(append([]byte{}, in...)))
		r.Out = hx(out)
		if !bytes.Equal(out, in) {
			r.Key = c.Args[0]
		}
		again := []byte(util.ToLinkReference(append([]byte{}, out...)))
		if !bytes.Equal(again, out) {
			r.Fails = append(r.Fails, OracleFail{"C19", "linkref-idempotent", fmt.Sprintf("ToLinkReference(%q)=%q but applying it again gives %q", in, out, again)})
		}
		// whitespace / case variants must be identified
		for _, v := range labelVariants(in) {
			o2 := []byte(util.ToLinkReference(v))
			if !bytes.Equal(o2, out) {
				r.Fails = append(r.Fails, OracleFail{"C19", "linkref-variant", fmt.Sprintf("ToLinkReference(%q)=%q but variant %q gives %q", in, out, v, o2)})
				break
			}
		}
	case "trimLeftSpace":
		r.Out = hx(byteFn(util.TrimLeftSpace))
	case "trimRightSpace":
		r.Out = hx(byteFn(util.TrimRightSpace))
	case "trimLeftSpaceLength":
		r.Out = strconv.Itoa(util.TrimLeftSpaceLength(arg(0)))
		r.Key = c.Args[0]
	case "trimRightSpaceLength":
		r.Out = strconv.Itoa(util.TrimRightSpaceLength(arg(0)))
		r.Key = c.Args[0]
	case "isBlank":
		v := util.IsBlank(arg(0))
		r.Out = b2s(v)
		if v {
			r.Key = c.Args[0]
		}
	case "isDangerousURL":
		v := html.IsDangerousURL(arg(0))
		r.Out = b2s(v)
		if v {
			r.Key = c.Args[0]
		}
	case "indentWidth":
		pos, _ := strconv.Atoi(c.Args[1])
		w, p := util.IndentWidth(arg(0), pos)
		r.Out = fmt.Sprintf("%d %d", w, p)
		if w != p {
			r.Key = c.Args[0] + c.Args[1]
		}
	case "firstNonSpace":
		r.Out = strconv.Itoa(util.FirstNonSpacePosition(arg(0)))
		r.Key = c.Args[0]
	case "decodeRune":
		rn, n := utf8.DecodeRune(arg(0))
		r.Out = fmt.Sprintf("%d %d", rn, n)
		if n > 1 {
			r.Key = c.Args[0]
		}
	case "encodeRune":
		v, _ := strconv.Atoi(c.Args[0])
		buf := make([]byte, 4)
		n := utf8.EncodeRune(buf, rune(v))
		r.Out = hx(buf[:n])
		r.Key = c.Args[0]
	case "validUtf8":
		v := utf8.Valid(arg(0))
		r.Out = b2s(v)
		if v {
			r.Key = c.Args[0]
		}
	case "byteClass":
		n, _ := strconv.Atoi(c.Args[0])
		b := byte(n)
		urlSafe := bytes.Equal(util.URLEscape([]byte{b}, false), []byte{b}) && b != 0x80 && !(b >= 0x80) // see below
		_ = urlSafe
		r.Out = byteClassLine(b)
		r.Key = c.Args[0]
	case "lookupEntity":
		e, ok := util.LookUpHTML5EntityByName(string(arg(0)))
		if ok {
			r.Out = hx(e.Characters)
			r.Key = c.Args[0]
		} else {
			r.Out = "none"
		}
	default:
		panic("unknown util op " + c.Op)
	}
	return r
}

// byteClassLine observes the byte-class tables through exported functions only.
func byteClassLine(b byte) string {
	// urlSafe: observable through URLEscape on "<b>x" for ASCII (single bytes >= 0x80 are handled by other branches)
	urlSafe := false
	if b < 0x80 {
		urlSafe = bytes.Equal(util.URLEscape([]byte{b, 'x'}, false), []byte{b, 'x'}) && b != '%'
	}
	urlT := urlTableValue(b)
	emailT := 0
	if util.FindEmailIndex([]byte{b, '@', 'a'}) == 3 {
		emailT = 1
	}
	return fmt.Sprintf("%s %s %s %d %d %d %s", b2s(util.IsSpace(b)), b2s(util.IsPunct(b)), b2s(urlSafe), util.UTF8Len(b), urlT, emailT, hx(util.EscapeHTMLByte(b)))
}

// urlTableValue reconstructs urlTable[b] (bits 1|4 and 7) from FindURLIndex's observable behaviour.
func urlTableValue(b byte) int {
	v := 0
	// bit 1: accepted in the tail after "ab:"
	if util.FindURLIndex([]byte{'a', 'b', ':', b}) == 4 {
		v |= 1
	}
	// bit 4 (with 1): accepted inside the scheme
	if util.FindURLIndex([]byte{'a', b, ':'}) == 3 {
		v |= 4
	}
	// 7: accepted as the first scheme byte
	if util.FindURLIndex([]byte{b, 'b', ':'}) == 3 {
		v = 7
	}
	return v
}

// labelVariants returns labels that CommonMark considers the same as `in`: whitespace runs re-spelled,
// leading/trailing whitespace added, ASCII letters in the other case.
func labelVariants(in []byte) [][]byte {
	var vs [][]byte
	vs = append(vs, append([]byte(" \t"), append(append([]byte{}, in...), '\n', ' ')...))
	// swap ASCII case
	sw := make([]byte, len(in))
	for i, c := range in {
		switch {
		case c >= 'a' && c <= 'z':
			sw[i] = c - 32
		case c >= 'A' && c <= 'Z':
			sw[i] = c + 32
		default:
			sw[i] = c
		}
	}
	vs = append(vs, sw)
	// re-spell interior whitespace runs
	var ws []byte
	changed := false
	for i := 0; i < len(in); i++ {
		c := in[i]
		if c == ' ' || c == '\t' || c == '\n' || c == '\r' {
			j := i
			for j < len(in) && (in[j] == ' ' || in[j] == '\t' || in[j] == '\n' || in[j] == '\r') {
				j++
			}
			ws = append(ws, '\t', ' ', '\n')
			changed = true
			i = j - 1
			continue
		}
		ws = append(ws, c)
	}
	if changed {
		vs = append(vs, ws)
	}
	return vs
}
