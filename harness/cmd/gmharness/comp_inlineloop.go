package main

// Component `inlineloop` (properties C11, C05(c), C02 hard breaks): the per-block inline driver (*parser).parseBlock
// exercised through the PUBLIC API only. A goldmark parser is built with the default block parsers (op `doc`) or with
// one probe block parser that opens a paragraph whose Lines() are the scripted segments (op `seg`), NO paragraph
// transformers and ONLY scripted probe inline parsers: Trigger() returns the scripted bytes; Parse looks the reader's
// pos.Start up in its script and either moves the reader and returns nil (tests the SetPosition restore) or advances
// n bytes and returns an ast.String marker. After Parse every non-raw block with lines is dumped (its line segments
// and its children) and the dump is compared with the Lean model run on the same segments (lean/Driver/InlineLoop.lean).
//
//   doc <escapedSpace> <src hex> <parsers>          blocks come from the real block parsers
//   seg <escapedSpace> <src hex> <segs> <parsers>   one paragraph with exactly these line segments
//
// Oracles independent of the model:
//   C11/silent-parser-changes-text  the same parse with one more probe that declines everywhere (space-triggered =
//        the Linkify situation, or triggered by every byte of the alphabet; before or after the others) must give the
//        same resolved text (text bytes + break flags + markers) for every block
//   C05/inline-segments-order       Text segments of a block: Start<=Stop, increasing, inside one of the block's lines
//   C02/hard-break-classification   without probes: one Text per line, hard iff the line ends with >=2 spaces or an odd
//        number of backslashes before its (\r)\n, soft iff it ends with a newline otherwise, neither without newline

import (
	"bytes"
	"fmt"
	"strconv"
	"strings"

	"github.com/yuin/goldmark/ast"
	"github.com/yuin/goldmark/parser"
	"github.com/yuin/goldmark/text"
	"github.com/yuin/goldmark/util"
)

func init() {
	register(&Component{
		Name:       "inlineloop",
		Rule:       "every document over the 8-symbol alphabet {a, space, \\, *, LF, CR, TAB, e-acute} up to length N (plain and as ATX heading) x a fixed family of probe sets (exhaustive) + random longer documents / random scripts / explicit line segments from one SplitMix64 stream; non-trivial = at least one probe call or a break flag; distinct = distinct shape of the dumped children",
		Gen:        genInlineLoop,
		Impl:       implInlineLoop,
		Exhaustive: true,
		Scope: func(tier string) string {
			if tier == "thorough" {
				return "exhaustive: all documents of length<=6 over 8 symbols x 9 probe sets (+ ATX variant for length<=5); 300k random documents (<=24 symbols, paragraph/heading/quote/list/setext contexts) with random probe scripts; 100k explicit-segment paragraphs (incl. ill-formed segment lists)"
			}
			return "exhaustive: all documents of length<=4 over 8 symbols x 9 probe sets (+ ATX variant); 20k random documents (<=24 symbols, paragraph/heading/quote/list/setext contexts) with random probe scripts; 8k explicit-segment paragraphs (incl. ill-formed segment lists)"
		},
	})
}

// ---------- probes ----------

type ilAct struct {
	accept bool
	n      int
}

type ilProbeSpec struct {
	id     int
	trig   []byte
	script map[int]ilAct // pos.Start -> action; absent = decline without moving
}

type ilCall struct {
	probe *ilProbeSpec
	pos   int
}

type ilRun struct {
	calls   map[ast.Node][]string
	raw     map[ast.Node][]ilCall
	starts  map[int]bool // reader positions right after an accepting probe: the next scan starts there
	padding bool // a reader position with padding was observed (outside the model)
}

type ilProbe struct {
	spec *ilProbeSpec
	run  *ilRun
	log  bool
}

func (p *ilProbe) Trigger() []byte { return p.spec.trig }

func (p *ilProbe) Parse(parent ast.Node, block text.Reader, pc parser.Context) ast.Node {
	line, pos := block.Position()
	if pos.Padding != 0 {
		p.run.padding = true
	}
	if p.log {
		p.run.calls[parent] = append(p.run.calls[parent], fmt.Sprintf("%d@%d.%d", p.spec.id, line, pos.Start))
		p.run.raw[parent] = append(p.run.raw[parent], ilCall{p.spec, pos.Start})
	}
	act := p.spec.script[pos.Start]
	if act.accept {
		block.Advance(act.n)
		_, after := block.Position()
		p.run.starts[after.Start] = true
		return ast.NewString([]byte("N" + strconv.Itoa(p.spec.id)))
	}
	if act.n > 0 {
		block.Advance(act.n)
	}
	return nil
}

// block parser probe for op `seg`: the first non-blank line opens a paragraph with the scripted Lines(); it then
// swallows every further line.
type ilSegBlock struct {
	segs   []text.Segment
	opened bool
}

func (b *ilSegBlock) Trigger() []byte { return nil }
func (b *ilSegBlock) Open(parent ast.Node, reader text.Reader, pc parser.Context) (ast.Node, parser.State) {
	if b.opened {
		return nil, parser.NoChildren
	}
	b.opened = true
	node := ast.NewParagraph()
	for _, s := range b.segs {
		node.Lines().Append(s)
	}
	return node, parser.NoChildren
}
func (b *ilSegBlock) Continue(node ast.Node, reader text.Reader, pc parser.Context) parser.State {
	return parser.Continue | parser.NoChildren
}
func (b *ilSegBlock) Close(node ast.Node, reader text.Reader, pc parser.Context) {}
func (b *ilSegBlock) CanInterruptParagraph() bool                                { return false }
func (b *ilSegBlock) CanAcceptIndentedLine() bool                                { return true }

// ---------- protocol encoding ----------

func ilParsersArg(ps []*ilProbeSpec, srcLen int) string {
	if len(ps) == 0 {
		return "_"
	}
	var parts []string
	for _, p := range ps {
		var ents []string
		for pos := 0; pos <= srcLen; pos++ {
			a, ok := p.script[pos]
			if !ok {
				continue
			}
			k := "d"
			if a.accept {
				k = "a"
			}
			ents = append(ents, fmt.Sprintf("0.%d.%s.%d", pos, k, a.n))
		}
		sc := "_"
		if len(ents) > 0 {
			sc = strings.Join(ents, ",")
		}
		parts = append(parts, fmt.Sprintf("%d:%s:%s", p.id, hx(p.trig), sc))
	}
	return strings.Join(parts, ";")
}

func ilParseParsers(s string) []*ilProbeSpec {
	if s == "_" {
		return nil
	}
	var out []*ilProbeSpec
	for _, part := range strings.Split(s, ";") {
		f := strings.Split(part, ":")
		id, _ := strconv.Atoi(f[0])
		p := &ilProbeSpec{id: id, trig: unhx(f[1]), script: map[int]ilAct{}}
		if f[2] != "_" {
			for _, e := range strings.Split(f[2], ",") {
				g := strings.Split(e, ".")
				pos, _ := strconv.Atoi(g[1])
				n, _ := strconv.Atoi(g[3])
				if _, dup := p.script[pos]; !dup { // the model takes the first entry
					p.script[pos] = ilAct{accept: g[2] == "a", n: n}
				}
			}
		}
		out = append(out, p)
	}
	return out
}

func ilSegsArg(segs []text.Segment) string {
	if len(segs) == 0 {
		return "_"
	}
	var parts []string
	for _, s := range segs {
		parts = append(parts, fmt.Sprintf("%d-%d", s.Start, s.Stop))
	}
	return strings.Join(parts, ",")
}

func ilParseSegs(s string) []text.Segment {
	if s == "_" {
		return nil
	}
	var out []text.Segment
	for _, part := range strings.Split(s, ",") {
		f := strings.Split(part, "-")
		a, _ := strconv.Atoi(f[0])
		b, _ := strconv.Atoi(f[1])
		out = append(out, text.NewSegment(a, b))
	}
	return out
}

// ---------- running the real parser ----------

type ilBlock struct {
	node     ast.Node
	segs     []text.Segment
	children string   // canonical dump
	resolved string   // text bytes + flags + markers, independent of the cut into Text nodes
	texts    [][2]int // Text segments in order
	flags    []string // per Text: "sh"
	calls    []string
	raw      []ilCall
	starts   map[int]bool
	odd      string // something outside the model (padding, raw text, unknown child)
}

type ilResult struct {
	blocks []*ilBlock
	panic  string
	msg    string
	odd    string
}

func ilParse(src []byte, esc bool, segs []text.Segment, useSegs bool, probes []*ilProbeSpec, silent *ilProbeSpec, silentFirst bool) (res ilResult) {
	run := &ilRun{calls: map[ast.Node][]string{}, raw: map[ast.Node][]ilCall{}, starts: map[int]bool{}}
	var ips []util.PrioritizedValue
	prio := 100
	add := func(p *ilProbeSpec, log bool) {
		ips = append(ips, util.Prioritized(&ilProbe{spec: p, run: run, log: log}, prio))
		prio += 100
	}
	if silent != nil && silentFirst {
		add(silent, false)
	}
	for _, p := range probes {
		add(p, true)
	}
	if silent != nil && !silentFirst {
		add(silent, false)
	}
	opts := []parser.Option{parser.WithInlineParsers(ips...), parser.WithParagraphTransformers()}
	if useSegs {
		opts = append(opts, parser.WithBlockParsers(util.Prioritized(&ilSegBlock{segs: segs}, 100)))
	} else {
		opts = append(opts, parser.WithBlockParsers(parser.DefaultBlockParsers()...))
	}
	if esc {
		opts = append(opts, parser.WithEscapedSpace())
	}
	p := parser.NewParser(opts...)
	var doc ast.Node
	func() {
		defer func() {
			if r := recover(); r != nil {
				msg := fmt.Sprint(r)
				res.msg = msg
				res.panic = "explicit"
				switch {
				case strings.Contains(msg, "index out of range"):
					res.panic = "index"
				case strings.Contains(msg, "slice bounds out of range"):
					res.panic = "slice"
				case strings.Contains(msg, "nil pointer"):
					res.panic = "nil"
				}
			}
		}()
		doc = p.Parse(text.NewReader(src))
	}()
	if res.panic != "" {
		return res
	}
	if run.padding {
		res.odd = "reader position with padding"
	}
	var visit func(n ast.Node)
	visit = func(n ast.Node) {
		if n.Type() != ast.TypeInline {
			if n.Lines() != nil && n.Lines().Len() > 0 && !n.IsRaw() {
				res.blocks = append(res.blocks, ilDumpBlock(n, src, run))
			}
			for c := n.FirstChild(); c != nil; c = c.NextSibling() {
				if c.Type() != ast.TypeInline {
					visit(c)
				}
			}
		}
	}
	visit(doc)
	for _, b := range res.blocks {
		if b.odd != "" && res.odd == "" {
			res.odd = b.odd
		}
	}
	return res
}

func ilDumpBlock(n ast.Node, src []byte, run *ilRun) *ilBlock {
	b := &ilBlock{node: n, calls: run.calls[n], raw: run.raw[n], starts: run.starts}
	for i := 0; i < n.Lines().Len(); i++ {
		s := n.Lines().At(i)
		if s.Padding != 0 || s.ForceNewline {
			b.odd = "line segment with padding/ForceNewline"
		}
		b.segs = append(b.segs, s)
	}
	var kids []string
	var resolved bytes.Buffer
	for c := n.FirstChild(); c != nil; c = c.NextSibling() {
		switch t := c.(type) {
		case *ast.Text:
			if t.Segment.Padding != 0 || t.IsRaw() {
				b.odd = "text with padding/raw"
			}
			fl := b2s(t.SoftLineBreak()) + b2s(t.HardLineBreak())
			kids = append(kids, fmt.Sprintf("T%d.%d.%s", t.Segment.Start, t.Segment.Stop, fl))
			b.texts = append(b.texts, [2]int{t.Segment.Start, t.Segment.Stop})
			b.flags = append(b.flags, fl)
			if t.Segment.Start <= t.Segment.Stop && t.Segment.Stop <= len(src) {
				resolved.Write(src[t.Segment.Start:t.Segment.Stop])
			} else {
				resolved.WriteString("<out-of-range>")
			}
			if fl != "00" {
				resolved.WriteString("<" + fl + ">")
			}
		case *ast.String:
			kids = append(kids, string(t.Value))
			resolved.WriteString("<" + string(t.Value) + ">")
		default:
			kids = append(kids, "?"+c.Kind().String())
			b.odd = "unexpected child " + c.Kind().String()
		}
	}
	b.children = strings.Join(kids, ",")
	b.resolved = resolved.String()
	return b
}

func ilWellFormedSegs(segs []text.Segment, src []byte) bool {
	prev := 0
	for i, s := range segs {
		if !(s.Start < s.Stop && s.Stop <= len(src) && prev <= s.Start) {
			return false
		}
		if i < len(segs)-1 && src[s.Stop-1] != '\n' {
			return false
		}
		if bytes.IndexByte(src[s.Start:s.Stop-1], '\n') >= 0 { // a line has no interior newline
			return false
		}
		prev = s.Stop
	}
	return true
}

func implInlineLoop(c Case) ImplResult {
	var r ImplResult
	esc := c.Args[0] == "1"
	src := unhx(c.Args[1])
	src = src[:len(src):len(src)]
	var segs []text.Segment
	useSegs := c.Op == "seg"
	var probes []*ilProbeSpec
	if useSegs {
		segs = ilParseSegs(c.Args[2])
		probes = ilParseParsers(c.Args[3])
	} else {
		probes = ilParseParsers(c.Args[2])
	}
	res := ilParse(src, esc, segs, useSegs, probes, nil, false)
	wf := !useSegs || ilWellFormedSegs(segs, src)
	if res.panic != "" {
		r.Out = "panic:" + res.panic
		r.Key = "panic:" + res.panic
		if useSegs {
			r.ModelLine = fmt.Sprintf("inlineloop run %s %s %s %s", b2s(esc), hx(src), ilSegsArg(segs), ilParsersArg(probes, len(src)))
		} else {
			r.NoModel = true
		}
		if wf {
			r.Fails = append(r.Fails, OracleFail{"C01", "panic-in-parseBlock", res.msg})
		}
		return r
	}
	if res.odd != "" {
		r.Fails = append(r.Fails, OracleFail{"C11", "assumption:padding-free-block", res.odd})
		r.NoModel = true
		return r
	}
	// model line: the same parsers over the segments the real block parsers produced
	var outs, blockArgs []string
	for _, b := range res.blocks {
		outs = append(outs, b.children+"|"+strings.Join(b.calls, ",")+"|done")
		blockArgs = append(blockArgs, ilSegsArg(b.segs))
	}
	if len(res.blocks) == 0 {
		r.Out = "-"
		blockArgs = []string{"_"}
		outs = []string{"||done"}
	}
	r.Out = strings.Join(outs, "/")
	r.ModelLine = fmt.Sprintf("inlineloop run %s %s %s %s", b2s(esc), hx(src), strings.Join(blockArgs, "/"), ilParsersArg(probes, len(src)))

	// ----- oracles (independent of the model) -----
	ncalls, nflag, ntext := 0, 0, 0
	for _, b := range res.blocks {
		ncalls += len(b.calls)
		ntext += len(b.texts)
		for _, f := range b.flags {
			if f != "00" {
				nflag++
			}
		}
		if wf {
			if d := ilSegmentsOrder(b, src); d != "" {
				r.Fails = append(r.Fails, OracleFail{"C05", "inline-segments-order", fmt.Sprintf("src %q block %v: %s", src, ilSegsArg(b.segs), d)})
			}
		}
		if wf {
			if d := ilTriggerOracle(b, src, esc); d != "" {
				r.Fails = append(r.Fails, OracleFail{"C11", "parser-consulted-off-trigger", fmt.Sprintf("src %q block %v: %s", src, ilSegsArg(b.segs), d)})
			}
		}
		if len(probes) == 0 && wf {
			if d := ilBreakOracle(b, src); d != "" {
				r.Fails = append(r.Fails, OracleFail{"C02", "hard-break-classification", fmt.Sprintf("src %q block %v children %s: %s", src, ilSegsArg(b.segs), b.children, d)})
			}
		}
	}
	if wf {
		all := map[byte]bool{' ': true}
		for _, ch := range src {
			if ch < 0x80 {
				all[ch] = true
			}
		}
		var allTrig []byte
		for ch := range all {
			allTrig = append(allTrig, ch)
		}
		moving := map[int]ilAct{}
		for pos := 0; pos <= len(src); pos++ {
			moving[pos] = ilAct{accept: false, n: 1 + pos%3}
		}
		silents := []*ilProbeSpec{
			{id: 99, trig: []byte{' '}, script: map[int]ilAct{}},
			{id: 99, trig: allTrig, script: moving},
		}
		for si, s := range silents {
			for _, first := range []bool{false, true} {
				if first && len(probes) == 0 {
					continue
				}
				with := ilParse(src, esc, segs, useSegs, probes, s, first)
				d := ""
				if with.panic != "" {
					d = "panic with the silent probe: " + with.msg
				} else if len(with.blocks) != len(res.blocks) {
					d = "different blocks"
				} else {
					for i := range with.blocks {
						if with.blocks[i].resolved != res.blocks[i].resolved {
							d = fmt.Sprintf("block %d: without %q [%s] with %q [%s]", i, res.blocks[i].resolved, res.blocks[i].children, with.blocks[i].resolved, with.blocks[i].children)
							break
						}
					}
				}
				if d != "" {
					r.Fails = append(r.Fails, OracleFail{"C11", "silent-parser-changes-text", fmt.Sprintf("src %q probes %s + declining probe #%d (first=%v): %s", src, ilParsersArg(probes, len(src)), si, first, d)})
				}
			}
		}
	}
	if ncalls > 0 || nflag > 0 {
		r.Key = ilShape(r.Out)
	}
	return r
}

// shape of an output: digits of positions removed
func ilShape(out string) string {
	var sb strings.Builder
	for _, blk := range strings.Split(out, "/") {
		f := strings.SplitN(blk, "|", 3)
		for _, k := range strings.Split(f[0], ",") {
			if strings.HasPrefix(k, "T") {
				g := strings.Split(k, ".")
				e := "n"
				if len(g) == 3 && g[0][1:] == g[1] {
					e = "e"
				}
				sb.WriteString("T" + e + g[len(g)-1])
			} else {
				sb.WriteString(k)
			}
		}
		if len(f) > 1 {
			sb.WriteString("|" + strconv.Itoa(strings.Count(f[1], "@")))
		}
		sb.WriteString("/")
	}
	return sb.String()
}

// parser.go:1199-1204 read as a specification: a parser is asked only at a byte that selects one of its triggers
// (punctuation: the byte itself; space/tab, or any non-punctuation byte at the start of a scan: ' '), and never at a
// byte that a preceding unescaped backslash escapes (punctuation always, spaces under WithEscapedSpace), except at
// the start of a scan.
func ilTriggerOracle(b *ilBlock, src []byte, escSpace bool) string {
	starts := map[int]bool{}
	for _, s := range b.segs {
		starts[s.Start] = true
	}
	for k := range b.starts {
		starts[k] = true
	}
	for _, c := range b.raw {
		if c.pos < 0 || c.pos >= len(src) {
			return fmt.Sprintf("probe %d called at %d, outside the source", c.probe.id, c.pos)
		}
		ch := src[c.pos]
		isSp := ch == ' ' || ch == '\t'
		isPu := util.IsPunct(ch)
		var pc byte
		switch {
		case isSp:
			pc = ' '
		case isPu:
			pc = ch
		case starts[c.pos]:
			pc = ' '
		default:
			return fmt.Sprintf("probe %d called at %d (%q): neither punctuation nor space nor the start of a scan", c.probe.id, c.pos, ch)
		}
		if bytes.IndexByte(c.probe.trig, pc) < 0 {
			return fmt.Sprintf("probe %d (triggers %q) called at %d (%q, table index %q)", c.probe.id, c.probe.trig, c.pos, ch, pc)
		}
		if !starts[c.pos] && (isPu || isSp && escSpace) {
			k := 0
			j := c.pos - 1
			for ; j >= 0 && src[j] == '\\' && !starts[j+1]; j-- {
				k++
			}
			// the run is exact only if it ended on a byte of the same scan that is not a backslash
			if j >= 0 && src[j] != '\\' && !starts[j+1] && k%2 == 1 {
				return fmt.Sprintf("probe %d called at %d (%q) although that byte is escaped by %d backslashes", c.probe.id, c.pos, ch, k)
			}
		}
	}
	return ""
}

func ilSegmentsOrder(b *ilBlock, src []byte) string {
	prevStop := -1
	for i, t := range b.texts {
		if !(0 <= t[0] && t[0] <= t[1] && t[1] <= len(src)) {
			return fmt.Sprintf("text %d [%d,%d) not a range of the source", i, t[0], t[1])
		}
		if t[0] < prevStop {
			return fmt.Sprintf("text %d [%d,%d) starts before the previous text's stop %d", i, t[0], t[1], prevStop)
		}
		prevStop = t[1]
		inside := false
		for _, s := range b.segs {
			if s.Start <= t[0] && t[1] <= s.Stop {
				inside = true
			}
		}
		if !inside {
			return fmt.Sprintf("text %d [%d,%d) is not inside one line of the block", i, t[0], t[1])
		}
	}
	return ""
}

// CommonMark 6.7/6.8 read on one line: hard break iff the line ending is preceded by >= 2 spaces or by a backslash
// that is not itself escaped (odd run); any other line ending is a soft break.
func ilBreakOracle(b *ilBlock, src []byte) string {
	if len(b.texts) != len(b.segs) {
		return fmt.Sprintf("%d texts for %d lines", len(b.texts), len(b.segs))
	}
	for i, s := range b.segs {
		line := src[s.Start:s.Stop]
		want := "00"
		if bytes.HasSuffix(line, []byte("\n")) {
			body := line[:len(line)-1]
			body = bytes.TrimSuffix(body, []byte("\r"))
			nb := 0
			for j := len(body) - 1; j >= 0 && body[j] == '\\'; j-- {
				nb++
			}
			if nb%2 == 1 || bytes.HasSuffix(body, []byte("  ")) {
				want = "01"
			} else {
				want = "10"
			}
		}
		if b.flags[i] != want {
			return fmt.Sprintf("line %d %q: flags (soft,hard) %s, expected %s", i, line, b.flags[i], want)
		}
		// content: a hard break by backslash keeps everything before the backslash; otherwise trailing spaces go
		t := b.texts[i]
		var wantStop int
		body := bytes.TrimSuffix(bytes.TrimSuffix(line, []byte("\n")), []byte("\r"))
		if want == "01" && bytes.HasSuffix(body, []byte("\\")) {
			wantStop = s.Start + len(body) - 1
		} else {
			wantStop = s.Start + len(bytes.TrimRight(line, " \t\r\n"))
		}
		if t[0] != s.Start && t[0] != t[1] || (t[1] != wantStop && !(t[0] == t[1] && wantStop == s.Start)) {
			return fmt.Sprintf("line %d %q: text [%d,%d), expected [%d,%d)", i, line, t[0], t[1], s.Start, wantStop)
		}
	}
	return ""
}

// ---------- generation ----------

var ilAlphabet = [][]byte{[]byte("a"), []byte(" "), []byte("\\"), []byte("*"), []byte("\n"), []byte("\r"), []byte("\t"), []byte("\xc3\xa9")}

// the fixed family of probe sets for the exhaustive scope; srcLen bounds the script positions
func ilProbeFamily(srcLen int) [][]*ilProbeSpec {
	every := func(f func(pos int) (ilAct, bool)) map[int]ilAct {
		m := map[int]ilAct{}
		for pos := 0; pos <= srcLen; pos++ {
			if a, ok := f(pos); ok {
				m[pos] = a
			}
		}
		return m
	}
	acc := func(n int) map[int]ilAct { return every(func(int) (ilAct, bool) { return ilAct{true, n}, true }) }
	decMove := every(func(pos int) (ilAct, bool) { return ilAct{false, 1 + pos%2}, true })
	oddAcc := every(func(pos int) (ilAct, bool) {
		if pos%2 == 1 {
			return ilAct{true, 1}, true
		}
		return ilAct{false, 2}, true
	})
	return [][]*ilProbeSpec{
		nil,
		{{id: 1, trig: []byte(" "), script: map[int]ilAct{}}},                                                       // the Linkify situation
		{{id: 1, trig: []byte("*"), script: acc(1)}},                                                                 // a punctuation parser that always accepts
		{{id: 1, trig: []byte("*"), script: acc(1)}, {id: 2, trig: []byte(" "), script: decMove}},                    // + declining space parser that moves the reader
		{{id: 1, trig: []byte("*"), script: decMove}, {id: 2, trig: []byte("*\\"), script: acc(2)}},                  // shared trigger: first declines (moved), second accepts 2
		{{id: 1, trig: []byte(" "), script: oddAcc}},                                                                 // space parser accepting at odd offsets
		{{id: 1, trig: []byte(" *"), script: acc(2)}, {id: 2, trig: []byte("*"), script: acc(1)}},                    // first accept wins; 2-byte accepts cross line ends
		{{id: 1, trig: []byte("\\"), script: acc(1)}, {id: 2, trig: []byte(" "), script: map[int]ilAct{}}},           // backslash consumed by a parser
		{{id: 1, trig: []byte(" "), script: acc(3)}},                                                                 // everything is parser food (i == 0 trigger)
	}
}

func ilEmitDoc(emit func(Case), esc bool, src []byte, probes []*ilProbeSpec) {
	emit(Case{Op: "doc", Args: []string{b2s(esc), hx(src), ilParsersArg(probes, len(src))}})
}

func ilRandomProbes(rng *RNG, srcLen int) []*ilProbeSpec {
	n := rng.Intn(4)
	trigs := [][]byte{[]byte(" "), []byte("*"), []byte("\\"), []byte(" *"), []byte("*\\"), []byte("a"), []byte("\n"), []byte("**"), []byte("\t"), []byte(" \\*")}
	var ps []*ilProbeSpec
	for i := 0; i < n; i++ {
		p := &ilProbeSpec{id: i + 1, trig: trigs[rng.Intn(len(trigs))], script: map[int]ilAct{}}
		mode := rng.Intn(4)
		for pos := 0; pos <= srcLen; pos++ {
			switch mode {
			case 0: // mostly declines
				if rng.Chance(15) {
					p.script[pos] = ilAct{true, 1 + rng.Intn(3)}
				} else if rng.Chance(30) {
					p.script[pos] = ilAct{false, rng.Intn(4)}
				}
			case 1: // mostly accepts
				if rng.Chance(70) {
					p.script[pos] = ilAct{true, 1 + rng.Intn(4)}
				}
			case 2: // always declines, moving
				p.script[pos] = ilAct{false, rng.Intn(5)}
			case 3:
				if rng.Chance(40) {
					p.script[pos] = ilAct{true, 1}
				}
			}
		}
		ps = append(ps, p)
	}
	return ps
}

func genInlineLoop(tier string, rng *RNG, emit func(Case)) {
	maxLen, nRandom, nSeg := 4, 20000, 8000
	if tier == "thorough" {
		maxLen, nRandom, nSeg = 6, 300000, 100000
	}
	// exhaustive small scope
	var rec func(prefix []byte, depth int)
	rec = func(prefix []byte, depth int) {
		if depth > 0 {
			for fi, fam := range ilProbeFamily(len(prefix) + 2) {
				ilEmitDoc(emit, fi%2 == 1 && depth%2 == 0, prefix, fam)
				if depth <= 5 && (tier == "thorough" || depth <= 4) {
					ilEmitDoc(emit, false, append([]byte("# "), prefix...), fam)
				}
			}
		}
		if depth == maxLen {
			return
		}
		for _, sym := range ilAlphabet {
			next := append(append([]byte{}, prefix...), sym...)
			rec(next, depth+1)
		}
	}
	rec(nil, 0)
	// a few hand-picked documents (known findings of earlier rounds and their neighbours)
	for _, d := range []string{"### bar    ###", "aaa     \nbbb", "a\\\\\\\nb", "a\\\\\nb", "a  \r\nb", "a\\\r\nb", "a \\  \nb", "foo  ", "foo\\", "a *  \n b", "> a  \n> b \n", "- a \n  b  \n\n- c\\\n  d", "a\n===", "a  \n==="} {
		for _, fam := range ilProbeFamily(len(d)) {
			ilEmitDoc(emit, false, []byte(d), fam)
			ilEmitDoc(emit, true, []byte(d), fam)
		}
	}
	// random documents
	prefixes := []string{"", "", "", "# ", "## ", "> ", "- ", "1. ", "   ", "a\n", "> - "}
	suffixes := []string{"", "", "", "\n", "\n===\n", "\n---\n", " #", "  \n", "\\\n", "\n\na  \nb"}
	for i := 0; i < nRandom; i++ {
		var buf []byte
		buf = append(buf, rng.Pick(prefixes)...)
		n := 1 + rng.Intn(24)
		for j := 0; j < n; j++ {
			buf = append(buf, ilAlphabet[rng.Intn(len(ilAlphabet))]...)
			if rng.Chance(6) {
				buf = append(buf, rng.Pick([]string{"  \n", "\\\n", "\\\\\n", " \r\n", "\n> ", "\n  "})...)
			}
		}
		buf = append(buf, rng.Pick(suffixes)...)
		ilEmitDoc(emit, rng.Chance(30), buf, ilRandomProbes(rng, len(buf)))
	}
	// explicit segments
	for i := 0; i < nSeg; i++ {
		var buf []byte
		n := 1 + rng.Intn(14)
		for j := 0; j < n; j++ {
			buf = append(buf, ilAlphabet[rng.Intn(len(ilAlphabet))]...)
		}
		if buf[0] == '\n' || buf[0] == '\r' {
			buf[0] = 'a' // the first line must not be blank or the probe block parser never opens
		}
		var segs []text.Segment
		if rng.Chance(70) {
			// well-formed: cut at newlines, optionally drop a prefix of each line
			start := 0
			for j := 0; j < len(buf); j++ {
				if buf[j] == '\n' || j == len(buf)-1 {
					s := start
					if rng.Chance(30) && s < j {
						s += rng.Intn(j - s + 1)
					}
					if s < j+1 {
						segs = append(segs, text.NewSegment(s, j+1))
					}
					start = j + 1
				}
			}
			if rng.Chance(30) && len(segs) > 0 { // drop the final newline of the last line as paragraphs do
				last := &segs[len(segs)-1]
				if buf[last.Stop-1] == '\n' && last.Stop-1 > last.Start {
					last.Stop--
				}
			}
		} else {
			// arbitrary, possibly ill-formed (adjacent lines without newline, empty, overlapping, out of range)
			k := 1 + rng.Intn(3)
			pos := 0
			for j := 0; j < k; j++ {
				a := pos + rng.Intn(3)
				b := a + rng.Intn(5)
				if rng.Chance(8) {
					b = a
				}
				if rng.Chance(5) {
					b = len(buf) + rng.Intn(3)
				}
				if rng.Chance(5) && a > 0 {
					a--
				}
				segs = append(segs, text.NewSegment(a, b))
				pos = b
				if rng.Chance(10) && pos > 0 {
					pos--
				}
			}
		}
		emit(Case{Op: "seg", Args: []string{b2s(rng.Chance(20)), hx(buf), ilSegsArg(segs), ilParsersArg(ilRandomProbes(rng, len(buf)+3), len(buf)+3)}})
	}
}
