package main

// Component `cmfrag` (property C02): the STATEMENT of the fragment conformance theorem checked against the real goldmark.
//
// GM.Spec.CMFrag defines a fragment of CommonMark documents (sequences of paragraphs of escaped text, any number of
// blank lines around them), their Markdown source `spellF d` and the HTML the specification prescribes `expectedF d`;
// the theorem says that the Lean model of goldmark yields `expectedF d` on `spellF d` for every member. Here members
// of the fragment (the driver's exhaustive small scope `cmfrag enum <i>` and its pseudo-random documents
// `cmfrag gen <seed> <size>`) are converted by the real library (core CommonMark, html.WithUnsafe + html.WithXHTML)
// and compared with `expectedF d` BYTE FOR BYTE (no normalisation: the fragment's HTML is exact).
//
// Two-phase flow as in cmspec: Gen asks the driver for all documents first and caches the answers; Impl converts
// (and asks the driver itself on a cache miss, so that a replay of a single case works). The engine then compares
// `<spell> <goldmark html>` with the driver's `<spell> <expected>`; a difference is also an oracle failure with
// input / got / want. Every case carries two Lean-side checks: `cmfrag model …` (the goldmark model convertCore on
// the same source = expectedF) and `cmfrag spec …` (the fragment agrees with the spec-side model GM.Spec.CommonMark
// through `embed`: same HTML, same source when there are no extra blank lines, wellFormed).
//
// Stage 4 (`GDoc`: paragraphs, ATX headings and thematic breaks separated by blank lines; `spellG`, `expectedG`,
// `gembed`): the same flow with the ops `genum <i>` (scope size `cmfrag gcount`) and `ggen <seed> <size>`.
//
// Stage 5 (`HDoc`: the same plus fenced code blocks; `spellH`, `expectedH`, `hembed`): ops `henum <i>` (scope size
// `cmfrag hcount`) and `hgen <seed> <size>`.
//
// Stage 6 (`KDoc`: the same blocks, directly behind each other where CommonMark allows it; `spellK`, `expectedK`,
// `kembed`): ops `kenum <i>` (scope size `cmfrag kcount`) and `kgen <seed> <size>`.
//
// Stage 7 (the stage-6 documents with `trail` forced to 0, written WITHOUT the final line feed; `spellKE`, `expectedK`,
// `kembedE`): ops `eenum <i>` (scope size `cmfrag ecount`, the indices of `kenum`) and `egen <seed> <size>`.
//
// Stage 8 (`RDoc`: documents of paragraphs whose lines contain code spans; `spellR`, `expectedR`, `rembed`): ops
// `renum <i>` (scope size `cmfrag rcount`) and `rgen <seed> <size>`.
//
// Stage 9 (`BDoc`: documents of paragraphs whose lines, the last one of a paragraph excepted, may end in a hard line
// break written with a backslash; `spellBD`, `expectedBD`, `bembed`): ops `benum <i>` (scope size `cmfrag bcount`) and
// `bgen <seed> <size>`.
//
// Stage 10 (a stage-6 document inside ONE block quote: `"> "` in front of every line, blank lines too; the source free
// of the bytes that could start a list item or a link label; `spellQ`, `expectedQ`, `qembed`): ops `qenum <i>` (scope
// size `cmfrag qcount`) and `qgen <seed> <size>`.
//
// Stage 10 without the final line feed (the documents of stage 10 with `trail` forced to 0, the line feed of the last
// line left out; `spellQE`, `expectedQ`, `qembedE`): ops `qeenum <i>` (scope size `cmfrag qecount`, the indices of
// `qenum`) and `qegen <seed> <size>`.
//
// Stage 11 (`EDoc`: documents of paragraphs whose lines contain code spans, `*x*` and `**x**`; `spellE`, `expectedE`,
// `eembed`): ops `emenum <i>` (scope size `cmfrag emcount`) and `emgen <seed> <size>`.
//
// Stage 12 (`IDoc`: the stage-6 blocks and INDENTED CODE BLOCKS — lines of four spaces and text — where an indented code
// block needs a blank line behind a paragraph, any block may follow it directly, blank lines behind it are not content,
// and no indented code block follows an indented code block; `spellIc`, `expectedI`, `iembed`): ops `ienum <i>` (scope
// size `cmfrag icount`) and `igen <seed> <size>`; the same documents with `trail` forced to 0, written WITHOUT the final
// line feed (`spellIcE`, `expectedI`, `iembedE`; the last block may be an indented code block): ops `ieenum <i>` and
// `iegen <seed> <size>`.
//
// Stage 13 (`UDocS`, the union: the blocks of stage 6 and the indented code blocks of stage 12, paragraph lines and
// heading texts are the rich lines of stage 11, paragraph lines may end in a backslash hard line break as in stage 9;
// without final line feed the last block is not an indented code block; `spellU`, `expectedU`,
// `uembed`): ops `uenum <i>` (scope size `cmfrag ucount`) and `ugen <seed> <size>`; written without the final line
// feed (`spellUE`, `uembedE`, `trail` forced to 0): ops `ueenum <i>` (scope size `cmfrag uecount`) and `uegen <seed> <size>`.

import (
	"bytes"
	"fmt"
	"sort"
	"strconv"
	"strings"
	"sync"

	"github.com/yuin/goldmark"
	"github.com/yuin/goldmark/renderer/html"
)

var (
	cmfragMD    = goldmark.New(goldmark.WithRendererOptions(html.WithUnsafe(), html.WithXHTML()))
	cmfragCache = map[string]string{}
	cmfragMu    sync.Mutex
)

func init() {
	register(&Component{
		Name: "cmfrag",
		Rule: "members of the fragment GM.Spec.CMFrag generated by the Lean driver (exhaustive small scope + random documents; stage 1-3 documents of paragraphs, stage-4 documents of paragraphs, ATX headings and thematic breaks, stage-5 documents of these and fenced code blocks, stage-6 documents of the same blocks without a blank line in between where CommonMark allows it, and stage-7 documents = stage-6 documents written without the final line feed, and stage-8 documents of paragraphs whose lines contain code spans, and stage-9 documents of paragraphs with backslash hard line breaks, and stage-10 documents = stage-6 documents without list / link-label starting bytes inside one block quote (also written without the final line feed), and stage-11 documents of paragraphs whose lines contain code spans, `*x*` and `**x**`, and stage-12 documents = stage-6 blocks and indented code blocks (also written without the final line feed), and stage-13 documents = the stage-6 / stage-7 block structure with the rich lines of stage 11 as paragraph lines and heading texts and backslash hard line breaks behind paragraph lines, and stage-14 documents = the stage-10 documents inside 2..4 nested block quotes (a few inside one)), converted by the real goldmark and compared byte for byte with expectedF / expectedG / expectedH / expectedK / expectedR / expectedBD / expectedQ / expectedE / expectedI / expectedU / expectedNQ; non-trivial = more than one line or block, a blank-line choice, a heading, thematic break or fenced code block, or a character not written literally; distinct = (blocks by kind, lines, blank-line shape, set of spelling kinds / escaped output characters; for fenced code: info string, empty content, empty content line, fence at the end of the source; for stage 6 and 7: the ordered pairs of block kinds that abut; for stage 7: the kind of the last line; for stage 8: the number of code spans of the fullest line, the classes of the source bytes directly before an opening and directly after a closing delimiter; for stage 9: the number of hard breaks, of soft breaks, the classes of the two source bytes in front of a break backslash, a paragraph whose breaks are all hard; for stage 10: the key of the quoted stage-6 document, a quoted blank line first / last / inside a fence; for stage 11: the stage-8 key, the numbers of emphases and strong emphases of the fullest line, the classes of the source bytes directly before an opening and directly after a closing delimiter run; for stage 12: for every indented code block the kind of the line in front of it and what follows it — the next block directly, 1..3 blank lines and then which block, or the end; without the final line feed also the kind of the last line; for stage 13: the stage-6 / stage-7 key, the stage-8 / 9 / 11 keys, a heading with a code span / emphasis / strong emphasis, a hard break directly behind a line that contains a code span / emphasis; for stage 14: the stage-10 key and the number of quotes)",
		Gen:  genCMFrag,
		Impl: implCMFrag,
		Scope: func(tier string) string {
			ex := "exhaustive: all indices of Driver.CMFrag.families (a X z for the 95 printable characters x 8 spellings, and x the longest numeric references; all shapes of 1..3 paragraphs x 1..3 lines x gap 0..2 x trail 0..2 x 3 line-pool rotations; all one- and two-character lines; all pairs of notable characters; line/paragraph joins)"
			ex += "; stage 4, all indices of Driver.CMFrag.gfamilies (one heading: 6 levels x 15 texts x gap 0..1 x trail 0..1; one thematic break: 3 characters x 4 lengths x gap x trail; all sequences of 1..3 of {paragraph of 1 line, of 2 lines, heading, ---, ***, ___} x gap 0..1 each x trail 0..1; blank lines only)"
			ex += "; stage 5, all indices of Driver.CMFrag.hfamilies (one fence: 2 fence characters x 3 lengths x 3 infos x 12 contents x trail 0..1; all ordered pairs of {paragraph, heading, ---, backtick fence with info and one line, tilde fence without lines} x gap 0..1 each x trail 0..1; two fences x same / other character x 3 lengths x trail 0..1)"
			ex += "; stage 6, all indices of Driver.CMFrag.kfamilies (all ordered pairs and triples of {paragraph of 1 line, of 2 lines, heading, ---, ***, ___, backtick fence with one line, tilde fence without lines, backtick fence with info} x blank line or none in front of each later block (the combinations outside the fragment are skipped) x trail 0..1; 12 chains of 4 abutting blocks x trail 0..1)"
			ex += "; stage 7, the same indices as stage 6 with trail forced to 0 and the source written without its final line feed"
			ex += "; stage 8, all indices of Driver.CMFrag.rfamilies (15 fixed lines with one to three code spans x gap 0..1 x trail 0..1; each of the 95 printable characters x 7 spellings directly before and directly after a code span, and alone between two code spans; all shapes of 1..2 paragraphs x 1..3 lines x gap 0..1 x trail 0..1 x 5 line-pool rotations; blank lines only)"
			ex += "; stage 9, all indices of Driver.CMFrag.bfamilies (the last character of a hard line: the 95 printable characters x 7 spellings x 3 positions, only a literal letter or digit being inside the fragment; one paragraph of 2 and of 3 lines x every flag combination x 4 line-pool rotations x gap 0..1 x trail 0..1; two paragraphs; hard lines of one and of two characters; every notable character and every pair of them in front of the last character of a hard line; the line behind a hard line; blank lines only)"
			ex += "; stage 10, all indices of Driver.CMFrag.qfamilies (the stage-6 indices with `-`, `*`, `+`, `[`, digits replaced; one block of every kind x 0..2 blank lines in front x 0..2 behind; fences with empty and marker-like content lines, alone and directly behind a paragraph), every line behind a block-quote marker; stage 10 without the final line feed, the same indices with trail forced to 0 and the source written without its final line feed"
			ex += "; stage 11, all indices of Driver.CMFrag.emfamilies (27 fixed lines with emphasis, strong emphasis and code spans x gap 0..1 x trail 0..1; each of the 95 printable characters x 7 spellings directly before an opening and directly after a closing * / ** run, next to a letter and next to a space; the same characters alone between all 16 ordered pairs of {*x*, **x**, code span, *xy*}; all shapes of 1..2 paragraphs x 1..3 lines x gap 0..1 x trail 0..1 x 9 line-pool rotations; blank lines only)"
			ex += "; stage 12, all indices of Driver.CMFrag.ifamilies (one indented code block: 12 contents x 0..2 blank lines in front x 0..3 behind; all ordered pairs and triples of {the nine block kinds of stage 6, indented code block} x 0..2 blank lines in front of each later block x trail 0..2, the combinations outside the fragment skipped), and the same indices with trail forced to 0 written without the final line feed"
			ex += "; stage 13, all indices of Driver.CMFrag.ufamilies (22 fixed documents: rich headings, heading texts ending in a code span / emphasis / an escaped # / a space (outside the fragment: skipped), hard breaks directly behind x*y*z and a`x`b, blocks directly behind a hard-broken paragraph; all ordered pairs of {rich paragraph of 1 line, of 2 lines with a hard break, rich heading, ***, fence, ---, rich paragraph of 2 lines} x blank line or none x trail 0..1 x 8 line-pool rotations; all ordered triples of the first five kinds x blank line or none each x trail 0..1; one heading: 6 levels x 27 stage-11 lines x trail 0..1; one paragraph of 3 stage-11 lines x every combination of hard flags x trail 0..1; blank lines only), and the same indices with trail forced to 0 written without the final line feed"
			ex += "; stage 14, every stage-10 index x 2, 3, 4 nested quotes, every 16th stage-10 index inside one quote (Driver.CMFrag.withNQDoc)"
			if tier == "thorough" {
				return ex + "; 40k random fragment documents (size 1..10); 40k random stage-4 documents (size 1..10); 40k random stage-5 documents (size 1..10); 40k random stage-6 documents (size 1..10); 40k random stage-7 documents (size 1..10); 40k random stage-8 documents (size 1..10); 40k random stage-9 documents (size 1..10); 40k random stage-10 documents (size 1..10); 40k random stage-10 documents without the final line feed (size 1..10); 40k random stage-11 documents (size 1..10); 40k random stage-12 documents with and 40k without the final line feed (size 1..10); 40k random stage-13 documents with and 40k without the final line feed (size 1..10); 40k random stage-14 documents (size 1..10)"
			}
			return ex + "; 3k random fragment documents (size 1..6); 3k random stage-4 documents (size 1..6); 3k random stage-5 documents (size 1..6); 3k random stage-6 documents (size 1..6); 3k random stage-7 documents (size 1..6); 3k random stage-8 documents (size 1..6); 3k random stage-9 documents (size 1..6); 3k random stage-10 documents (size 1..6); 3k random stage-10 documents without the final line feed (size 1..6); 3k random stage-11 documents (size 1..6); 3k random stage-12 documents with and 3k without the final line feed (size 1..6); 3k random stage-13 documents with and 3k without the final line feed (size 1..6); 3k random stage-14 documents (size 1..6)"
		},
		Exhaustive: true,
	})
}

func cmfragConvert(src []byte) []byte {
	var buf bytes.Buffer
	if err := cmfragMD.Convert(src, &buf); err != nil {
		return []byte("error:" + err.Error())
	}
	return buf.Bytes()
}

func genCMFrag(tier string, rng *RNG, emit func(Case)) {
	nrand, maxSize := 3000, 6
	if tier == "thorough" {
		nrand, maxSize = 40000, 10
	}
	var cases []Case
	var lines []string
	add := func(c Case) {
		cases = append(cases, c)
		lines = append(lines, c.Line("cmfrag"))
	}
	count := 0
	if r, err := runDriver(driverPath, []string{"cmfrag count"}); err == nil && len(r) == 1 {
		count, _ = strconv.Atoi(r[0])
	}
	for i := 0; i < count; i++ {
		add(Case{Op: "enum", Args: []string{strconv.Itoa(i)}})
	}
	for i := 0; i < nrand; i++ {
		seed := rng.Next() % 1000000007
		add(Case{Op: "gen", Args: []string{strconv.FormatUint(seed, 10), strconv.Itoa(1 + i%maxSize)}})
	}
	gcount := 0
	if r, err := runDriver(driverPath, []string{"cmfrag gcount"}); err == nil && len(r) == 1 {
		gcount, _ = strconv.Atoi(r[0])
	}
	for i := 0; i < gcount; i++ {
		add(Case{Op: "genum", Args: []string{strconv.Itoa(i)}})
	}
	for i := 0; i < nrand; i++ {
		seed := rng.Next() % 1000000007
		add(Case{Op: "ggen", Args: []string{strconv.FormatUint(seed, 10), strconv.Itoa(1 + i%maxSize)}})
	}
	hcount := 0
	if r, err := runDriver(driverPath, []string{"cmfrag hcount"}); err == nil && len(r) == 1 {
		hcount, _ = strconv.Atoi(r[0])
	}
	for i := 0; i < hcount; i++ {
		add(Case{Op: "henum", Args: []string{strconv.Itoa(i)}})
	}
	for i := 0; i < nrand; i++ {
		seed := rng.Next() % 1000000007
		add(Case{Op: "hgen", Args: []string{strconv.FormatUint(seed, 10), strconv.Itoa(1 + i%maxSize)}})
	}
	kcount := 0
	if r, err := runDriver(driverPath, []string{"cmfrag kcount"}); err == nil && len(r) == 1 {
		kcount, _ = strconv.Atoi(r[0])
	}
	for i := 0; i < kcount; i++ {
		add(Case{Op: "kenum", Args: []string{strconv.Itoa(i)}})
	}
	for i := 0; i < nrand; i++ {
		seed := rng.Next() % 1000000007
		add(Case{Op: "kgen", Args: []string{strconv.FormatUint(seed, 10), strconv.Itoa(1 + i%maxSize)}})
	}
	ecount := 0
	if r, err := runDriver(driverPath, []string{"cmfrag ecount"}); err == nil && len(r) == 1 {
		ecount, _ = strconv.Atoi(r[0])
	}
	for i := 0; i < ecount; i++ {
		add(Case{Op: "eenum", Args: []string{strconv.Itoa(i)}})
	}
	for i := 0; i < nrand; i++ {
		seed := rng.Next() % 1000000007
		add(Case{Op: "egen", Args: []string{strconv.FormatUint(seed, 10), strconv.Itoa(1 + i%maxSize)}})
	}
	rcount := 0
	if r, err := runDriver(driverPath, []string{"cmfrag rcount"}); err == nil && len(r) == 1 {
		rcount, _ = strconv.Atoi(r[0])
	}
	for i := 0; i < rcount; i++ {
		add(Case{Op: "renum", Args: []string{strconv.Itoa(i)}})
	}
	for i := 0; i < nrand; i++ {
		seed := rng.Next() % 1000000007
		add(Case{Op: "rgen", Args: []string{strconv.FormatUint(seed, 10), strconv.Itoa(1 + i%maxSize)}})
	}
	bcount := 0
	if r, err := runDriver(driverPath, []string{"cmfrag bcount"}); err == nil && len(r) == 1 {
		bcount, _ = strconv.Atoi(r[0])
	}
	for i := 0; i < bcount; i++ {
		add(Case{Op: "benum", Args: []string{strconv.Itoa(i)}})
	}
	for i := 0; i < nrand; i++ {
		seed := rng.Next() % 1000000007
		add(Case{Op: "bgen", Args: []string{strconv.FormatUint(seed, 10), strconv.Itoa(1 + i%maxSize)}})
	}
	qcount := 0
	if r, err := runDriver(driverPath, []string{"cmfrag qcount"}); err == nil && len(r) == 1 {
		qcount, _ = strconv.Atoi(r[0])
	}
	for i := 0; i < qcount; i++ {
		add(Case{Op: "qenum", Args: []string{strconv.Itoa(i)}})
	}
	for i := 0; i < nrand; i++ {
		seed := rng.Next() % 1000000007
		add(Case{Op: "qgen", Args: []string{strconv.FormatUint(seed, 10), strconv.Itoa(1 + i%maxSize)}})
	}
	qecount := 0
	if r, err := runDriver(driverPath, []string{"cmfrag qecount"}); err == nil && len(r) == 1 {
		qecount, _ = strconv.Atoi(r[0])
	}
	for i := 0; i < qecount; i++ {
		add(Case{Op: "qeenum", Args: []string{strconv.Itoa(i)}})
	}
	for i := 0; i < nrand; i++ {
		seed := rng.Next() % 1000000007
		add(Case{Op: "qegen", Args: []string{strconv.FormatUint(seed, 10), strconv.Itoa(1 + i%maxSize)}})
	}
	emcount := 0
	if r, err := runDriver(driverPath, []string{"cmfrag emcount"}); err == nil && len(r) == 1 {
		emcount, _ = strconv.Atoi(r[0])
	}
	for i := 0; i < emcount; i++ {
		add(Case{Op: "emenum", Args: []string{strconv.Itoa(i)}})
	}
	for i := 0; i < nrand; i++ {
		seed := rng.Next() % 1000000007
		add(Case{Op: "emgen", Args: []string{strconv.FormatUint(seed, 10), strconv.Itoa(1 + i%maxSize)}})
	}
	ucount := 0
	if r, err := runDriver(driverPath, []string{"cmfrag ucount"}); err == nil && len(r) == 1 {
		ucount, _ = strconv.Atoi(r[0])
	}
	for _, op := range []string{"u", "ue"} {
		for i := 0; i < ucount; i++ {
			add(Case{Op: op + "enum", Args: []string{strconv.Itoa(i)}})
		}
		for i := 0; i < nrand; i++ {
			seed := rng.Next() % 1000000007
			add(Case{Op: op + "gen", Args: []string{strconv.FormatUint(seed, 10), strconv.Itoa(1 + i%maxSize)}})
		}
	}
	// stage 14: the stage-10 documents inside k + 1 nested block quotes (k = 1..3; a few with k = 0)
	nqcount := 0
	if r, err := runDriver(driverPath, []string{"cmfrag nqcount"}); err == nil && len(r) == 1 {
		nqcount, _ = strconv.Atoi(r[0])
	}
	for i := 0; i < nqcount; i++ {
		add(Case{Op: "nqenum", Args: []string{strconv.Itoa(i)}})
	}
	for i := 0; i < nrand; i++ {
		seed := rng.Next() % 1000000007
		add(Case{Op: "nqgen", Args: []string{strconv.FormatUint(seed, 10), strconv.Itoa(1 + i%maxSize)}})
	}
	// stage 12: the stage-6 blocks and indented code blocks, with and without the final line feed
	icount := 0
	if r, err := runDriver(driverPath, []string{"cmfrag icount"}); err == nil && len(r) == 1 {
		icount, _ = strconv.Atoi(r[0])
	}
	for i := 0; i < icount; i++ {
		add(Case{Op: "ienum", Args: []string{strconv.Itoa(i)}})
	}
	for i := 0; i < nrand; i++ {
		seed := rng.Next() % 1000000007
		add(Case{Op: "igen", Args: []string{strconv.FormatUint(seed, 10), strconv.Itoa(1 + i%maxSize)}})
	}
	for i := 0; i < icount; i++ {
		add(Case{Op: "ieenum", Args: []string{strconv.Itoa(i)}})
	}
	for i := 0; i < nrand; i++ {
		seed := rng.Next() % 1000000007
		add(Case{Op: "iegen", Args: []string{strconv.FormatUint(seed, 10), strconv.Itoa(1 + i%maxSize)}})
	}
	resp, err := runDriverParallel(driverPath, lines)
	if err != nil || icount == 0 || nqcount == 0 || ucount == 0 || emcount == 0 || qecount == 0 || qcount == 0 || count == 0 || gcount == 0 || hcount == 0 || kcount == 0 || ecount == 0 || rcount == 0 || bcount == 0 {
		// the driver cannot be asked: one case, so that the failure is visible (Impl reports it)
		emit(Case{Op: "gen", Args: []string{"1", "1"}})
		return
	}
	cmfragMu.Lock()
	for i, l := range lines {
		cmfragCache[l] = resp[i]
	}
	cmfragMu.Unlock()
	for i, c := range cases {
		if resp[i] == "skip" || resp[i] == "end" {
			continue // an index whose document is outside the fragment (a literal `!`)

		}
		emit(c)
	}
}

// cmfragKey: what the case exercises, read off the source and the HTML: number of paragraphs, of lines, the
// blank-line shape (leading / extra separating / trailing), the spelling kinds present in the source and the
// escaped characters in the output. "" for a single plain line.
func cmfragKey(src, got []byte) string {
	paras := bytes.Count(got, []byte("<p>"))
	heads := bytes.Count(got, []byte("<h")) - bytes.Count(got, []byte("<hr"))
	hrs := bytes.Count(got, []byte("<hr"))
	body := bytes.Trim(src, "\n")
	lines := 0
	for _, l := range bytes.Split(body, []byte("\n")) {
		if len(l) > 0 {
			lines++
		}
	}
	var fl []string
	flag := func(c bool, s string) {
		if c {
			fl = append(fl, s)
		}
	}
	flag(bytes.HasPrefix(src, []byte("\n")), "lead")
	flag(bytes.Contains(body, []byte("\n\n\n")), "gap")
	flag(bytes.HasSuffix(src, []byte("\n\n")), "trail")
	flag(bytes.IndexByte(src, '\\') >= 0, "bs")
	hasDec, hasHex, hasNamed := false, false, false
	for i := 0; i+2 < len(src); i++ {
		if src[i] != '&' || (i > 0 && src[i-1] == '\\') {
			continue
		}
		switch {
		case src[i+1] == '#' && (src[i+2] == 'x' || src[i+2] == 'X'):
			hasHex = true
		case src[i+1] == '#':
			hasDec = true
		default:
			hasNamed = true
		}
	}
	flag(hasDec, "dec")
	flag(hasHex, "hex")
	flag(hasNamed, "named")
	flag(bytes.Contains(body, []byte("  ")), "spaces")
	for _, e := range []string{"&amp;", "&lt;", "&gt;", "&quot;"} {
		flag(bytes.Contains(got, []byte(e)), e)
	}
	pres := bytes.Count(got, []byte("<pre>"))
	if pres > 0 {
		flag(bytes.Contains(got, []byte("<code class=")), "info")
		flag(bytes.Contains(got, []byte("<code></code>")) || bytes.Contains(got, []byte("\"></code>")), "nolines")
		flag(bytes.Contains(got, []byte("<code>\n")) || bytes.Contains(got, []byte("\">\n")) || bytes.Contains(got, []byte("\n\n")), "emptyline")
		flag(bytes.Contains(src, []byte("~~~")), "tilde")
		flag(bytes.Contains(src, []byte("```")), "backtick")
		flag(bytes.HasSuffix(got, []byte("</code></pre>\n")) && !bytes.HasSuffix(src, []byte("\n\n")), "fence-at-end")
		flag(bytes.Contains(src, []byte(" \n")), "trailing-space")
		if heads > 0 {
			flag(true, "h"+string(got[bytes.Index(got, []byte("<h"))+2:][:1]))
		}
		return fmt.Sprintf("%dp%dh%dt%dc%dl|%s", paras, heads, hrs, pres, lines, strings.Join(fl, ","))
	}
	if heads > 0 || hrs > 0 {
		if heads > 0 {
			flag(true, "h"+string(got[bytes.Index(got, []byte("<h"))+2:][:1]))
		}
		return fmt.Sprintf("%dp%dh%dt%dl|%s", paras, heads, hrs, lines, strings.Join(fl, ","))
	}
	if paras <= 1 && lines <= 1 && len(fl) == 0 {
		if bytes.IndexFunc(body, func(r rune) bool {
			return !(r >= 'a' && r <= 'z' || r >= 'A' && r <= 'Z' || r >= '0' && r <= '9')
		}) < 0 {
			return ""
		}
		return "punct"
	}
	return fmt.Sprintf("%dp%dl|%s", paras, lines, strings.Join(fl, ","))
}

// cmfragAbuts: the set of ordered pairs of block kinds (p paragraph, h heading, t thematic break, c fenced code)
// that follow each other without a blank line in a stage-6 source.
func cmfragAbuts(src []byte) string {
	seen := map[string]bool{}
	prev := byte(0) // kind of the block that ended on the previous line, 0 behind a blank line / at the start
	fence := byte(0)
	var out []string
	for _, l := range bytes.Split(bytes.TrimSuffix(src, []byte("\n")), []byte("\n")) {
		if fence != 0 {
			if len(l) >= 3 && l[0] == fence && len(bytes.Trim(l, string(fence))) == 0 {
				fence, prev = 0, 'c'
			}
			continue
		}
		kind := byte('p')
		switch {
		case len(l) == 0:
			prev = 0
			continue
		case bytes.HasPrefix(l, []byte("```")) || bytes.HasPrefix(l, []byte("~~~")):
			kind, fence = 'c', l[0]
		case l[0] == '#':
			kind = 'h'
		case len(l) >= 3 && (l[0] == '-' || l[0] == '*' || l[0] == '_') && len(bytes.Trim(l, string(l[0]))) == 0:
			kind = 't'
		}
		if prev != 0 && !(prev == 'p' && kind == 'p') {
			if k := string([]byte{prev, kind}); !seen[k] {
				seen[k] = true
				out = append(out, k)
			}
		}
		if kind == 'c' {
			prev = 0
		} else {
			prev = kind
		}
	}
	sort.Strings(out)
	return strings.Join(out, ",")
}

// cmfragLastLine: the kind of the last line of a stage-7 source (the line without a line feed): p a paragraph line,
// h a heading, t a thematic break, c a closing fence; with `+` when the line before it is not blank and belongs to
// another block (for a closing fence: when the fence has no content lines).
func cmfragLastLine(src []byte) string {
	if bytes.HasSuffix(src, []byte("\n")) {
		return "eol"
	}
	ls := bytes.Split(src, []byte("\n"))
	l := ls[len(ls)-1]
	kind := "p"
	switch {
	case bytes.HasPrefix(l, []byte("    ")):
		return "i" // the last line of an indented code block (stage 12)
	case bytes.HasPrefix(l, []byte("```")) || bytes.HasPrefix(l, []byte("~~~")):
		kind = "c"
	case len(l) > 0 && l[0] == '#':
		kind = "h"
	case len(l) >= 3 && (l[0] == '-' || l[0] == '*' || l[0] == '_') && len(bytes.Trim(l, string(l[0]))) == 0:
		kind = "t"
	}
	if len(ls) < 2 || len(ls[len(ls)-2]) == 0 {
		return kind
	}
	pl := ls[len(ls)-2]
	prevText := !(pl[0] == '#' || bytes.HasPrefix(pl, []byte("```")) || bytes.HasPrefix(pl, []byte("~~~")) ||
		(len(pl) >= 3 && (pl[0] == '-' || pl[0] == '*' || pl[0] == '_') && len(bytes.Trim(pl, string(pl[0]))) == 0))
	switch kind {
	case "p":
		if prevText {
			return "p" // a further line of the same paragraph
		}
	case "c":
		if !(bytes.HasPrefix(pl, []byte("```")) || bytes.HasPrefix(pl, []byte("~~~"))) {
			return "c" // a content line in front of the closing fence
		}
	}
	return kind + "+"
}

// cmfragSpans: for a stage-8 source, the largest number of code spans on one line and the classes of the bytes
// directly before an opening and directly after a closing delimiter (a letter/digit, s space, b backslash-escaped
// backtick or backslash, ; the end of a reference, p other punctuation).
func cmfragSpans(src []byte) string {
	class := func(l []byte, i int, before bool) byte {
		c := l[i]
		switch {
		case c >= 'a' && c <= 'z' || c >= 'A' && c <= 'Z' || c >= '0' && c <= '9':
			return 'a'
		case c == ' ':
			return 's'
		case c == ';' && before:
			return ';'
		case (c == '`' || c == '\\') && before:
			return 'b'
		case c == '\\' && i+1 < len(l) && (l[i+1] == '`' || l[i+1] == '\\'):
			return 'b'
		}
		return 'p'
	}
	maxSpans := 0
	pre, post := map[byte]bool{}, map[byte]bool{}
	for _, l := range bytes.Split(src, []byte("\n")) {
		spans, open := 0, false
		for i := 0; i < len(l); i++ {
			if l[i] == '\\' {
				i++
				continue
			}
			if l[i] != '`' {
				continue
			}
			if !open {
				if i > 0 {
					pre[class(l, i-1, true)] = true
				}
			} else {
				spans++
				if i+1 < len(l) {
					post[class(l, i+1, false)] = true
				}
			}
			open = !open
		}
		if spans > maxSpans {
			maxSpans = spans
		}
	}
	set := func(m map[byte]bool) string {
		var out []byte
		for _, k := range []byte("asb;p") {
			if m[k] {
				out = append(out, k)
			}
		}
		return string(out)
	}
	return fmt.Sprintf("%d|pre:%s|post:%s", maxSpans, set(pre), set(post))
}

// cmfragBreaks: for a stage-9 source, the number of hard breaks (a line that ends in a backslash and is followed by a
// further line of the paragraph), of soft breaks, the classes of the two source bytes in front of the break backslash
// (a letter/digit, s space, ; the end of a reference, b backslash, p other punctuation, - none), and `allhard` when
// some paragraph of three or more lines has only hard breaks.
func cmfragBreaks(src []byte) string {
	class := func(c byte) byte {
		switch {
		case c >= 'a' && c <= 'z' || c >= 'A' && c <= 'Z' || c >= '0' && c <= '9':
			return 'a'
		case c == ' ':
			return 's'
		case c == ';':
			return ';'
		case c == '\\':
			return 'b'
		}
		return 'p'
	}
	hard, soft, allHard := 0, 0, false
	seen := map[string]bool{}
	var pre []string
	ls := bytes.Split(src, []byte("\n"))
	runHard, runLines := 0, 0
	for i, l := range ls {
		if len(l) == 0 {
			runHard, runLines = 0, 0
			continue
		}
		runLines++
		if i+1 >= len(ls) || len(ls[i+1]) == 0 {
			if runLines >= 3 && runHard == runLines-1 {
				allHard = true
			}
			continue
		}
		if l[len(l)-1] != '\\' {
			soft++
			continue
		}
		hard++
		runHard++
		k := []byte{'-', '-'}
		if len(l) >= 3 {
			k[0] = class(l[len(l)-3])
		}
		if len(l) >= 2 {
			k[1] = class(l[len(l)-2])
		}
		if !seen[string(k)] {
			seen[string(k)] = true
			pre = append(pre, string(k))
		}
	}
	sort.Strings(pre)
	out := fmt.Sprintf("%dh%ds|pre:%s", min(hard, 3), min(soft, 3), strings.Join(pre, ","))
	if allHard {
		out += "|allhard"
	}
	return out
}

// cmfragQuoted: for a stage-10 source, the stage-6 source inside the quote (every line without its `"> "`), the HTML
// inside `<blockquote>`, and the places of quoted blank lines: first line, last line, inside a fence.
func cmfragQuoted(src, got []byte) (inner, innerGot []byte, where string) {
	ls := bytes.Split(bytes.TrimSuffix(src, []byte("\n")), []byte("\n"))
	var fl []string
	fence := byte(0)
	inFence := false
	for i, l := range ls {
		l = bytes.TrimPrefix(l, []byte("> "))
		inner = append(append(inner, l...), '\n')
		switch {
		case fence != 0 && len(l) >= 3 && l[0] == fence && len(bytes.Trim(l, string(fence))) == 0:
			fence = 0
		case fence != 0 && len(l) == 0:
			inFence = true
		case fence == 0 && (bytes.HasPrefix(l, []byte("```")) || bytes.HasPrefix(l, []byte("~~~"))):
			fence = l[0]
		case fence == 0 && len(l) == 0 && i == 0:
			fl = append(fl, "first")
		case fence == 0 && len(l) == 0 && i == len(ls)-1:
			fl = append(fl, "last")
		}
	}
	if inFence {
		fl = append(fl, "fence")
	}
	innerGot = bytes.TrimSuffix(bytes.TrimPrefix(got, []byte("<blockquote>\n")), []byte("</blockquote>\n"))
	return inner, innerGot, strings.Join(fl, ",")
}

// cmfragEmph: for a stage-11 source, the largest numbers of `*x*` and `**x**` on one line and the classes of the
// bytes directly before an opening and directly after a closing delimiter run (a letter/digit, s space, b backslash-
// escaped `*`, backtick or backslash, ; the end of a reference, c a code-span delimiter, p other punctuation).
func cmfragEmph(src []byte) string {
	class := func(l []byte, i int, before bool) byte {
		c := l[i]
		switch {
		case c >= 'a' && c <= 'z' || c >= 'A' && c <= 'Z' || c >= '0' && c <= '9':
			return 'a'
		case c == ' ':
			return 's'
		case c == ';' && before:
			return ';'
		case before && i > 0 && l[i-1] == '\\' && (c == '*' || c == '`' || c == '\\'):
			return 'b'
		case !before && c == '\\' && i+1 < len(l) && (l[i+1] == '*' || l[i+1] == '`' || l[i+1] == '\\'):
			return 'b'
		case c == '`':
			return 'c'
		}
		return 'p'
	}
	maxEm, maxStrong := 0, 0
	pre, post := map[byte]bool{}, map[byte]bool{}
	for _, l := range bytes.Split(src, []byte("\n")) {
		em, strong, open := 0, 0, false
		for i := 0; i < len(l); i++ {
			if l[i] == '\\' {
				i++
				continue
			}
			if l[i] != '*' {
				continue
			}
			j := i
			for j < len(l) && l[j] == '*' {
				j++
			}
			if !open {
				if i > 0 {
					pre[class(l, i-1, true)] = true
				}
			} else {
				if j-i == 1 {
					em++
				} else {
					strong++
				}
				if j < len(l) {
					post[class(l, j, false)] = true
				}
			}
			open = !open
			i = j - 1
		}
		if em > maxEm {
			maxEm = em
		}
		if strong > maxStrong {
			maxStrong = strong
		}
	}
	set := func(m map[byte]bool) string {
		var out []byte
		for _, k := range []byte("asb;cp") {
			if m[k] {
				out = append(out, k)
			}
		}
		return string(out)
	}
	return fmt.Sprintf("%d,%d|pre:%s|post:%s", maxEm, maxStrong, set(pre), set(post))
}

// cmfragUnion: for a stage-13 document, what the union adds: a heading that contains a code span (hc), emphasis (he),
// strong emphasis (hs); a hard break directly behind a line that contains a code span (bc) / emphasis (be).
func cmfragUnion(src, got []byte) string {
	var fl []string
	seen := map[string]bool{}
	flag := func(c bool, s string) {
		if c && !seen[s] {
			seen[s] = true
			fl = append(fl, s)
		}
	}
	for _, l := range bytes.Split(got, []byte("\n")) {
		if len(l) > 3 && l[0] == '<' && l[1] == 'h' && l[2] != 'r' {
			flag(bytes.Contains(l, []byte("<code>")), "hc")
			flag(bytes.Contains(l, []byte("<em>")), "he")
			flag(bytes.Contains(l, []byte("<strong>")), "hs")
		}
		if bytes.HasSuffix(l, []byte("<br />")) {
			flag(bytes.Contains(l, []byte("<code>")), "bc")
			flag(bytes.Contains(l, []byte("<em>")) || bytes.Contains(l, []byte("<strong>")), "be")
		}
	}
	sort.Strings(fl)
	return strings.Join(fl, ",")
}

// cmfragIcode: where the indented code blocks of a stage-12 source stand: for every run of lines that start with four
// spaces (outside a fence) the kind of the line in front (s start of the document, b blank, p paragraph line, h heading,
// t thematic break, c closing fence) and behind (e end of the document, b blank + how many blank lines up to 3, else the
// kind of the following line: p h t c), as a sorted set.
func cmfragIcode(src []byte) string {
	ls := bytes.Split(bytes.TrimSuffix(src, []byte("\n")), []byte("\n"))
	kindOf := func(l []byte) byte {
		switch {
		case len(l) == 0:
			return 'b'
		case bytes.HasPrefix(l, []byte("    ")):
			return 'i'
		case bytes.HasPrefix(l, []byte("```")) || bytes.HasPrefix(l, []byte("~~~")):
			return 'c'
		case l[0] == '#':
			return 'h'
		case len(l) >= 3 && (l[0] == '-' || l[0] == '*' || l[0] == '_') && len(bytes.Trim(l, string(l[0]))) == 0:
			return 't'
		}
		return 'p'
	}
	kinds := make([]byte, len(ls))
	fence := byte(0)
	for i, l := range ls {
		if fence != 0 {
			kinds[i] = 'x'
			if len(l) >= 3 && l[0] == fence && len(bytes.Trim(l, string(fence))) == 0 {
				fence, kinds[i] = 0, 'c'
			}
			continue
		}
		kinds[i] = kindOf(l)
		if kinds[i] == 'c' {
			fence = l[0]
		}
	}
	seen := map[string]bool{}
	var out []string
	for i := 0; i < len(ls); i++ {
		if kinds[i] != 'i' || (i > 0 && kinds[i-1] == 'i') {
			continue
		}
		front := byte('s')
		if i > 0 {
			front = kinds[i-1]
		}
		j := i
		for j < len(ls) && kinds[j] == 'i' {
			j++
		}
		behind := "e"
		if j < len(ls) {
			behind = string(kinds[j])
			if kinds[j] == 'b' {
				n := 0
				for j+n < len(ls) && kinds[j+n] == 'b' {
					n++
				}
				if n > 3 {
					n = 3
				}
				behind = "b" + strconv.Itoa(n)
				if j+n < len(ls) {
					behind += string(kinds[j+n])
				} else {
					behind += "e"
				}
			}
		}
		k := string(front) + ">" + behind
		if !seen[k] {
			seen[k] = true
			out = append(out, k)
		}
	}
	sort.Strings(out)
	return strings.Join(out, ",")
}

func implCMFrag(c Case) ImplResult {
	switch c.Op {
	case "gen", "enum", "ggen", "genum", "hgen", "henum", "kgen", "kenum", "egen", "eenum", "rgen", "renum", "bgen", "benum", "qgen", "qenum", "qegen", "qeenum", "emgen", "emenum":
	case "igen", "ienum", "iegen", "ieenum":
	case "ugen", "uenum", "uegen", "ueenum":
	case "nqgen", "nqenum":
	default:
		return ImplResult{Out: "bad-op"}
	}
	line := c.Line("cmfrag")
	cmfragMu.Lock()
	resp, ok := cmfragCache[line]
	cmfragMu.Unlock()
	if !ok {
		r, err := runDriver(driverPath, []string{line})
		if err != nil || len(r) != 1 {
			return ImplResult{Out: "driver-unavailable", NoModel: true, Fails: []OracleFail{{Property: "C02", Clause: "assumption:generator-unavailable", Detail: fmt.Sprint(err)}}}
		}
		resp = r[0]
	}
	parts := strings.Split(resp, " ")
	if len(parts) != 2 {
		return ImplResult{Out: resp} // skip / end / bad-op: compared with the driver's own answer
	}
	src, want := unhx(parts[0]), unhx(parts[1])
	got := cmfragConvert(src)
	res := ImplResult{Out: hx(src) + " " + hx(got), Key: cmfragKey(src, got)}
	if c.Op == "kgen" || c.Op == "kenum" {
		res.Key += "|abut:" + cmfragAbuts(src)
	}
	if c.Op == "egen" || c.Op == "eenum" {
		res.Key += "|abut:" + cmfragAbuts(src) + "|noeol:" + cmfragLastLine(src)
	}
	if c.Op == "rgen" || c.Op == "renum" {
		res.Key += "|spans:" + cmfragSpans(src)
	}
	if c.Op == "bgen" || c.Op == "benum" {
		res.Key += "|breaks:" + cmfragBreaks(src)
	}
	if c.Op == "qgen" || c.Op == "qenum" {
		inner, innerGot, where := cmfragQuoted(src, got)
		res.Key = "q|" + cmfragKey(inner, innerGot) + "|abut:" + cmfragAbuts(inner) + "|qblank:" + where
	}
	if c.Op == "nqgen" || c.Op == "nqenum" {
		inner, innerGot, where, depth := cmfragQuotedN(src, got)
		res.Key = "nq" + strconv.Itoa(depth) + "|" + cmfragKey(inner, innerGot) + "|abut:" + cmfragAbuts(inner) + "|qblank:" + where
	}
	if c.Op == "qegen" || c.Op == "qeenum" {
		inner, innerGot, where := cmfragQuoted(src, got)
		res.Key = "qe|" + cmfragKey(inner, innerGot) + "|abut:" + cmfragAbuts(inner) + "|qblank:" + where +
			"|noeol:" + cmfragLastLine(bytes.TrimSuffix(inner, []byte("\n")))
	}
	if c.Op == "emgen" || c.Op == "emenum" {
		res.Key += "|spans:" + cmfragSpans(src) + "|em:" + cmfragEmph(src)
	}
	if c.Op == "igen" || c.Op == "ienum" {
		res.Key += "|icode:" + cmfragIcode(src)
	}
	if c.Op == "iegen" || c.Op == "ieenum" {
		res.Key += "|icode:" + cmfragIcode(src) + "|noeol:" + cmfragLastLine(src)
	}
	if c.Op == "ugen" || c.Op == "uenum" || c.Op == "uegen" || c.Op == "ueenum" {
		res.Key += "|abut:" + cmfragAbuts(src) + "|spans:" + cmfragSpans(src) + "|breaks:" + cmfragBreaks(src) + "|em:" + cmfragEmph(src) + "|u:" + cmfragUnion(src, got)
		if ic := cmfragIcode(src); ic != "" {
			res.Key += "|icode:" + ic // the union also has the indented code blocks of stage 12
		}
		if c.Op == "uegen" || c.Op == "ueenum" {
			res.Key += "|noeol:" + cmfragLastLine(src)
		}
	}
	if !bytes.Equal(got, want) {
		res.Fails = append(res.Fails, OracleFail{Property: "C02", Clause: "fragment-document-differs",
			Detail: fmt.Sprintf("input=%q got=%q want=%q", src, got, want)})
	}
	args := c.Op + " " + strings.Join(c.Args, " ")
	res.Checks = append(res.Checks,
		ModelCheck{Line: "cmfrag model " + args, Property: "C02"},
		ModelCheck{Line: "cmfrag spec " + args, Property: "C02"})
	return res
}

// cmfragQuotedN: for a stage-14 source (a stage-6 document inside depth nested block quotes), the stage-6 source (every
// line without its depth markers `"> "`; the first line of a stage-6 document never begins with `>`, so the depth is
// the number of times every line begins with `"> "`), the HTML inside the depth `<blockquote>` elements, the places
// of quoted blank lines as in cmfragQuoted, and the depth.
func cmfragQuotedN(src, got []byte) (inner, innerGot []byte, where string, depth int) {
	allQuoted := func(s []byte) bool {
		if len(s) == 0 {
			return false
		}
		for _, l := range bytes.Split(bytes.TrimSuffix(s, []byte("\n")), []byte("\n")) {
			if !bytes.HasPrefix(l, []byte("> ")) {
				return false
			}
		}
		return true
	}
	inner, innerGot = src, got
	for allQuoted(inner) {
		inner, innerGot, where = cmfragQuoted(inner, innerGot)
		depth++
	}
	return inner, innerGot, where, depth
}

// Stage 15 (a stage-13 union document inside ONE block quote: `"> "` in front of every line; the source free of the
// bytes `qcleanByte` excludes, `*` among them, so no emphasis atom occurs: text, code spans, backslash hard breaks, all
// block kinds; `spellUQ`, `expectedUQ`, `uqembed`): ops `uqenum <i>` (scope size `cmfrag uqcount`) and
// `uqgen <seed> <size>`. Added behind the other stages by wrapping the registered component (this init runs after the
// one above).
func init() {
	c := components["cmfrag"]
	if c == nil {
		return
	}
	gen0, impl0, scope0 := c.Gen, c.Impl, c.Scope
	c.Rule += "; stage 15 = stage-13 documents without `*`, list / link-label starting bytes inside one block quote, compared with expectedUQ; distinct = the key of the quoted stage-13 document (stage-6, stage-8, stage-9 keys, a heading with a code span, a hard break behind a line with a code span), a quoted blank line first / last / inside a fence"
	c.Scope = func(tier string) string {
		s := scope0(tier) + "; stage 15, all indices of Driver.CMFrag.uqfamilies (the stage-13 indices made clean: excluded text bytes replaced, *x* respelled as a code span, **x** as text, thematic breaks written with _; one block of every kind x 0..2 blank lines in front x 0..2 behind; a hard break behind each of 6 lines x the line behind it x nothing / a heading with a code span / ___ / a fence directly behind the paragraph x trail 0..1; one heading: 6 levels x 6 lines, alone and directly behind a paragraph x trail 0..1), every line behind a block-quote marker"
		if tier == "thorough" {
			return s + "; 40k random stage-15 documents (size 1..10)"
		}
		return s + "; 3k random stage-15 documents (size 1..6)"
	}
	c.Gen = func(tier string, rng *RNG, emit func(Case)) {
		gen0(tier, rng, emit)
		genCMFragUQ(tier, rng, emit)
	}
	c.Impl = func(cs Case) ImplResult {
		if cs.Op == "uqgen" || cs.Op == "uqenum" {
			return implCMFragUQ(cs)
		}
		return impl0(cs)
	}
}

func genCMFragUQ(tier string, rng *RNG, emit func(Case)) {
	nrand, maxSize := 3000, 6
	if tier == "thorough" {
		nrand, maxSize = 40000, 10
	}
	var cases []Case
	var lines []string
	add := func(c Case) {
		cases = append(cases, c)
		lines = append(lines, c.Line("cmfrag"))
	}
	uqcount := 0
	if r, err := runDriver(driverPath, []string{"cmfrag uqcount"}); err == nil && len(r) == 1 {
		uqcount, _ = strconv.Atoi(r[0])
	}
	for i := 0; i < uqcount; i++ {
		add(Case{Op: "uqenum", Args: []string{strconv.Itoa(i)}})
	}
	for i := 0; i < nrand; i++ {
		seed := rng.Next() % 1000000007
		add(Case{Op: "uqgen", Args: []string{strconv.FormatUint(seed, 10), strconv.Itoa(1 + i%maxSize)}})
	}
	resp, err := runDriverParallel(driverPath, lines)
	if err != nil || uqcount == 0 {
		// the driver cannot be asked: one case, so that the failure is visible (Impl reports it)
		emit(Case{Op: "uqgen", Args: []string{"1", "1"}})
		return
	}
	cmfragMu.Lock()
	for i, l := range lines {
		cmfragCache[l] = resp[i]
	}
	cmfragMu.Unlock()
	for i, c := range cases {
		if resp[i] == "skip" || resp[i] == "end" {
			continue // an index whose document is outside the fragment
		}
		emit(c)
	}
}

func implCMFragUQ(c Case) ImplResult {
	line := c.Line("cmfrag")
	cmfragMu.Lock()
	resp, ok := cmfragCache[line]
	cmfragMu.Unlock()
	if !ok {
		r, err := runDriver(driverPath, []string{line})
		if err != nil || len(r) != 1 {
			return ImplResult{Out: "driver-unavailable", NoModel: true, Fails: []OracleFail{{Property: "C02", Clause: "assumption:generator-unavailable", Detail: fmt.Sprint(err)}}}
		}
		resp = r[0]
	}
	parts := strings.Split(resp, " ")
	if len(parts) != 2 {
		return ImplResult{Out: resp} // skip / end / bad-op: compared with the driver's own answer
	}
	src, want := unhx(parts[0]), unhx(parts[1])
	got := cmfragConvert(src)
	res := ImplResult{Out: hx(src) + " " + hx(got)}
	inner, innerGot, where := cmfragQuoted(src, got)
	res.Key = "uq|" + cmfragKey(inner, innerGot) + "|abut:" + cmfragAbuts(inner) + "|qblank:" + where +
		"|spans:" + cmfragSpans(inner) + "|breaks:" + cmfragBreaks(inner) + "|u:" + cmfragUnion(inner, innerGot)
	if !bytes.Equal(got, want) {
		res.Fails = append(res.Fails, OracleFail{Property: "C02", Clause: "fragment-document-differs",
			Detail: fmt.Sprintf("input=%q got=%q want=%q", src, got, want)})
	}
	args := c.Op + " " + strings.Join(c.Args, " ")
	res.Checks = append(res.Checks,
		ModelCheck{Line: "cmfrag model " + args, Property: "C02"},
		ModelCheck{Line: "cmfrag spec " + args, Property: "C02"})
	return res
}

// Stage 16 (paragraphs whose lines are text atoms alternating with INLINE LINKS `[t](d)`: `t` letters and digits, `d`
// letters, digits and `/`, no title; `spellL`, `expectedL`, `lembed`): ops `lenum <i>` (scope size `cmfrag lcount`)
// and `lgen <seed> <size>`. Added behind the other stages by wrapping the registered component (this init runs after
// the ones above).
func init() {
	c := components["cmfrag"]
	if c == nil {
		return
	}
	gen0, impl0, scope0 := c.Gen, c.Impl, c.Scope
	c.Rule += "; stage 16 = paragraphs whose lines contain inline links [t](d) (t letters/digits, d letters/digits//, no title), compared with expectedL; distinct = the stage-1 key, the largest number of links on one line, the classes of the bytes directly before [ and directly after ), the shapes of the destinations"
	c.Scope = func(tier string) string {
		s := scope0(tier) + "; stage 16, all indices of Driver.CMFrag.lfamilies (26 fixed lines: a link touching text / between spaces, two and three links, destinations c /c c/d / // a/b/c/, longer texts, escaped brackets, parentheses, an escaped ! and &excl; next to a link; 95 characters x 7 spellings directly before [ and directly after ), and alone between two links; all shapes of 1..2 paragraphs x 1..3 lines x gap x trail x 9 rotations)"
		if tier == "thorough" {
			return s + "; 40k random stage-16 documents (size 1..10)"
		}
		return s + "; 3k random stage-16 documents (size 1..6)"
	}
	c.Gen = func(tier string, rng *RNG, emit func(Case)) {
		gen0(tier, rng, emit)
		genCMFragL(tier, rng, emit)
	}
	c.Impl = func(cs Case) ImplResult {
		if cs.Op == "lgen" || cs.Op == "lenum" {
			return implCMFragL(cs)
		}
		return impl0(cs)
	}
}

func genCMFragL(tier string, rng *RNG, emit func(Case)) {
	nrand, maxSize := 3000, 6
	if tier == "thorough" {
		nrand, maxSize = 40000, 10
	}
	var cases []Case
	var lines []string
	add := func(c Case) {
		cases = append(cases, c)
		lines = append(lines, c.Line("cmfrag"))
	}
	lcount := 0
	if r, err := runDriver(driverPath, []string{"cmfrag lcount"}); err == nil && len(r) == 1 {
		lcount, _ = strconv.Atoi(r[0])
	}
	for i := 0; i < lcount; i++ {
		add(Case{Op: "lenum", Args: []string{strconv.Itoa(i)}})
	}
	for i := 0; i < nrand; i++ {
		seed := rng.Next() % 1000000007
		add(Case{Op: "lgen", Args: []string{strconv.FormatUint(seed, 10), strconv.Itoa(1 + i%maxSize)}})
	}
	resp, err := runDriverParallel(driverPath, lines)
	if err != nil || lcount == 0 {
		// the driver cannot be asked: one case, so that the failure is visible (Impl reports it)
		emit(Case{Op: "lgen", Args: []string{"1", "1"}})
		return
	}
	cmfragMu.Lock()
	for i, l := range lines {
		cmfragCache[l] = resp[i]
	}
	cmfragMu.Unlock()
	for i, c := range cases {
		if resp[i] == "skip" || resp[i] == "end" {
			continue // an index whose document is outside the fragment
		}
		emit(c)
	}
}

// cmfragLinks: for a stage-16 source, the largest number of links on one line, the classes of the bytes directly
// before `[` and directly after `)` of a link (a letter/digit, s space, b a backslash-escaped byte, ; the end of a
// reference, p other punctuation) and the shapes of the destinations (s only slashes, l leading slash, t trailing
// slash, m a slash inside, n no slash).
func cmfragLinks(src []byte) string {
	alnum := func(c byte) bool { return c >= 'a' && c <= 'z' || c >= 'A' && c <= 'Z' || c >= '0' && c <= '9' }
	maxLinks := 0
	pre, post, shape := map[byte]bool{}, map[byte]bool{}, map[byte]bool{}
	for _, l := range bytes.Split(src, []byte("\n")) {
		links := 0
		for i := 0; i < len(l); i++ {
			if l[i] == '\\' {
				i++
				continue
			}
			if l[i] != '[' {
				continue
			}
			j := i + 1
			for j < len(l) && alnum(l[j]) {
				j++
			}
			if j == i+1 || j+1 >= len(l) || l[j] != ']' || l[j+1] != '(' {
				continue
			}
			k := j + 2
			for k < len(l) && (alnum(l[k]) || l[k] == '/') {
				k++
			}
			if k == j+2 || k >= len(l) || l[k] != ')' {
				continue
			}
			links++
			if i > 0 {
				c := l[i-1]
				switch {
				case i > 1 && l[i-2] == '\\' && !alnum(c):
					pre['b'] = true
				case alnum(c):
					pre['a'] = true
				case c == ' ':
					pre['s'] = true
				case c == ';':
					pre[';'] = true
				default:
					pre['p'] = true
				}
			}
			if k+1 < len(l) {
				c := l[k+1]
				switch {
				case c == '\\':
					post['b'] = true
				case alnum(c):
					post['a'] = true
				case c == ' ':
					post['s'] = true
				case c == '&':
					post[';'] = true
				default:
					post['p'] = true
				}
			}
			d := l[j+2 : k]
			switch {
			case len(bytes.Trim(d, "/")) == 0:
				shape['s'] = true
			case d[0] == '/':
				shape['l'] = true
			case d[len(d)-1] == '/':
				shape['t'] = true
			case bytes.IndexByte(d, '/') >= 0:
				shape['m'] = true
			default:
				shape['n'] = true
			}
			i = k
		}
		if links > maxLinks {
			maxLinks = links
		}
	}
	set := func(m map[byte]bool) string {
		var b []byte
		for _, c := range []byte("abps;lmnt") {
			if m[c] {
				b = append(b, c)
			}
		}
		return string(b)
	}
	if maxLinks > 3 {
		maxLinks = 3
	}
	return strconv.Itoa(maxLinks) + "/" + set(pre) + "/" + set(post) + "/" + set(shape)
}

func implCMFragL(c Case) ImplResult {
	line := c.Line("cmfrag")
	cmfragMu.Lock()
	resp, ok := cmfragCache[line]
	cmfragMu.Unlock()
	if !ok {
		r, err := runDriver(driverPath, []string{line})
		if err != nil || len(r) != 1 {
			return ImplResult{Out: "driver-unavailable", NoModel: true, Fails: []OracleFail{{Property: "C02", Clause: "assumption:generator-unavailable", Detail: fmt.Sprint(err)}}}
		}
		resp = r[0]
	}
	parts := strings.Split(resp, " ")
	if len(parts) != 2 {
		return ImplResult{Out: resp} // skip / end / bad-op: compared with the driver's own answer
	}
	src, want := unhx(parts[0]), unhx(parts[1])
	got := cmfragConvert(src)
	res := ImplResult{Out: hx(src) + " " + hx(got), Key: "l|" + cmfragKey(src, got) + "|links:" + cmfragLinks(src)}
	if !bytes.Equal(got, want) {
		res.Fails = append(res.Fails, OracleFail{Property: "C02", Clause: "fragment-document-differs",
			Detail: fmt.Sprintf("input=%q got=%q want=%q", src, got, want)})
	}
	args := c.Op + " " + strings.Join(c.Args, " ")
	res.Checks = append(res.Checks,
		ModelCheck{Line: "cmfrag model " + args, Property: "C02"},
		ModelCheck{Line: "cmfrag spec " + args, Property: "C02"})
	return res
}

// Stage 17 (paragraphs whose lines are text atoms alternating with IMAGES `![t](d)`: `t` letters and digits, `d`
// letters, digits and `/`, no title; `spellImg`, `expectedImg`, `imgembed`): ops `imgenum <i>` (scope size
// `cmfrag imgcount`) and `imggen <seed> <size>`. Stage 18 (the same with URI AUTOLINKS `<s:r>`: `s` 2..32 letters, `r`
// letters, digits, `/` and `.`; `spellAD`, `expectedAD`, `aembed`): ops `aenum <i>` (scope size `cmfrag acount`) and
// `agen <seed> <size>`. Added behind the other stages by wrapping the registered component (this init runs after the
// ones above).
func init() {
	c := components["cmfrag"]
	if c == nil {
		return
	}
	gen0, impl0, scope0 := c.Gen, c.Impl, c.Scope
	c.Rule += "; stage 17 = paragraphs whose lines contain images ![t](d) (t letters/digits, d letters/digits//, no title), compared with expectedImg; stage 18 = paragraphs whose lines contain URI autolinks <s:r> (s 2..32 letters, r letters/digits///.), compared with expectedAD; distinct (both) = the stage-1 key, the largest number of images / autolinks on one line, the classes of the bytes directly before and directly after them, the shapes of the destinations / the lengths of the schemes"
	c.Scope = func(tier string) string {
		s := scope0(tier) + "; stage 17, all indices of Driver.CMFrag.enumImg (the stage-16 indices with every link written as an image; 9 lines of their own: an escaped backslash, an escaped !, &excl;, &#33; directly in front of the image, an escaped ! behind it); stage 18, all indices of Driver.CMFrag.enumA (the stage-16 indices with every link written as an autolink; 23 lines of their own: schemes of 1 (skipped), 2, 3, 32, 33 (skipped) letters, upper case, well-known schemes, a rest ending in . or /, escaped < > and backslash next to the autolink)"
		if tier == "thorough" {
			return s + "; 40k random stage-17 and 40k random stage-18 documents (size 1..10)"
		}
		return s + "; 3k random stage-17 and 3k random stage-18 documents (size 1..6)"
	}
	c.Gen = func(tier string, rng *RNG, emit func(Case)) {
		gen0(tier, rng, emit)
		genCMFragAtoms(tier, rng, emit, "img")
		genCMFragAtoms(tier, rng, emit, "a")
	}
	c.Impl = func(cs Case) ImplResult {
		switch cs.Op {
		case "imggen", "imgenum":
			return implCMFragAtoms(cs, "img")
		case "agen", "aenum":
			return implCMFragAtoms(cs, "a")
		}
		return impl0(cs)
	}
}

// genCMFragAtoms: the cases of a stage whose ops are `<p>count`, `<p>enum <i>`, `<p>gen <seed> <size>`.
func genCMFragAtoms(tier string, rng *RNG, emit func(Case), p string) {
	nrand, maxSize := 3000, 6
	if tier == "thorough" {
		nrand, maxSize = 40000, 10
	}
	var cases []Case
	var lines []string
	add := func(c Case) {
		cases = append(cases, c)
		lines = append(lines, c.Line("cmfrag"))
	}
	count := 0
	if r, err := runDriver(driverPath, []string{"cmfrag " + p + "count"}); err == nil && len(r) == 1 {
		count, _ = strconv.Atoi(r[0])
	}
	for i := 0; i < count; i++ {
		add(Case{Op: p + "enum", Args: []string{strconv.Itoa(i)}})
	}
	for i := 0; i < nrand; i++ {
		seed := rng.Next() % 1000000007
		add(Case{Op: p + "gen", Args: []string{strconv.FormatUint(seed, 10), strconv.Itoa(1 + i%maxSize)}})
	}
	resp, err := runDriverParallel(driverPath, lines)
	if err != nil || count == 0 {
		// the driver cannot be asked: one case, so that the failure is visible (Impl reports it)
		emit(Case{Op: p + "gen", Args: []string{"1", "1"}})
		return
	}
	cmfragMu.Lock()
	for i, l := range lines {
		cmfragCache[l] = resp[i]
	}
	cmfragMu.Unlock()
	for i, c := range cases {
		if resp[i] == "skip" || resp[i] == "end" {
			continue // an index whose document is outside the fragment
		}
		emit(c)
	}
}

// cmfragAtoms17: for a stage-17 (`img`) or stage-18 (`a`) source, the largest number of images / autolinks on one
// line, the classes of the bytes directly before and directly after one (a letter/digit, s space, b a
// backslash-escaped byte, ; the end of a reference, p other punctuation), and the shape of the destination as in
// cmfragLinks (stage 17) / the length class of the scheme and the last byte of the URI (stage 18).
func cmfragAtoms17(src []byte, p string) string {
	alnum := func(c byte) bool { return c >= 'a' && c <= 'z' || c >= 'A' && c <= 'Z' || c >= '0' && c <= '9' }
	maxN := 0
	pre, post, shape := map[byte]bool{}, map[byte]bool{}, map[byte]bool{}
	for _, l := range bytes.Split(src, []byte("\n")) {
		n := 0
		for i := 0; i < len(l); i++ {
			if l[i] == '\\' {
				i++
				continue
			}
			start, end := -1, -1
			if p == "img" && l[i] == '!' && i+1 < len(l) && l[i+1] == '[' {
				if k := bytes.IndexByte(l[i:], ')'); k > 0 {
					start, end = i, i+k
					d := l[i+bytes.Index(l[i:], []byte("]("))+2 : end]
					switch {
					case len(bytes.Trim(d, "/")) == 0:
						shape['s'] = true
					case d[0] == '/':
						shape['l'] = true
					case d[len(d)-1] == '/':
						shape['t'] = true
					case bytes.IndexByte(d, '/') >= 0:
						shape['m'] = true
					default:
						shape['n'] = true
					}
				}
			}
			if p == "a" && l[i] == '<' {
				if k := bytes.IndexByte(l[i:], '>'); k > 0 {
					start, end = i, i+k
					sl := bytes.IndexByte(l[i:end], ':') - 1
					switch {
					case sl == 2:
						shape['2'] = true
					case sl == 32:
						shape['3'] = true
					case sl > 8:
						shape['L'] = true
					default:
						shape['S'] = true
					}
					switch l[end-1] {
					case '.':
						shape['.'] = true
					case '/':
						shape['/'] = true
					}
				}
			}
			if start < 0 {
				continue
			}
			n++
			if start > 0 {
				c := l[start-1]
				switch {
				case start > 1 && l[start-2] == '\\' && !alnum(c):
					pre['b'] = true
				case alnum(c):
					pre['a'] = true
				case c == ' ':
					pre['s'] = true
				case c == ';':
					pre[';'] = true
				default:
					pre['p'] = true
				}
			}
			if end+1 < len(l) {
				c := l[end+1]
				switch {
				case c == '\\':
					post['b'] = true
				case alnum(c):
					post['a'] = true
				case c == ' ':
					post['s'] = true
				case c == '&':
					post[';'] = true
				default:
					post['p'] = true
				}
			}
			i = end
		}
		if n > maxN {
			maxN = n
		}
	}
	set := func(m map[byte]bool) string {
		var b []byte
		for _, c := range []byte("abps;lmnt23LS./") {
			if m[c] {
				b = append(b, c)
			}
		}
		return string(b)
	}
	if maxN > 3 {
		maxN = 3
	}
	return strconv.Itoa(maxN) + "/" + set(pre) + "/" + set(post) + "/" + set(shape)
}

func implCMFragAtoms(c Case, p string) ImplResult {
	line := c.Line("cmfrag")
	cmfragMu.Lock()
	resp, ok := cmfragCache[line]
	cmfragMu.Unlock()
	if !ok {
		r, err := runDriver(driverPath, []string{line})
		if err != nil || len(r) != 1 {
			return ImplResult{Out: "driver-unavailable", NoModel: true, Fails: []OracleFail{{Property: "C02", Clause: "assumption:generator-unavailable", Detail: fmt.Sprint(err)}}}
		}
		resp = r[0]
	}
	parts := strings.Split(resp, " ")
	if len(parts) != 2 {
		return ImplResult{Out: resp} // skip / end / bad-op: compared with the driver's own answer
	}
	src, want := unhx(parts[0]), unhx(parts[1])
	got := cmfragConvert(src)
	res := ImplResult{Out: hx(src) + " " + hx(got), Key: p + "|" + cmfragKey(src, got) + "|atoms:" + cmfragAtoms17(src, p)}
	if !bytes.Equal(got, want) {
		res.Fails = append(res.Fails, OracleFail{Property: "C02", Clause: "fragment-document-differs",
			Detail: fmt.Sprintf("input=%q got=%q want=%q", src, got, want)})
	}
	args := c.Op + " " + strings.Join(c.Args, " ")
	res.Checks = append(res.Checks,
		ModelCheck{Line: "cmfrag model " + args, Property: "C02"},
		ModelCheck{Line: "cmfrag spec " + args, Property: "C02"})
	return res
}

// Stage 19 (paragraphs whose lines are text atoms alternating with RAW HTML TAGS `<n>` / `</n>`: `n` a letter followed
// by letters and digits, no attributes; the prescribed HTML keeps the bytes of the tag: the component runs goldmark
// WithUnsafe; `spellH19`, `expectedH19`, `h19embed`): ops `h19enum <i>` (scope size `cmfrag h19count`) and
// `h19gen <seed> <size>`. Added behind the other stages by wrapping the registered component.
func init() {
	c := components["cmfrag"]
	if c == nil {
		return
	}
	gen0, impl0, scope0 := c.Gen, c.Impl, c.Scope
	c.Rule += "; stage 19 = paragraphs whose lines contain raw HTML tags <n> and </n> (n a letter followed by letters/digits, no attributes), compared with expectedH19; distinct = the stage-1 key, the largest number of tags on one line, the classes of the bytes directly before < and directly after >, open / closing tags, the classes of the tag names (one character, upper case, digit, block-level name)"
	c.Scope = func(tier string) string {
		s := scope0(tier) + "; stage 19, all indices of Driver.CMFrag.enumH19 (the stage-16 indices with every link written as an open or a closing tag; 25 lines of their own: names of 1, 2, 10 characters, upper case, with digits, div p pre script style textarea a in inline position, escaped < > and backslash next to a tag; names beginning with a digit, containing - or empty are skipped)"
		if tier == "thorough" {
			return s + "; 40k random stage-19 documents (size 1..10)"
		}
		return s + "; 3k random stage-19 documents (size 1..6)"
	}
	c.Gen = func(tier string, rng *RNG, emit func(Case)) {
		gen0(tier, rng, emit)
		genCMFragAtoms(tier, rng, emit, "h19")
	}
	c.Impl = func(cs Case) ImplResult {
		if cs.Op == "h19gen" || cs.Op == "h19enum" {
			res := implCMFragAtoms(cs, "h19")
			if parts := strings.Split(res.Out, " "); len(parts) == 2 {
				res.Key = "h19|" + cmfragKey(unhx(parts[0]), unhx(parts[1])) + "|tags:" + cmfragTags19(unhx(parts[0]))
			}
			return res
		}
		return impl0(cs)
	}
}

// cmfragTags19: for a stage-19 source, the largest number of tags on one line, the classes of the bytes directly
// before `<` and directly after `>` of a tag (as in cmfragLinks), o / c for open / closing tags, and the classes of
// the tag names (1 one character, U an upper-case letter, d a digit, B the name of a block-level element).
func cmfragTags19(src []byte) string {
	alnum := func(c byte) bool { return c >= 'a' && c <= 'z' || c >= 'A' && c <= 'Z' || c >= '0' && c <= '9' }
	block := map[string]bool{"div": true, "p": true, "pre": true, "script": true, "style": true, "textarea": true, "h1": true}
	maxN := 0
	pre, post, kind := map[byte]bool{}, map[byte]bool{}, map[byte]bool{}
	for _, l := range bytes.Split(src, []byte("\n")) {
		n := 0
		for i := 0; i < len(l); i++ {
			if l[i] == '\\' {
				i++
				continue
			}
			if l[i] != '<' {
				continue
			}
			k := bytes.IndexByte(l[i:], '>')
			if k < 0 {
				continue
			}
			end := i + k
			name := l[i+1 : end]
			if len(name) > 0 && name[0] == '/' {
				kind['c'] = true
				name = name[1:]
			} else {
				kind['o'] = true
			}
			if len(name) == 1 {
				kind['1'] = true
			}
			for _, c := range name {
				if c >= 'A' && c <= 'Z' {
					kind['U'] = true
				}
				if c >= '0' && c <= '9' {
					kind['d'] = true
				}
			}
			if block[strings.ToLower(string(name))] {
				kind['B'] = true
			}
			n++
			if i > 0 {
				c := l[i-1]
				switch {
				case i > 1 && l[i-2] == '\\' && !alnum(c):
					pre['b'] = true
				case alnum(c):
					pre['a'] = true
				case c == ' ':
					pre['s'] = true
				case c == ';':
					pre[';'] = true
				default:
					pre['p'] = true
				}
			}
			if end+1 < len(l) {
				c := l[end+1]
				switch {
				case c == '\\':
					post['b'] = true
				case alnum(c):
					post['a'] = true
				case c == ' ':
					post['s'] = true
				case c == '&':
					post[';'] = true
				default:
					post['p'] = true
				}
			}
			i = end
		}
		if n > maxN {
			maxN = n
		}
	}
	set := func(m map[byte]bool) string {
		var b []byte
		for _, c := range []byte("abps;oc1UdB") {
			if m[c] {
				b = append(b, c)
			}
		}
		return string(b)
	}
	if maxN > 3 {
		maxN = 3
	}
	return strconv.Itoa(maxN) + "/" + set(pre) + "/" + set(post) + "/" + set(kind)
}

// ---- stage 20 (underscore emphasis); formerly a file of its own ----
// Stage 20 of component `cmfrag` (paragraphs whose lines are text atoms alternating with UNDERSCORE emphasis `_x_` /
// `__x__`, x letters and digits; the source byte in front of an opening run and the one behind a closing run is white
// space or punctuation; `spellUn`, `expectedUn`, `unembed`): ops `unenum <i>` (scope size `cmfrag uncount`) and
// `ungen <seed> <size>`. And the NON-members `unnon <i>` (scope size `cmfrag unnoncount`): lines with one emphasis atom
// that violate exactly that neighbour condition (`a_b_c`, `a_b_ c`, `a _b_c`, …); CommonMark reads them as literal text,
// the expected output is the literal line. Added behind the other stages by wrapping the registered component (this
// init stands behind the other ones of this file: the init functions of one file run in their order of appearance).


func init() {
	c := components["cmfrag"]
	if c == nil {
		return
	}
	gen0, impl0, scope0 := c.Gen, c.Impl, c.Scope
	c.Rule += "; stage 20 = paragraphs whose lines contain underscore emphasis _x_ / __x__ between text whose neighbouring source bytes are white space or punctuation, compared with expectedUn, and the non-members (a letter or digit as neighbouring source byte) compared with the literal line; distinct = the stage-1 key, member or not, the numbers of _x_ and __x__ of the fullest line, the classes of the source bytes directly before an opening and directly after a closing run"
	c.Scope = func(tier string) string {
		s := scope0(tier) + "; stage 20, all indices of Driver.CMFrag.unfamilies (19 fixed lines x gap 0..1 x trail 0..1; each of the 95 printable characters x 7 spellings directly before an opening and directly after a closing _ / __ run, and alone between all 4 ordered pairs of {_x_, __x__}, members only; all shapes of 1..2 paragraphs x 1..3 lines x gap 0..1 x trail 0..1 x 6 line-pool rotations; blank lines only) and all indices of Driver.CMFrag.unNonDoc (a_b_c, a_b_ c, a _b_c, the same with __, and the edge documents that are not members)"
		if tier == "thorough" {
			return s + "; 40k random stage-20 documents (size 1..10)"
		}
		return s + "; 3k random stage-20 documents (size 1..6)"
	}
	c.Gen = func(tier string, rng *RNG, emit func(Case)) {
		gen0(tier, rng, emit)
		genCMFragAtoms(tier, rng, emit, "un")
		genCMFragUnNon(emit)
	}
	c.Impl = func(cs Case) ImplResult {
		switch cs.Op {
		case "ungen", "unenum", "unnon":
			return implCMFragUn(cs)
		}
		return impl0(cs)
	}
}

// genCMFragUnNon: the non-member cases `unnon <i>`.
func genCMFragUnNon(emit func(Case)) {
	count := 0
	if r, err := runDriver(driverPath, []string{"cmfrag unnoncount"}); err == nil && len(r) == 1 {
		count, _ = strconv.Atoi(r[0])
	}
	var cases []Case
	var lines []string
	for i := 0; i < count; i++ {
		c := Case{Op: "unnon", Args: []string{strconv.Itoa(i)}}
		cases = append(cases, c)
		lines = append(lines, c.Line("cmfrag"))
	}
	resp, err := runDriverParallel(driverPath, lines)
	if err != nil || count == 0 {
		emit(Case{Op: "unnon", Args: []string{"0"}})
		return
	}
	cmfragMu.Lock()
	for i, l := range lines {
		cmfragCache[l] = resp[i]
	}
	cmfragMu.Unlock()
	for i, c := range cases {
		if resp[i] == "skip" || resp[i] == "end" {
			continue // a member, or outside for another reason (a literal `!`)
		}
		emit(c)
	}
}

// cmfragUnder: for a stage-20 source, the largest numbers of `_x_` and `__x__` on one line and the classes of the bytes
// directly before an opening and directly after a closing run (a letter/digit, s space, b a backslash-escaped byte /
// the backslash of an escape, ; the end / & the start of a reference, p other punctuation).
func cmfragUnder(src []byte) string {
	alnum := func(c byte) bool { return c >= 'a' && c <= 'z' || c >= 'A' && c <= 'Z' || c >= '0' && c <= '9' }
	maxEm, maxStrong := 0, 0
	pre, post := map[byte]bool{}, map[byte]bool{}
	for _, l := range bytes.Split(src, []byte("\n")) {
		em, strong, open := 0, 0, false
		for i := 0; i < len(l); i++ {
			if l[i] == '\\' {
				i++
				continue
			}
			if l[i] != '_' {
				continue
			}
			j := i
			for j < len(l) && l[j] == '_' {
				j++
			}
			if !open {
				if i > 0 {
					c := l[i-1]
					switch {
					case i > 1 && l[i-2] == '\\' && !alnum(c):
						pre['b'] = true
					case alnum(c):
						pre['a'] = true
					case c == ' ':
						pre['s'] = true
					case c == ';':
						pre[';'] = true
					default:
						pre['p'] = true
					}
				}
			} else {
				if j-i == 1 {
					em++
				} else {
					strong++
				}
				if j < len(l) {
					c := l[j]
					switch {
					case c == '\\':
						post['b'] = true
					case alnum(c):
						post['a'] = true
					case c == ' ':
						post['s'] = true
					case c == '&':
						post['&'] = true
					default:
						post['p'] = true
					}
				}
			}
			open = !open
			i = j - 1
		}
		if em > maxEm {
			maxEm = em
		}
		if strong > maxStrong {
			maxStrong = strong
		}
	}
	set := func(m map[byte]bool) string {
		var b []byte
		for _, c := range []byte("asb;&p") {
			if m[c] {
				b = append(b, c)
			}
		}
		return string(b)
	}
	return fmt.Sprintf("%d,%d/%s/%s", maxEm, maxStrong, set(pre), set(post))
}

func implCMFragUn(c Case) ImplResult {
	line := c.Line("cmfrag")
	cmfragMu.Lock()
	resp, ok := cmfragCache[line]
	cmfragMu.Unlock()
	if !ok {
		r, err := runDriver(driverPath, []string{line})
		if err != nil || len(r) != 1 {
			return ImplResult{Out: "driver-unavailable", NoModel: true, Fails: []OracleFail{{Property: "C02", Clause: "assumption:generator-unavailable", Detail: fmt.Sprint(err)}}}
		}
		resp = r[0]
	}
	parts := strings.Split(resp, " ")
	if len(parts) != 2 {
		return ImplResult{Out: resp} // skip / end / bad-op: compared with the driver's own answer
	}
	src, want := unhx(parts[0]), unhx(parts[1])
	got := cmfragConvert(src)
	kind := "un|"
	if c.Op == "unnon" {
		kind = "unnon|"
	}
	res := ImplResult{Out: hx(src) + " " + hx(got), Key: kind + cmfragKey(src, got) + "|under:" + cmfragUnder(src)}
	if !bytes.Equal(got, want) {
		res.Fails = append(res.Fails, OracleFail{Property: "C02", Clause: "fragment-document-differs",
			Detail: fmt.Sprintf("input=%q got=%q want=%q", src, got, want)})
	}
	args := c.Op + " " + strings.Join(c.Args, " ")
	res.Checks = append(res.Checks,
		ModelCheck{Line: "cmfrag model " + args, Property: "C02"},
		ModelCheck{Line: "cmfrag spec " + args, Property: "C02"})
	return res
}

// Stage 22 (the WIDER class of quoted contents, `gqfragB` / `guqfragB`: the documents of stages 14 / 13 NOT made clean,
// so digits, `-`, `+`, `*` inside text lines, `***` thematic breaks and — in the union — `*x*` / `**x**` occur; no tab,
// carriage return, `[`, no line ending in `-` or `=`): ops `gqenum <i>` / `gqgen <seed> <size>` (a stage-6 document
// inside 1..4 quotes, `spellNQ` / `expectedNQ`; scope size `cmfrag gqcount`) and `guqenum <i>` / `guqgen <seed> <size>`
// (a stage-13 union document inside 1..3 quotes, `quoteLinesN (k+1) (spellU d)` / `wrapQ (k+1) (expectedU d)`; scope
// size `cmfrag guqcount`). Added behind the other stages by wrapping the registered component.
func init() {
	c := components["cmfrag"]
	if c == nil {
		return
	}
	gen0, impl0, scope0 := c.Gen, c.Impl, c.Scope
	c.Rule += "; stage 22 = stage-6 documents (gq, 1..4 quotes) and stage-13 union documents (guq, 1..3 quotes) with digits, -, +, * (text, *** breaks, emphasis) inside nested block quotes, no [ / tab / CR, no line ending in - or =, compared with expectedNQ / wrapQ (k+1) (expectedU d); distinct = the depth, the key of the quoted document, quoted blank lines, which of the wider bytes occur"
	c.Scope = func(tier string) string {
		s := scope0(tier) + "; stage 22, all indices of nqenum and 3 x all indices of Driver.CMFrag.uqfamilies, the documents not made clean (members of gqfragB / guqfragB only)"
		if tier == "thorough" {
			return s + "; 2 x 40k random stage-22 documents (size 1..10)"
		}
		return s + "; 2 x 3k random stage-22 documents (size 1..6)"
	}
	c.Gen = func(tier string, rng *RNG, emit func(Case)) {
		gen0(tier, rng, emit)
		genCMFragAtoms(tier, rng, emit, "gq")
		genCMFragAtoms(tier, rng, emit, "guq")
	}
	c.Impl = func(cs Case) ImplResult {
		switch cs.Op {
		case "gqgen", "gqenum", "guqgen", "guqenum":
			return gqImplCMFrag(cs)
		}
		return impl0(cs)
	}
}

// gqWide: for the source inside the quotes, which of the bytes the wider class admits occur: d a digit, `-`, `+`, `*`
// outside thematic breaks, t a thematic break written with `*` or `-`, o a line that begins like an ordered list item
// behind its first byte (digits then `.` or `)`), b a line that begins with `-`, `+` or `*` and a space.
func gqWide(inner []byte) string {
	m := map[byte]bool{}
	for _, l := range bytes.Split(inner, []byte("\n")) {
		t := bytes.TrimLeft(l, " ")
		if len(t) >= 3 && (t[0] == '*' || t[0] == '-') && len(bytes.Trim(t, string(t[0])+" ")) == 0 {
			m['t'] = true
			continue
		}
		if len(t) >= 2 && (t[0] == '-' || t[0] == '+' || t[0] == '*') && t[1] == ' ' {
			m['b'] = true
		}
		j := 0
		for j < len(t) && t[j] >= '0' && t[j] <= '9' {
			j++
		}
		if j > 0 && j < len(t) && (t[j] == '.' || t[j] == ')') {
			m['o'] = true
		}
		for _, c := range t {
			switch {
			case c >= '0' && c <= '9':
				m['d'] = true
			case c == '-' || c == '+' || c == '*':
				m[c] = true
			}
		}
	}
	var b []byte
	for _, c := range []byte("d-+*tob") {
		if m[c] {
			b = append(b, c)
		}
	}
	return string(b)
}

func gqImplCMFrag(c Case) ImplResult {
	line := c.Line("cmfrag")
	cmfragMu.Lock()
	resp, ok := cmfragCache[line]
	cmfragMu.Unlock()
	if !ok {
		r, err := runDriver(driverPath, []string{line})
		if err != nil || len(r) != 1 {
			return ImplResult{Out: "driver-unavailable", NoModel: true, Fails: []OracleFail{{Property: "C02", Clause: "assumption:generator-unavailable", Detail: fmt.Sprint(err)}}}
		}
		resp = r[0]
	}
	parts := strings.Split(resp, " ")
	if len(parts) != 2 {
		return ImplResult{Out: resp} // skip / end / bad-op: compared with the driver's own answer
	}
	src, want := unhx(parts[0]), unhx(parts[1])
	got := cmfragConvert(src)
	res := ImplResult{Out: hx(src) + " " + hx(got)}
	inner, innerGot, where, depth := cmfragQuotedN(src, got)
	if c.Op == "gqgen" || c.Op == "gqenum" {
		res.Key = "gq" + strconv.Itoa(depth) + "|" + cmfragKey(inner, innerGot) + "|abut:" + cmfragAbuts(inner) + "|qblank:" + where +
			"|wide:" + gqWide(inner)
	} else {
		res.Key = "guq" + strconv.Itoa(depth) + "|" + cmfragKey(inner, innerGot) + "|abut:" + cmfragAbuts(inner) + "|qblank:" + where +
			"|spans:" + cmfragSpans(inner) + "|breaks:" + cmfragBreaks(inner) + "|em:" + cmfragEmph(inner) + "|u:" + cmfragUnion(inner, innerGot) +
			"|wide:" + gqWide(inner)
	}
	if !bytes.Equal(got, want) {
		res.Fails = append(res.Fails, OracleFail{Property: "C02", Clause: "fragment-document-differs",
			Detail: fmt.Sprintf("input=%q got=%q want=%q", src, got, want)})
	}
	args := c.Op + " " + strings.Join(c.Args, " ")
	res.Checks = append(res.Checks,
		ModelCheck{Line: "cmfrag model " + args, Property: "C02"},
		ModelCheck{Line: "cmfrag spec " + args, Property: "C02"})
	return res
}

// ---- stage 21 (the union with all inline atoms) ----
// Stage 21 of component `cmfrag` (`F21Doc`: the blocks of stage 13 — paragraphs, ATX headings, thematic breaks, fenced
// and indented code blocks — whose rich lines contain every kind of inline atom of the stages: code spans, `*x*` /
// `**x**`, `_x_` / `__x__`, links `[t](d)`, images `![t](d)`, autolinks `<s:r>`, raw tags `<n>` / `</n>`; `spellF21`,
// `expectedF21`, `f21embed`): ops `f21enum <i>` (scope size `cmfrag f21count`) and `f21gen <seed> <size>`; without the
// final line feed `f21eenum` / `f21egen` (`f21ecount`); and the same documents judged WITHOUT the restriction
// `f21restrS` of the present theorem (no hard break, not both emphasis and link/image atoms in one paragraph):
// `f21wenum` / `f21wgen` (`f21wcount`).
func init() {
	c := components["cmfrag"]
	if c == nil {
		return
	}
	gen0, impl0, scope0 := c.Gen, c.Impl, c.Scope
	c.Rule += "; stage 21 = the union fragment (stage 13 with indented code) whose rich lines contain all inline atoms (code spans, * and _ emphasis, links, images, autolinks, raw tags), compared with expectedF21, with / without final line feed, with (f21, f21e) / without (f21w) the restriction f21restrS; distinct = the stage-1 key, the op family, the set of ordered pairs of neighbouring atom kinds on one line with the class of a single byte between them, the last line"
	c.Scope = func(tier string) string {
		s := scope0(tier) + "; stage 21, all indices of Driver.CMFrag.enumF21 (all ordered pairs of the 10 atom kinds x 8 one-character texts between x touching / spaced outer text x paragraph / heading; every kind alone; fixed documents; the uenum documents)"
		if tier == "thorough" {
			return s + "; 3 x 40k random stage-21 documents (size 1..10)"
		}
		return s + "; 3 x 3k random stage-21 documents (size 1..6)"
	}
	c.Gen = func(tier string, rng *RNG, emit func(Case)) {
		gen0(tier, rng, emit)
		genCMFragAtoms(tier, rng, emit, "f21")
		genCMFragAtoms(tier, rng, emit, "f21e")
		genCMFragAtoms(tier, rng, emit, "f21w")
	}
	c.Impl = func(cs Case) ImplResult {
		switch cs.Op {
		case "f21gen", "f21enum", "f21egen", "f21eenum", "f21wgen", "f21wenum":
			return implCMFragF21(cs)
		}
		return impl0(cs)
	}
}

// cmfragF21: the set of ordered pairs of neighbouring inline atoms on one line of a stage-21 source (c code span,
// e `*x*`, s `**x**`, u `_x_`, v `__x__`, l link, i image, a autolink, o open tag, x closing tag), with the class of the
// text between them when it is a single byte (s space, a letter/digit, p punctuation; - otherwise), and whether a line
// ends with a backslash (hard break) behind an atom-bearing line.
func cmfragF21(src []byte) string {
	alnum := func(c byte) bool { return c >= 'a' && c <= 'z' || c >= 'A' && c <= 'Z' || c >= '0' && c <= '9' }
	seen := map[string]bool{}
	fence := byte(0)
	for _, l := range bytes.Split(src, []byte("\n")) {
		if fence != 0 {
			if len(l) >= 3 && l[0] == fence && len(bytes.Trim(l, string(fence))) == 0 {
				fence = 0
			}
			continue
		}
		if bytes.HasPrefix(l, []byte("```")) || bytes.HasPrefix(l, []byte("~~~")) {
			fence = l[0]
			continue
		}
		if bytes.HasPrefix(l, []byte("    ")) {
			continue
		}
		prev, prevEnd := byte(0), -1
		n := 0
		for i := 0; i < len(l); i++ {
			if l[i] == '\\' {
				i++
				continue
			}
			kind, end := byte(0), -1
			switch {
			case l[i] == '`':
				if k := bytes.IndexByte(l[i+1:], '`'); k >= 0 {
					kind, end = 'c', i+1+k
				}
			case l[i] == '*' || l[i] == '_':
				j := i
				for j < len(l) && l[j] == l[i] {
					j++
				}
				if k := bytes.IndexByte(l[j:], l[i]); k > 0 {
					end = j + k + (j - i) - 1
					if end >= len(l) {
						end = len(l) - 1
					}
					switch {
					case l[i] == '*' && j-i == 1:
						kind = 'e'
					case l[i] == '*':
						kind = 's'
					case j-i == 1:
						kind = 'u'
					default:
						kind = 'v'
					}
				}
			case l[i] == '!' && i+1 < len(l) && l[i+1] == '[':
				if k := bytes.IndexByte(l[i:], ')'); k > 0 {
					kind, end = 'i', i+k
				}
			case l[i] == '[':
				if k := bytes.IndexByte(l[i:], ')'); k > 0 {
					kind, end = 'l', i+k
				}
			case l[i] == '<':
				if k := bytes.IndexByte(l[i:], '>'); k > 0 {
					end = i + k
					switch {
					case bytes.IndexByte(l[i:end], ':') > 0:
						kind = 'a'
					case l[i+1] == '/':
						kind = 'x'
					default:
						kind = 'o'
					}
				}
			}
			if kind == 0 {
				continue
			}
			n++
			if prev != 0 {
				between := byte('-')
				if i-prevEnd == 2 {
					b := l[i-1]
					switch {
					case b == ' ':
						between = 's'
					case alnum(b):
						between = 'a'
					default:
						between = 'p'
					}
				}
				seen[string([]byte{prev, between, kind})] = true
			}
			prev, prevEnd = kind, end
			i = end
		}
		if n > 0 && bytes.HasSuffix(l, []byte("\\")) {
			seen["hard"] = true
		}
		if n == 1 {
			seen[string([]byte{prev})] = true
		}
	}
	var out []string
	for k := range seen {
		out = append(out, k)
	}
	sort.Strings(out)
	return strings.Join(out, ",")
}

func implCMFragF21(c Case) ImplResult {
	line := c.Line("cmfrag")
	cmfragMu.Lock()
	resp, ok := cmfragCache[line]
	cmfragMu.Unlock()
	if !ok {
		r, err := runDriver(driverPath, []string{line})
		if err != nil || len(r) != 1 {
			return ImplResult{Out: "driver-unavailable", NoModel: true, Fails: []OracleFail{{Property: "C02", Clause: "assumption:generator-unavailable", Detail: fmt.Sprint(err)}}}
		}
		resp = r[0]
	}
	parts := strings.Split(resp, " ")
	if len(parts) != 2 {
		return ImplResult{Out: resp} // skip / end / bad-op: compared with the driver's own answer
	}
	src, want := unhx(parts[0]), unhx(parts[1])
	got := cmfragConvert(src)
	fam := "f21|"
	switch c.Op {
	case "f21egen", "f21eenum":
		fam = "f21e|"
	case "f21wgen", "f21wenum":
		fam = "f21w|"
	}
	res := ImplResult{Out: hx(src) + " " + hx(got), Key: fam + cmfragKey(src, got) + "|atoms:" + cmfragF21(src) + "|icode:" + cmfragIcode(src) + "|noeol:" + cmfragLastLine(src)}
	if !bytes.Equal(got, want) {
		res.Fails = append(res.Fails, OracleFail{Property: "C02", Clause: "fragment-document-differs",
			Detail: fmt.Sprintf("input=%q got=%q want=%q", src, got, want)})
	}
	args := c.Op + " " + strings.Join(c.Args, " ")
	res.Checks = append(res.Checks,
		ModelCheck{Line: "cmfrag model " + args, Property: "C02"},
		ModelCheck{Line: "cmfrag spec " + args, Property: "C02"})
	return res
}

// Stage 23 (a stage-21 document — all inline atoms but links / images, which `gqcleanByte` excludes with `[` — inside
// 1..3 nested block quotes, the wider class of stage 22, `gf21qfragB`; no indented code block): ops `gf21qenum <i>`
// (scope size `cmfrag gf21qcount`) and `gf21qgen <seed> <size>`; `quoteLinesN (k+1) (spellF21 d)` /
// `wrapQ (k+1) (expectedF21 d)`. Added behind the other stages by wrapping the registered component.
func init() {
	c := components["cmfrag"]
	if c == nil {
		return
	}
	gen0, impl0, scope0 := c.Gen, c.Impl, c.Scope
	c.Rule += "; stage 23 = stage-21 documents (code spans, * and _ emphasis, autolinks, raw tags; links / images replaced, no indented code, no [ / tab / CR, no line ending in - or =) inside 1..3 nested block quotes, compared with wrapQ (k+1) (expectedF21 d); distinct = the depth, the key of the quoted document, quoted blank lines, the neighbouring atom kinds, which of the wider bytes occur"
	c.Scope = func(tier string) string {
		s := scope0(tier) + "; stage 23, 3 x all indices of f21enum, the documents made clean by Driver.CMFrag.gqF21Clean (members of gf21qfragB only)"
		if tier == "thorough" {
			return s + "; 40k random stage-23 documents (size 1..10)"
		}
		return s + "; 3k random stage-23 documents (size 1..6)"
	}
	c.Gen = func(tier string, rng *RNG, emit func(Case)) {
		gen0(tier, rng, emit)
		genCMFragAtoms(tier, rng, emit, "gf21q")
	}
	c.Impl = func(cs Case) ImplResult {
		switch cs.Op {
		case "gf21qgen", "gf21qenum":
			return gqImplCMFragF21(cs)
		}
		return impl0(cs)
	}
}

func gqImplCMFragF21(c Case) ImplResult {
	line := c.Line("cmfrag")
	cmfragMu.Lock()
	resp, ok := cmfragCache[line]
	cmfragMu.Unlock()
	if !ok {
		r, err := runDriver(driverPath, []string{line})
		if err != nil || len(r) != 1 {
			return ImplResult{Out: "driver-unavailable", NoModel: true, Fails: []OracleFail{{Property: "C02", Clause: "assumption:generator-unavailable", Detail: fmt.Sprint(err)}}}
		}
		resp = r[0]
	}
	parts := strings.Split(resp, " ")
	if len(parts) != 2 {
		return ImplResult{Out: resp} // skip / end / bad-op: compared with the driver's own answer
	}
	src, want := unhx(parts[0]), unhx(parts[1])
	got := cmfragConvert(src)
	res := ImplResult{Out: hx(src) + " " + hx(got)}
	inner, innerGot, where, depth := cmfragQuotedN(src, got)
	res.Key = "gf21q" + strconv.Itoa(depth) + "|" + cmfragKey(inner, innerGot) + "|abut:" + cmfragAbuts(inner) + "|qblank:" + where +
		"|atoms:" + cmfragF21(inner) + "|breaks:" + cmfragBreaks(inner) + "|wide:" + gqWide(inner)
	if !bytes.Equal(got, want) {
		res.Fails = append(res.Fails, OracleFail{Property: "C02", Clause: "fragment-document-differs",
			Detail: fmt.Sprintf("input=%q got=%q want=%q", src, got, want)})
	}
	args := c.Op + " " + strings.Join(c.Args, " ")
	res.Checks = append(res.Checks,
		ModelCheck{Line: "cmfrag model " + args, Property: "C02"},
		ModelCheck{Line: "cmfrag spec " + args, Property: "C02"})
	return res
}
