package main

// Component `cmspec` (property C02): CommonMark conformance on constructed documents and rewritten spec
// examples.
//
// Stream 1 (ops gen/enum): the Lean spec-side model (GM.Spec.CommonMark / CMGen / CMEnum, served by the driver
// as `cmspec gen <seed> <size>` and `cmspec enum <i>`) produces an annotated document tree, its Markdown
// spelling and the HTML the specification prescribes. Gen asks the driver for the cases first (two-phase
// flow); Impl converts the spelling with goldmark (core CommonMark, html.WithUnsafe + html.WithXHTML) and
// compares byte for byte. The engine additionally compares `<spell> <got>` with the driver's
// `<spell> <expected>` line, so a difference shows up both as an oracle failure (with source/got/want) and as
// a broken correspondence.
//
// Stream 2 (op ex): the 652 examples of _test/spec.json under rewrites the specification licenses (extra /
// missing final newline, an unrelated closed block before / after), compared with spec.json's html plus the
// rendering of the added block; only for examples goldmark renders byte-identically in their original form
// and where the rewrite is safe (conservative side conditions below).

import (
	"bufio"
	"bytes"
	"fmt"
	"io"
	"os"
	"os/exec"
	"sync/atomic"
	"regexp"
	"strconv"
	"strings"
	"sync"

	"github.com/yuin/goldmark"
	"github.com/yuin/goldmark/renderer/html"
)

// driverPath is set from the -driver flag in main.go; Gen and (on a cache miss, e.g. replay) Impl call the
// driver binary directly.
var driverPath = "/verif/lean/.lake/build/bin/gmdriver"

var (
	cmspecMD    = goldmark.New(goldmark.WithRendererOptions(html.WithUnsafe(), html.WithXHTML()))
	cmspecCache = map[string]string{}
	cmspecMu    sync.Mutex
)

func init() {
	register(&Component{
		Name: "cmspec",
		Rule: "documents spelled by the Lean generator from annotated trees (exhaustive small scope: every choice axis of every family of trees of depth <= 2; random trees of growing size) and spec examples x licensed rewrites; non-trivial = the HTML contains a tag other than <p>; distinct = distinct tag-name sequences (constructed) / (section, rewrite) pairs (examples)",
		Gen:  genCMSpec,
		Impl: implCMSpec,
		Scope: func(tier string) string {
			if tier == "thorough" {
				return "exhaustive: all indices of GM.Spec.CMEnum.families (products of all choice axes over small trees); 150k random documents (size 0..24); 652 spec examples x 6 rewrites"
			}
			return "exhaustive: all indices of GM.Spec.CMEnum.families (products of all choice axes over small trees); 6k random documents (size 0..16); 652 spec examples x 6 rewrites"
		},
		Exhaustive: true,
	})
}

func cmspecConvert(src []byte) []byte {
	var buf bytes.Buffer
	if err := cmspecMD.Convert(src, &buf); err != nil {
		return []byte("error:" + err.Error())
	}
	return buf.Bytes()
}

// cmspecNorm: the part of the spec tests' normalisation (whitespace next to block-level tags is ignored) that is
// needed here, mirroring GM.Spec.CM.normalise: a newline directly before a closing container tag and newlines
// at the very end of the output are dropped (goldmark writes an HTML block that ends at EOF without a line
// ending as it stands in the source; the reference renderer adds the newline). Everything else is compared
// byte for byte.
func cmspecNorm(h []byte) []byte {
	closers := [][]byte{[]byte("</blockquote>"), []byte("</li>"), []byte("</ul>"), []byte("</ol>")}
	out := make([]byte, 0, len(h))
	for i := 0; i < len(h); i++ {
		if h[i] == '\n' {
			rest := h[i+1:]
			j := 0
			for j < len(rest) && rest[j] == '\n' {
				j++
			}
			rest = rest[j:]
			drop := len(rest) == 0
			for _, c := range closers {
				if bytes.HasPrefix(rest, c) {
					drop = true
				}
			}
			if drop {
				continue
			}
		}
		out = append(out, h[i])
	}
	return out
}

// ---------- a small pool of long-running driver processes for single questions (attribution, replays) ----------
// The driver flushes its output when it reads the line "sync"; a question is sent as "<line>\nsync\n" and two
// answer lines are read back.

type cmspecProc struct {
	mu  sync.Mutex
	in  io.WriteCloser
	out *bufio.Reader
	bad bool
}

var (
	cmspecPool     []*cmspecProc
	cmspecPoolOnce sync.Once
	cmspecPoolNext uint32
)

func cmspecAskOne(line string) (string, error) {
	cmspecPoolOnce.Do(func() {
		for i := 0; i < 8; i++ {
			cmd := exec.Command(driverPath)
			in, err1 := cmd.StdinPipe()
			out, err2 := cmd.StdoutPipe()
			if err1 != nil || err2 != nil || cmd.Start() != nil {
				continue
			}
			cmspecPool = append(cmspecPool, &cmspecProc{in: in, out: bufio.NewReaderSize(out, 1<<16)})
		}
	})
	if len(cmspecPool) > 0 {
		p := cmspecPool[int(atomic.AddUint32(&cmspecPoolNext, 1))%len(cmspecPool)]
		p.mu.Lock()
		defer p.mu.Unlock()
		if !p.bad {
			if _, err := io.WriteString(p.in, line+"\nsync\n"); err == nil {
				a, err1 := p.out.ReadString('\n')
				_, err2 := p.out.ReadString('\n')
				if err1 == nil && err2 == nil {
					return strings.TrimRight(a, "\n"), nil
				}
			}
			p.bad = true
		}
	}
	r, err := runDriver(driverPath, []string{line})
	if err != nil || len(r) != 1 {
		return "", fmt.Errorf("driver: %v", err)
	}
	return r[0], nil
}

func cmspecAsk(lines []string) ([]string, error) {
	return runDriverParallel(driverPath, lines)
}

func genCMSpec(tier string, rng *RNG, emit func(Case)) {
	nrand, maxSize := 6000, 17
	if tier == "thorough" {
		nrand, maxSize = 150000, 25
	}
	if !noModel {
		var cases []Case
		var lines []string
		add := func(c Case) {
			cases = append(cases, c)
			lines = append(lines, c.Line("cmspec"))
		}
		count := 0
		if r, err := runDriver(driverPath, []string{"cmspec count"}); err == nil && len(r) == 1 {
			count, _ = strconv.Atoi(r[0])
		}
		for i := 0; i < count; i++ {
			add(Case{Op: "enum", Args: []string{strconv.Itoa(i)}})
		}
		for i := 0; i < nrand; i++ {
			seed := rng.Next() % 1000000007
			add(Case{Op: "gen", Args: []string{strconv.FormatUint(seed, 10), strconv.Itoa(i % maxSize)}})
		}
		resp, err := cmspecAsk(lines)
		if err == nil {
			cmspecMu.Lock()
			for i, l := range lines {
				cmspecCache[l] = resp[i]
			}
			cmspecMu.Unlock()
			for i, c := range cases {
				if resp[i] == "skip" || resp[i] == "end" {
					continue // a combination of choices outside wellFormed
				}
				emit(c)
			}
		} else {
			// the driver cannot be asked: emit one case so that the failure is visible as a disagreement
			emit(Case{Op: "gen", Args: []string{"1", "1"}})
		}
	}
	for i := range cmspecFixed {
		emit(Case{Op: "fixed", Args: []string{strconv.Itoa(i)}})
	}
	exs := SpecExamples()
	for i := range exs {
		for r := 0; r < len(cmspecRewrites); r++ {
			emit(Case{Op: "ex", Args: []string{strconv.Itoa(i), strconv.Itoa(r)}})
		}
	}
}

var tagNameRe = regexp.MustCompile(`<(/?[a-zA-Z][a-zA-Z0-9]*)`)

func tagSeq(h []byte, max int) string {
	ms := tagNameRe.FindAllSubmatch(h, max)
	var sb strings.Builder
	for _, m := range ms {
		sb.Write(m[1])
		sb.WriteByte(' ')
	}
	return sb.String()
}

// cmspecFixed: documents with the HTML the specification prescribes, derived BY HAND from the CommonMark 0.31.2 text
// (4.7 link reference definitions: the title must be followed by the end of the line - example 210; otherwise the
// definition ends after the destination and has no title - example 211; a definition cannot interrupt a paragraph -
// example 213; what follows is paragraph text). Regression inputs of /repo fix 0539a73, with uses of the definitions
// so that title and destination become visible.
var cmspecFixed = [][2]string{
	{"[foo]: /url\n\"title\" ok\n\n[foo]\n", "<p>&quot;title&quot; ok</p>\n<p><a href=\"/url\">foo</a></p>\n"},
	{"[foo]:\n/url\n\"title\" ok\n\n[foo]\n", "<p>&quot;title&quot; ok</p>\n<p><a href=\"/url\">foo</a></p>\n"},
	{"[foo]: /url\n\"title\" [b]: /x\n\n[foo] [b]\n", "<p>&quot;title&quot; [b]: /x</p>\n<p><a href=\"/url\">foo</a> [b]</p>\n"},
	{"[foo]:\n/url\n\"title\" [b]: /x\n\n[foo] [b]\n", "<p>&quot;title&quot; [b]: /x</p>\n<p><a href=\"/url\">foo</a> [b]</p>\n"},
	{"[foo]:\n/url\n\"t\" [b]: /x\n[c]: /y\n\n[foo] [b] [c]\n", "<p>&quot;t&quot; [b]: /x\n[c]: /y</p>\n<p><a href=\"/url\">foo</a> [b] [c]</p>\n"},
	{"[foo]: /url\n\"unclosed\n[b]: /x\n\n[foo] [b]\n", "<p>&quot;unclosed\n[b]: /x</p>\n<p><a href=\"/url\">foo</a> [b]</p>\n"},
	{"[foo]: /url\n\"title\"\n[b]: /x\n\n[foo] [b]\n", "<p><a href=\"/url\" title=\"title\">foo</a> <a href=\"/x\">b</a></p>\n"},
	{"[foo]: /url \"title\" ok\n\n[foo]\n", "<p>[foo]: /url &quot;title&quot; ok</p>\n<p>[foo]</p>\n"},
	{"[foo]: /url\n'title' ok\n\n![foo]\n", "<p>'title' ok</p>\n<p><img src=\"/url\" alt=\"foo\" /></p>\n"},
	{"> [foo]: /url\n> (title) ok\n\n[foo]\n", "<blockquote>\n<p>(title) ok</p>\n</blockquote>\n<p><a href=\"/url\">foo</a></p>\n"},
}

func implCMSpec(c Case) ImplResult {
	switch c.Op {
	case "fixed":
		i, _ := strconv.Atoi(c.Args[0])
		src, want := []byte(cmspecFixed[i][0]), []byte(cmspecFixed[i][1])
		got := cmspecConvert(src)
		res := ImplResult{Out: "ok", NoModel: true, Key: "fixed|" + c.Args[0]}
		if !bytes.Equal(cmspecNorm(got), cmspecNorm(want)) {
			res.Fails = append(res.Fails, OracleFail{Property: "C02", Clause: "constructed-document-differs",
				Detail: fmt.Sprintf("hand-derived case %d %q: goldmark %q, CommonMark prescribes %q", i, src, got, want)})
		}
		return res
	case "gen", "enum":
		line := c.Line("cmspec")
		cmspecMu.Lock()
		resp, ok := cmspecCache[line]
		cmspecMu.Unlock()
		if !ok {
			r, err := runDriver(driverPath, []string{line})
			if err != nil || len(r) != 1 {
				return ImplResult{Out: "driver-unavailable", NoModel: true, Fails: []OracleFail{{Property: "C02", Clause: "assumption:generator-unavailable", Detail: fmt.Sprint(err)}}}
			}
			resp = r[0]
		}
		parts := strings.Split(resp, " ")
		if len(parts) != 2 {
			return ImplResult{Out: resp, Key: ""}
		}
		src, want := unhx(parts[0]), unhx(parts[1])
		got := cmspecConvert(src)
		res := ImplResult{Out: hx(src) + " " + hx(got)}
		if bytes.Equal(cmspecNorm(got), cmspecNorm(want)) {
			res.Out = resp // equal up to the ignored final newlines
		}
		seq := tagSeq(got, 40)
		if strings.TrimSpace(strings.ReplaceAll(strings.ReplaceAll(seq, "/p", ""), "p", "")) != "" {
			res.Key = seq
		}
		if !bytes.Equal(cmspecNorm(got), cmspecNorm(want)) {
			clause := "constructed-document-differs"
			// Attribution: the driver is asked (only now) for the same document respelled along choice axes; the tag
			// lists the respelled axes: e `&` in destinations as an entity instead of a backslash escape; t leading
			// indentation with spaces instead of tabs; l white space after list markers with spaces; d white space after
			// block-quote markers before link reference definitions with spaces; p "space then tab" after a block-quote
			// marker as a plain tab; q white space after block-quote markers (all other lines) with spaces. Order: the
			// single known axes, all known axes together, then q. The first respelling that renders as prescribed
			// attributes the difference (clauses below). For the known clauses the line compared with the model is the
			// model's, so that a known deviation does not also count as a broken correspondence; a difference that needs
			// the q axis (2.2, examples 5-9: a tab directly after `>`) is NOT known: it stays a violation and a disagreement.
			var alts []string
			if r, err := cmspecAskOne("cmspec alts " + c.Op + " " + strings.Join(c.Args, " ")); err == nil {
				alts = strings.Split(r, " ")
			}
			for _, alt := range alts {
				k := strings.IndexByte(alt, ':')
				if k <= 0 {
					continue
				}
				if bytes.Equal(cmspecNorm(cmspecConvert(unhx(alt[k+1:]))), cmspecNorm(want)) {
					tag := alt[:k]
					known := true
					switch tag {
					case "e":
						clause = "escaped-amp-in-destination-differs"
					case "t", "p":
						clause = "tab-indentation-differs"
					case "l":
						clause = "tab-after-list-marker-differs"
					case "d":
						clause = "tab-before-definition-title-differs"
					case "tldpe":
						clause = "several-known-deviations-combined"
					default:
						clause = "tab-after-quote-marker-differs"
						known = false
					}
					if known {
						res.Out = resp
					}
					break
				}
			}
			if f := os.Getenv("CMSPEC_DUMP"); f != "" { // debugging aid: every difference, not only the kept samples
				cmspecMu.Lock()
				if fh, err := os.OpenFile(f, os.O_APPEND|os.O_CREATE|os.O_WRONLY, 0o644); err == nil {
					fmt.Fprintf(fh, "%s\t%s\t%q\t%q\t%q\n", clause, c.Line("cmspec"), src, got, want)
					fh.Close()
				}
				cmspecMu.Unlock()
			}
			res.Fails = append(res.Fails, OracleFail{Property: "C02", Clause: clause,
				Detail: fmt.Sprintf("source=%q got=%q want=%q", src, got, want)})
		}
		return res
	case "ex":
		return implCMSpecExample(c)
	}
	return ImplResult{Out: "bad-op"}
}

// ---------- stream 2: spec examples x licensed rewrites ----------

type cmspecRewrite struct {
	name     string
	needsEnd bool // touches the end of the document: the last block must be closed by construction
	apply    func(md string) (string, string, string, bool)
}

// each rewrite returns (new source, html prefix, html suffix, applicable)
var cmspecRewrites = []cmspecRewrite{
	{"extra-final-newline", true, func(md string) (string, string, string, bool) { return md + "\n", "", "", true }},
	{"missing-final-newline", false, func(md string) (string, string, string, bool) {
		if !strings.HasSuffix(md, "\n") {
			return "", "", "", false
		}
		return md[:len(md)-1], "", "", true
	}},
	{"paragraph-before", false, func(md string) (string, string, string, bool) { return "Qzx\n\n" + md, "<p>Qzx</p>\n", "", true }},
	{"thematic-break-before", false, func(md string) (string, string, string, bool) { return "***\n\n" + md, "<hr />\n", "", true }},
	{"paragraph-after", true, func(md string) (string, string, string, bool) { return cmspecEnsureNL(md) + "\nQzx\n", "", "<p>Qzx</p>\n", true }},
	{"thematic-break-after", true, func(md string) (string, string, string, bool) { return cmspecEnsureNL(md) + "\n***\n", "", "<hr />\n", true }},
}

func cmspecEnsureNL(md string) string {
	if md == "" || strings.HasSuffix(md, "\n") {
		return md
	}
	return md + "\n"
}

var cmspecContainerClosers = []string{"\n", "</li>", "</ul>", "</ol>", "</blockquote>"}

// cmspecEndClosed: conservative test that the example's last block is closed by a following blank line with
// no effect on its rendering: the last rendered leaf is not a code block (an unclosed fence would swallow the
// added text; a blank line would become content), and no line of the last blank-line-separated chunk of the
// source begins (after container markers) with '<' (an HTML block, whose end conditions depend on what follows).
func cmspecEndClosed(md, h string) bool {
	t := h
	for changed := true; changed; {
		changed = false
		for _, c := range cmspecContainerClosers {
			if strings.HasSuffix(t, c) {
				t = strings.TrimSuffix(t, c)
				changed = true
			}
		}
	}
	if strings.HasSuffix(t, "</code></pre>") {
		return false
	}
	if strings.Contains(md, "```") || strings.Contains(md, "~~~") {
		// a fence anywhere: make sure it is not left open (count is not reliable inside containers): require the last leaf to be a paragraph, heading or hr
		if !(strings.HasSuffix(t, "</p>") || strings.HasSuffix(t, "<hr />") || regexp.MustCompile(`</h[1-6]>$`).MatchString(t)) {
			return false
		}
	}
	lines := strings.Split(strings.TrimRight(md, "\n"), "\n")
	for i := len(lines) - 1; i >= 0; i-- {
		l := lines[i]
		if strings.TrimSpace(l) == "" {
			break
		}
		l = strings.TrimLeft(l, " \t>-*+0123456789.)")
		if strings.HasPrefix(l, "<") {
			return false
		}
	}
	return true
}

func implCMSpecExample(c Case) ImplResult {
	res := ImplResult{NoModel: true, Out: "-"}
	if len(c.Args) != 2 {
		return res
	}
	i, _ := strconv.Atoi(c.Args[0])
	r, _ := strconv.Atoi(c.Args[1])
	exs := SpecExamples()
	if i < 0 || i >= len(exs) || r < 0 || r >= len(cmspecRewrites) {
		return res
	}
	e := exs[i]
	rw := cmspecRewrites[r]
	base := cmspecConvert([]byte(e.Markdown))
	if string(base) != e.HTML {
		res.Out = "baseline-differs"
		res.Stats = append(res.Stats, "example_baseline_differs")
		return res
	}
	if rw.needsEnd && (e.Section == "HTML blocks" || !cmspecEndClosed(e.Markdown, e.HTML)) {
		res.Out = "rewrite-not-safe"
		res.Stats = append(res.Stats, "rewrite_skipped_unsafe")
		return res
	}
	src, pre, suf, ok := rw.apply(e.Markdown)
	if !ok {
		res.Out = "rewrite-not-applicable"
		return res
	}
	want := pre + e.HTML + suf
	got := cmspecConvert([]byte(src))
	res.Out = "ok"
	res.Key = e.Section + "|" + rw.name
	res.Stats = append(res.Stats, "rewrites_checked")
	if string(cmspecNorm(got)) != string(cmspecNorm([]byte(want))) {
		res.Out = "differs"
		res.Fails = append(res.Fails, OracleFail{Property: "C02", Clause: "spec-example-rewrite-differs",
			Detail: fmt.Sprintf("example=%d section=%q rewrite=%s source=%q got=%q want=%q", e.Example, e.Section, rw.name, src, got, want)})
	}
	return res
}
