package main

// Component `blocks`: the whole BLOCK PHASE of goldmark (parser.parseBlocks / openBlocks / closeBlocks /
// isBlankLine + the ten default block parsers, no paragraph transformers, no inline parsers) against the
// Lean model GM.Blocks (lean/GM/Model/Blocks/*.lean). The real parser is run on a source; the tree of its
// block-type nodes is dumped in a canonical one-line format; the model is given the same source and must
// produce the same line (or the same panic kind).
//
// Independent oracles on the real tree (the block-phase parts of C05(c)): every line segment of every block
// satisfies 0 <= Start <= Stop <= len(source), Padding >= 0, and a block's lines are increasing.

import (
	"bytes"
	"fmt"
	"sort"
	"strconv"
	"strings"
	"sync"

	"github.com/yuin/goldmark/ast"
	"github.com/yuin/goldmark/parser"
	"github.com/yuin/goldmark/text"
)

func init() {
	register(&Component{
		Name:       "blocks",
		Rule:       "sources: all strings up to a length bound over block-significant alphabets (complete), the repo corpora (spec.json, _test/*.txt), generated / mutated / adversarial documents, random long strings over the alphabets; non-trivial = tree with >= 2 block kinds below the document; distinct = distinct kind multisets",
		Gen:        genBlocks2,
		Impl:       implBlocks,
		Exhaustive: true,
		Scope: func(tier string) string {
			if tier == "thorough" {
				return "ALL strings of length <= 5 over the 16-symbol block alphabet and <= 7 / <= 8 over ten per-construct sub-alphabets; corpus; 300k generated/mutated/adversarial documents; 300k random strings of length <= 40"
			}
			return "ALL strings of length <= 4 over the 16-symbol block alphabet and <= 5 / <= 6 over ten per-construct sub-alphabets; corpus; 8k generated/mutated/adversarial documents; 30k random strings of length <= 40"
		},
	})
}

// the alphabet of the brief: > - * + 1 . ) # = ` ~ < space tab newline a
var blocksAlphabet = syms(">", "-", "*", "+", "1", ".", ")", "#", "=", "`", "~", "<", " ", "\t", "\n", "a")

// per-construct sub-alphabets (name, symbols, quick length, thorough length)
type subAlpha struct {
	name   string
	syms   [][]byte
	qn, tn int
}

var blocksSubAlphabets = []subAlpha{
	{"para-tb", syms("a", "-", "*", "_", " ", "\n"), 6, 8},
	{"quote", syms(">", " ", "\t", "\n", "a", "-"), 6, 8},
	{"atx", syms("#", " ", "\t", "\n", "a", "\\"), 6, 8},
	{"setext", syms("=", "-", " ", "\n", "a", ">"), 6, 8},
	{"code", syms(" ", "\t", "\n", "a", ">", "-"), 6, 8},
	{"fence", syms("`", "~", " ", "\n", "a", ">", "\t"), 5, 7},
	{"list", syms("-", "1", ".", " ", "\n", "a", "\t"), 5, 7},
	{"list2", syms("*", "+", "2", ")", " ", "\n", "a"), 5, 7},
	{"html", syms("<", ">", "/", "!", "-", "?", "a", "p", " ", "\n"), 5, 6},
	{"html2", syms("<", ">", "p", "=", "\"", "'", " ", "\n", "b", "/"), 5, 6},
	{"cr", syms("\r", "\n", "a", "-", " ", ">", "#"), 5, 7},
}

// longer fragments for the random stream
var blocksTokens = []string{
	">", "> ", "-", "- ", "* ", "+ ", "1. ", "1) ", "2. ", "10. ", "0. ", "123456789. ", "1234567890. ", "#", "# ", "## ", "####### ", "=", "===", "---", "***", "___", "* * *", "- - -",
	"`", "```", "````", "~~~", "~~~~", "``` a", "~~~ a`b", "<", "<div>", "</div>", "<pre>", "</pre>", "<script>", "</script>", "<style", "<textarea>", "<!--", "-->", "<?", "?>", "<!A", "<![CDATA[", "]]>",
	"<a>", "<a b=c>", "<a b='c'>", "<a b=\"c\" d>", "</a>", "</a >", "</ a>", "<a/>", "<p", "<hr/>", "<h1 x>", "<xyz", "<ſcript>", "<PRE>", "<a\tb>", "<a b = c />",
	" ", "  ", "   ", "    ", "     ", "\t", " \t", "  \t", "\n", "\n\n", "\n\n\n", "a", "b", "ab", "a b", "\\", "\r", "\r\n", "\x00", "\xc5", "é", ".", ")", "1", "2",
}

func genBlocks2(tier string, rng *RNG, emit func(Case)) {
	em := func(b []byte) { emit(Case{Op: "parse", Args: []string{hx(b)}}) }
	n := 4
	if tier == "thorough" {
		n = 5
	}
	enumStrings(blocksAlphabet, n, em)
	for _, sa := range blocksSubAlphabets {
		k := sa.qn
		if tier == "thorough" {
			k = sa.tn
		}
		enumStrings(sa.syms, k, em)
	}
	for _, d := range CorpusDocs() {
		em(d)
	}
	for _, d := range []string{"- Foo\n--\n", "> <!-- a\n> -->\n> okay\n", "-\n\n  foo\n", "1. a\n\n   b\n", "- a\n - b\n  - c\n   - d\n    - e\n", "> ```\n> a\n```\n", "a\n    b\n", "\ta\n \tb\n  \tc\n", "-\ta\n\n\tb\n", ">\t\ta\n"} {
		em([]byte(d))
	}
	nd, nr := 8000, 30000
	if tier == "thorough" {
		nd, nr = 300000, 300000
	}
	DocStream(rng, len(CorpusDocs())+nd, func(kind string, d []byte) {
		if kind != "corpus" {
			em(d)
		}
	})
	toks := syms(blocksTokens...)
	for i := 0; i < nr; i++ {
		switch rng.Intn(3) {
		case 0:
			em(randString(rng, blocksAlphabet, 40))
		case 1:
			em(randString(rng, toks, 14))
		default:
			sa := blocksSubAlphabets[rng.Intn(len(blocksSubAlphabets))]
			em(randString(rng, sa.syms, 30))
		}
	}
}

var blocksParser parser.Parser
var blocksParserOnce sync.Once

func theBlocksParser() parser.Parser {
	blocksParserOnce.Do(func() {
		blocksParser = parser.NewParser(parser.WithBlockParsers(parser.DefaultBlockParsers()...))
	})
	return blocksParser
}

// kinds the Lean model covers (a real tree containing any other block kind is skipped and counted)
var blocksModelled = map[ast.NodeKind]bool{
	ast.KindDocument: true, ast.KindParagraph: true, ast.KindTextBlock: true, ast.KindThematicBreak: true, ast.KindBlockquote: true,
	ast.KindHeading: true, ast.KindCodeBlock: true, ast.KindFencedCodeBlock: true, ast.KindHTMLBlock: true, ast.KindList: true, ast.KindListItem: true,
}

func blkSegStr(s text.Segment) string {
	f := "0"
	if s.ForceNewline {
		f = "1"
	}
	return strconv.Itoa(s.Start) + ":" + strconv.Itoa(s.Stop) + ":" + strconv.Itoa(s.Padding) + ":" + f
}

type blocksDumper struct {
	src        []byte
	sb         strings.Builder
	kinds      map[string]int
	unmodelled map[string]bool
	fails      []OracleFail
}

func (d *blocksDumper) fail(clause, f string, a ...interface{}) {
	if len(d.fails) < 4 {
		d.fails = append(d.fails, OracleFail{"C05", clause, fmt.Sprintf(f, a...)})
	}
}

func (d *blocksDumper) node(n ast.Node) {
	k := n.Kind()
	d.kinds[k.String()]++
	if !blocksModelled[k] {
		d.unmodelled[k.String()] = true
	}
	d.sb.WriteString(k.String())
	d.sb.WriteByte('(')
	if n.HasBlankPreviousLines() {
		d.sb.WriteByte('1')
	} else {
		d.sb.WriteByte('0')
	}
	d.sb.WriteByte('|')
	switch v := n.(type) {
	case *ast.Heading:
		d.sb.WriteString(strconv.Itoa(v.Level))
	case *ast.List:
		t := "0"
		if v.IsTight {
			t = "1"
		}
		d.sb.WriteString(strconv.Itoa(int(v.Marker)) + "," + strconv.Itoa(v.Start) + "," + t)
	case *ast.ListItem:
		d.sb.WriteString(strconv.Itoa(v.Offset))
	case *ast.FencedCodeBlock:
		if v.Info != nil {
			d.sb.WriteString(blkSegStr(v.Info.Segment))
			d.seg(v.Info.Segment, "info", n)
		} else {
			d.sb.WriteString("nil")
		}
	case *ast.HTMLBlock:
		d.sb.WriteString(strconv.Itoa(int(v.HTMLBlockType)) + "," + blkSegStr(v.ClosureLine))
		if v.HasClosure() {
			d.seg(v.ClosureLine, "closure line", n)
		}
	}
	d.sb.WriteByte('|')
	if k != ast.KindDocument || n.Lines() != nil {
		lines := n.Lines()
		prevStop := -1
		for i := 0; i < lines.Len(); i++ {
			if i > 0 {
				d.sb.WriteByte(',')
			}
			s := lines.At(i)
			d.sb.WriteString(blkSegStr(s))
			if d.seg(s, "line", n) {
				if s.Start < prevStop {
					d.fail("lines-not-increasing", "%s: line %d starts at %d before the previous line's stop %d", k, i, s.Start, prevStop)
				}
				prevStop = s.Stop
			}
		}
	}
	d.sb.WriteByte('|')
	for c := n.FirstChild(); c != nil; c = c.NextSibling() {
		if c.Type() == ast.TypeBlock || c.Type() == ast.TypeDocument {
			d.node(c)
		}
	}
	d.sb.WriteByte(')')
}

func (d *blocksDumper) seg(s text.Segment, what string, n ast.Node) bool {
	if s.Start < 0 || s.Start > s.Stop || s.Stop > len(d.src) || s.Padding < 0 {
		d.fail("segment-out-of-range", "%s of %s: [%d,%d) padding %d, source length %d", what, n.Kind(), s.Start, s.Stop, s.Padding, len(d.src))
		return false
	}
	return true
}

func implBlocks(c Case) ImplResult {
	src := unhx(c.Args[0])
	// the parser must not see a slice with spare capacity (Segment.Value appends are guarded since 8e80f0e, but
	// keep the run independent of it)
	buf := make([]byte, len(src))
	copy(buf, src)
	doc := theBlocksParser().Parse(text.NewReader(buf))
	d := &blocksDumper{src: buf, kinds: map[string]int{}, unmodelled: map[string]bool{}}
	d.node(doc)
	res := ImplResult{Out: d.sb.String(), Fails: d.fails}
	// Lean-defined oracle (GM.Blocks.allLinesOK, the statement GM.Props.Blocks.LinesInRange): evaluated by the driver on
	// the model's tree, which the comparison above shows to be the real tree
	res.Checks = append(res.Checks, ModelCheck{Line: "blocks lines " + c.Args[0], Property: "C05"})
	// C08 at the block-tree level (GM.Blocks.quoteSim, the statement GM.Props.Blocks.QuotePrefixSimulation): for a tab- and
	// CR-free non-blank source the driver compares the model's tree of the "> "-prefixed source with the wrapped, shifted
	// tree of the source itself (answers ok, or n-a when the statement does not apply)
	if !bytes.ContainsAny(src, "\t\r") && len(bytes.TrimSpace(src)) > 0 {
		res.Checks = append(res.Checks, ModelCheck{Line: "blocks quotesim " + c.Args[0], Property: "C08"})
		res.Stats = append(res.Stats, "quotesim-checked")
	}
	// the hypotheses of GM.Props.C08.quote_prefix_simulation_partial (GM.Blocks.quoteHypB): for a source of its class the
	// model's run on the source itself ends normally, reads all lines and builds a well-shaped store; a failure is reported
	// as "hypothesis of the theorems not met", not as a violation
	if quoteSimClass(src) {
		res.Checks = append(res.Checks, ModelCheck{Line: "blocks quotesimhyp " + c.Args[0], Property: "C08"})
		res.Stats = append(res.Stats, "quotesimhyp-checked")
	}
	if len(d.unmodelled) > 0 {
		res.NoModel = true
		for k := range d.unmodelled {
			res.Stats = append(res.Stats, "skipped-unmodelled-kind:"+k)
		}
		res.Stats = append(res.Stats, "skipped-unmodelled")
	}
	var ks []string
	nk := 0
	for k, v := range d.kinds {
		ks = append(ks, k+"="+strconv.Itoa(v))
		if k != "Document" {
			nk++
		}
		res.Stats = append(res.Stats, "trees-with:"+k)
	}
	sort.Strings(ks)
	if nk >= 2 {
		res.Key = strings.Join(ks, ",")
	}
	return res
}

// quoteSimClass: the class of sources of the whole-run C08 theorem (GM.Blocks.classB): no tab, no CR, no byte that can
// start a list item ('-', '*', '+', digits), last byte a line feed
func quoteSimClass(src []byte) bool {
	if len(src) == 0 || src[len(src)-1] != '\n' {
		return false
	}
	for _, c := range src {
		if c == '\t' || c == '\r' || c == '-' || c == '*' || c == '+' || (c >= '0' && c <= '9') {
			return false
		}
	}
	return true
}
