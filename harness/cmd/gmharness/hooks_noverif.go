//go:build !verif

package main

// Fallback build, used by ./check when /repo's verif-tagged hook files no longer compile against the tree under
// test (a change to goldmark's internals that the hooks reach into). Components `linerec` and `asttrace` are not
// available; trees whose rendering needs the East Asian soft-line-break decision are not compared with the model.
const hooksAvailable = false

func softLineBreakDecision(d *dumper, thisLast, nextFirst rune) bool {
	d.noModel = true
	return false
}

func hookSoftLineBreak(style int, a, b rune) bool { return false }
