package main

// Component `converth`: WHOLE documents through
// `goldmark.New(goldmark.WithParserOptions(parser.WithAutoHeadingID()), goldmark.WithRendererOptions(…)).Convert`
// (default CommonMark configuration + the parser option AutoHeadingID, NO WithAttribute) for two renderer option sets
// (default; Unsafe + XHTML + HardWraps), against the Lean composition GM.ConvertH.convertH true
// (lean/GM/Model/ConvertH.lean: the block driver with `generateAutoHeadingID` in Close of both heading parsers, the
// per-parse id table GM.Ids in the parse state, the `id` attribute on the Heading node, renderHeading writing it through
// RenderAttributes with the heading attribute filter). The HTML is compared byte for byte: line
// `g<0|1> c1 r0 r1` (r_i lower-case hex, `=0` when r1 is identical to r0).
//   g-flag: as in component `convert` (the probe paragraph transformer of comp_convert.go predicts the transformer guard).
//   c-flag: the model reports whether the hypothesis `headingsClosedB` of the end-to-end theorems (every Heading of the final
//   block tree was handed to Close; no Heading twice in the tree) holds of ITS run; the harness expects `c1` on every
//   document, so a `c0` is a disagreement.
//
// Oracles on the REAL output, independent of the model (property C15), on the safe-mode HTML (raw HTML omitted, every `<`
// of text escaped, so an `<hN` in the output is a heading start tag):
//   C15 id-missing      a <h1>..<h6> start tag without id attribute
//   C15 id-empty        id=""
//   C15 id-duplicate    two heading start tags with the same id
//   C15 id-history-dependent   the same instance converts the document a second time (after other documents): different output
//   C01 convert-panic / convert-error

import (
	"bytes"
	"fmt"
	"sort"
	"strings"
	"sync"

	"github.com/yuin/goldmark"
	"github.com/yuin/goldmark/parser"
	"github.com/yuin/goldmark/renderer"
	"github.com/yuin/goldmark/renderer/html"
)

func init() {
	register(&Component{
		Name:       "converth",
		Rule:       "whole documents with parser.WithAutoHeadingID(): all strings up to a length bound over a heading-heavy alphabet (complete), spec.json, repo corpora, generated documents with many equal / prefix-sharing / empty / punctuation-only ATX and setext headings inside quotes and lists, the document generators of docs.go; 2 renderer option sets; non-trivial = at least one heading; distinct = distinct (level, id) lists",
		Gen:        genConvertH,
		Impl:       implConvertH,
		Exhaustive: true,
		Scope: func(tier string) string {
			if tier == "thorough" {
				return "ALL strings of length <= 6 over the 11-symbol heading alphabet (# space a b - = newline * & é 0xFF), <= 5 inside 6 heading contexts; spec.json x2, corpus; 60k heading documents; 60k generated/mutated/adversarial documents; 60k random strings"
			}
			return "ALL strings of length <= 5 over the 11-symbol heading alphabet (# space a b - = newline * & é 0xFF), <= 4 inside 6 heading contexts; spec.json x2, corpus; 6k heading documents; 3k generated/mutated/adversarial documents; 6k random strings"
		},
	})
}

var chOnce sync.Once
var chMD [2]goldmark.Markdown
var chMu [2]sync.Mutex // the history oracle converts twice on ONE instance; goldmark instances are safe for concurrent use, the mutex only keeps the pair adjacent

func chInit() {
	cvInit()
	chOnce.Do(func() {
		for i := 0; i < 2; i++ {
			var opts []renderer.Option
			if i == 1 {
				opts = append(opts, html.WithUnsafe(), html.WithXHTML(), html.WithHardWraps())
			}
			chMD[i] = goldmark.New(goldmark.WithParserOptions(parser.WithAutoHeadingID()), goldmark.WithRendererOptions(opts...))
		}
	})
}

func chConvert(i int, src []byte) (out []byte, fail *OracleFail) {
	defer func() {
		if r := recover(); r != nil {
			fail = &OracleFail{"C01", "convert-panic", fmt.Sprintf("auto heading id, option set %d: %v", i, r)}
			out = []byte("panic")
		}
	}()
	buf := make([]byte, len(src)) // no spare capacity
	copy(buf, src)
	var w bytes.Buffer
	if err := chMD[i].Convert(buf, &w); err != nil {
		return w.Bytes(), &OracleFail{"C01", "convert-error", fmt.Sprintf("auto heading id, option set %d: %v", i, err)}
	}
	return w.Bytes(), nil
}

// chHeadingTags: (level, id, hasID) of every <h1>..<h6> start tag of safe-mode HTML, by a scanner of its own
type chTag struct {
	level byte
	id    string
	hasID bool
}

func chHeadingTags(b []byte) []chTag {
	var tags []chTag
	for i := 0; i+2 < len(b); i++ {
		if b[i] != '<' || b[i+1] != 'h' || b[i+2] < '1' || b[i+2] > '6' {
			continue
		}
		if i+3 >= len(b) || (b[i+3] != '>' && b[i+3] != ' ') {
			continue
		}
		j := i + 3
		for j < len(b) && b[j] != '>' {
			j++
		}
		attrs := string(b[i+3 : j])
		t := chTag{level: b[i+2]}
		if k := strings.Index(attrs, ` id="`); k >= 0 {
			rest := attrs[k+5:]
			if e := strings.IndexByte(rest, '"'); e >= 0 {
				t.id, t.hasID = rest[:e], true
			}
		}
		tags = append(tags, t)
		i = j
	}
	return tags
}

func implConvertH(c Case) ImplResult {
	chInit()
	src := unhx(c.Args[0])
	var res ImplResult
	outs := make([][]byte, 2)
	for i := 0; i < 2; i++ {
		o, f := chConvert(i, src)
		outs[i] = o
		if f != nil {
			res.Fails = append(res.Fails, *f)
		}
	}
	// history: the same instance again (other documents have been converted in between by the parallel workers)
	if again, f := chConvert(0, src); f == nil && !bytes.Equal(again, outs[0]) {
		res.Fails = append(res.Fails, OracleFail{"C15", "id-history-dependent", fmt.Sprintf("second conversion on the same instance differs: %q vs %q", outs[0], again)})
	}
	// the property's own oracle on the real safe-mode output
	tags := chHeadingTags(outs[0])
	seen := map[string]bool{}
	var key []string
	for _, t := range tags {
		switch {
		case !t.hasID:
			res.Fails = append(res.Fails, OracleFail{"C15", "id-missing", fmt.Sprintf("a <h%c> start tag without id attribute in %q", t.level, outs[0])})
		case t.id == "":
			res.Fails = append(res.Fails, OracleFail{"C15", "id-empty", fmt.Sprintf("a <h%c> with an empty id in %q", t.level, outs[0])})
		case seen[t.id]:
			res.Fails = append(res.Fails, OracleFail{"C15", "id-duplicate", fmt.Sprintf("id %q on two headings in %q", t.id, outs[0])})
		}
		seen[t.id] = true
		key = append(key, fmt.Sprintf("h%c#%s", t.level, t.id))
	}
	if len(res.Fails) > 3 {
		res.Fails = res.Fails[:3]
	}
	// the g-flag prediction (probe paragraph transformer of component convert; independent of the heading option)
	st := &cvProbeState{}
	func() {
		defer func() { _ = recover() }()
		pc := parser.NewContext()
		pc.Set(cvProbeKey, st)
		buf := make([]byte, len(src))
		copy(buf, src)
		var w bytes.Buffer
		_ = cvProbeMD.Convert(buf, &w, parser.WithContext(pc))
	}()
	g := "g0 "
	if st.guard {
		g = "g1 "
		res.Stats = append(res.Stats, "guard-fired-as-predicted(lines-not-wellformed)")
	}
	r1 := hx(outs[1])
	if bytes.Equal(outs[0], outs[1]) {
		r1 = "=0"
	}
	res.Out = g + "c1 " + hx(outs[0]) + " " + r1
	res.ModelLine = "converth html " + c.Args[0] + " " + cvUC(src)
	if len(tags) > 0 {
		res.Stats = append(res.Stats, "docs-with-heading")
		if len(tags) > 1 {
			res.Stats = append(res.Stats, "docs-with-2+-headings")
		}
		for _, t := range tags {
			if strings.HasPrefix(t.id, "heading") {
				res.Stats = append(res.Stats, "docs-with-fallback-id")
				break
			}
		}
		for _, t := range tags {
			if n := len(t.id); n > 2 && t.id[n-2] == '-' && t.id[n-1] >= '1' && t.id[n-1] <= '9' {
				res.Stats = append(res.Stats, "docs-with-numeric-suffix-id")
				break
			}
		}
		sort.Strings(key)
		res.Key = strings.Join(key, ",")
	}
	return res
}

// ---------- generators ----------

var chAlphabet = syms("#", " ", "a", "b", "-", "=", "\n", "*", "&", "é", "\xff")

type chCtx struct {
	pre, suf string
}

var chContexts = []chCtx{
	{"# a\n", "\n# a\n"},       // between two equal ATX headings
	{"a\n", "\n===\n\na\n---\n"}, // first line of a setext heading, an equal one behind
	{"> # a\n> ", "\n# a\n"},   // inside a quote
	{"- # a\n  ", "\n- # a\n"}, // inside a list item
	{"# a-1\n# a\n# ", "\n"},   // suffix collisions
	{"#\n# \n", "\n===\n"},     // empty headings, fallback ids
}

var chTexts = []string{"a", "a", "A", "a b", "a-1", "a-1-1", "a-2", "ab", "abc", "a b c", "é", "aé", "éa", "", " ", "-", "--", "_", "1", "1-1",
	"heading", "heading-1", "Heading", "!!!", "***", "?", "&", "&amp;", "<b>", "a<b", "日本", "a\xffb", "\xffa", "\xc3", "a\xc3", "\xe2\x82", "a.b", "a_b", "a\tb",
	"`a`", "*a*", "**a**", "[a](b)", "[a]", "a \\# b", "{#x}", "a {#x}", "a {#a}", "a #", "a ##", "# a", "\\", "a\\", "a  b", " a ", "\ta", "a b", "A-1", "a--1"}

func chHeadingText(rng *RNG, sub []string) string {
	return strings.NewReplacer("\n", " ", "\r", " ").Replace(sub[rng.Intn(len(sub))])
}

// chGenHeadingDoc: many headings whose texts come from a small per-document sub-pool (so equal and prefix-sharing texts
// are the norm), ATX / closed ATX / setext = / setext - / multi-line setext / empty, inside quotes and (nested) lists
func chGenHeadingDoc(rng *RNG) []byte {
	sub := make([]string, 1+rng.Intn(3))
	for j := range sub {
		sub[j] = chTexts[rng.Intn(len(chTexts))]
	}
	var sb strings.Builder
	n := 1 + rng.Intn(9)
	for i := 0; i < n; i++ {
		t := chHeadingText(rng, sub)
		prefix, cont := "", ""
		switch rng.Intn(10) {
		case 0:
			prefix, cont = "> ", "> "
		case 1:
			prefix, cont = "- ", "  "
		case 2:
			prefix, cont = "1. ", "   "
		case 3:
			prefix, cont = "> - ", ">   "
		case 4:
			prefix, cont = "- > ", "  > "
		case 5:
			prefix, cont = ">\t", ">\t"
		case 6:
			prefix, cont = "-\t", "\t"
		}
		switch rng.Intn(9) {
		case 0, 1, 2:
			sb.WriteString(prefix + strings.Repeat("#", 1+rng.Intn(6)) + " " + t)
			if rng.Chance(20) {
				sb.WriteString(" " + strings.Repeat("#", 1+rng.Intn(3)))
			}
			sb.WriteString("\n")
		case 3:
			sb.WriteString(prefix + t + "\n" + cont + "===\n")
		case 4:
			sb.WriteString(prefix + t + "\n" + cont + "---\n")
		case 5:
			sb.WriteString(prefix + "x\n" + cont + t + "\n" + cont + "=\n")
		case 6:
			sb.WriteString(prefix + strings.Repeat("#", 1+rng.Intn(7)) + []string{"", " ", "  ", "\t", " #", " # #"}[rng.Intn(6)] + "\n")
		case 7:
			// lazy continuation / setext bar without the container prefix
			sb.WriteString(prefix + t + "\n" + []string{"===", "---", "  ==", "- -"}[rng.Intn(4)] + "\n")
		case 8:
			sb.WriteString(prefix + "[r" + fmt.Sprint(i) + "]: /u\n" + cont + []string{"===", "---", t + "\n" + cont + "==="}[rng.Intn(3)] + "\n")
		}
		switch rng.Intn(6) {
		case 0, 1:
		case 2:
			sb.WriteString("\npara " + t + "\n\n")
		default:
			sb.WriteString("\n")
		}
	}
	d := sb.String()
	if rng.Chance(10) {
		d = strings.TrimRight(d, "\n")
	}
	if rng.Chance(5) {
		d = strings.ReplaceAll(d, "\n", "\r\n")
	}
	return []byte(d)
}

func genConvertH(tier string, rng *RNG, emit func(Case)) {
	thorough := tier == "thorough"
	doc := func(b []byte) { emit(Case{Op: "html", Args: []string{hx(b)}}) }
	pick := func(q, t int) int {
		if thorough {
			return t
		}
		return q
	}
	// 1. exhaustive small scopes
	enumStrings(chAlphabet, pick(5, 6), doc)
	for _, s := range chContexts {
		s := s
		enumStrings(chAlphabet, pick(4, 5), func(b []byte) { doc([]byte(s.pre + string(b) + s.suf)) })
	}
	// 2. spec.json (read at run time), corpus
	for _, e := range SpecExamples() {
		doc([]byte(e.Markdown))
		doc([]byte(strings.TrimSuffix(e.Markdown, "\n")))
	}
	for _, d := range CorpusDocs() {
		doc(d)
	}
	// 3. heading documents
	for i, n := 0, pick(6000, 60000); i < n; i++ {
		if i%4 == 3 {
			doc([]byte(randHeadingDoc(rng)))
		} else {
			doc(chGenHeadingDoc(rng))
		}
	}
	// 4. the document generators of docs.go
	DocStream(rng, len(CorpusDocs())+pick(3000, 60000), func(kind string, d []byte) {
		if kind != "corpus" {
			doc(d)
		}
	})
	// 5. random strings
	toks := syms("# ", "## ", "#", "a", "a", "b", " ", "\n", "\n\n", "===", "---", "=", "-", "> ", "- ", "1. ", "  ", "\t", "*", "&", "é", "\xff", "\xc3", "[r]: /u", "\\", "{#a}", "`")
	for i, n := 0, pick(6000, 60000); i < n; i++ {
		if i%2 == 0 {
			doc(randString(rng, chAlphabet, 40))
		} else {
			doc(randString(rng, toks, 24))
		}
	}
}
