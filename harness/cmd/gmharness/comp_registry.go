package main

// Component `registry` (property C20): registrations of block parsers, inline parsers, paragraph
// transformers, AST transformers and node renderers, made through the three public carriers
// (constructor option, goldmark.WithParserOptions/WithRendererOptions, an Extender given to
// goldmark.WithExtensions), in every order, with priorities placed relative to the built-ins.
//
// Model-compared ops (all parsers are *scripted* probes; the built-ins are represented by probes that carry
// the real built-ins' priority, Trigger(), CanInterruptParagraph(), CanAcceptIndentedLine(), read at run time):
//   block  <regs> <lines> <script>       log of Open calls per line, paragraph transformers per closed paragraph, AST transformers
//   inline <regs> <esc> <line> <script>  log of inline Parse calls per source offset
//   render <regs> <tree> <script>        log of node renderer function calls while walking a hand-built tree
//   lateadd <cat>                        AddOptions after first use
//   defaults                             priorities/triggers of the shipped defaults (the Lean side holds the expected literal)
// Oracle-only ops (real built-ins behind delegating, logging proxies; real HTML renderer):
//   real <regs> <doc> <script>
//   late <n>                             a node kind created after the renderer was first used
//
// The C20 oracle below is written against the property text and never consults the Lean model.

import (
	"math"
	"bytes"
	"fmt"
	"sort"
	"strconv"
	"strings"

	"github.com/yuin/goldmark"
	"github.com/yuin/goldmark/ast"
	"github.com/yuin/goldmark/parser"
	"github.com/yuin/goldmark/renderer"
	"github.com/yuin/goldmark/renderer/html"
	"github.com/yuin/goldmark/text"
	"github.com/yuin/goldmark/util"
)

// ---------- registrations ----------

type regTok struct {
	cat     byte // B I P A R
	id      int
	prio    int
	carrier byte   // c o e
	trig    string // see Driver/Registry.lean
	flags   string
}

func (r regTok) String() string {
	return fmt.Sprintf("%c%d:%d:%c:%s:%s", r.cat, r.id, r.prio, r.carrier, r.trig, r.flags)
}

func regsArg(rs []regTok) string {
	if len(rs) == 0 {
		return "_"
	}
	var s []string
	for _, r := range rs {
		s = append(s, r.String())
	}
	return strings.Join(s, ";")
}

func parseRegToks(s string) []regTok {
	if s == "_" {
		return nil
	}
	var out []regTok
	for _, t := range strings.Split(s, ";") {
		f := strings.Split(t, ":")
		if len(f) != 5 {
			panic("bad reg " + t)
		}
		id, _ := strconv.Atoi(f[0][1:])
		prio, _ := strconv.Atoi(f[1])
		out = append(out, regTok{f[0][0], id, prio, f[2][0], f[3], f[4]})
	}
	return out
}

func (r regTok) invalid() bool { return strings.HasSuffix(r.flags, "x") }
func (r regTok) free() bool    { return r.cat == 'B' && r.trig == "n" }
func (r regTok) triggers() []byte {
	if r.trig == "n" {
		return nil
	}
	return unhx(r.trig)
}
func (r regTok) kinds() []int {
	var ks []int
	if r.trig == "-" {
		return ks
	}
	for _, k := range strings.Split(r.trig, ".") {
		n, _ := strconv.Atoi(k)
		ks = append(ks, n)
	}
	return ks
}

type scriptFn func(id, i int) int

func parseScriptArg(s string) scriptFn {
	m := map[int]string{}
	if s != "_" {
		for _, e := range strings.Split(s, ",") {
			kv := strings.Split(e, "=")
			id, _ := strconv.Atoi(kv[0])
			if _, dup := m[id]; !dup {
				m[id] = kv[1]
			}
		}
	}
	return func(id, i int) int {
		d := m[id]
		if i < 0 || i >= len(d) {
			return 0
		}
		return int(d[i] - '0')
	}
}

// ---------- log ----------

type regEntry struct {
	cat      byte
	tok      *regTok
	line     int // B: line index; P: paragraph ordinal
	pos      int // B, I: absolute source offset of the consultation
	ch       int // B: byte at the block offset (-1: none)
	accepted bool
	kind     int
	entering bool
}

type caseState struct {
	log      []regEntry
	script   scriptFn
	paraOrd  map[ast.Node]int
	realMode bool
}

func lineIndex(src []byte, off int) int {
	if off > len(src) {
		off = len(src)
	}
	return bytes.Count(src[:off], []byte("\n"))
}

// ---------- probes ----------

var kindProbeBlock = ast.NewNodeKind("ProbeBlock")
var kindProbeInline = ast.NewNodeKind("ProbeInline")
var kindNeverRegistered = ast.NewNodeKind("ProbeNeverRegistered")

type kNode struct {
	ast.BaseBlock
	k ast.NodeKind
}

func (n *kNode) Kind() ast.NodeKind         { return n.k }
func (n *kNode) Dump(src []byte, level int) {}

type kInline struct {
	ast.BaseInline
	k ast.NodeKind
}

func (n *kInline) Kind() ast.NodeKind         { return n.k }
func (n *kInline) Dump(src []byte, level int) {}

type sBlock struct {
	tok   *regTok
	st    *caseState
	inner parser.BlockParser // real mode: the built-in this proxy delegates to
}

func (p *sBlock) Trigger() []byte {
	if p.inner != nil {
		return p.inner.Trigger()
	}
	return p.tok.triggers()
}
func (p *sBlock) where(reader text.Reader, pc parser.Context) (int, int, int) {
	line, seg := reader.PeekLine()
	pos := pc.BlockOffset()
	ch := -1
	if pos >= 0 && pos < len(line) {
		ch = int(line[pos])
	}
	if pos < 0 {
		pos = 0
	}
	return lineIndex(reader.Source(), seg.Start), seg.Start + pos, ch
}
func (p *sBlock) Open(parent ast.Node, reader text.Reader, pc parser.Context) (ast.Node, parser.State) {
	li, pos, ch := p.where(reader, pc)
	if p.inner != nil {
		n, s := p.inner.Open(parent, reader, pc)
		p.st.log = append(p.st.log, regEntry{cat: 'B', tok: p.tok, line: li, pos: pos, ch: ch, accepted: n != nil})
		return n, s
	}
	d := p.st.script(p.tok.id, li)
	if p.st.realMode && parent.Kind() != ast.KindDocument && parent.Kind() != ast.KindBlockquote {
		d = 0 // a list accepts only list items as children: the probe must not break the built-ins' own invariants
	}
	p.st.log = append(p.st.log, regEntry{cat: 'B', tok: p.tok, line: li, pos: pos, ch: ch, accepted: d != 0})
	switch d {
	case 1:
		return &kNode{k: kindProbeBlock}, parser.NoChildren
	case 2:
		_, seg := reader.PeekLine()
		n := ast.NewParagraph()
		n.Lines().Append(seg)
		return n, parser.NoChildren
	}
	return nil, parser.NoChildren
}
func (p *sBlock) Continue(node ast.Node, reader text.Reader, pc parser.Context) parser.State {
	if p.inner != nil {
		return p.inner.Continue(node, reader, pc)
	}
	return parser.Close
}
func (p *sBlock) Close(node ast.Node, reader text.Reader, pc parser.Context) {
	if p.inner != nil {
		p.inner.Close(node, reader, pc)
	}
}
func (p *sBlock) CanInterruptParagraph() bool {
	if p.inner != nil {
		return p.inner.CanInterruptParagraph()
	}
	return p.tok.flags[0] == '1'
}
func (p *sBlock) CanAcceptIndentedLine() bool {
	if p.inner != nil {
		return p.inner.CanAcceptIndentedLine()
	}
	return p.tok.flags[1] == '1'
}

type sInline struct {
	tok   *regTok
	st    *caseState
	inner parser.InlineParser
}

func (p *sInline) Trigger() []byte {
	if p.inner != nil {
		return p.inner.Trigger()
	}
	return p.tok.triggers()
}
func (p *sInline) Parse(parent ast.Node, block text.Reader, pc parser.Context) ast.Node {
	line, seg := block.PeekLine()
	off := seg.Start
	if p.inner != nil {
		n := p.inner.Parse(parent, block, pc)
		p.st.log = append(p.st.log, regEntry{cat: 'I', tok: p.tok, pos: off, accepted: n != nil})
		return n
	}
	k := p.st.script(p.tok.id, off)
	p.st.log = append(p.st.log, regEntry{cat: 'I', tok: p.tok, pos: off, accepted: k != 0})
	if k == 0 {
		return nil
	}
	if k > len(line) {
		k = len(line)
	}
	block.Advance(k)
	n := &kInline{k: kindProbeInline}
	if p.st.realMode {
		n.AppendChild(n, ast.NewString([]byte("CHILD")))
	}
	return n
}

// a CloseBlocker (only the link parser is one) must stay one behind the proxy
type sInlineCB struct {
	sInline
	cb parser.CloseBlocker
}

func (p *sInlineCB) CloseBlock(parent ast.Node, block text.Reader, pc parser.Context) {
	p.cb.CloseBlock(parent, block, pc)
}

type sPT struct {
	tok   *regTok
	st    *caseState
	inner parser.ParagraphTransformer
}

func (p *sPT) Transform(node *ast.Paragraph, reader text.Reader, pc parser.Context) {
	ord, ok := p.st.paraOrd[node]
	if !ok {
		ord = len(p.st.paraOrd)
		p.st.paraOrd[node] = ord
	}
	if p.inner != nil {
		p.inner.Transform(node, reader, pc)
		p.st.log = append(p.st.log, regEntry{cat: 'P', tok: p.tok, line: ord, accepted: node.Parent() == nil})
		return
	}
	rm := p.st.script(p.tok.id, ord) != 0 && !p.st.realMode
	p.st.log = append(p.st.log, regEntry{cat: 'P', tok: p.tok, line: ord, accepted: rm})
	if rm {
		node.Parent().RemoveChild(node.Parent(), node)
	}
}

type sAT struct {
	tok *regTok
	st  *caseState
}

func (p *sAT) Transform(node *ast.Document, reader text.Reader, pc parser.Context) {
	p.st.log = append(p.st.log, regEntry{cat: 'A', tok: p.tok})
}

type sRenderer struct {
	tok   *regTok
	st    *caseState
	inner renderer.NodeRenderer // real mode: html.NewRenderer()
	kinds []int
}

type recordingRegisterer struct {
	funcs map[ast.NodeKind]renderer.NodeRendererFunc
	order []ast.NodeKind
}

func (r *recordingRegisterer) Register(k ast.NodeKind, f renderer.NodeRendererFunc) {
	if _, ok := r.funcs[k]; !ok {
		r.order = append(r.order, k)
	}
	r.funcs[k] = f
}

func (p *sRenderer) RegisterFuncs(reg renderer.NodeRendererFuncRegisterer) {
	var innerFuncs map[ast.NodeKind]renderer.NodeRendererFunc
	if p.inner != nil {
		rr := &recordingRegisterer{funcs: map[ast.NodeKind]renderer.NodeRendererFunc{}}
		p.inner.RegisterFuncs(rr)
		innerFuncs = rr.funcs
	}
	for _, k := range p.kinds {
		kind := ast.NodeKind(k)
		inner := innerFuncs[kind]
		reg.Register(kind, func(w util.BufWriter, source []byte, n ast.Node, entering bool) (ast.WalkStatus, error) {
			p.st.log = append(p.st.log, regEntry{cat: 'R', tok: p.tok, kind: int(n.Kind()), entering: entering})
			if inner != nil {
				return inner(w, source, n, entering)
			}
			fmt.Fprintf(w, "{%d.%d.%s}", p.tok.id, int(n.Kind()), b2s(entering))
			i := 1
			if entering {
				i = 0
			}
			switch p.st.script(p.tok.id, i) {
			case 1:
				return ast.WalkSkipChildren, nil
			case 2:
				return ast.WalkStop, nil
			}
			return ast.WalkContinue, nil
		})
	}
}

type probeExt struct {
	popt parser.Option
	ropt renderer.Option
}

func (e *probeExt) Extend(m goldmark.Markdown) {
	if e.popt != nil {
		m.Parser().AddOptions(e.popt)
	}
	if e.ropt != nil {
		m.Renderer().AddOptions(e.ropt)
	}
}

type notAComponent struct{ n int }

// ---------- the shipped defaults ----------

type defInfo struct {
	prio  int
	trig  string // "n" or hex
	flags string
}

func trigArg(t []byte) string {
	if t == nil {
		return "n"
	}
	return hx(t)
}

func defaultBlockInfo() ([]defInfo, []util.PrioritizedValue) {
	pvs := parser.DefaultBlockParsers()
	var out []defInfo
	for _, pv := range pvs {
		bp := pv.Value.(parser.BlockParser)
		out = append(out, defInfo{pv.Priority, trigArg(bp.Trigger()), b2s(bp.CanInterruptParagraph()) + b2s(bp.CanAcceptIndentedLine())})
	}
	return out, pvs
}

func defaultInlineInfo() ([]defInfo, []util.PrioritizedValue) {
	pvs := parser.DefaultInlineParsers()
	var out []defInfo
	for _, pv := range pvs {
		ip := pv.Value.(parser.InlineParser)
		out = append(out, defInfo{pv.Priority, hx(ip.Trigger()), "-"})
	}
	return out, pvs
}

// what the harness (and the Lean driver's literal) believe the defaults to be
const expectedDefaults = "B:100/2d3d/10,200/2d2a5f/10,300/2d2b2a30313233343536373839/10,400/2d2b2a30313233343536373839/10,500/n/01,600/23/10,700/7e60/10,800/3e/10,900/3c/10,1000/n/00" +
	"|I:100/60,200/215b5d,300/3c,400/3c,500/2a5f|P:100|R:1000"

func observedDefaults() string {
	var b, i, p []string
	bi, _ := defaultBlockInfo()
	for _, d := range bi {
		b = append(b, fmt.Sprintf("%d/%s/%s", d.prio, d.trig, d.flags))
	}
	ii, _ := defaultInlineInfo()
	for _, d := range ii {
		i = append(i, fmt.Sprintf("%d/%s", d.prio, d.trig))
	}
	for _, pv := range parser.DefaultParagraphTransformers() {
		p = append(p, strconv.Itoa(pv.Priority))
	}
	// goldmark.DefaultRenderer registers html.NewRenderer() with 1000 (markdown.go:24); not observable through
	// the public API, so it is probed behaviourally by op `real` (a probe at 999 wins, one at 1001 loses).
	return "B:" + strings.Join(b, ",") + "|I:" + strings.Join(i, ",") + "|P:" + strings.Join(p, ",") + "|R:1000"
}

const htmlRendererPriority = 1000

// the built-ins as scripted registrations (ids 100.., 200.., 300.., 400)
func builtinToks(cat byte) []regTok {
	var out []regTok
	switch cat {
	case 'B':
		bi, _ := defaultBlockInfo()
		for i, d := range bi {
			out = append(out, regTok{'B', 100 + i, d.prio, 'c', d.trig, d.flags})
		}
	case 'I':
		ii, _ := defaultInlineInfo()
		for i, d := range ii {
			out = append(out, regTok{'I', 200 + i, d.prio, 'c', d.trig, "-"})
		}
	case 'P':
		for i, pv := range parser.DefaultParagraphTransformers() {
			out = append(out, regTok{'P', 300 + i, pv.Priority, 'c', "-", "-"})
		}
	case 'R':
		rr := &recordingRegisterer{funcs: map[ast.NodeKind]renderer.NodeRendererFunc{}}
		html.NewRenderer().RegisterFuncs(rr)
		var ks []string
		for _, k := range rr.order {
			ks = append(ks, strconv.Itoa(int(k)))
		}
		out = append(out, regTok{'R', 400, htmlRendererPriority, 'c', strings.Join(ks, "."), "-"})
	}
	return out
}

// ---------- building a Markdown through the carriers ----------

// build registers every token through its carrier. In real mode the tokens with id >= 100 are delegating
// proxies around the shipped defaults.
func buildMarkdown(toks []regTok, st *caseState, baseParser []parser.Option) goldmark.Markdown {
	var ctorP []parser.Option
	var ctorR []renderer.Option
	ctorP = append(ctorP, baseParser...)
	var mdOpts []goldmark.Option
	_, realBlocks := defaultBlockInfo()
	_, realInlines := defaultInlineInfo()
	realPTs := parser.DefaultParagraphTransformers()
	shared := map[[2]int]interface{}{} // the SAME object for every further registration with the same category and id
	for i := range toks {
		t := &toks[i]
		var v interface{}
		switch {
		case shared[[2]int{int(t.cat), t.id}] != nil && !t.invalid():
			v = shared[[2]int{int(t.cat), t.id}]
		case t.invalid():
			v = &notAComponent{t.id}
		case t.cat == 'B':
			p := &sBlock{tok: t, st: st}
			if st.realMode && t.id >= 100 {
				p.inner = realBlocks[t.id-100].Value.(parser.BlockParser)
			}
			v = p
		case t.cat == 'I':
			p := sInline{tok: t, st: st}
			if st.realMode && t.id >= 200 {
				p.inner = realInlines[t.id-200].Value.(parser.InlineParser)
			}
			if cb, ok := p.inner.(parser.CloseBlocker); ok {
				v = &sInlineCB{p, cb}
			} else {
				v = &p
			}
		case t.cat == 'P':
			p := &sPT{tok: t, st: st}
			if st.realMode && t.id >= 300 {
				p.inner = realPTs[t.id-300].Value.(parser.ParagraphTransformer)
			}
			v = p
		case t.cat == 'A':
			v = &sAT{tok: t, st: st}
		case t.cat == 'R':
			p := &sRenderer{tok: t, st: st, kinds: t.kinds()}
			if st.realMode && t.id >= 400 {
				p.inner = html.NewRenderer()
			}
			v = p
		}
		if !t.invalid() {
			shared[[2]int{int(t.cat), t.id}] = v
		}
		pv := util.Prioritized(v, t.prio)
		var po parser.Option
		var ro renderer.Option
		switch t.cat {
		case 'B':
			po = parser.WithBlockParsers(pv)
		case 'I':
			po = parser.WithInlineParsers(pv)
		case 'P':
			po = parser.WithParagraphTransformers(pv)
		case 'A':
			po = parser.WithASTTransformers(pv)
		case 'R':
			ro = renderer.WithNodeRenderers(pv)
		}
		switch t.carrier {
		case 'c':
			if po != nil {
				ctorP = append(ctorP, po)
			} else {
				ctorR = append(ctorR, ro)
			}
		case 'o':
			if po != nil {
				mdOpts = append(mdOpts, goldmark.WithParserOptions(po))
			} else {
				mdOpts = append(mdOpts, goldmark.WithRendererOptions(ro))
			}
		default:
			mdOpts = append(mdOpts, goldmark.WithExtensions(&probeExt{popt: po, ropt: ro}))
		}
	}
	opts := []goldmark.Option{goldmark.WithParser(parser.NewParser(ctorP...)), goldmark.WithRenderer(renderer.NewRenderer(ctorR...))}
	opts = append(opts, mdOpts...)
	return goldmark.New(opts...)
}

// runs f, turning a panic into its canonical kind ("" = no panic)
func panicKind(f func()) (kind string, msg string) {
	defer func() {
		if r := recover(); r != nil {
			msg = fmt.Sprint(r)
			kind = "explicit"
			switch {
			case strings.Contains(msg, "index out of range"):
				kind = "index"
			case strings.Contains(msg, "slice bounds out of range"):
				kind = "slice"
			case strings.Contains(msg, "nil pointer"):
				kind = "nil"
			case strings.Contains(msg, "interface conversion"):
				kind = "assert"
			}
		}
	}()
	f()
	return "", ""
}

// ---------- the C20 oracle (independent of the model) ----------

func dotsOf(es []regEntry) string {
	var s []string
	for _, e := range es {
		s = append(s, strconv.Itoa(e.tok.id))
	}
	return strings.Join(s, ".")
}

func blockKey(t *regTok) [2]int {
	f := 0
	if t.free() {
		f = 1
	}
	return [2]int{f, t.prio}
}

func keyLess(a, b [2]int) bool { return a[0] < b[0] || (a[0] == b[0] && a[1] < b[1]) }

func containsByte(bs []byte, c int) bool {
	for _, b := range bs {
		if int(b) == c {
			return true
		}
	}
	return false
}

// dupAware: ONE object registered several times (same category and id, different priorities) is consulted once per
// registration; the n-th consultation of it within one group is attributed to its n-th registration in priority order
// (for every other object the entry is returned unchanged).
func dupAware(g []regEntry, toks []regTok) []regEntry {
	regs := map[[2]int][]*regTok{}
	for i := range toks {
		t := &toks[i]
		if !t.invalid() {
			k := [2]int{int(t.cat), t.id}
			regs[k] = append(regs[k], t)
		}
	}
	dup := false
	for k, l := range regs {
		if len(l) > 1 {
			dup = true
			sort.SliceStable(l, func(i, j int) bool { return l[i].prio < l[j].prio })
			regs[k] = l
		}
	}
	if !dup {
		return g
	}
	out := make([]regEntry, len(g))
	seen := map[[2]int]int{}
	for i, e := range g {
		out[i] = e
		k := [2]int{int(e.tok.cat), e.tok.id}
		if l := regs[k]; len(l) > 1 {
			n := seen[k]
			seen[k]++
			if n < len(l) {
				out[i].tok = l[n]
			} else {
				out[i].tok = l[len(l)-1]
			}
		}
	}
	return out
}

func sameReg(e *regTok, t *regTok, toks []regTok) bool {
	n := 0
	for i := range toks {
		if toks[i].cat == t.cat && toks[i].id == t.id && !toks[i].invalid() {
			n++
		}
	}
	if n > 1 {
		return e == t
	}
	return e.id == t.id
}

// one consultation of block parsers: entries in call order
func oracleBlockGroup(g []regEntry, toks []regTok, real bool, fails *[]OracleFail) {
	g = dupAware(g, toks)
	for i := range g {
		e := g[i]
		if i > 0 && keyLess(blockKey(e.tok), blockKey(g[i-1].tok)) {
			*fails = append(*fails, OracleFail{"C20", "block-order", fmt.Sprintf("line %d offset %d: block parsers asked in the order %s, but %d (priority %d, free=%v) must come before %d (priority %d, free=%v)",
				e.line, e.pos, dotsOf(g), e.tok.id, e.tok.prio, e.tok.free(), g[i-1].tok.id, g[i-1].tok.prio, g[i-1].tok.free())})
		}
		if i > 0 && g[i-1].accepted {
			*fails = append(*fails, OracleFail{"C20", "first-accept", fmt.Sprintf("line %d offset %d: parser %d was asked after %d had accepted", e.line, e.pos, e.tok.id, g[i-1].tok.id)})
		}
		if !e.tok.free() && !containsByte(e.tok.triggers(), e.ch) {
			*fails = append(*fails, OracleFail{"C20", "block-trigger", fmt.Sprintf("line %d: parser %d asked for byte %d which is not among its triggers", e.line, e.tok.id, e.ch)})
		}
	}
	// completeness: every never-skipped parser of the same list that sorts strictly before the last one asked
	last := g[len(g)-1]
	for i := range toks {
		t := &toks[i]
		if t.cat != 'B' || t.invalid() || t.flags[0] != '1' || t.flags[1] != '1' {
			continue
		}
		inList := t.free() || (last.ch >= 0 && containsByte(t.triggers(), last.ch))
		// when the consultation ended without an acceptance, EVERY never-skipped parser of the list must have been
		// asked (triggered ones, then the trigger-less ones), not only those sorting before the last one asked
		if !inList || (last.accepted && !keyLess(blockKey(t), blockKey(last.tok))) {
			continue
		}
		found := false
		for _, e := range g {
			if sameReg(e.tok, t, toks) {
				found = true
			}
		}
		if !found {
			*fails = append(*fails, OracleFail{"C20", "block-missed", fmt.Sprintf("line %d byte %d: parser %d (priority %d) was not asked although %d (priority %d) was; asked: %s",
				last.line, last.ch, t.id, t.prio, last.tok.id, last.tok.prio, dotsOf(g))})
		}
	}
}

func oracleSeq(cat string, what string, g []regEntry, toks []regTok, catb byte, needAllBefore bool, fails *[]OracleFail) {
	g = dupAware(g, toks)
	for i := range g {
		if i > 0 && g[i].tok.prio < g[i-1].tok.prio {
			*fails = append(*fails, OracleFail{"C20", cat + "-order", fmt.Sprintf("%s: order %s is not ascending in priority (%d has %d, %d has %d)", what, dotsOf(g), g[i-1].tok.id, g[i-1].tok.prio, g[i].tok.id, g[i].tok.prio)})
		}
		if i > 0 && g[i-1].accepted {
			*fails = append(*fails, OracleFail{"C20", cat + "-after-accept", fmt.Sprintf("%s: %d ran after %d had accepted/detached", what, g[i].tok.id, g[i-1].tok.id)})
		}
	}
	if !needAllBefore || len(g) == 0 {
		return
	}
	last := g[len(g)-1]
	for i := range toks {
		t := &toks[i]
		if t.cat != catb || t.invalid() || t.prio >= last.tok.prio {
			continue
		}
		found := false
		for _, e := range g {
			if sameReg(e.tok, t, toks) {
				found = true
			}
		}
		if !found {
			*fails = append(*fails, OracleFail{"C20", cat + "-missed", fmt.Sprintf("%s: %d (priority %d) did not run although %d (priority %d) did", what, t.id, t.prio, last.tok.id, last.tok.prio)})
		}
	}
}

// oracle over a whole log. scripted: one block consultation per line, one inline consultation per offset.
func oracleC20(st *caseState, toks []regTok, real bool) []OracleFail {
	var fails []OracleFail
	var bs, is, ps, as, rs []regEntry
	for _, e := range st.log {
		switch e.cat {
		case 'B':
			bs = append(bs, e)
		case 'I':
			is = append(is, e)
		case 'P':
			ps = append(ps, e)
		case 'A':
			as = append(as, e)
		case 'R':
			rs = append(rs, e)
		}
	}
	// block groups
	for i := 0; i < len(bs); {
		j := i + 1
		for j < len(bs) && bs[j].line == bs[i].line && bs[j].pos == bs[i].pos && !(real && bs[j-1].accepted) {
			j++
		}
		oracleBlockGroup(bs[i:j], toks, real, &fails)
		// a probe's block has no children: nothing more may be opened at the same place after it accepted
		if real && i > 0 && bs[i-1].accepted && bs[i-1].tok.id < 100 && bs[i-1].line == bs[i].line && bs[i-1].pos == bs[i].pos {
			fails = append(fails, OracleFail{"C20", "first-accept", fmt.Sprintf("line %d offset %d: parser %d was asked after probe %d had accepted", bs[i].line, bs[i].pos, bs[i].tok.id, bs[i-1].tok.id)})
		}
		i = j
	}
	// inline groups: same offset
	for i := 0; i < len(is); {
		j := i + 1
		for j < len(is) && is[j].pos == is[i].pos {
			j++
		}
		g := is[i:j]
		oracleSeq("inline", fmt.Sprintf("inline parsers at offset %d", g[0].pos), g, toks, 'I', false, &fails)
		// completeness among the parsers sharing a trigger with the last one asked is checked on probes only
		i = j
	}
	// paragraph transformers per paragraph
	for i := 0; i < len(ps); {
		j := i + 1
		for j < len(ps) && ps[j].line == ps[i].line {
			j++
		}
		oracleSeq("ptransformer", fmt.Sprintf("paragraph transformers on paragraph #%d", ps[i].line), ps[i:j], toks, 'P', true, &fails)
		i = j
	}
	// AST transformers: all of them, ascending
	if len(as) > 0 || !real {
		oracleSeq("atransformer", "AST transformers", as, toks, 'A', false, &fails)
		n := 0
		for i := range toks {
			if toks[i].cat == 'A' && !toks[i].invalid() {
				n++
			}
		}
		if n != len(as) {
			fails = append(fails, OracleFail{"C20", "atransformer-missed", fmt.Sprintf("%d AST transformers registered, %d ran (%s)", n, len(as), dotsOf(as))})
		}
	}
	// renderers: the function called for a kind belongs to a registrant with the smallest priority value
	for _, e := range rs {
		eprio := e.tok.prio // an object registered several times counts with its smallest priority value
		for i := range toks {
			if toks[i].cat == 'R' && !toks[i].invalid() && toks[i].id == e.tok.id && toks[i].prio < eprio {
				eprio = toks[i].prio
			}
		}
		for i := range toks {
			t := &toks[i]
			if t.cat != 'R' || t.invalid() || t.prio >= eprio || t.id == e.tok.id { // t.id == e.tok.id: the same object registered again
				continue
			}
			for _, k := range t.kinds() {
				if k == e.kind {
					fails = append(fails, OracleFail{"C20", "renderer-min", fmt.Sprintf("kind %d rendered by %d (priority %d) although %d registered it with the smaller priority %d", e.kind, e.tok.id, eprio, t.id, t.prio)})
				}
			}
		}
	}
	return fails
}

// ---------- canonical outputs ----------

func outBlock(st *caseState) string {
	var sb strings.Builder
	sb.WriteString("B:")
	var bs, ps, as []regEntry
	for _, e := range st.log {
		switch e.cat {
		case 'B':
			bs = append(bs, e)
		case 'P':
			ps = append(ps, e)
		case 'A':
			as = append(as, e)
		}
	}
	for i := 0; i < len(bs); {
		j := i + 1
		for j < len(bs) && bs[j].line == bs[i].line {
			j++
		}
		w := "-"
		for _, e := range bs[i:j] {
			if e.accepted && w == "-" {
				w = strconv.Itoa(e.tok.id)
			}
		}
		fmt.Fprintf(&sb, "[%d/%s/%s]", bs[i].line, dotsOf(bs[i:j]), w)
		i = j
	}
	sb.WriteString("|P:")
	for i := 0; i < len(ps); {
		j := i + 1
		for j < len(ps) && ps[j].line == ps[i].line {
			j++
		}
		fmt.Fprintf(&sb, "[%s]", dotsOf(ps[i:j]))
		i = j
	}
	sb.WriteString("|A:" + dotsOf(as))
	return sb.String()
}

func outInline(st *caseState) string {
	var sb strings.Builder
	sb.WriteString("I:")
	var is []regEntry
	for _, e := range st.log {
		if e.cat == 'I' {
			is = append(is, e)
		}
	}
	for i := 0; i < len(is); {
		j := i + 1
		for j < len(is) && is[j].pos == is[i].pos {
			j++
		}
		w := "-"
		for _, e := range is[i:j] {
			if e.accepted && w == "-" {
				w = strconv.Itoa(e.tok.id)
			}
		}
		fmt.Fprintf(&sb, "[%d/%s/%s]", is[i].pos, dotsOf(is[i:j]), w)
		i = j
	}
	return sb.String()
}

func outRender(st *caseState) string {
	var s []string
	for _, e := range st.log {
		if e.cat == 'R' {
			s = append(s, fmt.Sprintf("%d.%d.%s", e.tok.id, e.kind, b2s(e.entering)))
		}
	}
	return "R:" + strings.Join(s, ",")
}

// ---------- documents ----------

type lineTok struct {
	w  int
	ch int // -1: the line consists of spaces only (must be last)
}

func linesArg(ls []lineTok) string {
	if len(ls) == 0 {
		return "_"
	}
	var s []string
	for _, l := range ls {
		if l.ch < 0 {
			s = append(s, fmt.Sprintf("%d._", l.w))
		} else {
			s = append(s, fmt.Sprintf("%d.%02x", l.w, l.ch))
		}
	}
	return strings.Join(s, ";")
}

func parseLinesArg(s string) []lineTok {
	if s == "_" {
		return nil
	}
	var out []lineTok
	for _, t := range strings.Split(s, ";") {
		f := strings.Split(t, ".")
		w, _ := strconv.Atoi(f[0])
		if f[1] == "_" {
			out = append(out, lineTok{w, -1})
		} else {
			out = append(out, lineTok{w, int(unhx(f[1])[0])})
		}
	}
	return out
}

func sourceOfLines(ls []lineTok) []byte {
	var b []byte
	for _, l := range ls {
		b = append(b, bytes.Repeat([]byte(" "), l.w)...)
		if l.ch >= 0 {
			b = append(b, byte(l.ch), 'z', '\n')
		}
	}
	return b
}

func buildTree(s string) ast.Node {
	var stack []ast.Node
	var root ast.Node
	for _, t := range strings.Split(s, ",") {
		if t == ")" {
			n := stack[len(stack)-1]
			stack = stack[:len(stack)-1]
			if len(stack) == 0 {
				root = n
			} else {
				p := stack[len(stack)-1]
				p.AppendChild(p, n)
			}
			continue
		}
		k, _ := strconv.Atoi(t[1:])
		stack = append(stack, &kNode{k: ast.NodeKind(k)})
	}
	return root
}

var realDocs = []string{
	"*a* **b** _c_\n",
	"- a\n- b\n\n* c\n",
	"[a](b) [c] [d *e*](f)\n\n[c]: /u\n",
	"<div>\nx\n</div>\n\n<http://a.b> <b>c</b>\n",
	"```go\nx\n```\n\n~~~\ny\n~~~\n",
	"a\n-\n\nb\n===\n\n---\n***\n",
	"> - *a*\n> - [b](c)\n\n    code\n",
	"# h *e*\n\n1. x\n2. y\n",
	"*\n-\n[\n<\n",
	"a * b [ c < d - e\n",
	"- <a> *b* [c]\n  - d\n",
	"\\* \\[ \\< \\-\n",
}

var lateMd goldmark.Markdown
var lateKind ast.NodeKind

func init() {
	// a renderer that has already been used, then a brand-new node kind
	lateMd = goldmark.New()
	var buf bytes.Buffer
	if err := lateMd.Convert([]byte("a\n"), &buf); err != nil {
		panic(err)
	}
	lateKind = ast.NewNodeKind("ProbeCreatedLate")

	register(&Component{
		Name: "registry",
		Rule: "scripted probes + built-ins (as probes with the shipped priorities/triggers) registered through 3 carriers in all orders; non-trivial = at least one consultation in which a probe and a built-in (or two probes) were both asked, or a renderer override took effect; distinct = distinct (configuration class, log)",
		Gen:  genRegistry,
		Impl: implRegistry,
		Scope: func(tier string) string {
			if tier == "thorough" {
				return "exhaustive: every ordered selection of <=2 probes x 6 priority slots x 3 carriers x shapes, all 24 orders x 81 carrier assignments of 4 probes, for block/inline/transformer/renderer ops; + 60k random configurations of <=4 probes (+ties, invalid values) per op; + real-pipeline oracle runs over 12 documents"
			}
			return "exhaustive: every ordered selection of <=2 probes x 6 priority slots x 3 carriers x shapes, all 24 orders x 81 carrier assignments of 4 probes, for block/inline/transformer/renderer ops; + 6k random configurations of <=4 probes (+ties, invalid values) per op; + real-pipeline oracle runs over 12 documents"
		},
		Exhaustive: true,
	})
}

// ---------- Impl ----------

func implRegistry(c Case) ImplResult {
	if c.Op == "sharedslice" {
		return implSharedSlice(c)
	}
	var r ImplResult
	switch c.Op {
	case "defaults":
		r.Out = observedDefaults()
		if r.Out != expectedDefaults {
			r.Out = "changed:" + r.Out
		}
		return r
	case "lateadd":
		md := goldmark.New()
		var buf bytes.Buffer
		md.Convert([]byte("a\n"), &buf)
		st := &caseState{script: parseScriptArg("_")}
		tok := &regTok{cat: c.Args[0][0], id: 1, prio: 1, trig: "n", flags: "11"}
		kind, _ := panicKind(func() {
			switch c.Args[0] {
			case "B":
				md.Parser().AddOptions(parser.WithBlockParsers(util.Prioritized(&sBlock{tok: tok, st: st}, 1)))
			case "I":
				md.Parser().AddOptions(parser.WithInlineParsers(util.Prioritized(&sInline{tok: tok, st: st}, 1)))
			case "P":
				md.Parser().AddOptions(parser.WithParagraphTransformers(util.Prioritized(&sPT{tok: tok, st: st}, 1)))
			case "A":
				md.Parser().AddOptions(parser.WithASTTransformers(util.Prioritized(&sAT{tok: tok, st: st}, 1)))
			default:
				md.Renderer().AddOptions(renderer.WithNodeRenderers(util.Prioritized(&sRenderer{tok: tok, st: st}, 1)))
			}
		})
		r.Out = "ok"
		if kind != "" {
			r.Out = "panic:" + kind
		}
		return r
	case "block":
		toks := parseRegToks(c.Args[0])
		st := &caseState{script: parseScriptArg(c.Args[2]), paraOrd: map[ast.Node]int{}}
		src := sourceOfLines(parseLinesArg(c.Args[1]))
		kind, msg := panicKind(func() {
			md := buildMarkdown(toks, st, nil)
			md.Parser().Parse(text.NewReader(src))
		})
		if kind != "" {
			r.Out = "panic:" + kind
			if !anyInvalid(toks) {
				r.Fails = append(r.Fails, OracleFail{"C20", "panic", msg})
			}
			return r
		}
		r.Out = outBlock(st)
		r.Fails = oracleC20(st, toks, false)
		r.Key = keyOf(toks, st)
		return r
	case "inline":
		toks := parseRegToks(c.Args[0])
		st := &caseState{script: parseScriptArg(c.Args[3]), paraOrd: map[ast.Node]int{}}
		src := append(unhx(c.Args[2]), '\n')
		base := []parser.Option{parser.WithBlockParsers(util.Prioritized(parser.NewParagraphParser(), 1000))}
		if c.Args[1] == "1" {
			base = append(base, parser.WithEscapedSpace())
		}
		kind, msg := panicKind(func() {
			md := buildMarkdown(toks, st, base)
			md.Parser().Parse(text.NewReader(src))
		})
		if kind != "" {
			r.Out = "panic:" + kind
			if !anyInvalid(toks) {
				r.Fails = append(r.Fails, OracleFail{"C20", "panic", msg})
			}
			return r
		}
		r.Out = outInline(st)
		r.Fails = oracleC20(st, toks, false)
		r.Key = keyOf(toks, st)
		return r
	case "render":
		toks := parseRegToks(c.Args[0])
		st := &caseState{script: parseScriptArg(c.Args[2]), paraOrd: map[ast.Node]int{}}
		tree := buildTree(c.Args[1])
		var buf bytes.Buffer
		var err error
		kind, msg := panicKind(func() {
			md := buildMarkdown(toks, st, nil)
			err = md.Renderer().Render(&buf, nil, tree)
		})
		if kind != "" {
			r.Out = "panic:" + kind
			if !anyInvalid(toks) {
				r.Fails = append(r.Fails, OracleFail{"C20", "missing-kind-panic", msg})
			}
			return r
		}
		if err != nil {
			r.Fails = append(r.Fails, OracleFail{"C20", "render-error", err.Error()})
		}
		r.Out = outRender(st)
		r.Fails = append(r.Fails, oracleC20(st, toks, false)...)
		r.Fails = append(r.Fails, oracleRenderTree(tree, toks, st)...)
		r.Key = keyOf(toks, st)
		return r
	case "real":
		return implReal(c)
	case "late":
		return implLate(c)
	}
	panic("bad registry op " + c.Op)
}

func anyInvalid(toks []regTok) bool {
	for _, t := range toks {
		if t.invalid() {
			return true
		}
	}
	return false
}

// non-triviality: some consultation asked two parsers of which one is a probe (id < 100), or a probe renderer ran
func keyOf(toks []regTok, st *caseState) string {
	nontrivial := false
	for i := 1; i < len(st.log); i++ {
		a, b := st.log[i-1], st.log[i]
		if a.cat == b.cat && a.cat != 'R' && a.line == b.line && a.pos == b.pos && (a.tok.id < 100 || b.tok.id < 100) {
			nontrivial = true
		}
	}
	for _, e := range st.log {
		if e.cat == 'R' && e.tok.id < 100 {
			nontrivial = true
		}
	}
	if !nontrivial {
		return ""
	}
	var sb strings.Builder
	for _, e := range st.log {
		fmt.Fprintf(&sb, "%c%d:%d:%d:%v:%d,", e.cat, e.tok.id, e.line, e.pos, e.accepted, e.kind)
	}
	return sb.String()
}

// independent reading of "a node of a kind with no renderer function is skipped while its children are still
// rendered": when every function returns WalkContinue, every node whose kind has a registrant must produce
// exactly an entering and a leaving event, in document order.
func oracleRenderTree(tree ast.Node, toks []regTok, st *caseState) []OracleFail {
	for _, t := range toks {
		if t.cat == 'R' && (st.script(t.id, 0) != 0 || st.script(t.id, 1) != 0) {
			return nil
		}
	}
	registered := map[int]bool{}
	for _, t := range toks {
		if t.cat == 'R' && !t.invalid() {
			for _, k := range t.kinds() {
				registered[k] = true
			}
		}
	}
	var want []string
	var rec func(n ast.Node)
	rec = func(n ast.Node) {
		k := int(n.Kind())
		if registered[k] {
			want = append(want, fmt.Sprintf("%d.1", k))
		}
		for c := n.FirstChild(); c != nil; c = c.NextSibling() {
			rec(c)
		}
		if registered[k] {
			want = append(want, fmt.Sprintf("%d.0", k))
		}
	}
	rec(tree)
	var got []string
	for _, e := range st.log {
		if e.cat == 'R' {
			got = append(got, fmt.Sprintf("%d.%s", e.kind, b2s(e.entering)))
		}
	}
	if strings.Join(want, ",") != strings.Join(got, ",") {
		return []OracleFail{{"C20", "missing-kind-children", fmt.Sprintf("kinds visited %v, expected every node of a registered kind (children of unregistered kinds included): %v", got, want)}}
	}
	return nil
}

func implReal(c Case) ImplResult {
	var r ImplResult
	r.NoModel = true
	probes := parseRegToks(c.Args[0])
	docIdx, _ := strconv.Atoi(c.Args[1])
	src := []byte(realDocs[docIdx%len(realDocs)])
	var toks []regTok
	toks = append(toks, builtinToks('B')...)
	toks = append(toks, builtinToks('I')...)
	toks = append(toks, builtinToks('P')...)
	toks = append(toks, builtinToks('R')...)
	toks = append(toks, probes...)
	st := &caseState{script: parseScriptArg(c.Args[2]), paraOrd: map[ast.Node]int{}, realMode: true}
	var buf bytes.Buffer
	var err error
	var doc ast.Node
	kind, msg := panicKind(func() {
		md := buildMarkdown(toks, st, nil)
		doc = md.Parser().Parse(text.NewReader(src))
		err = md.Renderer().Render(&buf, src, doc)
	})
	if kind != "" {
		r.Out = "panic:" + kind
		r.Fails = append(r.Fails, OracleFail{"C20", "panic", fmt.Sprintf("doc %q: %s", src, msg)})
		return r
	}
	if err != nil {
		r.Fails = append(r.Fails, OracleFail{"C20", "render-error", err.Error()})
	}
	r.Fails = append(r.Fails, oracleC20(st, toks, true)...)
	// probes that accept nothing and render nothing leave the output untouched
	allDecline, anyRenderer := true, false
	for _, e := range st.log {
		if e.tok.id < 100 && e.accepted && (e.cat == 'B' || e.cat == 'I') {
			allDecline = false
		}
	}
	minPrio := map[int]*regTok{}
	for i := range toks {
		t := &toks[i]
		if t.cat != 'R' {
			continue
		}
		if t.id < 100 {
			anyRenderer = true
		}
		for _, k := range t.kinds() {
			if m, ok := minPrio[k]; !ok || t.prio < m.prio {
				minPrio[k] = t
			}
		}
	}
	if allDecline && !anyRenderer {
		var plain bytes.Buffer
		goldmark.New().Convert(src, &plain)
		if !bytes.Equal(plain.Bytes(), buf.Bytes()) {
			r.Fails = append(r.Fails, OracleFail{"C20", "declining-probes-change-output", fmt.Sprintf("doc %q: %q with probes that decline everything, %q without", src, buf.Bytes(), plain.Bytes())})
		}
	}
	// every probe-created inline node: its CHILD is rendered exactly once whether or not the kind has a function,
	// unless the function that owns the kind is html's (it never is) — probe functions return WalkContinue
	nInline, nBlock := 0, 0
	ast.Walk(doc, func(n ast.Node, entering bool) (ast.WalkStatus, error) {
		if entering && n.Kind() == kindProbeInline {
			nInline++
		}
		if entering && n.Kind() == kindProbeBlock {
			nBlock++
		}
		if n.Kind() == ast.KindImage {
			return ast.WalkSkipChildren, nil // html renders an image's children itself, as alt text
		}
		return ast.WalkContinue, nil
	})
	if got := bytes.Count(buf.Bytes(), []byte("CHILD")); got != nInline {
		r.Fails = append(r.Fails, OracleFail{"C20", "missing-kind-children", fmt.Sprintf("doc %q: %d probe inline nodes but their child text was rendered %d times: %q", src, nInline, got, buf.Bytes())})
	}
	// the function that ran for each probe kind is the smallest-priority registrant, and it ran for every node
	for _, pk := range []struct {
		kind ast.NodeKind
		n    int
	}{{kindProbeInline, nInline}, {kindProbeBlock, nBlock}} {
		want := minPrio[int(pk.kind)]
		cnt := 0
		for _, e := range st.log {
			if e.cat == 'R' && e.kind == int(pk.kind) {
				cnt++
			}
		}
		if want == nil && cnt != 0 || want != nil && cnt != 2*pk.n {
			r.Fails = append(r.Fails, OracleFail{"C20", "renderer-calls", fmt.Sprintf("doc %q: %d nodes of probe kind %d, %d renderer calls", src, pk.n, pk.kind, cnt)})
		}
	}
	r.Out = "real"
	r.Key = keyOf(toks, st)
	return r
}

// a node kind created after the renderer was first used (and a kind that simply never had a function), no
// function registered: skipped, children rendered, no panic, no error
func implLate(c Case) ImplResult {
	var r ImplResult
	r.NoModel = true
	variant, _ := strconv.Atoi(c.Args[0])
	kinds := []ast.NodeKind{lateKind, kindNeverRegistered, ast.NodeKind(int(lateKind) + 1000)}
	k := kinds[variant%len(kinds)]
	fresh := variant >= len(kinds)
	md := lateMd
	if fresh {
		md = goldmark.New()
	}
	src := []byte("a *b*\n\n- c\n")
	var want bytes.Buffer
	var got bytes.Buffer
	var err error
	kind, msg := panicKind(func() {
		md.Convert(src, &want)
		doc := md.Parser().Parse(text.NewReader(src))
		// wrap every top-level block in a node of the function-less kind
		var blocks []ast.Node
		for n := doc.FirstChild(); n != nil; n = n.NextSibling() {
			blocks = append(blocks, n)
		}
		for _, b := range blocks {
			doc.RemoveChild(doc, b)
			w := &kNode{k: k}
			w.AppendChild(w, b)
			doc.AppendChild(doc, w)
		}
		err = md.Renderer().Render(&got, src, doc)
	})
	switch {
	case kind != "":
		r.Out = "panic:" + kind
		r.Fails = append(r.Fails, OracleFail{"C20", "missing-kind-panic", fmt.Sprintf("kind %d (table built before it existed: %v): %s", k, !fresh, msg)})
	case err != nil:
		r.Fails = append(r.Fails, OracleFail{"C20", "render-error", err.Error()})
	case !bytes.Equal(want.Bytes(), got.Bytes()):
		r.Fails = append(r.Fails, OracleFail{"C20", "missing-kind-children", fmt.Sprintf("kind %d: children rendered as %q, expected %q", k, got.Bytes(), want.Bytes())})
	}
	if r.Out == "" {
		r.Out = "ok"
	}
	r.Key = "late" + c.Args[0]
	return r
}

// ---------- Gen ----------

var prioSlotsBlock = []int{50, 150, 250, 450, 950, 1050}
var blockShapes = []struct{ trig, flags string }{{"2a", "11"}, {"2d", "11"}, {"2a2d", "11"}, {"n", "11"}}
var prioSlotsInline = []int{50, 150, 250, 350, 450, 550}
var inlineShapes = []string{"2a", "5b", "3c", "2a5b3c20"}
var carriers = []byte{'c', 'o', 'e'}

func permutations(n int) [][]int {
	var out [][]int
	var rec func(cur []int, used []bool)
	rec = func(cur []int, used []bool) {
		if len(cur) == n {
			out = append(out, append([]int{}, cur...))
			return
		}
		for i := 0; i < n; i++ {
			if !used[i] {
				used[i] = true
				rec(append(cur, i), used)
				used[i] = false
			}
		}
	}
	rec(nil, make([]bool, n))
	return out
}

func withBuiltins(cat byte, probes []regTok) []regTok {
	return append(builtinToks(cat), probes...)
}

func scriptArg(m map[int]string) string {
	if len(m) == 0 {
		return "_"
	}
	var ids []int
	for id := range m {
		ids = append(ids, id)
	}
	sort.Ints(ids)
	var s []string
	for _, id := range ids {
		s = append(s, fmt.Sprintf("%d=%s", id, m[id]))
	}
	return strings.Join(s, ",")
}

func genRegistry(tier string, rng *RNG, emit func(Case)) {
	nrand := 6000
	if tier == "thorough" {
		nrand = 60000
	}
	emit(Case{Op: "defaults"})
	for _, c := range []string{"B", "I", "P", "A", "R"} {
		emit(Case{Op: "lateadd", Args: []string{c}})
	}
	for v := 0; v < 6; v++ {
		emit(Case{Op: "late", Args: []string{strconv.Itoa(v)}})
	}

	// ----- block: exhaustive small scope -----
	blockDocs := [][]lineTok{{{0, '*'}, {0, '-'}, {0, 'a'}}, {{4, '-'}, {0, '*'}, {0, '<'}, {2, -1}}}
	// the paragraph built-in (id 109) takes every line nobody else took; built-ins otherwise decline
	blockScripts := func(ids []int) []map[int]string {
		base := map[int]string{109: "2222"}
		out := []map[int]string{base}
		for k, id := range ids {
			m := map[int]string{109: "2222"}
			m[id] = []string{"1010", "0121"}[k%2]
			out = append(out, m)
		}
		return out
	}
	emitBlock := func(probes []regTok, docs [][]lineTok) {
		var ids []int
		for _, p := range probes {
			ids = append(ids, p.id)
		}
		for _, d := range docs {
			for _, sc := range blockScripts(ids) {
				emit(Case{Op: "block", Args: []string{regsArg(withBuiltins('B', probes)), linesArg(d), scriptArg(sc)}})
			}
		}
	}
	type choice struct {
		shape, slot, car int
	}
	var choices []choice
	for s := range blockShapes {
		for p := range prioSlotsBlock {
			for c := range carriers {
				choices = append(choices, choice{s, p, c})
			}
		}
	}
	mkBlock := func(id int, ch choice) regTok {
		return regTok{'B', id, prioSlotsBlock[ch.slot] + id, carriers[ch.car], blockShapes[ch.shape].trig, blockShapes[ch.shape].flags}
	}
	for _, a := range choices {
		emitBlock([]regTok{mkBlock(1, a)}, blockDocs)
		for _, b := range choices {
			emitBlock([]regTok{mkBlock(1, a), mkBlock(2, b)}, blockDocs[:1])
		}
	}
	// 4 probes, distinct priorities: all orders x all carrier assignments
	four := []regTok{{'B', 1, 150, 'c', "2a", "11"}, {'B', 2, 250, 'c', "2a2d", "11"}, {'B', 3, 50, 'c', "n", "11"}, {'B', 4, 1050, 'c', "2d", "10"}}
	for _, perm := range permutations(4) {
		for ca := 0; ca < 81; ca++ {
			var ps []regTok
			x := ca
			for _, i := range perm {
				t := four[i]
				t.carrier = carriers[x%3]
				x /= 3
				ps = append(ps, t)
			}
			emit(Case{Op: "block", Args: []string{regsArg(withBuiltins('B', ps)), linesArg(blockDocs[ca%2]), scriptArg(map[int]string{109: "2222", 1 + ca%4: "0101"})}})
		}
	}
	// transformers: every ordered selection of <=3 from {P,A} x 3 slots x 3 carriers
	var tchoices []regTok
	for _, cat := range []byte{'P', 'A'} {
		for _, pr := range []int{50, 150, 250} {
			for _, c := range carriers {
				tchoices = append(tchoices, regTok{cat, 0, pr, c, "-", "-"})
			}
		}
	}
	tdoc := []lineTok{{0, 'a'}, {0, 'b'}, {0, 'c'}}
	var recT func(cur []regTok)
	recT = func(cur []regTok) {
		if len(cur) > 0 {
			toks := append(append(builtinToks('B'), builtinToks('P')...), cur...)
			emit(Case{Op: "block", Args: []string{regsArg(toks), linesArg(tdoc), scriptArg(map[int]string{109: "222"})}})
			emit(Case{Op: "block", Args: []string{regsArg(toks), linesArg(tdoc), scriptArg(map[int]string{109: "222", 1: "010", 2: "100", 300: "001"})}})
		}
		if len(cur) == 3 {
			return
		}
		for _, t := range tchoices {
			t.id = len(cur) + 1
			t.prio += t.id
			recT(append(append([]regTok{}, cur...), t))
		}
	}
	recT(nil)

	// ----- inline: exhaustive small scope -----
	inlineDocs := []string{"a*b[c<d e", "*\\*[\\ <"}
	var ichoices []choice
	for s := range inlineShapes {
		for p := range prioSlotsInline {
			for c := range carriers {
				ichoices = append(ichoices, choice{s, p, c})
			}
		}
	}
	mkInline := func(id int, ch choice) regTok {
		return regTok{'I', id, prioSlotsInline[ch.slot] + id, carriers[ch.car], inlineShapes[ch.shape], "-"}
	}
	emitInline := func(probes []regTok, docs []string) {
		for di, d := range docs {
			for _, sc := range []map[int]string{{}, {1: "0100000020", 204: "0100010"}, {2: "1111111111", 201: "000010000"}} {
				emit(Case{Op: "inline", Args: []string{regsArg(withBuiltins('I', probes)), strconv.Itoa(di % 2), hx([]byte(d)), scriptArg(sc)}})
			}
		}
	}
	for _, a := range ichoices {
		emitInline([]regTok{mkInline(1, a)}, inlineDocs)
		for _, b := range ichoices {
			emitInline([]regTok{mkInline(1, a), mkInline(2, b)}, inlineDocs[:1])
		}
	}
	fourI := []regTok{{'I', 1, 150, 'c', "2a", "-"}, {'I', 2, 250, 'c', "2a5b", "-"}, {'I', 3, 50, 'c', "3c20", "-"}, {'I', 4, 1050, 'c', "2a3c", "-"}}
	for _, perm := range permutations(4) {
		for ca := 0; ca < 81; ca++ {
			var ps []regTok
			x := ca
			for _, i := range perm {
				t := fourI[i]
				t.carrier = carriers[x%3]
				x /= 3
				ps = append(ps, t)
			}
			emit(Case{Op: "inline", Args: []string{regsArg(withBuiltins('I', ps)), "0", hx([]byte(inlineDocs[0])), scriptArg(map[int]string{1 + ca%4: "0101010101"})}})
		}
	}

	// ----- render: exhaustive small scope -----
	html := builtinToks('R')[0]
	kE, kF, kP := int(ast.KindEmphasis), int(ast.KindFencedCodeBlock), int(ast.KindParagraph)
	kX, kY, kZ := int(kindProbeBlock), int(kindProbeInline), int(kindNeverRegistered)
	maxHTML := 0
	for _, k := range html.kinds() {
		if k > maxHTML {
			maxHTML = k
		}
	}
	treeArg := func(ks ...int) string { // ks: a preorder with -1 as "close"
		var s []string
		for _, k := range ks {
			if k < 0 {
				s = append(s, ")")
			} else {
				s = append(s, "("+strconv.Itoa(k))
			}
		}
		return strings.Join(s, ",")
	}
	trees := []string{
		treeArg(0, kP, kE, kX, -1, -1, -1, kF, -1, kZ, kP, kY, -1, -1, -1, int(lateKind), kE, -1, -1, -1),
		treeArg(kZ, kX, kY, kE, -1, -1, -1, maxHTML+500, kF, -1, -1, -1),
	}
	kindSets := []string{strconv.Itoa(kE), strconv.Itoa(kF), fmt.Sprintf("%d.%d", kE, kX), fmt.Sprintf("%d.%d.%d", kX, kY, kX), "-"}
	renderSlots := []int{50, 950, 1050}
	var rchoices []regTok
	for _, ks := range kindSets {
		for _, pr := range renderSlots {
			for _, c := range carriers {
				rchoices = append(rchoices, regTok{'R', 0, pr, c, ks, "-"})
			}
		}
	}
	emitRender := func(probes []regTok, withHTML bool) {
		toks := probes
		if withHTML {
			toks = append([]regTok{html}, probes...)
		}
		for ti, tr := range trees {
			emit(Case{Op: "render", Args: []string{regsArg(toks), tr, "_"}})
			if ti == 0 {
				emit(Case{Op: "render", Args: []string{regsArg(toks), tr, "1=10,2=02,400=00"}})
			}
		}
	}
	emitRender(nil, true)
	emitRender(nil, false)
	for _, a := range rchoices {
		a.id = 1
		a.prio++
		emitRender([]regTok{a}, true)
		emitRender([]regTok{a}, false)
		for _, b := range rchoices {
			b.id = 2
			b.prio += 2
			emitRender([]regTok{a, b}, true)
		}
	}
	fourR := []regTok{{'R', 1, 150, 'c', fmt.Sprintf("%d.%d", kE, kX), "-"}, {'R', 2, 250, 'c', fmt.Sprintf("%d.%d", kX, kY), "-"}, {'R', 3, 50, 'c', strconv.Itoa(kF), "-"}, {'R', 4, 1050, 'c', fmt.Sprintf("%d.%d.%d", kE, kF, kY), "-"}}
	for _, perm := range permutations(4) {
		for ca := 0; ca < 81; ca++ {
			ps := []regTok{html}
			x := ca
			for _, i := range perm {
				t := fourR[i]
				t.carrier = carriers[x%3]
				x /= 3
				ps = append(ps, t)
			}
			if ca%3 == 0 { // the position of the built-in among the registrations varies too
				ps[0], ps[len(ps)-1] = ps[len(ps)-1], ps[0]
			}
			emit(Case{Op: "render", Args: []string{regsArg(ps), trees[ca%2], "_"}})
		}
	}

	// ----- block parsers triggered by bytes >= 0x80 (a dispatch table indexed by a byte has 256 entries) next to a trigger-less
	// probe and to the paragraph parser (priority 1000, trigger-less): priorities below, between and above -----
	hiDocs := [][]lineTok{{{0, 0xe2}, {0, 'a'}, {0, 0x80}, {0, 0xff}}, {{2, 0xc3}, {0, 0xe2}, {0, '*'}}}
	for _, trig := range []string{"e2", "80", "ff", "c3e2", "2ae2"} {
		for _, pr := range []int{50, 950, 1050, 1500} {
			for _, fr := range []int{40, 960, 1040, 1600} {
				for ci, car := range carriers {
					ps := []regTok{{'B', 1, pr, car, trig, "11"}, {'B', 2, fr, carriers[(ci+1)%3], "n", "11"}}
					for di, d := range hiDocs {
						emit(Case{Op: "block", Args: []string{regsArg(withBuiltins('B', ps)), linesArg(d), scriptArg(map[int]string{109: "2222", 1: []string{"0000", "1010"}[di], 2: "0000"})}})
						emit(Case{Op: "block", Args: []string{regsArg(withBuiltins('B', ps)), linesArg(d), scriptArg(map[int]string{109: "2222", 2: "0101"})}})
					}
				}
			}
		}
	}
	// ----- option slices shared between two renderers (oracle only): `WithNodeRenderers(shared...)` handed to two renderers, each
	// with one more registration of its own; a constructor that adopts the caller's slice lets them overwrite each other -----
	for v := 0; v < 12; v++ {
		emit(Case{Op: "sharedslice", Args: []string{strconv.Itoa(v)}})
	}

	// ----- ONE object registered twice with different priorities, a competitor in between (the registration that
	// counts is the one with the smaller priority value, whatever the registration order and the carriers) -----
	for ord := 0; ord < 6; ord++ {
		for ca := 0; ca < 27; ca++ {
			cs := []byte{carriers[ca%3], carriers[ca/3%3], carriers[ca/9%3]}
			arr := func(lo, mid, hi regTok) []regTok {
				lo.carrier, mid.carrier, hi.carrier = cs[0], cs[1], cs[2]
				three := []regTok{lo, mid, hi}
				p := permutations(3)[ord]
				return []regTok{three[p[0]], three[p[1]], three[p[2]]}
			}
			// block parsers: object 1 at 150 and 350, competitor 2 at 250, same trigger; everybody declines / the object accepts
			for _, sc := range []map[int]string{{109: "2222"}, {109: "2222", 1: "0101"}, {109: "2222", 2: "0101"}} {
				emit(Case{Op: "block", Args: []string{regsArg(withBuiltins('B', arr(regTok{'B', 1, 150, 'c', "2a", "11"}, regTok{'B', 2, 250, 'c', "2a", "11"}, regTok{'B', 1, 350, 'c', "2a", "11"}))), linesArg(blockDocs[0]), scriptArg(sc)}})
			}
			emit(Case{Op: "inline", Args: []string{regsArg(withBuiltins('I', arr(regTok{'I', 1, 150, 'c', "2a", "-"}, regTok{'I', 2, 250, 'c', "2a", "-"}, regTok{'I', 1, 350, 'c', "2a", "-"}))), "0", hx([]byte(inlineDocs[0])), scriptArg(map[int]string{2: "0101010101"})}})
			for _, cat := range []byte{'P', 'A'} {
				toks := append(append(builtinToks('B'), builtinToks('P')...), arr(regTok{cat, 1, 50, 'c', "-", "-"}, regTok{cat, 2, 150, 'c', "-", "-"}, regTok{cat, 1, 250, 'c', "-", "-"})...)
				emit(Case{Op: "block", Args: []string{regsArg(toks), linesArg(tdoc), scriptArg(map[int]string{109: "222"})}})
			}
			// renderers: object 1 registers kinds E and X at 500 and at 100, competitor 2 at 300
			ks := fmt.Sprintf("%d.%d", kE, kX)
			emit(Case{Op: "render", Args: []string{regsArg(append([]regTok{html}, arr(regTok{'R', 1, 100, 'c', ks, "-"}, regTok{'R', 2, 300, 'c', ks, "-"}, regTok{'R', 1, 500, 'c', ks, "-"})...)), trees[0], "_"}})
		}
	}

	// ----- real pipeline (oracle only): probes of every category against the shipped defaults -----
	realTrigs := []string{"2a", "2d", "5b", "3c", "2a2d5b3c", "n"}
	for d := range realDocs {
		for _, pr := range []int{50, 250, 550, 950, 1050} {
			for ci, c := range carriers {
				probes := []regTok{
					{'B', 1, pr, c, realTrigs[(d+ci)%6], "11"}, {'B', 2, pr + 1, carriers[(ci+1)%3], "2a2d5b3c", "11"},
					{'I', 3, pr + 2, c, "2a5b3c", "-"}, {'I', 4, pr - 3, carriers[(ci+2)%3], "2a5b3c20", "-"},
					{'P', 5, pr, c, "-", "-"}, {'P', 6, pr - 7, carriers[(ci+1)%3], "-", "-"},
					{'A', 7, pr, c, "-", "-"}, {'A', 8, pr - 1, carriers[(ci+2)%3], "-", "-"},
				}
				rprobes := []regTok{
					{'R', 9, pr - 1, c, fmt.Sprintf("%d.%d", kE, kY), "-"}, {'R', 10, pr + 1, carriers[(ci+1)%3], fmt.Sprintf("%d.%d.%d", kF, kE, kX), "-"},
				}
				emit(Case{Op: "real", Args: []string{regsArg(probes), strconv.Itoa(d), "_"}})
				emit(Case{Op: "real", Args: []string{regsArg(append(probes, rprobes...)), strconv.Itoa(d), "_"}})
				emit(Case{Op: "real", Args: []string{regsArg(append(probes, rprobes...)), strconv.Itoa(d), "1=0101010101,3=00100100100100100100,4=010000010000010"}})
				emit(Case{Op: "real", Args: []string{regsArg(probes), strconv.Itoa(d), "2=1010,4=00100100100100100100"}})
			}
		}
	}

	// ----- random -----
	rprio := func(base []int) int {
		p := base[rng.Intn(len(base))] + rng.Intn(40) - 20
		if rng.Chance(5) {
			p = -p
		}
		if rng.Chance(6) { // extreme values: a comparator written as a subtraction overflows here
			p = []int{math.MinInt, math.MinInt + 1 + rng.Intn(40), math.MaxInt - rng.Intn(40), math.MaxInt, math.MinInt32, math.MaxInt32}[rng.Intn(6)]
		}
		return p
	}
	shuffle := func(ts []regTok) {
		for i := len(ts) - 1; i > 0; i-- {
			j := rng.Intn(i + 1)
			ts[i], ts[j] = ts[j], ts[i]
		}
	}
	distinctPrio := func(ts []regTok, cat byte, p int) bool {
		for _, t := range ts {
			if t.cat == cat && t.prio == p {
				return false
			}
		}
		return true
	}
	// a tie is harmless when the two registrations never meet in one list: no common trigger byte / kind and
	// not both trigger-less. (sort.Slice is unstable, so the order of a harmful tie is unspecified.)
	shares := func(a, b regTok) bool {
		if a.cat != b.cat || a.prio != b.prio {
			return false
		}
		switch a.cat {
		case 'B', 'I':
			if a.cat == 'B' && a.free() && b.free() {
				return true
			}
			for _, x := range a.triggers() {
				if containsByte(b.triggers(), int(x)) {
					return true
				}
			}
			return false
		case 'R':
			for _, x := range a.kinds() {
				for _, y := range b.kinds() {
					if x == y {
						return true
					}
				}
			}
			return false
		}
		return true
	}
	// with some probability move t onto the priority of another registration it can harmlessly tie with
	maybeTie := func(ts []regTok, t *regTok) {
		if !rng.Chance(35) || len(ts) == 0 {
			return
		}
		o := ts[rng.Intn(len(ts))]
		if o.cat != t.cat {
			return
		}
		old := t.prio
		t.prio = o.prio
		for _, u := range ts {
			if shares(u, *t) {
				t.prio = old
				return
			}
		}
	}
	bytesAlpha := []byte("*-[<a#")
	for n := 0; n < nrand; n++ {
		// block
		{
			toks := append(builtinToks('B'), builtinToks('P')...)
			np := 1 + rng.Intn(4)
			for i := 0; i < np; i++ {
				cat := []byte{'B', 'B', 'B', 'P', 'A'}[rng.Intn(5)]
				t := regTok{cat: cat, id: i + 1, carrier: carriers[rng.Intn(3)], trig: "-", flags: "-"}
				for {
					t.prio = rprio([]int{50, 150, 250, 350, 450, 650, 950, 1050})
					if distinctPrio(toks, cat, t.prio) {
						break
					}
				}
				if cat == 'B' {
					switch rng.Intn(6) {
					case 0:
						t.trig = "n"
					case 1:
						t.trig = "-" // non-nil empty trigger list: entered nowhere
					default:
						var tr []byte
						for k := 0; k < 1+rng.Intn(3); k++ {
							tr = append(tr, bytesAlpha[rng.Intn(len(bytesAlpha))]) // may repeat a byte
						}
						t.trig = hx(tr)
					}
					t.flags = b2s(rng.Chance(70)) + b2s(rng.Chance(70))
				}
				if rng.Chance(2) {
					t.flags += "x"
				}
				maybeTie(toks, &t)
				toks = append(toks, t)
			}
			shuffle(toks)
			nl := 1 + rng.Intn(5)
			var ls []lineTok
			for i := 0; i < nl; i++ {
				w := []int{0, 0, 1, 3, 4, 5}[rng.Intn(6)]
				ls = append(ls, lineTok{w, int(bytesAlpha[rng.Intn(len(bytesAlpha))])})
			}
			if rng.Chance(10) {
				ls = append(ls, lineTok{1 + rng.Intn(5), -1})
			}
			sc := map[int]string{}
			for _, t := range toks {
				if t.cat == 'A' {
					continue
				}
				var d []byte
				for i := 0; i < 6; i++ {
					switch {
					case t.cat == 'B' && t.id == 109:
						d = append(d, "0222"[rng.Intn(4)])
					case t.cat == 'B' && t.id >= 100:
						d = append(d, "00000012"[rng.Intn(8)])
					case t.cat == 'B':
						d = append(d, "000122"[rng.Intn(6)])
					default:
						d = append(d, "0001"[rng.Intn(4)])
					}
				}
				sc[t.id] = string(d)
			}
			emit(Case{Op: "block", Args: []string{regsArg(toks), linesArg(ls), scriptArg(sc)}})
		}
		// inline
		{
			toks := builtinToks('I')
			np := 1 + rng.Intn(4)
			for i := 0; i < np; i++ {
				t := regTok{cat: 'I', id: i + 1, carrier: carriers[rng.Intn(3)], flags: "-"}
				for {
					t.prio = rprio([]int{50, 150, 250, 350, 450, 550})
					if distinctPrio(toks, 'I', t.prio) {
						break
					}
				}
				var tr []byte
				for k := 0; k < rng.Intn(4); k++ {
					tr = append(tr, "*[<_ \\!"[rng.Intn(7)])
				}
				t.trig = hx(tr)
				if rng.Chance(2) {
					t.flags += "x"
				}
				maybeTie(toks, &t)
				toks = append(toks, t)
			}
			shuffle(toks)
			var line []byte
			ll := 1 + rng.Intn(9)
			for i := 0; i < ll; i++ {
				line = append(line, "*[<_ \\!ab\t"[rng.Intn(10)])
			}
			if line[0] == ' ' || line[0] == '\t' {
				line[0] = 'a'
			}
			if l := line[len(line)-1]; l == ' ' || l == '\t' {
				line[len(line)-1] = 'b'
			}
			sc := map[int]string{}
			for _, t := range toks {
				var d []byte
				for i := 0; i < ll; i++ {
					d = append(d, "0000001123"[rng.Intn(10)])
				}
				sc[t.id] = string(d)
			}
			emit(Case{Op: "inline", Args: []string{regsArg(toks), b2s(rng.Bool()), hx(line), scriptArg(sc)}})
		}
		// render
		{
			var toks []regTok
			if rng.Chance(70) {
				toks = append(toks, html)
			}
			kpool := []int{0, kP, kE, kF, kX, kY, kZ, int(lateKind), maxHTML + 7}
			np := rng.Intn(5)
			for i := 0; i < np; i++ {
				t := regTok{cat: 'R', id: i + 1, carrier: carriers[rng.Intn(3)], flags: "-"}
				for {
					t.prio = rprio([]int{50, 500, 950, 1050})
					if distinctPrio(toks, 'R', t.prio) {
						break
					}
				}
				var ks []string
				for k := 0; k < rng.Intn(4); k++ {
					ks = append(ks, strconv.Itoa(kpool[rng.Intn(len(kpool))]))
				}
				t.trig = "-"
				if len(ks) > 0 {
					t.trig = strings.Join(ks, ".")
				}
				if rng.Chance(2) {
					t.flags += "x"
				}
				maybeTie(toks, &t)
				toks = append(toks, t)
			}
			shuffle(toks)
			var pre []int
			var recTree func(depth int)
			recTree = func(depth int) {
				pre = append(pre, kpool[rng.Intn(len(kpool))])
				for depth < 3 && rng.Chance(55) && len(pre) < 24 {
					recTree(depth + 1)
				}
				pre = append(pre, -1)
			}
			recTree(0)
			sc := map[int]string{}
			if rng.Chance(40) {
				for _, t := range toks {
					sc[t.id] = string([]byte{"0001"[rng.Intn(4)], "00002"[rng.Intn(5)]})
					if rng.Chance(10) {
						sc[t.id] = "20"
					}
				}
			}
			emit(Case{Op: "render", Args: []string{regsArg(toks), treeArg(pre...), scriptArg(sc)}})
		}
		// real pipeline with random probes; ties allowed (the oracle accepts any order among equal priorities)
		if n%4 == 0 {
			var probes []regTok
			np := 1 + rng.Intn(4)
			for i := 0; i < np; i++ {
				cat := []byte{'B', 'I', 'I', 'P', 'A', 'R', 'R'}[rng.Intn(7)]
				t := regTok{cat: cat, id: i + 1, carrier: carriers[rng.Intn(3)], trig: "-", flags: "11"}
				t.prio = []int{50, 100, 150, 200, 250, 300, 350, 450, 500, 550, 700, 950, 999, 1000, 1001}[rng.Intn(15)]
				switch cat {
				case 'B':
					t.trig = realTrigs[rng.Intn(len(realTrigs))]
				case 'I':
					t.trig = []string{"2a", "5b", "3c", "2a5b3c20", "5f"}[rng.Intn(5)]
				case 'R':
					t.trig = []string{strconv.Itoa(kE), strconv.Itoa(kF), fmt.Sprintf("%d.%d", kX, kY), fmt.Sprintf("%d.%d", kP, kY)}[rng.Intn(4)]
				}
				probes = append(probes, t)
			}
			sc := map[int]string{}
			for _, t := range probes {
				if t.cat == 'B' || t.cat == 'I' {
					var d []byte
					for i := 0; i < 24; i++ {
						d = append(d, "00001"[rng.Intn(5)])
					}
					sc[t.id] = string(d)
				}
			}
			emit(Case{Op: "real", Args: []string{regsArg(probes), strconv.Itoa(rng.Intn(len(realDocs))), scriptArg(sc)}})
		}
	}
}


// ---------- op `sharedslice` (oracle only): two renderers built from ONE slice of prioritized node renderers that has spare
// capacity, each with one more registration of its own, in both construction orders and with a use of the first before the
// second is built. Each renderer must behave exactly like a renderer built from private copies of the same registrations. ----------

type ssRenderer struct {
	id    int
	kinds []ast.NodeKind
	log   *[]string
}

func (r *ssRenderer) RegisterFuncs(reg renderer.NodeRendererFuncRegisterer) {
	for _, k := range r.kinds {
		k := k
		reg.Register(k, func(w util.BufWriter, source []byte, n ast.Node, entering bool) (ast.WalkStatus, error) {
			if entering {
				*r.log = append(*r.log, fmt.Sprintf("%d.%d", r.id, int(k)))
			}
			return ast.WalkContinue, nil
		})
	}
}

func implSharedSlice(c Case) ImplResult {
	res := ImplResult{NoModel: true}
	v, _ := strconv.Atoi(c.Args[0])
	kP, kE, kT := ast.KindParagraph, ast.KindEmphasis, ast.KindText
	mk := func(log *[]string, id int, ks ...ast.NodeKind) *ssRenderer { return &ssRenderer{id: id, kinds: ks, log: log} }
	tree := func() ast.Node {
		d := ast.NewDocument()
		p := ast.NewParagraph()
		e := ast.NewEmphasis(1)
		e.AppendChild(e, ast.NewText())
		p.AppendChild(p, e)
		d.AppendChild(d, p)
		return d
	}
	run := func(r renderer.Renderer) string {
		var b bytes.Buffer
		_ = r.Render(&b, nil, tree())
		return ""
	}
	// the shared base: renderer 1 for Paragraph+Text at 500, renderer 2 for Emphasis at 600, in a slice with spare capacity
	build := func(shared bool, useFirstEarly bool, order int) (la, lb []string) {
		var logA, logB []string
		baseA := []util.PrioritizedValue{util.Prioritized(mk(&logA, 1, kP, kT, ast.KindDocument), 500), util.Prioritized(mk(&logA, 2, kE), 600)}
		baseB := []util.PrioritizedValue{util.Prioritized(mk(&logB, 1, kP, kT, ast.KindDocument), 500), util.Prioritized(mk(&logB, 2, kE), 600)}
		sa, sb := baseA, baseB
		if shared {
			// one backing array with spare capacity; the two loggers differ only in where they write, so share the VALUES of A
			// and let B's log be fed by the same objects through a tee
			s := make([]util.PrioritizedValue, 0, 8)
			s = append(s, baseA...)
			sa, sb = s, s
			logB = nil
		}
		extraA := util.Prioritized(mk(&logA, 3, kE), 100+v) // overrides Emphasis in A only
		extraBlog := &logB
		if shared {
			extraBlog = &logA
		}
		extraB := util.Prioritized(mk(extraBlog, 4, kP), 100+v) // overrides Paragraph in B only
		var ra, rb renderer.Renderer
		mkA := func() { ra = renderer.NewRenderer(renderer.WithNodeRenderers(sa...), renderer.WithNodeRenderers(extraA)) }
		mkB := func() { rb = renderer.NewRenderer(renderer.WithNodeRenderers(sb...), renderer.WithNodeRenderers(extraB)) }
		if order == 0 {
			mkA()
			if useFirstEarly {
				run(ra)
				logA = nil
			}
			mkB()
		} else {
			mkB()
			if useFirstEarly {
				run(rb)
				logA, logB = nil, nil
			}
			mkA()
		}
		run(ra)
		la = append([]string{}, logA...)
		logA, logB = nil, nil
		run(rb)
		if shared {
			lb = append([]string{}, logA...)
		} else {
			lb = append([]string{}, logB...)
		}
		return
	}
	early, order := v%2 == 1, (v/2)%2
	wa, wb := build(false, early, order)
	ga, gb := build(true, early, order)
	if strings.Join(ga, ",") != strings.Join(wa, ",") || strings.Join(gb, ",") != strings.Join(wb, ",") {
		res.Fails = append(res.Fails, OracleFail{"C20", "renderer-registrations-shared-slice", fmt.Sprintf("two renderers built from one option slice with spare capacity (variant %d): first renders with functions %v (private copies: %v), second %v (private copies: %v) - a registration of one renderer took effect in the other", v, ga, wa, gb, wb)})
	}
	res.Out = strings.Join(ga, ",") + "|" + strings.Join(gb, ",")
	res.Key = res.Out
	return res
}
