package main

// Component `rosource` (C12 search): the source is placed in memory that is mapped read-only, with the
// slice's capacity extending further into read-only pages, so that a direct store into the source AND an
// in-place append onto any sub-slice of it fault immediately (turned into a recoverable panic by
// debug.SetPanicOnFault). The util transformers get read-only inputs the same way.

import (
	"bytes"
	"fmt"
	"runtime/debug"
	"syscall"

	"github.com/yuin/goldmark/renderer/html"
	"github.com/yuin/goldmark/text"
	"github.com/yuin/goldmark/util"
)

func init() {
	register(&Component{
		Name: "rosource",
		Rule: "documents (corpus, mutants, generated, adversarial) under lattice configurations, converted from a PROT_READ mapping whose spare capacity is also read-only; util transformers on read-only inputs; non-trivial = non-blank input; distinct = distinct (configuration, input)",
		Gen:  genRO,
		Impl: implRO,
		Scope: func(tier string) string {
			if tier == "thorough" {
				return "all corpus documents x 8 corner configurations + 100k documents x lattice + 100k util inputs"
			}
			return "all corpus documents x 8 corner configurations + 8k documents x lattice + 10k util inputs"
		},
	})
}

func genRO(tier string, rng *RNG, emit func(Case)) {
	n, m := 8000, 10000
	if tier == "thorough" {
		n, m = 100000, 100000
	}
	emit(Case{Op: "selftest", Args: []string{"store", hx([]byte("abc"))}})
	emit(Case{Op: "selftest", Args: []string{"append", hx([]byte("abc"))}})
	for _, d := range CorpusDocs() {
		for _, c := range CornerCfgs() {
			emit(Case{Op: "doc", Args: []string{c.Name(), hx(d)}})
		}
	}
	lattice := FullLattice()
	DocStream(rng, len(CorpusDocs())+n, func(kind string, d []byte) {
		if kind == "corpus" {
			return
		}
		emit(Case{Op: "doc", Args: []string{lattice[rng.Intn(len(lattice))].Name(), hx(d)}})
	})
	ops := []string{"EscapeHTML", "UnescapePunctuations", "ResolveNumericReferences", "ResolveEntityNames", "URLEscape0", "URLEscape1", "DoFullUnicodeCaseFolding", "ToLinkReference", "ReplaceSpaces", "TrimLeftSpace", "TrimRightSpace", "IsDangerousURL", "ToValidRune"}
	alpha := syms("&", "#", ";", "a", "A", "\\", "*", " ", "\t", "%", "4", "g", "<", "\"", "\xc3\x84", "\xc3", "\x80", "amp", "x", "1", "\xe1\xba\x9e")
	for i := 0; i < m; i++ {
		emit(Case{Op: "util", Args: []string{ops[i%len(ops)], hx(randString(rng, alpha, 30))}})
	}
}

const pageSize = 4096

// roCopy returns a slice with the given content whose whole backing array (content and spare capacity) is read-only.
func roCopy(b []byte) (s []byte, release func(), err error) {
	total := ((len(b)+pageSize-1)/pageSize + 1) * pageSize
	mem, err := syscall.Mmap(-1, 0, total, syscall.PROT_READ|syscall.PROT_WRITE, syscall.MAP_ANON|syscall.MAP_PRIVATE)
	if err != nil {
		return nil, nil, err
	}
	copy(mem, b)
	if err := syscall.Mprotect(mem, syscall.PROT_READ); err != nil {
		syscall.Munmap(mem)
		return nil, nil, err
	}
	return mem[:len(b):total], func() { syscall.Munmap(mem) }, nil
}

// roSelfTest: the harness itself must see a fault for a direct store and for an in-place append
func roSelfTest(kind string, src []byte) (faulted bool) {
	old := debug.SetPanicOnFault(true)
	defer debug.SetPanicOnFault(old)
	defer func() {
		if recover() != nil {
			faulted = true
		}
	}()
	if kind == "store" {
		src[0] = 'x'
	} else {
		_ = append(src[:1], 'y')
	}
	return false
}

func implRO(cs Case) (res ImplResult) {
	res = ImplResult{Out: "ok", NoModel: true}
	if cs.Op == "selftest" {
		src, release, err := roCopy(unhx(cs.Args[1]))
		if err != nil {
			return ImplResult{Out: "mmap-failed", NoModel: true, Fails: []OracleFail{{"C12", "harness-mmap-failed", err.Error()}}}
		}
		defer release()
		if !roSelfTest(cs.Args[0], src) {
			res.Fails = append(res.Fails, OracleFail{"C12", "harness-read-only-not-enforced", "a " + cs.Args[0] + " into the read-only mapping did not fault"})
		}
		res.Key = "selftest" + cs.Args[0]
		return res
	}
	orig := unhx(cs.Args[1])
	src, release, err := roCopy(orig)
	if err != nil {
		return ImplResult{Out: "mmap-failed", NoModel: true, Fails: []OracleFail{{"C12", "harness-mmap-failed", err.Error()}}}
	}
	defer release()
	old := debug.SetPanicOnFault(true)
	defer debug.SetPanicOnFault(old)
	defer func() {
		if r := recover(); r != nil {
			msg := fmt.Sprint(r)
			if e, ok := r.(interface{ Addr() uintptr }); ok {
				msg += fmt.Sprintf(" (fault address %#x)", e.Addr())
			}
			res.Fails = append(res.Fails, OracleFail{"C12", "write-to-read-only-input", fmt.Sprintf("%s %s on %q: %s", cs.Op, cs.Args[0], orig, msg)})
		}
	}()
	if nonBlank(orig) {
		res.Key = cs.Args[0] + "|" + cs.Args[1]
	}
	switch cs.Op {
	case "doc":
		c := ParseCfg(cs.Args[0])
		md := c.Build()
		var b bytes.Buffer
		_ = md.Convert(src, &b)
		doc := md.Parser().Parse(text.NewReader(src))
		var b2 bytes.Buffer
		_ = md.Renderer().Render(&b2, src, doc)
		_ = doc.Text(src)
	case "util":
		switch cs.Args[0] {
		case "EscapeHTML":
			util.EscapeHTML(src)
		case "UnescapePunctuations":
			util.UnescapePunctuations(src)
		case "ResolveNumericReferences":
			util.ResolveNumericReferences(src)
		case "ResolveEntityNames":
			util.ResolveEntityNames(src)
		case "URLEscape0":
			util.URLEscape(src, false)
		case "URLEscape1":
			util.URLEscape(src, true)
		case "DoFullUnicodeCaseFolding":
			util.DoFullUnicodeCaseFolding(src)
		case "ToLinkReference":
			util.ToLinkReference(src)
		case "ReplaceSpaces":
			util.ReplaceSpaces(src, '-')
		case "TrimLeftSpace":
			util.TrimLeftSpace(src)
		case "TrimRightSpace":
			util.TrimRightSpace(src)
		case "IsDangerousURL":
			html.IsDangerousURL(src)
		case "ToValidRune":
			if len(src) > 0 {
				util.ToRune(src, len(src)-1)
			}
		}
	}
	if !bytes.Equal(src, orig) {
		res.Fails = append(res.Fails, OracleFail{"C12", "input-changed", fmt.Sprintf("%s %s: input bytes differ afterwards", cs.Op, cs.Args[0])})
	}
	return res
}
