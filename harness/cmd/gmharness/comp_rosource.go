package main

// Component `rosource` (C12 search): the source is placed in memory that is mapped read-only, with the
// slice's capacity extending further into read-only pages, so that a direct store into the source AND an
// in-place append onto any sub-slice of it fault immediately (turned into a recoverable panic by
// debug.SetPanicOnFault). The util transformers get read-only inputs the same way.

// Besides the general document stream the generator is DIRECTED at the code around byte-slice write sites (the
// inventory of GM.Gen.SliceWrites): heading-id generation with duplicate / already normalised / explicitly given
// ids, attribute blocks with quoted values and escapes and class/id merges, typographer / linkify / footnote /
// table / definition-list constructs, sources without a final newline, and every util transformer on inputs that
// need no change, one change at the very end, at the very start, or in the middle. Every document is converted
// TWICE from the same read-only buffer and the two outputs are compared (a store that did not fault would show
// as a different second output).

import (
	"bytes"
	"fmt"
	"runtime/debug"
	"strings"
	"syscall"
	"unsafe"

	"github.com/yuin/goldmark/ast"
	"github.com/yuin/goldmark/parser"
	"github.com/yuin/goldmark/renderer/html"
	"github.com/yuin/goldmark/text"
	"github.com/yuin/goldmark/util"
)

func init() {
	register(&Component{
		Name: "rosource",
		Rule: "documents (corpus, mutants, generated, adversarial, and families directed at the byte-slice write sites: heading ids, attribute blocks, extension constructs, no final newline) under lattice configurations, converted twice from a PROT_READ mapping whose spare capacity is also read-only, outputs compared; util / text / id-generator functions on read-only inputs (no change needed, change at the end / start / middle); non-trivial = non-blank input; distinct = distinct (configuration, input)",
		Gen:  genRO,
		Impl: implRO,
		Scope: func(tier string) string {
			if tier == "thorough" {
				return "all corpus documents x 8 corner configurations + directed families (enumerated heading-id pairs, attribute item pairs; 40k random directed) + 100k documents x lattice + enumerated util grid (op x base x trigger x position) + 100k random util inputs"
			}
			return "all corpus documents x 8 corner configurations + directed families (enumerated heading-id pairs, attribute item pairs; 4k random directed) + 8k documents x lattice + enumerated util grid (op x base x trigger x position) + 10k random util inputs"
		},
	})
}

var roUtilOps = []string{"EscapeHTML", "UnescapePunctuations", "ResolveNumericReferences", "ResolveEntityNames", "URLEscape0", "URLEscape1",
	"DoFullUnicodeCaseFolding", "ToLinkReference", "ReplaceSpaces", "TrimLeftSpace", "TrimRightSpace", "IsDangerousURL", "ToValidRune",
	"VisualizeSpaces", "TrimLeft", "TrimRight", "IsBlank", "FindClosure", "FindURLIndex", "FindEmailIndex",
	"IDsGenerate", "SegmentValue", "SegmentsValue", "CowOps", "ReaderValue"}

// configurations that switch on the code around the write sites
var roDirectedCfgs = []string{"/i//0", "/ia//0", "/a//0", "tskldfy/ia//0", "tskldFy/ia/x/0", "tskldfy1e/ia/uh/0", "tskl///0", "y///0", "l///0", "f/i//0", "d/ia//0", "t/a//1"}

// roHeadingDocs: every ordered pair of heading texts (already normalised ids, ids that need lower-casing or
// dashes, the fallback ids, texts that collide with a generated "-1" suffix) in every spelling: two ATX headings,
// ATX + setext, an explicit {#id} colliding with a later / earlier generated id, three duplicates.
func roHeadingDocs(f func(cfgs []string, doc string)) {
	heads := []string{"abc", "a-b", "abc-1", "heading", "id", "x", "A b", "a_b", "é", "a1"}
	idCfgs := []string{"/i//0", "/ia//0", "tskldfy/ia//0"}
	for _, h1 := range heads {
		for _, h2 := range heads {
			for _, d := range []string{
				"# " + h1 + "\n\n# " + h2 + "\n",
				"# " + h1 + "\n# " + h2 + "\n# " + h1 + "\n",
				h1 + "\n===\n\n" + h2 + "\n---\n",
				"## " + h1 + " ##\n\n" + h2 + "\n===\n",
				"# " + h1 + " {#" + h2 + "}\n\n# " + h2 + "\n\n# " + h2 + "\n",
				"# " + h2 + "\n\n# " + h1 + " {#" + h2 + "}\n\n## " + h2 + "\n",
				"# " + h1 + " {id=" + h2 + "}\n\n# " + h2 + "\n",
				"> # " + h1 + "\n\n- # " + h2 + "\n\n# " + h1 + "\n",
			} {
				f(idCfgs, d)
				f(idCfgs, strings.TrimSuffix(d, "\n")) // no final newline
			}
		}
	}
}

// roAttrDocs: every ordered pair of attribute items (class / id shorthands, class= and id= in several value kinds,
// quoted values with every escape the string parser knows, an escape at the very end / start of the value)
func roAttrDocs(f func(cfgs []string, doc string)) {
	items := []string{".c1", ".c2", "#i1", "#i2", "class=c3", "class=\"q r\"", "id=i3", "id=\"i 4\"", "title=v", "title=\"plain\"", "title=\"a\\\"b\"",
		"title=\"a\\\\b\"", "title=\"\\\\\"", "title=\"ab\\\\\"", "title=\"\\tab\"", "title=\"x\\ny\\rz\\f\\b\\/\"", "title=\"a\\qb\"", "title=\"\"", "data-x=1.5e3", "lang=[1,\"x\\\"y\"]", "k={a=\"b\\\\c\"}"}
	attrCfgs := []string{"/a//0", "/ia//0", "tskldfy/ia//0"}
	for _, a := range items {
		f(attrCfgs, "# h {"+a+"}\n")
		f(attrCfgs, "# h {"+a+"}")
		f(attrCfgs, "h {"+a+"}\n===")
		for _, b := range items {
			f(attrCfgs, "# h {"+a+" "+b+"}\n\npara\n")
			f(attrCfgs, "## h ## {"+a+","+b+"}")
			f(attrCfgs, "h {"+b+" "+a+" "+b+"}\n---\n\n# h {"+a+"}")
		}
	}
}

var roExtPieces = []string{
	"\"q\" 'r' -- --- ... << >> it's 'tis \"a 'b' c\"\n", "a--b---c...d\n", "'\\''\n", "\"\n", "www.example.com/a_b(c) http://a.b/?q=1&r=2. https://x.y/z, mail@example.com.\n", "www.a.b/c&amp;d&lt; ftp://f.g/h\n",
	"text[^1] and[^n] again[^1]\n\n[^1]: note *one*\n    more\n\n[^n]: n\n", "Some text[^Note] and[^MiXed-1].\n\n[^Note]: The note.\n[^MiXed-1]: x\n", "run `go build\r\n./...` first\r\n", "a `b\rc` d\r\n\r\n``x\r\n y``\r\n",
	"[Foo Bar]: /U \"T\"\n\n[FOO\tbar] [foo  BAR]\n", "Term\n: Def *x*\n\nTERM2\n:   D2\n", "# Title ÄÖ {#MyId .Cls}\n", "<HTTP://EXAMPLE.COM/A> WWW.Example.COM x@Y.Z\n", "[^a]: x\n[^a]: dup\n\ny[^a][^a]\n", "| a | b |\n|---|:-:|\n| `x\\|y` | \\| |\n| c |\n", "|h|\n|-|\n|\\|\n",
	"| a \\| b | c |\n|:--|--:|\n| *d* | e\\|f\\|g |\n", "term\n: def *a*\n: def2\n\nterm2\n\n: loose\n\n  para\n", "t1\nt2\n:   d\n", "- [ ] todo\n- [x] done\n", "~~del~~ ~one~ ~~a~b~~\n",
	"[Foo Bar]: /u \"T\"\n\n[foo\nbar] [FOO BAR][] [x][Foo  Bar]\n", "[ÄÖ]: /u\n\n[äö] [ẞ]\n\n[ẞ]: /s\n", "[a]: </u v> 't\\'x'\n[a]\n", "[l](/u%20a\\) \"t&amp;\\\"\") ![i](<a b> 'c')\n",
	"&amp; &#65; &#x41; &nosuch; &#0; &copy;x \\& \\* \\\\\n", "<a href=\"x\">raw</a> <!-- c --> <?p?> <b\nc>\n", "```go a&amp;b\ncode\n```\n", "~~~ \\*x\nc\n~~~", "    indented\n\tcode\n", "\tcode after tab\n",
	"> q\n> \tr\n>\n> - l\n>   m\n", "- a\n\n\tb\n- \tc\n", "1. x\n   ```\n   y\n   ```\n", "a  \nb\\\nc\n", "日本語\n本文 a\n語\n", "*a **b** _c_* `d` ``e`f``\n", "<http://a.b/ä> <m@x.yz>\n",
	"# Heading *em* `c` [l](/u) {#custom .cls title=\"t\\\"q\"}\n", "Setext *x*\n===\n", "# dup\n# dup\n## dup\n", "#\n# \n", "\xef\xbb\xbf# bom\n",
}

// roAttrBlock: 1-3 attribute items (own generator: the component must not depend on other components' helpers)
func roAttrBlock(rng *RNG) string {
	items := []string{".c1", ".c2", "#i1", "#abc", "class=c3", "class=\"q r\"", "id=abc", "title=\"a\\\"b\"", "title=\"a\\\\\"", "title=\"\\tx\"", "title=plain", "k=[1,\"x\\\\y\"]", "data-x=1.5"}
	var sb strings.Builder
	sb.WriteString("{")
	for i, n := 0, 1+rng.Intn(3); i < n; i++ {
		if i > 0 {
			sb.WriteString(rng.Pick([]string{" ", ",", "  "}))
		}
		sb.WriteString(rng.Pick(items))
	}
	sb.WriteString("}")
	return sb.String()
}

// genRODirected: random assemblies of the extension / escape pieces, half of them without a final newline
func genRODirected(rng *RNG, n int, emit func(Case)) {
	for i := 0; i < n; i++ {
		var sb strings.Builder
		for k, m := 0, 1+rng.Intn(4); k < m; k++ {
			switch rng.Intn(6) {
			case 0:
				sb.WriteString(genBlock(rng, 1))
			case 1:
				sb.WriteString("# " + rng.Pick([]string{"abc", "a-b", "x", "Abc", "heading"}) + rng.Pick([]string{"", "", " {#abc}", " " + roAttrBlock(rng)}) + "\n")
			default:
				sb.WriteString(rng.Pick(roExtPieces))
			}
			sb.WriteString(rng.Pick([]string{"\n", "", "\n\n"}))
		}
		d := sb.String()
		if rng.Bool() {
			d = strings.TrimRight(d, "\n")
		}
		emit(Case{Op: "doc", Args: []string{rng.Pick(roDirectedCfgs), hx([]byte(d))}})
	}
}

// roUtilGrid: op x base x trigger x position. The bases need no change under any transformer; a trigger is a
// shortest input on which some transformer has to produce different bytes.
func roUtilGrid(emit func(Case)) {
	bases := []string{"", "abc", "hello-world", "a1b2c3", "path/to/x", "ABC", "Hello World"}
	triggers := []string{"", "<", "&", "\"", "\\*", "\\", "&#65;", "&#x41;", "&#0;", "&amp;", "&nosuch;", " ", "  ", "\t", "\n", "%", "%zz", "%20", "é", "A", "Z", "Ä", "\xe1\xba\x9e", "\xc3", "[", "]", "`", "http://a.b", "a@b.c", "javascript:", "-", "_", "1"}
	for _, op := range roUtilOps {
		for _, b := range bases {
			for _, t := range triggers {
				seen := map[string]bool{}
				for _, in := range []string{b + t, t + b, b + t + b, t + b + t} {
					if !seen[in] {
						seen[in] = true
						emit(Case{Op: "util", Args: []string{op, hx([]byte(in))}})
					}
				}
			}
		}
	}
}

func genRO(tier string, rng *RNG, emit func(Case)) {
	n, m, nd := 8000, 10000, 4000
	if tier == "thorough" {
		n, m, nd = 100000, 100000, 40000
	}
	emit(Case{Op: "selftest", Args: []string{"store", hx([]byte("abc"))}})
	emit(Case{Op: "selftest", Args: []string{"append", hx([]byte("abc"))}})
	for _, d := range CorpusDocs() {
		for _, c := range CornerCfgs() {
			emit(Case{Op: "doc", Args: []string{c.Name(), hx(d)}})
		}
	}
	// directed families (enumerated)
	each := func(cfgs []string, doc string) {
		for _, c := range cfgs {
			emit(Case{Op: "doc", Args: []string{c, hx([]byte(doc))}})
		}
	}
	roHeadingDocs(each)
	roAttrDocs(each)
	for _, p := range roExtPieces {
		each(roDirectedCfgs, p)
		each(roDirectedCfgs, strings.TrimRight(p, "\n"))
	}
	roUtilGrid(emit)
	genRODirected(rng, nd, emit)
	lattice := FullLattice()
	DocStream(rng, len(CorpusDocs())+n, func(kind string, d []byte) {
		if kind == "corpus" {
			return
		}
		if rng.Chance(25) { // sources without a final newline
			d = bytes.TrimRight(d, "\n")
		}
		emit(Case{Op: "doc", Args: []string{lattice[rng.Intn(len(lattice))].Name(), hx(d)}})
	})
	alpha := syms("&", "#", ";", "a", "A", "\\", "*", " ", "\t", "%", "4", "g", "<", "\"", "\xc3\x84", "\xc3", "\x80", "amp", "x", "1", "\xe1\xba\x9e", "-", "Z", "\n")
	for i := 0; i < m; i++ {
		emit(Case{Op: "util", Args: []string{roUtilOps[i%len(roUtilOps)], hx(randString(rng, alpha, 30))}})
	}
}

const pageSize = 4096

// roCopy returns a slice with the given content whose whole backing array (content and spare capacity) is read-only.
func roCopy(b []byte) (s []byte, release func(), err error) {
	total := ((len(b)+pageSize-1)/pageSize + 1) * pageSize
	mem, err := syscall.Mmap(-1, 0, total, syscall.PROT_READ|syscall.PROT_WRITE, syscall.MAP_ANON|syscall.MAP_PRIVATE)
	if err != nil {
		return nil, nil, err
	}
	copy(mem, b)
	if err := syscall.Mprotect(mem, syscall.PROT_READ); err != nil {
		syscall.Munmap(mem)
		return nil, nil, err
	}
	return mem[:len(b):total], func() { syscall.Munmap(mem) }, nil
}

// roSelfTest: the harness itself must see a fault for a direct store and for an in-place append
func roSelfTest(kind string, src []byte) (faulted bool) {
	old := debug.SetPanicOnFault(true)
	defer debug.SetPanicOnFault(old)
	defer func() {
		if recover() != nil {
			faulted = true
		}
	}()
	if kind == "store" {
		src[0] = 'x'
	} else {
		_ = append(src[:1], 'y')
	}
	return false
}

func implRO(cs Case) (res ImplResult) {
	res = ImplResult{Out: "ok", NoModel: true}
	if cs.Op == "selftest" {
		src, release, err := roCopy(unhx(cs.Args[1]))
		if err != nil {
			return ImplResult{Out: "mmap-failed", NoModel: true, Fails: []OracleFail{{"C12", "harness-mmap-failed", err.Error()}}}
		}
		defer release()
		if !roSelfTest(cs.Args[0], src) {
			res.Fails = append(res.Fails, OracleFail{"C12", "harness-read-only-not-enforced", "a " + cs.Args[0] + " into the read-only mapping did not fault"})
		}
		res.Key = "selftest" + cs.Args[0]
		return res
	}
	orig := unhx(cs.Args[1])
	src, release, err := roCopy(orig)
	if err != nil {
		return ImplResult{Out: "mmap-failed", NoModel: true, Fails: []OracleFail{{"C12", "harness-mmap-failed", err.Error()}}}
	}
	defer release()
	old := debug.SetPanicOnFault(true)
	defer debug.SetPanicOnFault(old)
	defer func() {
		if r := recover(); r != nil {
			msg := fmt.Sprint(r)
			e, isFault := r.(interface{ Addr() uintptr })
			if !isFault {
				// an ordinary panic (index out of range, ...) is not a store into the input: C01's subject, not C12's
				res.Out = "panic-not-a-fault"
				res.Stats = append(res.Stats, "non-fault panic (not a C12 matter)")
				return
			}
			lo, hi := uintptr(0), uintptr(0)
			if cap(src) > 0 {
				lo = uintptr(unsafe.Pointer(unsafe.SliceData(src)))
				hi = lo + uintptr(cap(src))
			}
			where := "outside the input mapping"
			if e.Addr() >= lo && e.Addr() < hi {
				where = fmt.Sprintf("input offset %d (len %d)", e.Addr()-lo, len(src))
			}
			msg += fmt.Sprintf(" (fault address %#x, %s)", e.Addr(), where)
			res.Fails = append(res.Fails, OracleFail{"C12", "write-to-read-only-input", fmt.Sprintf("%s %s on %q: %s", cs.Op, cs.Args[0], orig, msg)})
		}
	}()
	if nonBlank(orig) {
		res.Key = cs.Args[0] + "|" + cs.Args[1]
	}
	switch cs.Op {
	case "doc":
		c := ParseCfg(cs.Args[0])
		md := c.Build()
		var b, bb bytes.Buffer
		_ = md.Convert(src, &b)
		_ = md.Convert(src, &bb) // the same read-only buffer once more: a store that did not fault changes this output
		if !bytes.Equal(b.Bytes(), bb.Bytes()) {
			res.Fails = append(res.Fails, OracleFail{"C12", "second-conversion-differs", fmt.Sprintf("doc %s on %q: converting the same buffer again gave %q, first %q", cs.Args[0], orig, roClip(bb.Bytes()), roClip(b.Bytes()))})
		}
		doc := md.Parser().Parse(text.NewReader(src))
		var b2 bytes.Buffer
		_ = md.Renderer().Render(&b2, src, doc)
		if !bytes.Equal(b.Bytes(), b2.Bytes()) {
			res.Fails = append(res.Fails, OracleFail{"C12", "second-conversion-differs", fmt.Sprintf("doc %s on %q: Parse+Render of the same buffer gave %q, Convert %q", cs.Args[0], orig, roClip(b2.Bytes()), roClip(b.Bytes()))})
		}
		_ = doc.Text(src)
		_ = ast.Walk(doc, func(n ast.Node, entering bool) (ast.WalkStatus, error) {
			if entering {
				if n.Type() == ast.TypeBlock && n.Lines() != nil {
					_ = n.Lines().Value(src)
				}
				switch x := n.(type) {
				case *ast.AutoLink:
					_ = x.URL(src)
					_ = x.Label(src)
				case *ast.Text:
					_ = x.Value(src)
				}
			}
			return ast.WalkContinue, nil
		})
	case "util":
		switch cs.Args[0] {
		case "EscapeHTML":
			util.EscapeHTML(src)
		case "UnescapePunctuations":
			util.UnescapePunctuations(src)
		case "ResolveNumericReferences":
			util.ResolveNumericReferences(src)
		case "ResolveEntityNames":
			util.ResolveEntityNames(src)
		case "URLEscape0":
			util.URLEscape(src, false)
		case "URLEscape1":
			util.URLEscape(src, true)
		case "DoFullUnicodeCaseFolding":
			util.DoFullUnicodeCaseFolding(src)
		case "ToLinkReference":
			util.ToLinkReference(src)
		case "ReplaceSpaces":
			util.ReplaceSpaces(src, '-')
		case "TrimLeftSpace":
			util.TrimLeftSpace(src)
		case "TrimRightSpace":
			util.TrimRightSpace(src)
		case "IsDangerousURL":
			html.IsDangerousURL(src)
		case "ToValidRune":
			if len(src) > 0 {
				util.ToRune(src, len(src)-1)
			}
		case "VisualizeSpaces":
			util.VisualizeSpaces(src)
		case "TrimLeft":
			util.TrimLeft(src, []byte(" a<"))
		case "TrimRight":
			util.TrimRight(src, []byte(" c;A"))
		case "IsBlank":
			util.IsBlank(src)
		case "FindClosure":
			util.FindClosure(src, '[', ']', true, true)
		case "FindURLIndex":
			util.FindURLIndex(src)
		case "FindEmailIndex":
			util.FindEmailIndex(src)
		case "IDsGenerate":
			// the heading-id generator on the same (read-only) text several times: later calls must make the id
			// unique without touching the text; then with a pre-registered id
			ids := parser.NewContext().IDs()
			for k := 0; k < 3; k++ {
				ids.Generate(src, ast.KindHeading)
			}
			ids.Put(src)
			ids.Generate(src, ast.KindHeading)
			ids.Generate(src[:len(src)/2], ast.KindParagraph)
		case "SegmentValue":
			for _, pad := range []int{0, 3} {
				for _, fn := range []bool{false, true} {
					for _, stop := range []int{len(src), len(src) / 2} {
						sg := text.NewSegmentPadding(0, stop, pad)
						sg.ForceNewline = fn
						sg.Value(src)
					}
				}
			}
		case "SegmentsValue":
			sgs := text.NewSegments()
			sgs.Append(text.NewSegment(0, len(src)/2))
			sgs.Append(text.NewSegmentPadding(len(src)/2, len(src), 2))
			sgs.Value(src)
			one := text.NewSegments()
			one.Append(text.NewSegment(0, len(src)))
			one.Value(src)
		case "CowOps":
			for _, seq := range []string{"a", "w", "A", "W", "aw", "wa", "Aa", "aAwW", "S", "s", "sS"} {
				cob := util.NewCopyOnWriteBuffer(src[:len(src)/2])
				for _, o := range seq {
					switch o {
					case 'a':
						cob.Append([]byte("xy"))
					case 'w':
						cob.Write([]byte("xy"))
					case 'A':
						cob.AppendByte('z')
					case 'W':
						_ = cob.WriteByte('z')
					case 's':
						cob.AppendString("st")
					case 'S':
						cob.WriteString("st")
					}
				}
				_ = cob.Bytes()
			}
		case "ReaderValue":
			r := text.NewReader(src)
			for {
				line, seg := r.PeekLine()
				if line == nil {
					break
				}
				_ = r.Value(seg)
				_ = r.Value(seg.WithStart(seg.Start + (seg.Stop-seg.Start)/2))
				r.AdvanceLine()
			}
			sgs := text.NewSegments()
			sgs.Append(text.NewSegmentPadding(0, len(src)/2, 1))
			sgs.Append(text.NewSegmentPadding(len(src)/2, len(src), 3))
			br := text.NewBlockReader(src, sgs)
			for {
				line, seg := br.PeekLine()
				if line == nil {
					break
				}
				_ = br.Value(seg)
				br.AdvanceLine()
			}
			_ = br.Value(text.NewSegment(0, len(src)))
		}
	}
	if !bytes.Equal(src, orig) {
		res.Fails = append(res.Fails, OracleFail{"C12", "input-changed", fmt.Sprintf("%s %s: input bytes differ afterwards", cs.Op, cs.Args[0])})
	}
	return res
}

func roClip(b []byte) string {
	if len(b) > 240 {
		return string(b[:240]) + "..."
	}
	return string(b)
}
