package main

// Component `concurrent` (C07 search): N goroutines use ONE Markdown / Parser / Renderer at the same time,
// including its very first use; every output is compared with what a fresh instance returns sequentially.
// ./check runs this component from a binary built with -race, so any unsynchronised conflicting access on
// an executed path is reported by the race detector (its reports are collected by ./check from stderr).

import (
	"bytes"
	"fmt"
	"runtime"
	"strconv"
	"sync"

	"github.com/yuin/goldmark/text"
)

func init() {
	register(&Component{
		Name: "concurrent",
		Rule: "each case: one fresh shared instance of a configuration, 8 goroutines released together (first use contended), each converting the same 12 documents in a different rotation with injected yields, by Convert or by Parse+Render on the shared Parser/Renderer; non-trivial = at least two goroutines and a document with >= 2 node kinds; distinct = distinct (configuration, mode, document set)",
		Gen:  genConcurrent,
		Impl: implConcurrent,
		Scope: func(tier string) string {
			if tier == "thorough" {
				return "every configuration of the full lattice (480) x {Convert, Parse+Render} x 3 document sets"
			}
			return "8 corner configurations + 40 random lattice configurations x {Convert, Parse+Render}"
		},
	})
}

func genConcurrent(tier string, rng *RNG, emit func(Case)) {
	var cfgs []Cfg
	if tier == "thorough" {
		for r := 0; r < 3; r++ {
			cfgs = append(cfgs, FullLattice()...)
		}
	} else {
		cfgs = append(cfgs, CornerCfgs()...)
		for i := 0; i < 40; i++ {
			cfgs = append(cfgs, randCfg(rng))
		}
	}
	for _, c := range cfgs {
		for _, mode := range []string{"convert", "parse-render"} {
			emit(Case{Op: mode, Args: []string{c.Name(), strconv.FormatUint(rng.Next(), 10)}})
		}
	}
}

func implConcurrent(cs Case) ImplResult {
	c := ParseCfg(cs.Args[0])
	seed, _ := strconv.ParseUint(cs.Args[1], 10, 64)
	rng := NewRNG(seed)
	var docs [][]byte
	corpus := CorpusDocs()
	for len(docs) < 12 {
		switch rng.Intn(3) {
		case 0:
			if len(corpus) > 0 {
				docs = append(docs, corpus[rng.Intn(len(corpus))])
				continue
			}
			fallthrough
		case 1:
			docs = append(docs, GenDoc(rng))
		default:
			docs = append(docs, GenAdversarial(rng))
		}
	}
	// sequential reference on a separate fresh instance
	ref := c.Build()
	want := make([][]byte, len(docs))
	for i, d := range docs {
		var b bytes.Buffer
		if err := ref.Convert(d, &b); err != nil {
			return ImplResult{Out: "error", NoModel: true, Fails: []OracleFail{{"C01", "convert-error", err.Error()}}}
		}
		want[i] = b.Bytes()
	}
	shared := c.Build()
	// half of the cases: the shared instance (and the process) first sees a few conversions into FAILING writers - error
	// paths that put pooled / cached state back in a bad shape only show under the concurrency that follows
	if seed%2 == 0 {
		for k := 0; k < 6; k++ {
			_ = shared.Convert(docs[k%len(docs)], failingWriter{after: int(seed>>8)%3 * 2048})
			_ = ref.Convert(docs[k%len(docs)], failingWriter{after: 0})
		}
	}
	const N = 8
	var wg sync.WaitGroup
	start := make(chan struct{})
	var mu sync.Mutex
	var fails []OracleFail
	for g := 0; g < N; g++ {
		wg.Add(1)
		go func(g int) {
			defer wg.Done()
			defer func() {
				if r := recover(); r != nil {
					mu.Lock()
					fails = append(fails, OracleFail{"C07", "panic-under-concurrency", fmt.Sprint(r)})
					mu.Unlock()
				}
			}()
			<-start
			for k := range docs {
				i := (k + g) % len(docs)
				if (g+k)%3 == 0 {
					runtime.Gosched()
				}
				var b bytes.Buffer
				var err error
				if cs.Op == "convert" {
					err = shared.Convert(docs[i], &b)
				} else {
					doc := shared.Parser().Parse(text.NewReader(docs[i]))
					runtime.Gosched()
					err = shared.Renderer().Render(&b, docs[i], doc)
				}
				if err != nil || !bytes.Equal(b.Bytes(), want[i]) {
					mu.Lock()
					fails = append(fails, OracleFail{"C07", "concurrent-output-differs", fmt.Sprintf("goroutine %d doc %q: got %q want %q err=%v", g, docs[i], b.Bytes(), want[i], err)})
					mu.Unlock()
				}
			}
		}(g)
	}
	close(start)
	wg.Wait()
	return ImplResult{Out: "ok", NoModel: true, Fails: fails, Key: cs.Args[0] + "|" + cs.Op + "|" + cs.Args[1]}
}

// failingWriter accepts `after` bytes in total per call and then fails (a short write with an error)
type failingWriter struct{ after int }

func (w failingWriter) Write(p []byte) (int, error) {
	if len(p) <= w.after {
		return len(p), nil
	}
	return w.after, errWriterFailed
}

var errWriterFailed = fmt.Errorf("verif: destination failed")
