package main

// Component `convert`: WHOLE documents through `goldmark.New(goldmark.WithRendererOptions(…)).Convert` (default
// CommonMark configuration: DefaultBlockParsers + DefaultInlineParsers + LinkReferenceParagraphTransformer, html
// renderer) for the eight renderer option sets {safe, unsafe} x {XHTML off/on} x {HardWraps off/on}, against the Lean
// composition GM.Convert.convertCore / convertUnguarded (lean/GM/Model/Convert.lean: block phase WITH the link
// reference transformer of lean/GM/Model/LinkRef.lean, inline phase of every non-raw block, renderer). The HTML is
// compared byte for byte: line `g<0|1> r0 … r7`, r_i = hex of the output for option set i = 4·unsafe + 2·xhtml +
// hardWraps, or `=j` when identical to r_j.
//
// g-flag: `convertCore` checks at run time the hypotheses its termination theorem needs (GM.LinkRef.guardedTransform,
// WF0 of the lines handed to the inline phase). The harness PREDICTS from the real run whether the transformer's check
// fires (a probe paragraph transformer in a second goldmark instance sees the paragraph's lines exactly when the real
// transformer does): well-formed lines (WFSegs; virtual padding allowed). Any
// firing that is not predicted (or a predicted one that does not happen) is a disagreement.
//
// Oracles on the real code, independent of the model:
//   C01 convert-panic / convert-error / convert-slow        every case
//   C09 definitions-not-position-independent                op `move`: Convert(defs ++ D) == Convert(D ++ "\n\n" ++ defs), defs at the end with / without the final newline(s)
//   C05 transform-lines-not-wellformed                      the probe: lines of a paragraph at transform time
//   C02 closer-on-padded-line-differs                       the regression inputs `cvPrescribed` (repair 9e57c92): prescribed HTML / the spaces-only twin
//   C02 link-*-differs                                      the regression inputs of the repaired link-scanner defects in `cvPrescribed` (package linkfix)
//   *   read-only-paragraph-transformer-changes-output      the probe instance (a transformer that only reads) renders differently

import (
	"bytes"
	"fmt"
	"sort"
	"strings"
	"sync"
	"time"
	"unicode/utf8"

	"github.com/yuin/goldmark"
	"github.com/yuin/goldmark/ast"
	"github.com/yuin/goldmark/parser"
	"github.com/yuin/goldmark/renderer"
	"github.com/yuin/goldmark/renderer/html"
	"github.com/yuin/goldmark/text"
	"github.com/yuin/goldmark/util"
)

func init() {
	register(&Component{
		Name:       "convert",
		Rule:       "whole documents: all strings up to a length bound over Markdown-significant alphabets (complete), link reference definitions in many spellings inside fixed contexts (complete) and composed at random, all spec.json examples (with and without final newline), the repo corpora, the document generators of blocks/inlines/docs.go; each under 8 renderer option sets; non-trivial = output with >= 2 distinct tags or a resolved reference; distinct = distinct tag multisets",
		Gen:        genConvert,
		Impl:       implConvert,
		Exhaustive: true,
		Scope: func(tier string) string {
			if tier == "thorough" {
				return "ALL strings of length <= 5 over the 16-symbol document alphabet, <= 7 / <= 6 / <= 5 over 4 link-reference sub-alphabets, <= 5/6 inside 7 definition contexts, <= 4 over the block alphabet, <= 5/6 over block sub-alphabets; spec.json x2, corpus; 150k generated/mutated/adversarial documents; 200k composed definition documents; 200k random strings; 40k C09 move pairs"
			}
			return "ALL strings of length <= 4 over the 16-symbol document alphabet, <= 6 / <= 5 over 4 link-reference sub-alphabets, <= 4/5 inside 7 definition contexts, <= 3 over the block alphabet, <= 4 over block sub-alphabets; spec.json x2, corpus; 6k generated/mutated/adversarial documents; 15k composed definition documents; 15k random strings; 3k C09 move pairs"
		},
	})
}

// ---------- the real instances ----------

var cvOnce sync.Once
var cvMD [8]goldmark.Markdown
var cvProbeMD goldmark.Markdown

var cvProbeKey = parser.NewContextKey()

type cvProbeState struct {
	guard   bool // the model's guardedTransform is expected to answer `pre`
	notWF   bool
	calls   int
	padded  int
	details string
	blank   string // tnopanic: a blank line among the lines at transform time (hypothesis of GM.Props.ConvertNP: never)
}

type cvProbe struct{}

// what GM.LinkRef.guardedTransform checks, on the lines the real transformer is about to see
func (cvProbe) Transform(node *ast.Paragraph, reader text.Reader, pc parser.Context) {
	st, _ := pc.Get(cvProbeKey).(*cvProbeState)
	if st == nil {
		return
	}
	st.calls++
	src := reader.Source()
	lines := node.Lines()
	if lines.Len() == 0 {
		return
	}
	wf, pad0 := true, true
	prev := 0
	var view []byte
	for i := 0; i < lines.Len(); i++ {
		s := lines.At(i)
		if !(prev <= s.Start && s.Start < s.Stop && s.Stop <= len(src) && s.Padding >= 0 && !s.ForceNewline) {
			wf = false
			st.details = fmt.Sprintf("line %d = [%d,%d) padding %d force %v after stop %d, source length %d", i, s.Start, s.Stop, s.Padding, s.ForceNewline, prev, len(src))
			break
		}
		prev = s.Stop
		if s.Padding != 0 {
			pad0 = false
		}
		if st.blank == "" && util.IsBlank(src[s.Start:s.Stop]) {
			st.blank = fmt.Sprintf("line %d = [%d,%d) of %d lines is blank", i, s.Start, s.Stop, lines.Len())
		}
		view = append(view, bytes.Repeat([]byte{' '}, s.Padding)...)
		view = append(view, src[s.Start:s.Stop]...)
	}
	if !wf {
		st.notWF = true
		st.guard = true
		return
	}
	if !pad0 {
		st.padded++ // allowed: the termination theorem covers padded lines (GM.Proof.LinkRefPad)
	}
}

func cvInit() {
	cvOnce.Do(func() {
		for i := 0; i < 8; i++ {
			var opts []renderer.Option
			if i&4 != 0 {
				opts = append(opts, html.WithUnsafe())
			}
			if i&2 != 0 {
				opts = append(opts, html.WithXHTML())
			}
			if i&1 != 0 {
				opts = append(opts, html.WithHardWraps())
			}
			cvMD[i] = goldmark.New(goldmark.WithRendererOptions(opts...))
		}
		// priority 50 < 100: the probe runs right before the link reference transformer
		cvProbeMD = goldmark.New(goldmark.WithParserOptions(parser.WithParagraphTransformers(util.Prioritized(cvProbe{}, 50))))
	})
}

func cvConvert(i int, src []byte) (out []byte, fail *OracleFail) {
	defer func() {
		if r := recover(); r != nil {
			fail = &OracleFail{"C01", "convert-panic", fmt.Sprintf("option set %d: %v", i, r)}
			out = []byte("panic")
		}
	}()
	buf := make([]byte, len(src)) // no spare capacity
	copy(buf, src)
	var w bytes.Buffer
	t0 := time.Now()
	if err := cvMD[i].Convert(buf, &w); err != nil {
		return w.Bytes(), &OracleFail{"C01", "convert-error", fmt.Sprintf("option set %d: %v", i, err)}
	}
	if d := time.Since(t0); d > 5*time.Second {
		return w.Bytes(), &OracleFail{"C01", "convert-slow", fmt.Sprintf("option set %d: %v for %d bytes", i, d, len(src))}
	}
	return w.Bytes(), nil
}

func cvUC(src []byte) string {
	ucs := map[rune]int{}
	for i := 0; i < len(src); i++ {
		if src[i] >= 0x80 {
			r, _ := utf8.DecodeRune(src[i:])
			ucs[r] = 0
			ucs[utf8.RuneError] = 0
		}
	}
	var ucparts []string
	for r := range ucs {
		f := 0
		if util.IsPunctRune(r) {
			f |= 1
		}
		if util.IsSpaceRune(r) {
			f |= 2
		}
		ucparts = append(ucparts, fmt.Sprintf("%d:%d", r, f))
	}
	sort.Strings(ucparts)
	if len(ucparts) == 0 {
		return "-"
	}
	return strings.Join(ucparts, ",")
}

var cvTagRe = func(b []byte) map[string]int {
	m := map[string]int{}
	for i := 0; i < len(b); i++ {
		if b[i] == '<' && i+1 < len(b) && b[i+1] != '/' {
			j := i + 1
			for j < len(b) && (b[j] >= 'a' && b[j] <= 'z' || b[j] >= '0' && b[j] <= '9') {
				j++
			}
			if j > i+1 {
				m[string(b[i+1:j])]++
			}
		}
	}
	return m
}

func implConvert(c Case) ImplResult {
	cvInit()
	switch c.Op {
	case "html":
		return implConvertHTML(c)
	case "move":
		return implConvertMove(c)
	}
	return ImplResult{Out: "bad-op", NoModel: true}
}

func implConvertHTML(c Case) ImplResult {
	src := unhx(c.Args[0])
	var res ImplResult
	outs := make([][]byte, 8)
	for i := 0; i < 8; i++ {
		o, f := cvConvert(i, src)
		outs[i] = o
		if f != nil && len(res.Fails) < 2 {
			res.Fails = append(res.Fails, *f)
		}
	}
	// the probe run
	st := &cvProbeState{}
	func() {
		defer func() { _ = recover() }()
		pc := parser.NewContext()
		pc.Set(cvProbeKey, st)
		buf := make([]byte, len(src))
		copy(buf, src)
		var w bytes.Buffer
		_ = cvProbeMD.Convert(buf, &w, parser.WithContext(pc))
		if !bytes.Equal(w.Bytes(), outs[0]) {
			res.Fails = append(res.Fails, OracleFail{"*", "read-only-paragraph-transformer-changes-output", fmt.Sprintf("%q", src)})
		}
	}()
	if st.notWF {
		res.Fails = append(res.Fails, OracleFail{"C05", "transform-lines-not-wellformed", st.details})
	}
	if f := cvCheckPrescribed(src, outs[6]); f != nil {
		res.Fails = append(res.Fails, *f)
	}
	if st.blank != "" {
		// hypothesis of GM.Props.ConvertNP (the guard `linesOKB` of `guardE`): no line handed to the transformer is blank
		res.Fails = append(res.Fails, OracleFail{"C01", "assumption:transform-line-blank", st.blank})
	}
	parts := make([]string, 8)
	for i := 0; i < 8; i++ {
		parts[i] = hx(outs[i])
		for j := 0; j < i; j++ {
			if bytes.Equal(outs[i], outs[j]) {
				parts[i] = fmt.Sprintf("=%d", j)
				break
			}
		}
	}
	g := "g0 "
	if st.guard {
		g = "g1 "
		res.Stats = append(res.Stats, "guard-fired-as-predicted(lines-not-wellformed)")
	}
	if st.padded > 0 {
		res.Stats = append(res.Stats, "docs-with-padded-paragraph-lines-at-transform")
	}
	if st.calls > 0 {
		res.Stats = append(res.Stats, "docs-with-transformParagraph-call")
	}
	res.Out = g + strings.Join(parts, " ")
	res.ModelLine = "convert html " + c.Args[0] + " " + cvUC(src)
	tags := cvTagRe(outs[4])
	if bytes.Contains(outs[4], []byte("<a href")) && bytes.Contains(src, []byte("]:")) {
		res.Stats = append(res.Stats, "docs-with-link-and-definition-syntax")
	}
	if len(tags) >= 2 {
		var ks []string
		for k, v := range tags {
			ks = append(ks, fmt.Sprintf("%s=%d", k, v))
		}
		sort.Strings(ks)
		res.Key = strings.Join(ks, ",")
	}
	return res
}

// ---------- C09, second half: a block of definitions moved from the top to the bottom ----------

func cvEndsOpen(d []byte) bool {
	doc := goldmark.DefaultParser().Parse(text.NewReader(d))
	var n ast.Node = doc
	for n.LastChild() != nil && n.LastChild().Type() == ast.TypeBlock {
		n = n.LastChild()
	}
	switch n.Kind() {
	case ast.KindCodeBlock, ast.KindFencedCodeBlock, ast.KindHTMLBlock:
		return true
	}
	return false
}

func implConvertMove(c Case) ImplResult {
	defs, d := unhx(c.Args[0]), unhx(c.Args[1])
	res := ImplResult{NoModel: true, Out: "oracle-only"}
	if bytes.ContainsAny(d, "\r") || cvEndsOpen(d) {
		res.Stats = append(res.Stats, "move-skipped-side-condition")
		return res
	}
	top := append(append([]byte{}, defs...), d...)
	// at the end of the document the block of definitions is closed by the end of input: with and without a final newline
	tdefs := bytes.TrimRight(defs, "\n")
	bottoms := [][]byte{
		append(append(append([]byte{}, d...), []byte("\n\n")...), defs...),
		append(append(append(append([]byte{}, d...), []byte("\n\n")...), tdefs...), '\n'),
		append(append(append([]byte{}, d...), []byte("\n\n")...), tdefs...),
	}
	for _, i := range []int{0, 7} {
		a, f1 := cvConvert(i, top)
		if f1 != nil {
			res.Fails = append(res.Fails, *f1)
		}
		bad := false
		for _, bottom := range bottoms {
			b, f2 := cvConvert(i, bottom)
			if f2 != nil {
				res.Fails = append(res.Fails, *f2)
			}
			if !bytes.Equal(a, b) {
				res.Fails = append(res.Fails, OracleFail{"C09", "definitions-not-position-independent", fmt.Sprintf("defs %q doc %q: top %q bottom %q", defs, d, a, b)})
				bad = true
				break
			}
		}
		if bad {
			break
		}
		if i == 0 && bytes.Contains(a, []byte("href=\"/zq")) {
			res.Stats = append(res.Stats, "move-with-resolved-reference")
			res.Key = "resolved"
		}
	}
	res.Stats = append(res.Stats, "move-checked")
	return res
}

// ---------- generators ----------

// > - * # ` [ ] : ( ) " < \ space newline a
var cvAlphabet = syms("[", "]", ":", "a", "/", " ", "\n", "\"", "(", ")", "<", ">", "\\", "*", "-", "#")

type cvSub struct {
	al     [][]byte
	qn, tn int
}

var cvSubAlphabets = []cvSub{
	{syms("[", "]", ":", "a", "\n", " "), 6, 7},
	{syms("[", "]", ":", "a", "\n", "\"", "/"), 5, 7},
	{syms("[", "]", ":", "a", "\n", ">", "-", " "), 5, 6},
	{syms("[", "]", ":", "A", "a", "\n", "=", "\t"), 5, 6},
}

type cvCtx struct {
	pre, suf string
	al       [][]byte
	qn, tn   int
}

var cvContexts = []cvCtx{
	{"[a]: /u", "\n\n[a]\n", syms(" ", "\n", "\"", "'", "(", ")", "b", "["), 5, 6},        // titles and what follows
	{"[a]:", "\n\n[a]\n", syms(" ", "\n", "<", ">", "/", "b", "\\", "("), 5, 6},            // destinations
	{"[", "]: /u\n\n[a] [A] [a b]\n", syms("a", "A", "]", "\\", "[", "\n", " ", "b"), 5, 6}, // labels
	{"[a]: /u \"t\"", "\n[a]\n", syms(" ", "\n", "b", "[", "]", ":", "\""), 4, 5},            // behind the title
	{"> [a]: /u", "\n\n[a]\n", syms("\n", ">", " ", "\"", "b", "-", "\t"), 4, 5},            // inside a quote
	{"- [a]: /u", "\n\n[a]\n", syms("\n", "-", " ", "\"", "b", "=", "\t"), 4, 5},            // inside a list
	{"[a]: /u\n", "\n[a]\n", syms("=", "-", "\n", "[", "]", ":", "b", " "), 4, 5},           // setext bars and further definitions
}

var cvLabels = []string{"a", "A", "a b", "a  b", "A\nB", "ẞ", "ss", "SS", "é", "É", "\\]", "a\\b", "*a*", "`a`", "[x", "!", " a ", "1", "zq1"}
var cvDests = []string{"/u", "<u v>", "<>", "/u(1)", "/u\\(", "<u\\>v>", "u&amp;v", "/é", "#f", "", "\\", "<a", "javascript:x", "/u\"x"}
var cvTitles = []string{"", " \"t\"", " 't'", " (t)", "\n\"t\"", "\n  't'", " \"multi\nline\"", " \"t\\\"u\"", " 'a\n\nb'", " \"t\" x", "\n\"t\" x", "\"t\"", " \"", " (a(b))", " \"&amp;\"", " \"\"", "\n"}
var cvSeps = []string{"\n", "\n\n", "\n   ", "\n    ", "\n> ", "\n- ", "\n===\n", "\n---\n", "\nfoo\n", " ", "\n\t", ""}
var cvUses = []string{"[a]", "[A]", "[a b]", "[a\nb]", "[ẞ]", "[SS]", "[é]", "[a][]", "[x][a]", "![a]", "[a] [a]", "[*a*]", "[a]: x", "[zq1]", "[1]", "[!]", "[a](/i)", "[a][b]", "*[a]*", "`[a]`"}
var cvPrefixes = []string{"", "", "", "> ", "- ", "1. ", "   ", "> > ", "- > ", "\t", "-\t", ">\t"}

func cvGenDef(rng *RNG) string {
	pre := ""
	if rng.Chance(20) {
		pre = strings.Repeat(" ", rng.Intn(5))
	}
	colon := ":"
	if rng.Chance(5) {
		colon = " :"
	}
	sp := []string{" ", "", "\n", "  ", "\n ", "\t"}[rng.Intn(6)]
	return pre + "[" + rng.Pick(cvLabels) + "]" + colon + sp + rng.Pick(cvDests) + rng.Pick(cvTitles)
}

func cvGenRefDoc(rng *RNG) []byte {
	var sb strings.Builder
	n := 1 + rng.Intn(4)
	for i := 0; i < n; i++ {
		switch rng.Intn(10) {
		case 0, 1, 2, 3, 4:
			// a run of definitions, maybe inside a container
			p := rng.Pick(cvPrefixes)
			k := 1 + rng.Intn(3)
			var blk strings.Builder
			for j := 0; j < k; j++ {
				blk.WriteString(cvGenDef(rng))
				blk.WriteString(rng.Pick(cvSeps))
			}
			if p == "" {
				sb.WriteString(blk.String())
			} else {
				lines := strings.Split(blk.String(), "\n")
				for li, l := range lines {
					if li > 0 && rng.Chance(15) {
						sb.WriteString(l) // lazy continuation
					} else if li > 0 && (p == "- " || p == "1. " || p == "-\t") {
						sb.WriteString(strings.Repeat(" ", len(p)) + l)
					} else {
						sb.WriteString(p + l)
					}
					sb.WriteString("\n")
				}
			}
		case 5, 6:
			sb.WriteString(rng.Pick(cvUses) + " " + rng.Pick(cvUses))
		case 7:
			sb.WriteString(genInline(rng))
		case 8:
			sb.WriteString(genBlock(rng, 1))
		default:
			sb.WriteString("foo\n" + cvGenDef(rng))
		}
		sb.WriteString(rng.Pick(cvSeps))
	}
	sb.WriteString("\n" + rng.Pick(cvUses) + " " + rng.Pick(cvUses))
	if rng.Chance(70) {
		sb.WriteString("\n")
	}
	return []byte(sb.String())
}

var cvFixed = []string{
	// R1-R5 of notes/status_convert.md: deviations from CommonMark found with this package, repaired in /repo 0539a73; kept as regression inputs
	"[foo]: /url\n\"title\" [b]: /x\n\n[foo] [b]\n", "[foo]:\n/url\n\"title\" [b]: /x\n\n[foo] [b]\n", "[foo]:\n/url\n\"t\" [b]: /x\n[c]: /y\n\n[foo] [b] [c]\n",
	"[foo]:\n/url\n\"t\" [b]: /x\n[c]: /y\n[d]: /z\nrest\n\n[foo] [b] [c] [d]\n", "[a]:\n/u\n't' [b]:\n/v\n't' [c]: /w\n\n[a] [b] [c]\n",
	"[foo]: /url \"title\"\n\n[foo]\n", "[foo]: /url\n\"title\" ok\n\n[foo]\n", "[foo]:\n/url\n\"title\" ok\n\n[foo]\n", "[foo]: /url \"title\" ok\n\n[foo]\n",
	"[foo]: /url\n'the\n\ntitle'\n\n[foo]\n", "[foo]:\n\n[foo]\n", "[foo]: <>\n\n[foo]\n", "[foo]: <bar>(baz)\n\n[foo]\n", "[foo]: /url\\bar\\*baz \"foo\\\"bar\\baz\"\n\n[foo]\n",
	"[foo]\n\n[foo]: url\n", "[foo]\n\n[foo]: first\n[foo]: second\n", "[FOO]: /url\n\n[Foo]\n", "[ΑΓΩ]: /φου\n\n[αγω]\n", "[foo]: /url\n", "[\nfoo\n]: /url\nbar\n",
	"[foo]: /url \"title\" ok\n", "[foo]: /url\n\"title\" ok\n", "    [foo]: /url \"title\"\n\n[foo]\n", "```\n[foo]: /url\n```\n\n[foo]\n", "Foo\n[bar]: /baz\n\n[bar]\n",
	"# [Foo]\n[foo]: /url\n> bar\n", "[foo]: /url\nbar\n===\n[foo]\n", "[foo]: /url\n===\n[foo]\n", "[foo]: /foo-url \"foo\"\n[bar]: /bar-url\n  \"bar\"\n[baz]: /baz-url\n\n[foo],\n[bar],\n[baz]\n",
	"[foo]\n\n> [foo]: /url\n", "[foo]: /url", "[foo]: /url \"t", "[foo]: /url \"t\nu", "[foo]: /url \"t\"x", "[foo]: /url\n[foo]", "[a]: b\n[c]: d\ne\n\n[a][c]", "- [a]: /u\n- [a]\n",
	"> [a]: /u\n> ===\n\n[a]\n", "- [a]: /u\n  ===\n\n[a]\n", "[a]: /u\n---\n[a]\n", "> [a]:\n>\t/u\n\n[a]\n", "- [a]:\n\t/u \"t\"\n\n[a]\n", ">\t[a]: /u\n>\t\t\"t\"\n\n[a]\n",
	"[a]: /u\n[b]: /v\n===\n\n[a] [b]\n", "[a]: /u 'x'\n===\n\n[a]\n", "* [a]: /u\n\n  b\n* [a]\n", "1. [a]: /u\n2. b\n\n[a]\n", "[a]: /u\n\n[a]: /v\n\n[a]\n", "[ a ]: /u\n[A]: /v\n\n[a]\n",
	"[" + strings.Repeat("a", 1000) + "]: /u\n\n[" + strings.Repeat("a", 1000) + "]\n", "[" + strings.Repeat("a", 999) + "]: /u\n\n[" + strings.Repeat("a", 999) + "]\n",
	"[a]: /u\r\n\"t\"\r\n\r\n[a]\r\n", "[a]: /u\x00\n\n[a]\n", "[\xff]: /u\n\n[\xff]\n", "[a]: \xff\n\n[a]\n", "[a]:/u\n\n[a]", "[a] : /u\n\n[a]", "[a]\n: /u\n\n[a]", "\\[a]: /u\n\n[a]", "[a\\]: /u\n\n[a\\]",
	"[a]: /u \"t\" \n\n[a]", "[a]: /u \"t\"\t\n\n[a]", "[a]: /u\t\"t\"\n\n[a]", "[a]: /u\n \"t\"\n\n[a]", "[a]: /u\n\n \"t\"\n\n[a]", "[a]: /u \"\"\n\n[a]", "[a]: /u ''\n\n[a]", "[a]: /u ()\n\n[a]", "[a]: <> \"\"\n\n[a]",
	"[a]: /u \"a\nb\nc\"\n\n[a]", "[a]: /u (a\nb)\n\n[a]", "[a]: /u (a(b)\n\n[a]", "[a]: /u \"a\"b\"\n\n[a]", "[a]: /u \"a\\\"b\"\n\n[a]", "[a]: /u\n\"a\n\nb\"\n\n[a]",
	"[a]: /u\n[", "[a]: /u\n[b", "[a]: /u\n[b]", "[a]: /u\n[b]:", "[a]: /u\n[b]: ", "[a]: /u\n[b]:\n", "[a]:\n", "[a]: \n", "[]: /u\n\n[]", "[ ]: /u\n\n[ ]", "[\n]: /u", "[a\n\nb]: /u",
}

// cvPrescribed: regression inputs of the repaired defect T1 (KNOWN_FINDINGS `fixed:` 9e57c92; text/reader.go findClosureReader
// took the stop of the closing segment from the index into the PEEKED line, which starts with the virtual padding of a tab
// partly consumed by a container, so a label / title that closes on such a line ran `Padding` bytes past its closer).
// `want` is derived BY HAND from CommonMark 0.31.2: 2.2 (a tab that helps to define block structure counts as spaces up to
// the next tab stop of 4: after `>` / the list item's content offset is consumed, the rest is leading white space of a
// paragraph continuation line), 4.8 (that leading white space is skipped), 4.7 / 6.3 (labels are matched after collapsing
// consecutive internal spaces, tabs and line endings to one space; a list item / block quote that contains only a definition
// is empty). For the TITLE variants the expectation is the rendering of the spaces-only twin (2.2 makes the two spellings the
// same document): the white space in front of a title's continuation line is inside the title with goldmark whichever way
// it is spelled (cmark drops it: a separate, older deviation - notes/status_escfix.md), so only the twin is spelling-independent.
// Every entry is also compared with the Lean model like any other document.
// Entries with a `clause` are regression inputs of the repaired defects of the inline link scanner (package linkfix; KNOWN_FINDINGS
// `fixed:` 5e850d1 ... fb85ad2), HTML derived by hand from CommonMark 0.31.2 6.3 / 4.7 (cf. component cmlink, cmlinkFixed).
type cvPresc struct{ src, want, twin, clause string }

var cvPrescribed = []cvPresc{
	// repaired defect F34 (KNOWN_FINDINGS `fixed:` 96461b4; util.FindURLIndex accepted an autolink scheme of 33 characters; CommonMark 6.5: 2-32)
	{src: "a<ab:c>d\n", want: "<p>a<a href=\"ab:c\">ab:c</a>d</p>\n", clause: "autolink-scheme-length-33-differs"},
	{src: "a<abcdefghijklmnopqrstuvwxyzABCDEF:c>d\n", want: "<p>a<a href=\"abcdefghijklmnopqrstuvwxyzABCDEF:c\">abcdefghijklmnopqrstuvwxyzABCDEF:c</a>d</p>\n", clause: "autolink-scheme-length-33-differs"},
	{src: "a<abcdefghijklmnopqrstuvwxyzABCDEFG:c>d\n", want: "<p>a&lt;abcdefghijklmnopqrstuvwxyzABCDEFG:c&gt;d</p>\n", clause: "autolink-scheme-length-33-differs"},
	{src: "a<abcdefghijklmnopqrstuvwxyzABCDEFGH:c>d\n", want: "<p>a&lt;abcdefghijklmnopqrstuvwxyzABCDEFGH:c&gt;d</p>\n", clause: "autolink-scheme-length-33-differs"},
	{src: "a<a:c>d\n", want: "<p>a&lt;a:c&gt;d</p>\n", clause: "autolink-scheme-length-33-differs"},
	{src: "<abcdefghijklmnopqrstuvwxyzABCDEFG:c>\n", want: "<p>&lt;abcdefghijklmnopqrstuvwxyzABCDEFG:c&gt;</p>\n", clause: "autolink-scheme-length-33-differs"},
	{src: "> [a\n>\tb]: /u\n\n[a b]", want: "<blockquote>\n</blockquote>\n<p><a href=\"/u\">a b</a></p>\n"},
	{src: "> [a\n>\tb]: /u\n\n[a b]\n", want: "<blockquote>\n</blockquote>\n<p><a href=\"/u\">a b</a></p>\n"},
	{src: ">\t[a\n>\tb]: /u\n\n[a b]\n", want: "<blockquote>\n</blockquote>\n<p><a href=\"/u\">a b</a></p>\n"},
	{src: "> [a\n>\t]: /u\n\n[a]\n", want: "<blockquote>\n</blockquote>\n<p><a href=\"/u\">a</a></p>\n"},
	{src: "> [a\n>\tb]: /u\n>\n> [a b]\n", want: "<blockquote>\n<p><a href=\"/u\">a b</a></p>\n</blockquote>\n"},
	{src: "- [a\n\tb]: /u\n\n[a b]\n", want: "<ul>\n<li></li>\n</ul>\n<p><a href=\"/u\">a b</a></p>\n"},
	{src: "- [a\n\tb]: /u\n- [a b]\n", want: "<ul>\n<li></li>\n<li><a href=\"/u\">a b</a></li>\n</ul>\n"},
	{src: "1. [a\n\tb]: /u\n\n[a b]\n", want: "<ol>\n<li></li>\n</ol>\n<p><a href=\"/u\">a b</a></p>\n"},
	{src: "> [a]: /u \"t\n>\tu\"\n\n[a]\n", twin: "> [a]: /u \"t\n>   u\"\n\n[a]\n"},
	{src: "> [a]: /u 't\n>\tu'\n\n[a]", twin: "> [a]: /u 't\n>   u'\n\n[a]"},
	{src: "> [a]: /u (t\n>\tu)\n\n[a]\n", twin: "> [a]: /u (t\n>   u)\n\n[a]\n"},
	{src: "> [a]: /u\n>\t\"t\n>\tu\"\n\n[a]\n", twin: "> [a]: /u\n>   \"t\n>   u\"\n\n[a]\n"},
	{src: "- [a]: /u \"t\n\tu\"\n\n[a]\n", twin: "- [a]: /u \"t\n    u\"\n\n[a]\n"},
	{src: "1. [a]: /u \"t\n\tu\"\n\n[a]\n", twin: "1. [a]: /u \"t\n    u\"\n\n[a]\n"},
	// L5: only `[]` makes a collapsed reference; brackets around white space are no label, `[a]` is a shortcut reference
	{src: "[a][ ]\n\n[a]: /u\n", want: "<p><a href=\"/u\">a</a>[ ]</p>\n", clause: "link-label-blank-differs"},
	{src: "![a][\n]\n\n[a]: /u\n", want: "<p><img src=\"/u\" alt=\"a\" />[\n]</p>\n", clause: "link-label-blank-differs"},
	{src: "[a][\t] [a][]\n\n[a]: /u\n", want: "<p><a href=\"/u\">a</a>[\t] <a href=\"/u\">a</a></p>\n", clause: "link-label-blank-differs"},
	{src: "[b][ ]\n\n[a]: /u\n", want: "<p>[b][ ]</p>\n", clause: "link-label-blank-differs"},
	// L1: the first form of a destination "contains no line endings or unescaped < or > characters" (examples 491, 493); shared with
	// link reference definitions (4.7) through parseLinkDestination
	{src: "[a](<b<c>)", want: "<p>[a](&lt;b<c>)</p>\n", clause: "link-destination-pointy-differs"},
	{src: "[a](<<>)", want: "<p>[a](&lt;&lt;&gt;)</p>\n", clause: "link-destination-pointy-differs"},
	{src: "[a]: <b<c>\n\n[a]\n", want: "<p>[a]: &lt;b<c></p>\n<p>[a]</p>\n", clause: "link-destination-pointy-differs"},
	{src: "[a](<b\\<c>) [a](<b\\>c>)\n", want: "<p><a href=\"b%3Cc\">a</a> <a href=\"b%3Ec\">a</a></p>\n", clause: "link-destination-pointy-differs"},
	// L2: the second form may contain parentheses only "if (a) they are backslash-escaped or (b) they are part of a balanced pair" (example 497)
	{src: "[a](b(c )", want: "<p>[a](b(c )</p>\n", clause: "link-destination-unbalanced-paren-differs"},
	{src: "[a](( \"t\")", want: "<p>[a](( &quot;t&quot;)</p>\n", clause: "link-destination-unbalanced-paren-differs"},
	{src: "[a]: b(c\n\n[a]\n", want: "<p>[a]: b(c</p>\n<p>[a]</p>\n", clause: "link-destination-unbalanced-paren-differs"},
	{src: "[a](b(c)) [a](b\\(c )\n", want: "<p><a href=\"b(c)\">a</a> <a href=\"b(c\">a</a></p>\n", clause: "link-destination-unbalanced-paren-differs"},
	// L3: "If both link destination and link title are present, they must be separated by spaces, tabs, and up to one line ending"
	{src: "[a](<b>\"t\")", want: "<p>[a](<b>&quot;t&quot;)</p>\n", clause: "link-title-without-separator-differs"},
	{src: "[a](<>(t))", want: "<p>[a](&lt;&gt;(t))</p>\n", clause: "link-title-without-separator-differs"},
	{src: "![a](<b>'t')\n", want: "<p>![a](<b>'t')</p>\n", clause: "link-title-without-separator-differs"},
	{src: "[a](<b> \"t\") [a](<b>\n\"t\")\n", want: "<p><a href=\"b\" title=\"t\">a</a> <a href=\"b\" title=\"t\">a</a></p>\n", clause: "link-title-without-separator-differs"},
}

var cvPrescribedOnce sync.Once
var cvPrescribedBySrc map[string]cvPresc

// the oracle for an entry of cvPrescribed: option set 6 (unsafe + XHTML, the configuration of the specification's examples)
func cvCheckPrescribed(src []byte, got []byte) *OracleFail {
	cvPrescribedOnce.Do(func() {
		cvPrescribedBySrc = map[string]cvPresc{}
		for _, p := range cvPrescribed {
			cvPrescribedBySrc[p.src] = p
		}
	})
	p, ok := cvPrescribedBySrc[string(src)]
	if !ok {
		return nil
	}
	want, how := []byte(p.want), "CommonMark 2.2/4.7/4.8 prescribes"
	if p.twin != "" {
		w, f := cvConvert(6, []byte(p.twin))
		if f != nil {
			return f
		}
		want, how = w, fmt.Sprintf("the spaces-only twin %q renders (CommonMark 2.2)", p.twin)
	}
	if !bytes.Equal(got, want) {
		clause := "closer-on-padded-line-differs"
		if p.clause != "" {
			clause, how = p.clause, "CommonMark 6.3/4.7 prescribes"
		}
		return &OracleFail{"C02", clause, fmt.Sprintf("source=%q goldmark=%q %s=%q", src, got, how, want)}
	}
	return nil
}

func genConvert(tier string, rng *RNG, emit func(Case)) {
	thorough := tier == "thorough"
	doc := func(b []byte) { emit(Case{Op: "html", Args: []string{hx(b)}}) }
	pick := func(q, t int) int {
		if thorough {
			return t
		}
		return q
	}
	// 1. exhaustive small scopes
	enumStrings(cvAlphabet, pick(4, 5), doc)
	for _, s := range cvSubAlphabets {
		enumStrings(s.al, pick(s.qn, s.tn), doc)
	}
	for _, s := range cvContexts {
		s := s
		enumStrings(s.al, pick(s.qn, s.tn), func(b []byte) { doc([]byte(s.pre + string(b) + s.suf)) })
	}
	enumStrings(blocksAlphabet, pick(3, 4), doc)
	for _, sa := range blocksSubAlphabets {
		enumStrings(sa.syms, pick(4, sa.qn), doc)
	}
	// 2. spec.json (read at run time), corpus, fixed
	for _, e := range SpecExamples() {
		doc([]byte(e.Markdown))
		doc([]byte(strings.TrimSuffix(e.Markdown, "\n")))
	}
	for _, d := range CorpusDocs() {
		doc(d)
	}
	for _, s := range cvFixed {
		doc([]byte(s))
	}
	for _, p := range cvPrescribed {
		doc([]byte(p.src))
	}
	for _, s := range inlFixed() {
		doc([]byte(s))
	}
	// 3. the document generators of docs.go
	DocStream(rng, len(CorpusDocs())+pick(6000, 150000), func(kind string, d []byte) {
		if kind != "corpus" {
			doc(d)
		}
	})
	// 4. composed documents with link reference definitions in many spellings
	for i, n := 0, pick(15000, 200000); i < n; i++ {
		doc(cvGenRefDoc(rng))
	}
	// 5. random strings over the alphabets and token lists
	toks := syms(append(append([]string{}, blocksTokens...), "[a]", "[a]:", "[a]: /u", "]:", "[", "]", ": ", "\"t\"", "'t'", "(t)", "<u>", "[a][]", "![a]", "*", "**", "`", "_")...)
	for i, n := 0, pick(15000, 200000); i < n; i++ {
		switch rng.Intn(4) {
		case 0:
			doc(randString(rng, cvAlphabet, 30))
		case 1:
			doc(randString(rng, toks, 14))
		case 2:
			doc(randString(rng, blocksAlphabet, 30))
		default:
			sa := cvSubAlphabets[rng.Intn(len(cvSubAlphabets))]
			doc(randString(rng, sa.al, 24))
		}
	}
	// 6. C09: a block of definitions (labels zq…, not otherwise defined) at the top vs at the bottom
	for i, n := 0, pick(3000, 40000); i < n; i++ {
		var defs strings.Builder
		k := 1 + rng.Intn(3)
		var uses []string
		for j := 0; j < k; j++ {
			lab := fmt.Sprintf("zq%d", j)
			spell := []string{lab, strings.ToUpper(lab), "zq  " + fmt.Sprint(j), " " + lab + " ", "Zq\n" + fmt.Sprint(j)}
			wr := spell[rng.Intn(2)]
			if strings.Contains(spell[2], " ") && rng.Chance(30) {
				wr = "zq " + fmt.Sprint(j)
				uses = append(uses, "[ZQ  "+fmt.Sprint(j)+"]", "[zq\n"+fmt.Sprint(j)+"][]")
			} else {
				uses = append(uses, "["+spell[rng.Intn(2)]+"]", "[x]["+spell[rng.Intn(2)]+"]", "!["+lab+"]")
			}
			defs.WriteString("[" + wr + "]: /zq" + fmt.Sprint(j) + []string{"", " \"t\"", "\n'multi\nline'", " (p)"}[rng.Intn(4)] + "\n")
		}
		defs.WriteString("\n")
		var d []byte
		switch rng.Intn(4) {
		case 0:
			d = GenDoc(rng)
		case 1:
			cs := CorpusDocs()
			d = cs[rng.Intn(len(cs))]
		case 2:
			d = GenAdversarial(rng)
		default:
			d = []byte(genBlock(rng, 1))
		}
		if bytes.Contains(bytes.ToLower(d), []byte("zq")) {
			continue
		}
		var sb strings.Builder
		sb.Write(d)
		sb.WriteString("\n\n")
		for u := 0; u < 1+rng.Intn(3); u++ {
			sb.WriteString(uses[rng.Intn(len(uses))] + " ")
		}
		sb.WriteString("\n")
		full := []byte(sb.String())
		emit(Case{Op: "move", Args: []string{hx([]byte(defs.String())), hx(full)}})
		doc(append([]byte(defs.String()), full...))
		doc(append(append(append([]byte{}, full...), []byte("\n\n")...), []byte(defs.String())...))
		doc(append(append(append([]byte{}, full...), []byte("\n\n")...), bytes.TrimRight([]byte(defs.String()), "\n")...))
	}
}
