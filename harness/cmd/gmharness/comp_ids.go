package main

// Component `ids` (property C15).
//
//  run <ops>                 function level: ops on a fresh parser.NewContext().IDs(); g:<hex> = Generate(v, KindHeading),
//                            o:<hex> = Generate(v, KindParagraph), p:<hex> = Put(v). Output: the returned ids.
//  doc <src> <history> <ops> document level: <src> converted with parser.WithAutoHeadingID()
//                            (1) by plain Convert on an instance that converted <history> before, (2) by plain Convert
//                            on a fresh instance, (3) with a recording IDs table (parser.WithIDs) so that the exact
//                            Generate/Put sequence the heading parsers make is known: <ops> is that sequence (recorded
//                            by the generator, re-recorded and compared here), the model replays it.
// Oracles (independent of the model): every h1-h6 of the output carries an id, none is empty, all are pairwise
// distinct, (1) == (2); every Generate result is non-empty and was not in the table before.

import (
	"bytes"
	"fmt"
	"io"
	"regexp"
	"strings"
	"sync"

	"github.com/yuin/goldmark"
	"github.com/yuin/goldmark/ast"
	"github.com/yuin/goldmark/parser"
	"github.com/yuin/goldmark/text"
)

func init() {
	register(&Component{
		Name: "ids",
		Rule: "function level: all Generate sequences of <= N values and all Generate/Put sequences of <= M ops over {a,A,'a b',a-1,a-1-1,e-acute,'','-',1} + random longer ones over a wider alphabet; " +
			"document level: all documents of <= 3 headings over 14 heading forms + random documents (ATX/Setext, containers, history); non-trivial = a numeric suffix was needed; distinct = distinct id lists",
		Gen:        genIds,
		Impl:       implIds,
		Exhaustive: true,
		Scope: func(tier string) string {
			if tier == "thorough" {
				return "run: Generate-only <=6 values, Generate/Put <=4 ops, 300k random <=24 ops; doc: exhaustive <=3 headings over 14 forms, 40k random documents with history"
			}
			return "run: Generate-only <=5 values, Generate/Put <=4 ops, 40k random <=16 ops; doc: exhaustive <=3 headings over 14 forms, 6k random documents with history"
		},
	})
}

var idsValues = []string{"a", "A", "a b", "a-1", "a-1-1", "é", "", "-", "1"}

// wider pool for random runs: suffix chains, trimming (incl. \v \f which TrimLeftSpace removes but the slug loop
// does not map to '-'), invalid UTF-8 lead bytes (utf8lenTable = 99), punctuation only, the fallbacks themselves
var idsPool = []string{"a", "A", "a b", "a-1", "a-1-1", "a-2", "a-1-2", "é", "", "-", "1", "1-1", "heading", "heading-1", "Heading", "id", "id-1",
	"!!!", "a_b", "a  b", " a ", "\ta\n", "\va\f", "a\vb", "日本", "aé", "éa", "\x80a", "\xffabc", "a\xc3", "\xe3\x81a", "--", "-1", "a-", "a-10", "a-01", "Z9", "a.b", "{#x}"}

// If id tables turn out to be shared between contexts (a history dependence the property forbids), concurrent
// Impl runs would race on that table and crash the process; the generator (which runs before any Impl worker)
// probes for it sequentially and, if so, serialises Impl so that the run still ends with concrete failing cases.
var idsSerial bool
var idsMu sync.Mutex
var idsSerialRuns = map[string]int{}

func probeSharedIDs() bool {
	a := append([]byte{}, parser.NewContext().IDs().Generate([]byte("probe"), ast.KindHeading)...)
	b := append([]byte{}, parser.NewContext().IDs().Generate([]byte("probe"), ast.KindHeading)...)
	return !bytes.Equal(a, b)
}

func genIds(tier string, rng *RNG, emit func(Case)) {
	idsSerial = probeSharedIDs()
	genN, mixN, nrand, maxLen, ndoc := 5, 4, 40000, 16, 6000
	if tier == "thorough" {
		genN, mixN, nrand, maxLen, ndoc = 6, 4, 300000, 24, 40000
	}
	docDepth := 3
	if idsSerial {
		// shared table: every Generate probes past all earlier ids; keep the run short, the violation is certain
		genN, mixN, nrand, ndoc, docDepth = 3, 2, 500, 300, 2
	}
	// (a) function level, exhaustive
	var rec func(prog []string, kinds []string, depth int)
	rec = func(prog []string, kinds []string, depth int) {
		if len(prog) > 0 {
			emit(Case{Op: "run", Args: []string{strings.Join(prog, ",")}})
		}
		if len(prog) == depth {
			return
		}
		for _, k := range kinds {
			for _, v := range idsValues {
				rec(append(append([]string{}, prog...), k+":"+hx([]byte(v))), kinds, depth)
			}
		}
	}
	emit(Case{Op: "run", Args: []string{"_"}})
	rec(nil, []string{"g"}, genN)
	rec(nil, []string{"g", "p"}, mixN)
	rec(nil, []string{"o", "p"}, 2)
	for i := 0; i < nrand; i++ {
		n := 1 + rng.Intn(maxLen)
		var prog []string
		// draw from a small sub-pool so that collisions are frequent
		sub := make([]string, 2+rng.Intn(4))
		for j := range sub {
			sub[j] = idsPool[rng.Intn(len(idsPool))]
		}
		for j := 0; j < n; j++ {
			k := "g"
			switch rng.Intn(10) {
			case 0, 1:
				k = "p"
			case 2:
				k = "o"
			}
			prog = append(prog, k+":"+hx([]byte(sub[rng.Intn(len(sub))])))
		}
		emit(Case{Op: "run", Args: []string{strings.Join(prog, ",")}})
	}
	// (b) document level
	forms := []string{"# a", "# A #", "## a-1", "a\n===", "a\n---", "a-1-1\n---", "#", "# é", "# !!!", "> # a", "- # a", "x\na\n===", "# 1", "1. a-1\n   ---"}
	var drec func(doc []string)
	drec = func(doc []string) {
		if len(doc) > 0 {
			emitDoc(emit, strings.Join(doc, "\n\n")+"\n", nil)
		}
		if len(doc) == docDepth {
			return
		}
		for _, f := range forms {
			drec(append(append([]string{}, doc...), f))
		}
	}
	drec(nil)
	for i := 0; i < ndoc; i++ {
		src := randHeadingDoc(rng)
		var hist []string
		for h := rng.Intn(4); h > 0; h-- {
			hist = append(hist, randHeadingDoc(rng))
		}
		emitDoc(emit, src, hist)
	}
	// histories containing a very large document (hundreds of headings, sharing slugs with the probe): state kept
	// for "big" documents only (pools, caches with a size guard) shows here
	for i := 0; i < 12; i++ {
		n := []int{100, 129, 130, 200, 257, 600}[i%6]
		var big strings.Builder
		for k := 0; k < n; k++ {
			big.WriteString([]string{"# a\n\n", "## b c\n\n", "# a-1\n\n", "x\n===\n\n", "# \n\n"}[k%5])
		}
		emitDoc(emit, "# a\n\n## b c\n\n# a-1\n\nx\n===\n", []string{big.String(), "# z\n"})
		emitDoc(emit, big.String(), []string{big.String()})
	}
	// very LONG heading texts that agree on a long prefix (a length cap on ids, a fixed-size scratch buffer or a hash of
	// a prefix would make them collide): common prefix of p bytes, then identical / different tails, ATX and Setext,
	// top level and inside containers
	word := "could not resolve the dependency graph because two packages require incompatible versions "
	for _, p := range []int{30, 60, 63, 64, 65, 95, 96, 97, 127, 128, 129, 200, 255, 256, 257, 511, 512, 1000, 1024, 4096} {
		pre := strings.Repeat(word, p/len(word)+1)[:p]
		for _, tails := range [][2]string{{"", ""}, {" x", " y"}, {"", " z"}, {" tail one", " tail two"}} {
			a, b := pre+tails[0], pre+tails[1]
			emitDoc(emit, "# "+a+"\n\ntext\n\n# "+b+"\n", nil)
			emitDoc(emit, "> "+a+"\n> ---\n\n- ### "+b+"\n\n"+a+"\n===\n", []string{"# " + a + "\n"})
		}
	}
}

func randHeadingText(rng *RNG, sub []string) string {
	t := sub[rng.Intn(len(sub))]
	// heading texts must be one line and must not open raw HTML (the id extractor reads tags)
	t = strings.NewReplacer("\n", " ", "\r", " ", "<", "(").Replace(t)
	return t
}

func randHeadingDoc(rng *RNG) string {
	pool := []string{"a", "A", "a b", "a-1", "a-1-1", "a-2", "é", "", "-", "1", "heading", "heading-1", "!!!", "***", "a_b", "日本", "aé", "a.b", "`a`", "*a*", "[a](b)", "a \\# b", "{#x}", "a {#x}", "&amp;", "a\tb"}
	sub := make([]string, 1+rng.Intn(4))
	for j := range sub {
		sub[j] = pool[rng.Intn(len(pool))]
	}
	var sb strings.Builder
	n := 1 + rng.Intn(7)
	for i := 0; i < n; i++ {
		t := randHeadingText(rng, sub)
		prefix := ""
		switch rng.Intn(8) {
		case 0:
			prefix = "> "
		case 1:
			prefix = "- "
		case 2:
			prefix = "1. "
		case 3:
			prefix = "> - "
		}
		cont := strings.Repeat(" ", len(prefix))
		if strings.HasPrefix(prefix, ">") {
			cont = prefix
			if prefix == "> - " {
				cont = ">   "
			}
		}
		switch rng.Intn(6) {
		case 0, 1, 2:
			sb.WriteString(prefix + strings.Repeat("#", 1+rng.Intn(6)) + " " + t)
			if rng.Chance(20) {
				sb.WriteString(" ##")
			}
			sb.WriteString("\n")
		case 3:
			sb.WriteString(prefix + t + "\n" + cont + "===\n")
		case 4:
			sb.WriteString(prefix + t + "\n" + cont + "---\n")
		case 5:
			// multi-line setext heading: the id comes from the last line
			sb.WriteString(prefix + "x" + "\n" + cont + t + "\n" + cont + "===\n")
		}
		switch rng.Intn(5) {
		case 0:
			// no blank line
		case 1:
			sb.WriteString("\npara " + t + "\n\n")
		case 2:
			// a paragraph consisting of link reference definitions only followed by an underline
			sb.WriteString("\n[r]: /u\n===\n\n")
		default:
			sb.WriteString("\n")
		}
	}
	return sb.String()
}

// recording IDs table: forwards to the real one
type recIDs struct {
	inner parser.IDs
	ops   []string
	res   [][]byte
}

func (r *recIDs) Generate(value []byte, kind ast.NodeKind) []byte {
	k := "o"
	if kind == ast.KindHeading {
		k = "g"
	}
	r.ops = append(r.ops, k+":"+hx(value))
	out := r.inner.Generate(value, kind)
	r.res = append(r.res, append([]byte{}, out...))
	return out
}

func (r *recIDs) Put(value []byte) {
	r.ops = append(r.ops, "p:"+hx(value))
	r.inner.Put(value)
}

func newAutoIDMarkdown() goldmark.Markdown {
	return goldmark.New(goldmark.WithParserOptions(parser.WithAutoHeadingID()))
}

func recordIDs(src []byte) (rec *recIDs, html []byte, astIDs []string, missing int) {
	md := newAutoIDMarkdown()
	rec = &recIDs{inner: parser.NewContext().IDs()}
	ctx := parser.NewContext(parser.WithIDs(rec))
	doc := md.Parser().Parse(text.NewReader(src), parser.WithContext(ctx))
	_ = ast.Walk(doc, func(n ast.Node, entering bool) (ast.WalkStatus, error) {
		if entering && n.Kind() == ast.KindHeading {
			if v, ok := n.AttributeString("id"); ok {
				if b, ok := v.([]byte); ok {
					astIDs = append(astIDs, string(b))
				} else {
					astIDs = append(astIDs, fmt.Sprint(v))
				}
			} else {
				missing++
			}
		}
		return ast.WalkContinue, nil
	})
	var buf bytes.Buffer
	if err := md.Renderer().Render(&buf, src, doc); err != nil {
		panic("render error: " + err.Error())
	}
	return rec, buf.Bytes(), astIDs, missing
}

func emitDoc(emit func(Case), src string, hist []string) {
	var ops string
	func() {
		defer func() {
			if r := recover(); r != nil {
				ops = "panic"
			}
		}()
		rec, _, _, _ := recordIDs([]byte(src))
		ops = strings.Join(rec.ops, ",")
	}()
	if ops == "" {
		ops = "_"
	}
	h := "_"
	if len(hist) > 0 {
		var hs []string
		for _, d := range hist {
			hs = append(hs, hx([]byte(d)))
		}
		h = strings.Join(hs, ",")
	}
	emit(Case{Op: "doc", Args: []string{hx([]byte(src)), h, ops}})
}

var reHeadingTag = regexp.MustCompile(`<h([1-6])((?:\s[^>]*)?)>`)
var reIDAttr = regexp.MustCompile(`\sid="([^"]*)"`)

// idsHeadingIDs extracts the id attribute of every h1-h6 start tag; ok=false for a heading without id
func idsHeadingIDs(html []byte) (ids []string, noID int) {
	for _, m := range reHeadingTag.FindAllSubmatch(html, -1) {
		a := reIDAttr.FindSubmatch(m[2])
		if a == nil {
			noID++
			continue
		}
		ids = append(ids, string(a[1]))
	}
	return
}

func idsJoin(ids [][]byte) string {
	if len(ids) == 0 {
		return "_"
	}
	var s []string
	for _, b := range ids {
		s = append(s, hx(b))
	}
	return strings.Join(s, ",")
}

func idsCheckList(r *ImplResult, what string, ids []string, noID int) {
	if noID > 0 {
		r.Fails = append(r.Fails, OracleFail{"C15", "id-missing", fmt.Sprintf("%s: %d heading element(s) without id attribute", what, noID)})
	}
	seen := map[string]bool{}
	for _, id := range ids {
		if id == "" {
			r.Fails = append(r.Fails, OracleFail{"C15", "id-empty", what + ": a heading has an empty id"})
		}
		if seen[id] {
			r.Fails = append(r.Fails, OracleFail{"C15", "id-duplicate", fmt.Sprintf("%s: id %q occurs on two headings (ids %q)", what, id, ids)})
		}
		seen[id] = true
	}
}

func idsIsSubsequence(a, b []string) bool {
	i := 0
	for _, x := range b {
		if i < len(a) && a[i] == x {
			i++
		}
	}
	return i == len(a)
}

func implIds(c Case) ImplResult {
	var r ImplResult
	if idsSerial {
		idsMu.Lock()
		defer idsMu.Unlock()
		// a shared table also makes probing quadratic in the number of cases: a few thousand cases are enough
		// to exhibit the history dependence
		idsSerialRuns[c.Op]++
		if idsSerialRuns[c.Op] > 1500 {
			return ImplResult{NoModel: true, Out: "skipped:shared-id-table"}
		}
	}
	switch c.Op {
	case "run":
		ids := parser.NewContext().IDs()
		used := map[string]bool{}
		var outs [][]byte
		suffixed := false
		if c.Args[0] != "_" {
			for _, st := range strings.Split(c.Args[0], ",") {
				p := strings.SplitN(st, ":", 2)
				v := unhx(p[1])
				switch p[0] {
				case "p":
					ids.Put(v)
					used[string(v)] = true
				case "g", "o":
					kind := ast.KindHeading
					if p[0] == "o" {
						kind = ast.KindParagraph
					}
					id := append([]byte{}, ids.Generate(v, kind)...)
					if len(id) == 0 {
						r.Fails = append(r.Fails, OracleFail{"C15", "generate-empty", fmt.Sprintf("Generate(%q) returned an empty id after %s", v, c.Args[0])})
					}
					if used[string(id)] {
						r.Fails = append(r.Fails, OracleFail{"C15", "generate-not-fresh", fmt.Sprintf("Generate(%q) returned %q which was already used, ops %s", v, id, c.Args[0])})
					}
					if bytes.HasSuffix(id, []byte("-1")) || bytes.HasSuffix(id, []byte("-2")) {
						suffixed = true
					}
					used[string(id)] = true
					outs = append(outs, id)
				default:
					panic("bad ids op " + st)
				}
			}
		}
		// the same ops on a second fresh context must give the same ids (the table belongs to the context)
		if c.Args[0] != "_" {
			ids2 := parser.NewContext().IDs()
			var outs2 [][]byte
			for _, st := range strings.Split(c.Args[0], ",") {
				p := strings.SplitN(st, ":", 2)
				switch p[0] {
				case "p":
					ids2.Put(unhx(p[1]))
				case "g":
					outs2 = append(outs2, append([]byte{}, ids2.Generate(unhx(p[1]), ast.KindHeading)...))
				case "o":
					outs2 = append(outs2, append([]byte{}, ids2.Generate(unhx(p[1]), ast.KindParagraph)...))
				}
			}
			if idsJoin(outs2) != idsJoin(outs) {
				r.Fails = append(r.Fails, OracleFail{"C15", "generate-history-dependent", fmt.Sprintf("ops %s gave %s on one fresh context and %s on the next", c.Args[0], idsJoin(outs), idsJoin(outs2))})
			}
		}
		r.Out = idsJoin(outs)
		if suffixed {
			r.Key = r.Out
		}
	case "doc":
		src := unhx(c.Args[0])
		// (1) plain Convert after a history on the same instance, (2) plain Convert on a fresh instance
		md := newAutoIDMarkdown()
		if c.Args[1] != "_" {
			for _, h := range strings.Split(c.Args[1], ",") {
				_ = md.Convert(unhx(h), io.Discard)
			}
		}
		var b1, b2 bytes.Buffer
		if err := md.Convert(src, &b1); err != nil {
			panic("convert error: " + err.Error())
		}
		if err := newAutoIDMarkdown().Convert(src, &b2); err != nil {
			panic("convert error: " + err.Error())
		}
		ids1, no1 := idsHeadingIDs(b1.Bytes())
		ids2, no2 := idsHeadingIDs(b2.Bytes())
		idsCheckList(&r, "after history", ids1, no1)
		idsCheckList(&r, "fresh instance", ids2, no2)
		if strings.Join(ids1, "\x00") != strings.Join(ids2, "\x00") || no1 != no2 {
			r.Fails = append(r.Fails, OracleFail{"C15", "id-history-dependent", fmt.Sprintf("ids after a conversion history %q differ from ids on a fresh instance %q", ids1, ids2)})
		}
		if !bytes.Equal(b1.Bytes(), b2.Bytes()) {
			r.Fails = append(r.Fails, OracleFail{"C15", "output-history-dependent", "output after a conversion history differs from the output of a fresh instance"})
		}
		// (3) recording table
		rec, html3, astIDs, missing := recordIDs(src)
		ids3, no3 := idsHeadingIDs(html3)
		if missing > 0 {
			r.Fails = append(r.Fails, OracleFail{"C15", "id-missing", fmt.Sprintf("%d heading node(s) of the parsed document carry no id attribute", missing)})
		}
		if strings.Join(ids3, "\x00") != strings.Join(ids2, "\x00") || no3 != no2 {
			r.Fails = append(r.Fails, OracleFail{"C15", "id-history-dependent", fmt.Sprintf("ids with a caller-made context %q differ from plain Convert %q", ids3, ids2)})
		}
		ops := strings.Join(rec.ops, ",")
		if ops == "" {
			ops = "_"
		}
		var gen []string
		for _, b := range rec.res {
			gen = append(gen, string(b))
		}
		switch {
		case ops != c.Args[2]:
			r.Out = "seqdiff:" + ops
		case strings.Join(astIDs, "\x00") != strings.Join(ids3, "\x00"):
			r.Out = fmt.Sprintf("html-ids-differ-from-ast:%q:%q", ids3, astIDs)
		case !idsIsSubsequence(ids3, gen) || (len(ids3) == len(gen)) != (strings.Join(ids3, "\x00") == strings.Join(gen, "\x00")):
			r.Out = fmt.Sprintf("html-ids-not-from-generate:%q:%q", ids3, gen)
		default:
			r.Out = idsJoin(rec.res)
		}
		for i, id := range ids2 {
			if i > 0 && strings.HasPrefix(id, ids2[0]) && id != ids2[0] {
				r.Key = strings.Join(ids2, ",")
			}
		}
		if len(ids3) != len(gen) {
			r.Key = "unlinked:" + strings.Join(ids2, ",")
		}
	default:
		panic("bad ids op " + c.Op)
	}
	return r
}
