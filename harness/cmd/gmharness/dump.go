package main

// AST dumper: turns a real goldmark tree into the token stream read by lean/Driver/Render.lean
// (`<Kind> <fields…> <attrs> <children…> )`), with every segment resolved to bytes.

import (
	"strconv"
	"strings"
	"unicode/utf8"

	"github.com/yuin/goldmark/ast"
	east "github.com/yuin/goldmark/extension/ast"
	"github.com/yuin/goldmark/renderer/html"
	"github.com/yuin/goldmark/text"
	"github.com/yuin/goldmark/util"
)

type dumper struct {
	src     []byte
	ea      html.EastAsianLineBreaks
	toks    []string
	noModel bool           // something the model's tree type cannot express
	kinds   map[string]int // kind histogram
}

func hexList(vals [][]byte) string {
	if len(vals) == 0 {
		return "_"
	}
	s := make([]string, len(vals))
	for i, v := range vals {
		s[i] = hx(v)
	}
	return strings.Join(s, ",")
}

func optHx(b []byte, present bool) string {
	if !present {
		return "~"
	}
	return hx(b)
}

func (d *dumper) lines(n ast.Node) [][]byte {
	var r [][]byte
	ls := n.Lines()
	for i := 0; i < ls.Len(); i++ {
		seg := ls.At(i)
		r = append(r, seg.Value(d.src))
	}
	return r
}

func (d *dumper) attrs(n ast.Node) string {
	as := n.Attributes()
	if as == nil {
		return "~"
	}
	if len(as) == 0 {
		return "_"
	}
	var parts []string
	for _, a := range as {
		if len(a.Name) == 0 {
			d.noModel = true
		}
		v := "~"
		switch t := a.Value.(type) {
		case []byte:
			v = hx(t)
		case string:
			v = hx([]byte(t))
		}
		parts = append(parts, hx(a.Name)+"="+v)
	}
	return strings.Join(parts, ";")
}

func nn(i int, d *dumper) string {
	if i < 0 {
		d.noModel = true
		return "0"
	}
	return strconv.Itoa(i)
}

func (d *dumper) node(n ast.Node) {
	emit := func(t ...string) { d.toks = append(d.toks, t...) }
	name := "Other"
	switch v := n.(type) {
	case *ast.Document:
		name = "Document"
		emit(name)
	case *ast.Heading:
		name = "Heading"
		emit(name, nn(v.Level, d))
	case *ast.Blockquote:
		name = "Blockquote"
		emit(name)
	case *ast.CodeBlock:
		name = "CodeBlock"
		emit(name, hexList(d.lines(n)))
	case *ast.FencedCodeBlock:
		name = "FencedCodeBlock"
		if v.Info != nil {
			emit(name, hx(v.Info.Segment.Value(d.src)), hexList(d.lines(n)))
		} else {
			emit(name, "~", hexList(d.lines(n)))
		}
	case *ast.HTMLBlock:
		name = "HTMLBlock"
		if v.HasClosure() {
			emit(name, hexList(d.lines(n)), hx(v.ClosureLine.Value(d.src)))
		} else {
			emit(name, hexList(d.lines(n)), "~")
		}
	case *ast.List:
		name = "List"
		emit(name, b2s(v.IsOrdered()), nn(v.Start, d))
	case *ast.ListItem:
		name = "ListItem"
		emit(name)
	case *ast.Paragraph:
		name = "Paragraph"
		emit(name)
	case *ast.TextBlock:
		name = "TextBlock"
		emit(name)
	case *ast.ThematicBreak:
		name = "ThematicBreak"
		emit(name)
	case *ast.AutoLink:
		name = "AutoLink"
		emit(name, b2s(v.AutoLinkType == ast.AutoLinkEmail), hx(v.URL(d.src)), hx(v.Label(d.src)))
	case *ast.CodeSpan:
		name = "CodeSpan"
		emit(name)
	case *ast.Emphasis:
		name = "Emphasis"
		emit(name, nn(v.Level, d))
	case *ast.Image:
		name = "Image"
		emit(name, hx(v.Destination), optHx(v.Title, v.Title != nil))
	case *ast.Link:
		name = "Link"
		emit(name, hx(v.Destination), optHx(v.Title, v.Title != nil))
	case *ast.RawHTML:
		name = "RawHTML"
		var segs [][]byte
		for i := 0; i < v.Segments.Len(); i++ {
			s := v.Segments.At(i)
			segs = append(segs, s.Value(d.src))
		}
		emit(name, hexList(segs))
	case *ast.Text:
		name = "Text"
		val := v.Segment.Value(d.src)
		cjk := false
		if v.SoftLineBreak() && len(val) != 0 && d.ea != html.EastAsianLineBreaksNone {
			if b, ok := firstRuneOf(n.NextSibling(), d.src); ok {
				cjk = softLineBreakDecision(d, util.ToRune(val, len(val)-1), b)
			}
		}
		emit(name, hx(val), b2s(v.SoftLineBreak())+b2s(v.HardLineBreak())+b2s(v.IsRaw())+b2s(cjk))
	case *ast.String:
		name = "String"
		emit(name, hx(v.Value), b2s(v.IsRaw())+b2s(v.IsCode()))
	case *east.Table:
		name = "Table"
		emit(name)
	case *east.TableHeader:
		name = "TableHeader"
		emit(name)
	case *east.TableRow:
		name = "TableRow"
		emit(name)
	case *east.TableCell:
		name = "TableCell"
		a := int(v.Alignment) - 1
		if a < 0 || a > 3 {
			d.noModel = true
			a = 3
		}
		emit(name, strconv.Itoa(a))
	case *east.Strikethrough:
		name = "Strikethrough"
		emit(name)
	case *east.TaskCheckBox:
		name = "TaskCheckBox"
		emit(name, b2s(v.IsChecked))
	case *east.DefinitionList:
		name = "DefinitionList"
		emit(name)
	case *east.DefinitionTerm:
		name = "DefinitionTerm"
		emit(name)
	case *east.DefinitionDescription:
		name = "DefinitionDescription"
		emit(name, b2s(v.IsTight))
	case *east.FootnoteLink:
		name = "FootnoteLink"
		emit(name, nn(v.Index, d), nn(v.RefCount, d), nn(v.RefIndex, d))
	case *east.FootnoteBacklink:
		name = "FootnoteBacklink"
		emit(name, nn(v.Index, d), nn(v.RefCount, d), nn(v.RefIndex, d))
	case *east.Footnote:
		name = "Footnote"
		emit(name, nn(v.Index, d))
	case *east.FootnoteList:
		name = "FootnoteList"
		emit(name)
	default:
		emit("Other")
	}
	if d.kinds != nil {
		d.kinds[name]++
	}
	emit(d.attrs(n))
	for c := n.FirstChild(); c != nil; c = c.NextSibling() {
		d.node(c)
	}
	emit(")")
}

// DumpTree returns the token stream of the tree and whether the model can express it.
func DumpTree(root ast.Node, src []byte, ea html.EastAsianLineBreaks, kinds map[string]int) (string, bool) {
	d := &dumper{src: src, ea: ea, kinds: kinds}
	d.node(root)
	return strings.Join(d.toks, " "), !d.noModel
}

var _ = text.Segment{}

// firstRuneOf: first character of the first non-empty Text/String at or below n in document order
// (the rune handed to the real softLineBreak decision; the structural part is modelled in Lean).
func firstRuneOf(n ast.Node, src []byte) (rune, bool) {
	if n == nil {
		return 0, false
	}
	var v []byte
	switch t := n.(type) {
	case *ast.Text:
		v = t.Segment.Value(src)
	case *ast.String:
		v = t.Value
	}
	if len(v) != 0 {
		r, _ := utf8.DecodeRune(v)
		return r, true
	}
	for c := n.FirstChild(); c != nil; c = c.NextSibling() {
		if r, ok := firstRuneOf(c, src); ok {
			return r, true
		}
	}
	return 0, false
}

// ---------- position dump (read by lean/Driver/WfAst.lean; the formal statement of C05 is GM.Spec.AstWF) ----------

type posDumper struct {
	src  []byte
	ids  map[ast.Node]int
	toks []string
}

func (d *posDumper) id(n ast.Node) int {
	if v, ok := d.ids[n]; ok {
		return v
	}
	v := len(d.ids)
	d.ids[n] = v
	return v
}

func segTok(s text.Segment) string {
	return strconv.Itoa(s.Start) + ":" + strconv.Itoa(s.Stop) + ":" + strconv.Itoa(s.Padding)
}

func segsTok(ss []text.Segment) string {
	if len(ss) == 0 {
		return "_"
	}
	p := make([]string, len(ss))
	for i, s := range ss {
		p[i] = segTok(s)
	}
	return strings.Join(p, ",")
}

func idsTok(v []int) string {
	if len(v) == 0 {
		return "_"
	}
	p := make([]string, len(v))
	for i, x := range v {
		p[i] = strconv.Itoa(x)
	}
	return strings.Join(p, ",")
}

func (d *posDumper) node(n ast.Node, depth int) {
	id := d.id(n)
	var fwdNodes []ast.Node
	for c := n.FirstChild(); c != nil && len(fwdNodes) < 1<<16; c = c.NextSibling() {
		fwdNodes = append(fwdNodes, c)
	}
	var bwdNodes []ast.Node
	for c := n.LastChild(); c != nil && len(bwdNodes) < 1<<16; c = c.PreviousSibling() {
		bwdNodes = append(bwdNodes, c)
	}
	var fwd, bwd []int
	for _, c := range fwdNodes {
		fwd = append(fwd, d.id(c))
	}
	for i := len(bwdNodes) - 1; i >= 0; i-- {
		bwd = append(bwd, d.id(bwdNodes[i]))
	}
	parent := -1
	if p := n.Parent(); p != nil {
		if v, ok := d.ids[p]; ok {
			parent = v
		} else {
			parent = -2
		}
	}
	t := "b"
	switch n.Type() {
	case ast.TypeDocument:
		t = "d"
	case ast.TypeInline:
		t = "i"
	}
	var segs []text.Segment
	isLines := false
	level := 0
	switch v := n.(type) {
	case *ast.Text:
		segs = []text.Segment{v.Segment}
	case *ast.RawHTML:
		for i := 0; i < v.Segments.Len(); i++ {
			segs = append(segs, v.Segments.At(i))
		}
	case *ast.Heading:
		level = v.Level
	case *ast.Emphasis:
		level = v.Level
	}
	if n.Type() != ast.TypeInline {
		if ls := n.Lines(); ls != nil {
			isLines = true
			for i := 0; i < ls.Len(); i++ {
				segs = append(segs, ls.At(i))
			}
		}
	}
	var xsegs []text.Segment
	switch v := n.(type) {
	case *ast.FencedCodeBlock:
		if v.Info != nil {
			xsegs = append(xsegs, v.Info.Segment)
		}
	case *ast.HTMLBlock:
		if v.HasClosure() {
			xsegs = append(xsegs, v.ClosureLine)
		}
	}
	d.toks = append(d.toks, n.Kind().String(), t, strconv.Itoa(id), strconv.Itoa(parent), strconv.Itoa(n.ChildCount()), b2s(n.HasChildren()),
		idsTok(fwd), idsTok(bwd), segsTok(segs), b2s(isLines), segsTok(xsegs), strconv.Itoa(level))
	if depth < 4000 {
		for _, c := range fwdNodes {
			d.node(c, depth+1)
		}
	}
	d.toks = append(d.toks, ")")
}

// DumpPositions returns the token stream for `wfast check`.
func DumpPositions(root ast.Node, src []byte) string {
	d := &posDumper{src: src, ids: map[ast.Node]int{}}
	d.node(root, 0)
	return strings.Join(d.toks, " ")
}
