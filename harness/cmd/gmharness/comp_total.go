package main

// Component `total` (C01 search): Convert and Parse+Render return normally, with a nil error, within a time
// bound far above what a correct run needs, for every input and configuration tried.

import (
	"bytes"
	"fmt"
	"sort"
	"strings"
	"sync"
	"time"

	"github.com/yuin/goldmark/text"
)

func init() {
	register(&Component{
		Name: "total",
		Rule: "exhaustive: every string of length <= N over a 22-symbol Markdown-significant alphabet under 4 extreme configurations; random: mutated corpus / generated / adversarial documents and deep-nesting generators under configurations drawn from the full lattice, by Convert and by Parse+Render; watchdog per input; non-trivial = output is not a single plain paragraph; distinct = distinct (configuration, input)",
		Gen:  genTotal,
		Impl: implTotal,
		Exhaustive: true,
		Scope: func(tier string) string {
			if tier == "thorough" {
				return "all strings of length <= 4 over 22 symbols and <= 5 over 18 symbols x 4 configurations + 300k documents x lattice + deep nesting up to 20000"
			}
			return "all strings of length <= 4 over 22 symbols under the 2 all-extension configurations, <= 3 under the other 2, and <= 4 over 11 symbols under all 4 + 12k documents x lattice + deep nesting up to 3000"
		},
	})
}

var totalAlphabet = syms("*", "_", "`", "[", "]", "(", ")", "<", ">", "!", "#", "-", "|", ":", "~", "\\", "&", "\n", " ", "a", "\t", "\x80")
var totalAlphabetCore = syms("*", "_", "`", "[", "]", "(", "<", "-", "\n", " ", ">")
var totalAlphabetSmall = syms("*", "_", "`", "[", "]", "(", "<", ">", "#", "-", "|", ":", "\\", "&", "\n", " ", "a", "\xe3\x81\x82")

var extremeCfgs = []Cfg{
	{},
	{Exts: "tskldfy1e", AutoID: true, Attr: true},
	{Exts: "tskldfy2e", AutoID: true, Attr: true, XHTML: true, HardWraps: true, Unsafe: true},
	{Exts: "tskl", Unsafe: true},
}

func deepDoc(rng *RNG, depth int) []byte {
	switch rng.Intn(8) {
	case 0:
		return []byte(strings.Repeat("> ", depth) + "a\n")
	case 1:
		return []byte(strings.Repeat("- ", depth) + "a\n")
	case 2:
		return []byte(strings.Repeat("*", depth) + "a" + strings.Repeat("*", depth) + "\n")
	case 3:
		return []byte(strings.Repeat("[", depth) + "a" + strings.Repeat("](u)", depth) + "\n")
	case 4:
		return []byte(strings.Repeat("[", depth) + "\n")
	case 5:
		return []byte(strings.Repeat("`", depth) + "a" + "\n")
	case 6:
		return []byte(strings.Repeat("1. ", depth/3) + strings.Repeat("> ", depth/3) + "a\n" + strings.Repeat("*_", depth) + "\n")
	default:
		return []byte(strings.Repeat("<a ", depth) + strings.Repeat("\\", depth) + strings.Repeat("&#", depth/4) + "\n")
	}
}

func genTotal(tier string, rng *RNG, emit func(Case)) {
	// quick: every string of length <= 3 over the 22-symbol alphabet and of length <= 4 over its 11 most
	// structure-bearing symbols; thorough: length <= 4 over all 22 and length <= 5 over 18
	ndocs, maxDepth := 12000, 3000
	type scope struct {
		alpha [][]byte
		n     int
	}
	scopes := []scope{{totalAlphabet, 3}, {totalAlphabetCore, 4}}
	if tier == "thorough" {
		ndocs, maxDepth = 300000, 20000
		scopes = []scope{{totalAlphabet, 4}, {totalAlphabetSmall, 5}}
	}
	for ci := range extremeCfgs {
		for si, sc := range scopes {
			if tier != "thorough" && si == 0 && (ci == 1 || ci == 2) {
				sc.n = 4 // the two all-extension configurations get the full 22-symbol alphabet to length 4 in the quick tier as well
			}
			enumStrings(sc.alpha, sc.n, func(b []byte) {
				emit(Case{Op: "x", Args: []string{fmt.Sprint(ci), hx(b)}})
			})
		}
	}
	// heading attribute blocks: every string of length <= 4 (thorough 5) over an attribute-syntax alphabet after "# a ",
	// as ATX and as Setext heading, under the two configurations that have Attribute and AutoHeadingID on
	attrN := 4
	if tier == "thorough" {
		attrN = 5
	}
	enumStrings(syms("{", "}", "=", "5", "i", "d", "\"", "[", "]", ",", ".", "#", " ", "-", "t"), attrN, func(b []byte) {
		emit(Case{Op: "x", Args: []string{"1", hx(append([]byte("# a "), b...))}})
		emit(Case{Op: "x", Args: []string{"2", hx(append(append([]byte("a "), b...), "\n===\n"...))}})
	})
	// every BMP scalar value (stride above) directly before and after a delimiter run, a bracket and a backslash:
	// per-rune table lookups in the flanking / punctuation / width classifiers
	for r := 0x80; r < 0x110000; r++ {
		if r >= 0xD800 && r <= 0xDFFF || (r >= 0x10000 && r%257 != 0) {
			continue
		}
		if tier != "thorough" && r >= 0x3400 && r < 0xF900 && r%5 != 0 {
			continue
		}
		x := string(rune(r))
		emit(Case{Op: "x", Args: []string{fmt.Sprint(1 + r%2), hx([]byte(x + "*a*" + x + " _" + x + "_ [" + x + "](" + x + ") \\" + x + "\n" + x + "\n# " + x + "\n"))}})
	}
	lattice := FullLattice()
	DocStream(rng, ndocs, func(kind string, d []byte) {
		c := lattice[rng.Intn(len(lattice))]
		emit(Case{Op: "d", Args: []string{c.Name(), hx(d)}})
	})
	for _, depth := range []int{10, 100, 1000, maxDepth} {
		for k := 0; k < 24; k++ {
			c := lattice[rng.Intn(len(lattice))]
			emit(Case{Op: "d", Args: []string{c.Name(), hx(deepDoc(rng, depth))}})
		}
	}
}

// per-size timing statistics for the watchdog bound
var totalMu sync.Mutex
var totalTimes = map[int][]time.Duration{}

func sizeClass(n int) int {
	c := 0
	for n > 0 {
		n >>= 1
		c++
	}
	return c
}

var totalBounds = map[int]time.Duration{}
var totalBoundAt = map[int]int{}

func watchdogBound(n int) time.Duration {
	totalMu.Lock()
	defer totalMu.Unlock()
	k := sizeClass(n)
	ts := totalTimes[k]
	bound := 2 * time.Second
	if len(ts) >= 20 {
		// the median is recomputed only every 256 samples
		if b, ok := totalBounds[k]; ok && len(ts)-totalBoundAt[k] < 256 {
			bound = b
		} else {
			s := append([]time.Duration{}, ts...)
			sort.Slice(s, func(i, j int) bool { return s[i] < s[j] })
			if b := 200 * s[len(s)/2]; b > bound {
				bound = b
			}
			totalBounds[k], totalBoundAt[k] = bound, len(ts)
		}
	}
	if n > 10000 {
		bound += time.Duration(n/1000) * 100 * time.Millisecond
	}
	return bound
}

func implTotal(cs Case) ImplResult {
	var c Cfg
	if cs.Op == "x" {
		var ci int
		fmt.Sscan(cs.Args[0], &ci)
		c = extremeCfgs[ci]
	} else {
		c = ParseCfg(cs.Args[0])
	}
	src := unhx(cs.Args[1])
	type outcome struct {
		out1, out2 []byte
		err        string
		pan        string
	}
	done := make(chan outcome, 1)
	t0 := time.Now()
	go func() {
		var o outcome
		defer func() {
			if r := recover(); r != nil {
				o.pan = fmt.Sprint(r)
			}
			done <- o
		}()
		md := pooledMarkdown(c)
		defer releaseMarkdown(c, md)
		var b1, b2 bytes.Buffer
		if err := md.Convert(src, &b1); err != nil {
			o.err = "Convert: " + err.Error()
		}
		doc := md.Parser().Parse(text.NewReader(src))
		if err := md.Renderer().Render(&b2, src, doc); err != nil {
			o.err = "Render: " + err.Error()
		}
		o.out1, o.out2 = b1.Bytes(), b2.Bytes()
	}()
	bound := watchdogBound(len(src))
	res := ImplResult{Out: "ok", NoModel: true}
	select {
	case o := <-done:
		el := time.Since(t0)
		totalMu.Lock()
		k := sizeClass(len(src))
		if len(totalTimes[k]) < 5000 {
			totalTimes[k] = append(totalTimes[k], el)
		}
		totalMu.Unlock()
		if o.pan != "" {
			res.Fails = append(res.Fails, OracleFail{"C01", "panic", fmt.Sprintf("config %s source %q: panic %s", c.Name(), src, o.pan)})
		}
		if o.err != "" {
			res.Fails = append(res.Fails, OracleFail{"C01", "error-returned", fmt.Sprintf("config %s source %q: %s", c.Name(), src, o.err)})
		}
		if o.pan == "" && !bytes.Equal(o.out1, o.out2) {
			res.Fails = append(res.Fails, OracleFail{"C06", "convert-differs-from-parse-render", fmt.Sprintf("config %s source %q", c.Name(), src)})
		}
		if !bytes.HasPrefix(o.out1, []byte("<p>")) || bytes.Count(o.out1, []byte("<")) > 2 {
			res.Key = c.Name() + "|" + cs.Args[1]
		}
	case <-time.After(bound):
		res.Fails = append(res.Fails, OracleFail{"C01", "timeout", fmt.Sprintf("config %s source of %d bytes %q…: no result after %v", c.Name(), len(src), src[:min(len(src), 80)], bound)})
	}
	return res
}
