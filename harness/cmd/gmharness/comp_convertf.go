package main

// Component `convertf`: WHOLE documents through
// `goldmark.New(goldmark.WithExtensions(extension.Footnote), goldmark.WithRendererOptions(…)).Convert` (default CommonMark
// configuration + the Footnote extension at default options, or with WithFootnoteIDPrefix) for two renderer option sets
// (default; Unsafe + XHTML + HardWraps), against the Lean composition GM.ConvertF.convertF true
// (lean/GM/Model/ConvertF.lean: the block driver with footnoteBlockParser Open / Continue / Close and the FootnoteList in the
// parse context, the inline loop with footnoteParser in front of the link parser, the AST transformer written back into the
// tree, FootnoteHTMLRenderer). One case = one document; the compared line is
//     g<0|1> c1 <r0> <r1> <labels> <events>
//   r_i    the HTML, byte for byte (lower-case hex; `=0` when r1 is identical to r0)
//   g      as in component `convert` (a probe paragraph transformer predicts the transformer guard)
//   c      the model reports whether the tree it renders shows exactly the ids / hrefs / numbers of GM.Footnote.render on ITS
//          abstraction and whether that output satisfies GM.Spec.Footnote.Consistent; the harness expects `c1` always
//   labels, events   the ABSTRACTION GM.Props.C16 speaks about, in the protocol form of component `footnote`: on the real side
//          observed by the two passive probes of comp_footnote.go (here on a Markdown WITHOUT Table), on the model side computed
//          by GM.ConvertF.absOf from the concrete parse — theorem `convertf_events_are_abstraction` + this comparison replace
//          the trust in the probes.
//
// Oracles on the REAL output, independent of the model:
//   C16  `fnOracle` of comp_footnote.go on the ids / hrefs extracted from the unprobed HTML
//   C01  convertf-panic / convertf-error (every conversion), probe-changes-output
//   C11  footnote-changes-document-without-trigger: a source without the two bytes `[^` converts to the same HTML with and
//        without the extension (both option sets)

import (
	"bytes"
	"fmt"
	"strconv"
	"strings"
	"sync"

	"github.com/yuin/goldmark"
	gast "github.com/yuin/goldmark/ast"
	"github.com/yuin/goldmark/extension"
	east "github.com/yuin/goldmark/extension/ast"
	"github.com/yuin/goldmark/parser"
	"github.com/yuin/goldmark/renderer"
	"github.com/yuin/goldmark/renderer/html"
	"github.com/yuin/goldmark/text"
	"github.com/yuin/goldmark/util"
)

func init() {
	register(&Component{
		Name:       "convertf",
		Rule:       "whole documents with extension.Footnote: every document of <= N tokens over the footnote token alphabet of component `footnote`, ALL strings up to a length bound over a byte-level footnote alphabet (complete) and inside definition / reference / label / continuation / container contexts, extension/_test/footnote.txt and the other repo corpora, spec.json, the fnGen document generator, the document generators of docs.go; 2 renderer option sets, id prefixes none and `p-`; non-trivial = at least one footnote item rendered; distinct = distinct (items, references) outputs",
		Gen:        genConvertF,
		Impl:       implConvertF,
		Exhaustive: true,
		Scope: func(tier string) string {
			if tier == "thorough" {
				return "ALL documents of <= 6 tokens over the 8 footnote tokens (299,593); ALL strings of length <= 5 over the 11-symbol byte alphabet ([ ^ ] : a space newline ! > - 4-spaces), <= 6 over its 8 symbols without ! > -, <= 4 inside 8 contexts, <= 5 inside 2; spec.json x2, corpus; 60k fnGen documents; 20k generated/mutated/adversarial documents; 60k random strings"
			}
			return "ALL documents of <= 5 tokens over the 8 footnote tokens (37,449); ALL strings of length <= 4 over the 11-symbol byte alphabet ([ ^ ] : a space newline ! > - 4-spaces), <= 5 over its 8 symbols without ! > - (37,448), <= 3 inside 8 contexts, <= 4 inside 2; spec.json x2, corpus; 6k fnGen documents; 1.5k generated/mutated/adversarial documents; 6k random strings"
		},
	})
}

var cfOnce sync.Once
var cfMD [2][2]goldmark.Markdown // [prefix none / "p-"][option set]
var cfProbeMD goldmark.Markdown

const cfPrefix = "p-"

func cfROpts(i int) []renderer.Option {
	if i == 1 {
		return []renderer.Option{html.WithUnsafe(), html.WithXHTML(), html.WithHardWraps()}
	}
	return nil
}

func cfInit() {
	cvInit()
	cfOnce.Do(func() {
		for p := 0; p < 2; p++ {
			for i := 0; i < 2; i++ {
				var fe goldmark.Extender = extension.Footnote
				if p == 1 {
					fe = extension.NewFootnote(extension.WithFootnoteIDPrefix(cfPrefix))
				}
				cfMD[p][i] = goldmark.New(goldmark.WithExtensions(fe), goldmark.WithRendererOptions(cfROpts(i)...))
			}
		}
		cfProbeMD = goldmark.New(
			goldmark.WithExtensions(extension.Footnote),
			goldmark.WithParserOptions(
				parser.WithParagraphTransformers(util.Prioritized(cvProbe{}, 50)),
				parser.WithInlineParsers(util.Prioritized(&fnWrapParser{inner: extension.NewFootnoteParser()}, 100)),
				parser.WithASTTransformers(util.Prioritized(fnProbeTransformer{}, 998)),
			),
		)
	})
}

func cfConvert(md goldmark.Markdown, what string, src []byte) (out []byte, fail *OracleFail) {
	defer func() {
		if r := recover(); r != nil {
			fail = &OracleFail{"C01", "convertf-panic", fmt.Sprintf("%s: %v; source %q", what, r, src)}
			out = []byte("panic")
		}
	}()
	buf := make([]byte, len(src)) // no spare capacity
	copy(buf, src)
	var w bytes.Buffer
	if err := md.Convert(buf, &w); err != nil {
		return w.Bytes(), &OracleFail{"C01", "convertf-error", fmt.Sprintf("%s: %v", what, err)}
	}
	return w.Bytes(), nil
}

// cfProbeRun: fnParseWith of comp_footnote.go on cfProbeMD, with the guard probe of comp_convert.go in the same context
func cfProbeRun(src []byte) (r *fnRun, st *cvProbeState, htmlOut []byte, fail *OracleFail) {
	st = &cvProbeState{}
	defer func() {
		if rec := recover(); rec != nil {
			fail = &OracleFail{"C01", "convertf-panic", fmt.Sprintf("probed parse: %v; source %q", rec, src)}
			r = nil
		}
	}()
	buf := make([]byte, len(src))
	copy(buf, src)
	pc := parser.NewContext()
	pc.Set(cvProbeKey, st)
	doc := cfProbeMD.Parser().Parse(text.NewReader(buf), parser.WithContext(pc))
	r = &fnRun{d: fnData(pc), doc: doc}
	d := r.d
	if !d.probeRan {
		r.errs = append(r.errs, "probe-transformer-did-not-run")
	}
	if len(d.fnlist) != len(d.parsed) {
		r.errs = append(r.errs, fmt.Sprintf("link-list-has-%d-links-wrapper-saw-%d", len(d.fnlist), len(d.parsed)))
	} else {
		for i := range d.fnlist {
			if d.fnlist[i] != d.parsed[i].node {
				r.errs = append(r.errs, "link-list-order-differs-from-call-order")
				break
			}
		}
	}
	var ls, es []string
	for _, f := range d.defs {
		ls = append(ls, hx(f.Ref))
	}
	for i, p := range d.parsed {
		if !p.shape {
			r.errs = append(r.errs, "consumed-text-not-a-reference")
		}
		es = append(es, hx(p.label)+":"+b2s(d.dropped[i])+":"+strconv.Itoa(d.host[i]))
	}
	r.labels, r.events = "_", "_"
	if len(ls) > 0 {
		r.labels = strings.Join(ls, ",")
	}
	if len(es) > 0 {
		r.events = strings.Join(es, ",")
	}
	var w bytes.Buffer
	if err := cfProbeMD.Renderer().Render(&w, buf, doc); err != nil {
		r.errs = append(r.errs, "render-error:"+err.Error())
	}
	return r, st, w.Bytes(), nil
}

func implConvertF(c Case) ImplResult {
	cfInit()
	if c.Op != "doc" || len(c.Args) != 2 {
		return ImplResult{Out: "bad-op", NoModel: true}
	}
	p := 0
	if c.Args[0] != "-" {
		p = 1
	}
	prefix := []string{"", cfPrefix}[p]
	src := unhx(c.Args[1])
	var res ImplResult
	addFail := func(f *OracleFail) {
		if f != nil && len(res.Fails) < 4 {
			res.Fails = append(res.Fails, *f)
		}
	}
	outs := make([][]byte, 2)
	for i := 0; i < 2; i++ {
		o, f := cfConvert(cfMD[p][i], fmt.Sprintf("footnote, prefix %q, option set %d", prefix, i), src)
		outs[i] = o
		addFail(f)
	}
	// C11 on the real outputs
	if !bytes.Contains(src, []byte("[^")) {
		res.Stats = append(res.Stats, "c11-checked")
		for i, ci := range []int{0, 7} {
			o, f := cfConvert(cvMD[ci], fmt.Sprintf("core, option set %d", i), src)
			addFail(f)
			if !bytes.Equal(o, outs[i]) {
				addFail(&OracleFail{"C11", "footnote-changes-document-without-trigger",
					fmt.Sprintf("option set %d source %q: with %q without %q", i, src, outs[i], o)})
				break
			}
		}
	}
	// the probed parse: abstraction, g-flag, C16 oracle
	r, st, probed, f := cfProbeRun(src)
	addFail(f)
	labels, events := "?", "?"
	g := "g0 "
	if r != nil {
		labels, events = r.labels, r.events
		if len(r.errs) > 0 {
			labels = "probe-error:" + strings.Join(r.errs, "|")
		}
		if st.guard {
			g = "g1 "
			res.Stats = append(res.Stats, "guard-fired-as-predicted(lines-not-wellformed)")
		}
		if p == 0 && !bytes.Equal(probed, outs[0]) {
			addFail(&OracleFail{"C01", "probe-changes-output", fmt.Sprintf("source %q: probed %q unprobed %q", src, probed, outs[0])})
		}
		h := fnExtract(string(outs[0]))
		if len(h.items) > 0 || len(h.refs) > 0 || len(r.d.defs) > 0 {
			var itemSrc []int
			_ = gast.Walk(r.doc, func(n gast.Node, entering bool) (gast.WalkStatus, error) {
				if v, ok := n.(*east.Footnote); ok && entering {
					s := -1
					for i, df := range r.d.defs {
						if df == v {
							s = i
						}
					}
					itemSrc = append(itemSrc, s)
				}
				return gast.WalkContinue, nil
			})
			for _, of := range fnOracle(prefix, src, h, r, itemSrc) {
				of := of
				addFail(&of)
			}
		}
		if len(h.items) > 0 {
			res.Stats = append(res.Stats, "docs-with-footnote-item")
			var ks []string
			for _, it := range h.items {
				ks = append(ks, it.id+"["+strings.Join(it.backs, " ")+"]")
			}
			for _, rf := range h.refs {
				ks = append(ks, rf.id+">"+rf.href)
			}
			res.Key = strings.Join(ks, ",")
		}
		if len(h.refs) > 0 {
			res.Stats = append(res.Stats, "docs-with-rendered-reference")
		}
		if len(r.d.defs) > 0 {
			res.Stats = append(res.Stats, "docs-with-definition")
			if len(h.items) < len(r.d.defs) {
				res.Stats = append(res.Stats, "docs-with-removed-definition")
			}
		}
		for i := range r.d.parsed {
			if r.d.dropped[i] {
				res.Stats = append(res.Stats, "docs-with-reference-under-image")
				break
			}
		}
		for i := range r.d.parsed {
			if r.d.host[i] >= 0 {
				res.Stats = append(res.Stats, "docs-with-reference-inside-definition")
				break
			}
		}
	}
	r1 := hx(outs[1])
	if bytes.Equal(outs[0], outs[1]) {
		r1 = "=0"
	}
	res.Out = g + "c1 " + hx(outs[0]) + " " + r1 + " " + labels + " " + events
	res.ModelLine = "convertf doc " + c.Args[0] + " " + c.Args[1] + " " + cvUC(src)
	return res
}

// ---------- generators ----------

var cfAlphabet = syms("[", "^", "]", ":", "a", " ", "\n", "!", ">", "-", "    ")
var cfAlphabet8 = syms("[", "^", "]", ":", "a", " ", "\n", "    ")

type cfCtx struct {
	pre, suf string
	qn, tn   int
}

var cfContexts = []cfCtx{
	{"[^a]:", "\n\nx[^a]\n", 4, 5},                      // what follows the colon: body, continuation, end of the definition
	{"x[^a]\n\n[^a]: b\n", "\n", 4, 5},                  // continuation lines of a definition
	{"[^", "]: d\n\n[^a] [^ a]\n", 3, 4},                // labels
	{"y [^a]", " z\n\n[^a]: d\n", 3, 4},                 // behind a reference
	{"y ", "[^a] z\n\n[^a]: d\n\n[^b]: e\n", 3, 4},      // in front of a reference (`!`, `[`, …)
	{"> [^a]: x\n", "\n\n[^a]\n", 3, 4},                 // definition inside a quote
	{"- [^a]: x\n", "\n\n[^a] [^b]\n", 3, 4},            // definition inside a list item
	{"[^a]: x\n\n    [^b]: y\n", "\n[^b] [^a]\n", 3, 4}, // nested definition
	{"p\n", "[^a]: q\n\n[^a]\n", 3, 4},                  // interrupting a paragraph
	{"![", "[^a]](u) [^a]\n\n[^a]: d\n", 3, 4},          // image alt text
}

var cfFixed = []string{
	"![x[^1]](y)\n\n[^1]: d",     // F13
	"[^a]: see[^b]\n\n[^b]: bee", // F13
	"[^1]: a\n\n    [^1]: b",     // F21
	"[^a]: x\n    [^b]: y\n\nref[^a] and[^b]",
	"[^a]: x\n\n    [^b]: y\n\n        [^c]: z\n\n[^c] [^b] [^a]\n",
	"> [^a]: x\n\nref[^a]", "- [^a]: x\n\nref[^a]", "> - [^a]: x\n> \n>       y\n\nref[^a]\n",
	"a[^1] b[^2] c[^1]\n\n[^2]: two\n[^1]: one [^2]\n[^3]: three",
	"a !x^abc] b\n\n[^abc]: d\n", "![^a] !![^a]\n\n[^a]: d\n", "a![^a]\n\n[^a]: ![^a]\n",
	"[^a]:\n[^a]\n", "[^a]:", "[^a]: ", "[^a]:\n", "[^a]:\n\n    x\n\n[^a]\n", "[^a]: x\n   y\n    z\n  \n    w\n\n[^a]",
	"[^a]: - x\n    - y\n\n[^a]\n", "[^a]: > q\n\n[^a]\n", "[^a]: # h\n\n[^a]\n", "[^a]:     code\n\n[^a]\n", "[^a]: ```\n    c\n    ```\n\n[^a]\n",
	"[^a]: x\n[^a]: dup\n\n[^a]\n", "[^ ]: x\n\n[^ ]\n", "[^\t]: x\n", "[^a b]: x\n\n[^a b] [^a  b]\n", "[^a\\]]: x\n\n[^a\\]]\n", "[^a[]: x\n", "[^a]] : x\n",
	"[^a]: x\n\n[^a][^a][^a][^a][^a][^a][^a][^a][^a][^a][^a]\n", "x[^b]\n\n[^a]: 1\n[^b]: 2\n[^c]: 3\n\ny[^c] z[^a]\n",
	"   [^a]: x\n\n[^a]\n", "    [^a]: x\n\n[^a]\n", "\t[^a]: x\n", ">\t[^a]: x\n>\t    y\n\n[^a]\n", "-\t[^a]: x\n\n[^a]\n",
	"[^a]: x\n\ty\n\n[^a]\n", "[^a]: x\n  \ty\n\n\tz\n\n[^a]\n", "[^a]:\tx\n\n[^a]\n",
	"[x[^a]](u) [y][^a] [^a][y] [[^a]]\n\n[^a]: d\n\n[y]: /v\n", "*[^a]* **x[^a]** `[^a]` \\[^a] <[^a]>\n\n[^a]: d\n",
	"[^a]: [^a]\n\n[^a]\n", "[^a]: [^b]\n[^b]: [^a]\n", "[^a]: [^b]\n[^b]: [^a]\n\n[^a]\n",
	"# h[^a]\n\nt[^a]\n===\n\n[^a]: d\n", "[^a]: d\r\n\r\n[^a]\r\n", "[^a]: d\n\n[^a]", "[^é]: d\n\n[^é]\n", "[^a]: d\n\n[^A]\n",
	"para\n[^a]: d\n[^a]\n", "[^a]: d\n===\n", "[^a]: d\n---\n\n[^a]\n", "- a\n[^a]: d\n- b[^a]\n", "[^a]: d\n\n[^a]: /url\n\n[^a]\n", "[^a] : d\n\n[^a]\n",
	"[^1]: a\n\n<div>\n[^1]\n</div>\n\n[^1]\n", "[^1]: *a\n\n    b*\n\n[^1]\n",
}

func genConvertF(tier string, rng *RNG, emit func(Case)) {
	thorough := tier == "thorough"
	pick := func(q, t int) int {
		if thorough {
			return t
		}
		return q
	}
	docP := func(p string, b []byte) { emit(Case{Op: "doc", Args: []string{p, hx(b)}}) }
	doc := func(b []byte) { docP("-", b) }
	pre := hx([]byte(cfPrefix))
	// 0. fixed
	for _, s := range cfFixed {
		doc([]byte(s))
		docP(pre, []byte(s))
	}
	// 1. exhaustive small scopes: the token alphabet of component `footnote`, the byte-level alphabet, contexts
	var toks [][]byte
	for _, t := range fnTokens {
		toks = append(toks, []byte(t))
	}
	enumStrings(toks, pick(5, 6), doc)
	enumStrings(cfAlphabet, pick(4, 5), doc)
	enumStrings(cfAlphabet8, pick(5, 6), doc) // (the shorter ones are also among the strings over the full alphabet)
	for _, s := range cfContexts {
		s := s
		enumStrings(cfAlphabet, pick(s.qn, s.tn), func(b []byte) { doc([]byte(s.pre + string(b) + s.suf)) })
	}
	// 2. spec.json, corpora (extension/_test/footnote.txt among them)
	for _, e := range SpecExamples() {
		doc([]byte(strings.TrimSuffix(e.Markdown, "\n")))
	}
	for _, d := range CorpusDocs() {
		doc(d)
	}
	// 3. the document generator of component `footnote`
	g := &fnGen{rng: rng}
	for i, n := 0, pick(6000, 60000); i < n; i++ {
		if i%5 == 4 {
			docP(pre, g.doc())
		} else {
			doc(g.doc())
		}
	}
	// 4. the document generators of docs.go
	DocStream(rng, len(CorpusDocs())+pick(1500, 20000), func(kind string, d []byte) {
		if kind != "corpus" {
			doc(d)
		}
	})
	// 5. random strings
	rtoks := syms("[^a]", "[^b]", "[^a]: ", "[^b]: ", "\n[^a]: ", "\n\n", "\n", "    ", "  ", "\t", "> ", "- ", "1. ", "x", " ", "![", "](u)", "[", "]", "^", ":", "!", "*", "`", "\\", "# ", "===", "---", "é", "[r]: /u", "<a>")
	for i, n := 0, pick(6000, 60000); i < n; i++ {
		if i%2 == 0 {
			doc(randString(rng, cfAlphabet, 30))
		} else {
			doc(randString(rng, rtoks, 20))
		}
	}
}
