//go:build verif

package main

// Component `asttrace` (C05 (a), the tie between the PARSER and the C13 refinement theorem).
//
// The `verif` hook ast.VerifTrace reports every top-level call of the seven tree mutators. One case =
// one (configuration, document): the document is parsed with the hook set to a recorder, nodes are
// numbered by first appearance, and the call list is sent to the Lean driver, which replays it on the
// pointer-heap model GM.Model.AstHeap from the empty heap, checking the proviso of C13 (`Pre`) before
// every call (GM.AstTrace.runChecked, proved exact: GM.Props.C05.checked_replay_exact). The driver's
// dump of the final model heap (reachable part, depth-first) must be byte-identical with the dump of
// the REAL final tree produced here from the public accessors.
//
// Oracle, independent of the model: the proviso is also evaluated here, on the real tree, at the
// moment of each call (nil arguments, reference node == inserted node, inserted node is the target
// parent or one of its ancestors by walking Parent()). A call outside it is reported as
// C05/mutator-precondition-violated with the call; the parse is then abandoned (a tree with a cycle can
// hang the parser) and the expected model answer is `pre-violated@k:<call>`. The clause carries the call and
// the kinds involved, e.g. mutator-precondition-violated:append(FootnoteList,Footnote).

import (
	"os"
	"strconv"
	"strings"
	"sync"

	"github.com/yuin/goldmark/ast"
	"github.com/yuin/goldmark/text"
)

func init() {
	register(&Component{
		Name: "asttrace",
		Rule: "one case = the complete mutator-call trace of one Parse; non-trivial = trace uses a call other than AppendChild; distinct = distinct (configuration, set of call kinds, whether a moved node had a parent)",
		Gen:  genAstTrace,
		Impl: implAstTrace,
		Scope: func(tier string) string {
			if tier == "thorough" {
				return "all strings of length <= 4 over a 12-symbol alphabet x all-extensions configuration (exhaustive) + all corpus documents x 8 corner configurations + regression documents + 60k documents x random configurations"
			}
			return "all strings of length <= 4 over a 12-symbol alphabet x all-extensions configuration (exhaustive) + all corpus documents x 8 corner configurations + regression documents + 6k documents x random configurations"
		},
		Exhaustive: true,
	})
}

var astTraceRegress = []string{
	"- Foo\n--\n", "- Foo\n--", "| a |\n|-|\n| b |\n", "a\n|-|-|\n", "a|b\n-|-\n`x\\|y`|z\n", "| `a\\|b` | c |\n|---|---|\n| d | `e\\|f\\|g` |\n",
	"[^1] and [^2] and [^1]\n\n[^2]: two\n[^1]: one\n", "[^a]\n\n[^b]: unused\n[^a]: used\n\n    code\n", "x[^1]\n\n[^1]: a\n\n[^1]: dup\n",
	"term\n: def\n\nterm2\n: d1\n: d2\n", "a\n: b\n\n  c\n", "- [ ] t\n- [x] u\n", "Foo\nbar\n---\nbaz\n===\n", "[a]: /u\n[a]\n===\n", "[a]: /u\n===\n",
	"*a **b* c** [l](u \"t\") ![i](u) <http://x> `c` ~~s~~ http://e.com\n", "> - a\n>   b\n> - c\n\n1. x\n\n   y\n", "[foo][bar]\n\n[bar]: /u\n", "[a [b](c) d](e)\n",
	"[^1]: a\n\n    [^1]: b\n", "x[^1] y[^2]\n\n[^1]: a\n\n    [^2]: b\n", "> [^1]: a\n\nx[^1]\n", // footnote definitions nested in a footnote / a quote
	"# h {#id .c}\n\nh2 {a=b}\n--\n", "<div>\n*x*\n</div>\n\n```go\nc\n```\n", "",
}

func genAstTrace(tier string, rng *RNG, emit func(Case)) {
	n := 6000
	if tier == "thorough" {
		n = 60000
	}
	full := Cfg{Exts: "tskldfy", AutoID: true, Attr: true}.Name()
	// exhaustive small scope
	alpha := []byte("a \n-*|[]`:>=")
	var rec func(prefix []byte, left int)
	rec = func(prefix []byte, left int) {
		emit(Case{Op: "doc", Args: []string{full, hx(prefix)}})
		if left == 0 {
			return
		}
		for _, c := range alpha {
			rec(append(append([]byte{}, prefix...), c), left-1)
		}
	}
	rec(nil, 4)
	for _, d := range astTraceRegress {
		for _, c := range CornerCfgs() {
			emit(Case{Op: "doc", Args: []string{c.Name(), hx([]byte(d))}})
		}
	}
	for _, d := range CorpusDocs() {
		for _, c := range CornerCfgs() {
			emit(Case{Op: "doc", Args: []string{c.Name(), hx(d)}})
		}
	}
	DocStream(rng, len(CorpusDocs())+n, func(kind string, d []byte) {
		if kind == "corpus" {
			return
		}
		emit(Case{Op: "doc", Args: []string{randCfg(rng).Name(), hx(d)}})
	})
}

// ast.VerifTrace is a package variable: one recording parse at a time.
var astTraceMu sync.Mutex

type astTraceAbort struct{}

type astTraceRec struct {
	ids      map[ast.Node]int
	toks     []string
	kinds    map[string]bool
	moved    bool   // some inserted node still had a parent (ensureIsolated did work)
	violated int    // index of the first call outside the proviso, -1 = none
	violKind string // "<call>(<kind of target parent>,<kind of inserted node>)" of that call
	linkFail string // first node of the final real tree whose link fields disagree with its child sequence
}

func (r *astTraceRec) id(n ast.Node) int {
	if i, ok := r.ids[n]; ok {
		return i
	}
	i := len(r.ids)
	r.ids[n] = i
	return i
}

func (r *astTraceRec) ref(n ast.Node) string {
	if n == nil {
		return "n"
	}
	return strconv.Itoa(r.id(n))
}

// isAnc: c is p or one of p's ancestors (walking the real Parent() chain)
func astTraceIsAnc(c, p ast.Node) bool {
	steps := 0
	for q := p; q != nil; q = q.Parent() {
		if q == c {
			return true
		}
		if steps++; steps > 1<<20 {
			return true // a parent chain this long is a cycle
		}
	}
	return false
}

func (r *astTraceRec) hook(op string, self, a, b ast.Node) {
	if r.violated >= 0 {
		return
	}
	var tok string
	bad := false
	switch op {
	case "append":
		tok = "a." + r.ref(self) + "." + r.ref(a)
		bad = a == nil || astTraceIsAnc(a, self)
		r.moved = r.moved || (a != nil && a.Parent() != nil)
	case "before", "after", "replace":
		l := map[string]string{"before": "b", "after": "f", "replace": "r"}[op]
		tok = l + "." + r.ref(self) + "." + r.ref(a) + "." + r.ref(b)
		bad = b == nil || a == b || astTraceIsAnc(b, self) || (op == "replace" && a == nil)
		r.moved = r.moved || (b != nil && b.Parent() != nil)
	case "remove":
		tok = "d." + r.ref(self) + "." + r.ref(a)
		bad = a == nil
	case "clear":
		tok = "x." + r.ref(self)
	case "sort":
		return // reported by "sorted", when the resulting order is known
	case "sorted":
		if self == nil {
			return // no children: nothing happened
		}
		var order []string
		k := 0
		for c := self.FirstChild(); c != nil && k <= 1<<20; c = c.NextSibling() {
			order = append(order, r.ref(c))
			k++
		}
		tok = "s." + r.ref(self) + "." + strings.Join(order, ",")
		op = "sort"
	default:
		tok = "?" + op
	}
	if self == nil {
		bad = true
	}
	r.kinds[op] = true
	r.toks = append(r.toks, tok)
	if bad {
		r.violated = len(r.toks) - 1
		ins := a
		if op != "append" && op != "remove" {
			ins = b
		}
		r.violKind = op + "(" + strings.ReplaceAll(kindOf(self), " ", "") + "," + strings.ReplaceAll(kindOf(ins), " ", "") + ")"
		panic(astTraceAbort{})
	}
}

// recordParse runs one Parse with the hook set; it returns the document (nil when the parse was abandoned).
func (r *astTraceRec) recordParse(c Cfg, src []byte) (doc ast.Node) {
	md := c.Build()
	astTraceMu.Lock()
	defer astTraceMu.Unlock()
	ast.VerifTrace = r.hook
	defer func() {
		ast.VerifTrace = nil
		if e := recover(); e != nil {
			if _, ok := e.(astTraceAbort); !ok {
				panic(e)
			}
			doc = nil
		}
	}()
	return md.Parser().Parse(text.NewReader(src))
}

func astTraceChain(r *astTraceRec, n int, start ast.Node, next func(ast.Node) ast.Node) ([]ast.Node, string) {
	var l []ast.Node
	var s []string
	cut := false
	fuel := n + 1
	for c := start; c != nil; c = next(c) {
		if fuel == 0 {
			cut = true
			break
		}
		fuel--
		l = append(l, c)
		s = append(s, astTraceKnown(r, c))
	}
	out := "-"
	if len(s) > 0 {
		out = strings.Join(s, ",")
	}
	if cut {
		out += "*"
	}
	return l, out
}

func astTraceKnown(r *astTraceRec, n ast.Node) string {
	if n == nil {
		return "-"
	}
	if i, ok := r.ids[n]; ok {
		return strconv.Itoa(i)
	}
	return "?"
}

// astTraceDump: the real tree in the driver's canonical format (Driver.AstTrace.dump)
func astTraceDump(r *astTraceRec, root ast.Node) string {
	n := len(r.ids)
	var parts []string
	stack := []ast.Node{root}
	fuel := n + 1
	for len(stack) > 0 {
		if fuel == 0 {
			parts = append(parts, "*")
			break
		}
		fuel--
		x := stack[0]
		stack = stack[1:]
		kids, fwd := astTraceChain(r, n, x.FirstChild(), func(c ast.Node) ast.Node { return c.NextSibling() })
		back, bwd := astTraceChain(r, n, x.LastChild(), func(c ast.Node) ast.Node { return c.PreviousSibling() })
		parts = append(parts, astTraceKnown(r, x)+":"+astTraceKnown(r, x.Parent())+":"+strconv.Itoa(x.ChildCount())+":"+fwd+":"+bwd)
		// independent oracle (clause (a) of C05 on the real tree): count, both directions, parent links
		okLinks := x.ChildCount() == len(kids) && len(back) == len(kids)
		for i, k := range kids {
			okLinks = okLinks && k.Parent() == x && (len(back) != len(kids) || back[len(kids)-1-i] == k)
		}
		if !okLinks && r.linkFail == "" {
			r.linkFail = "node " + astTraceKnown(r, x) + " (" + kindOf(x) + "): ChildCount=" + strconv.Itoa(x.ChildCount()) + " forward=" + fwd + " backward=" + bwd
		}
		stack = append(append([]ast.Node{}, kids...), stack...)
	}
	return strings.Join(parts, ";")
}

func astTraceClip(s string, n int) string {
	if len(s) > n {
		return "…" + s[len(s)-n:]
	}
	return s
}

func implAstTrace(cs Case) ImplResult {
	c := ParseCfg(cs.Args[0])
	src := unhx(cs.Args[1])
	r := &astTraceRec{ids: map[ast.Node]int{}, kinds: map[string]bool{}, violated: -1}
	doc := r.recordParse(c, src)
	var res ImplResult
	root := 0
	if doc != nil {
		root = r.id(doc)
	}
	ops := "-"
	if len(r.toks) > 0 {
		ops = strings.Join(r.toks, ";")
	}
	n := len(r.ids)
	if n == 0 {
		n = 1
	}
	res.ModelLine = "asttrace run " + strconv.Itoa(n) + " " + strconv.Itoa(root) + " " + ops
	if os.Getenv("ASTTRACE_DEBUG") != "" { // show the protocol line of a replayed case
		os.Stderr.WriteString(res.ModelLine + "\n")
	}
	if r.violated >= 0 {
		res.Out = "pre-violated@" + strconv.Itoa(r.violated) + ":" + r.toks[r.violated]
		res.Fails = append(res.Fails, OracleFail{Property: "C05", Clause: "mutator-precondition-violated:" + r.violKind,
			Detail: "call " + strconv.Itoa(r.violated) + " of the parse (" + r.toks[r.violated] + ", nodes numbered by first appearance in the trace) inserts a node into its own subtree / relative to itself / passes nil: outside the proviso under which C13 is proved; trace so far: " + astTraceClip(ops, 300)})
	} else {
		res.Out = "ok " + astTraceDump(r, doc)
		if r.linkFail != "" {
			res.Fails = append(res.Fails, OracleFail{Property: "C05", Clause: "links-inconsistent-after-trace", Detail: r.linkFail + " (ids = order of first appearance in the mutator trace)"})
		}
	}
	var ks []string
	for _, k := range []string{"append", "before", "after", "replace", "remove", "clear", "sort"} {
		if r.kinds[k] {
			ks = append(ks, k)
			res.Stats = append(res.Stats, "trace_has:"+k)
		}
	}
	if r.moved {
		res.Stats = append(res.Stats, "trace_has:move-of-attached-node")
	}
	if len(ks) > 1 || (len(ks) == 1 && ks[0] != "append") {
		res.Key = c.Name() + "|" + strings.Join(ks, ",") + "|" + b2s(r.moved)
	}
	return res
}
