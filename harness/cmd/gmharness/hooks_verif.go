//go:build verif

package main

import "github.com/yuin/goldmark/renderer/html"

// hooksAvailable: the harness was built with the verif tag, i.e. /repo's verif-tagged hook files compiled.
const hooksAvailable = true

// softLineBreakDecision: the real East Asian soft-line-break decision (a parameter of the renderer model)
func softLineBreakDecision(d *dumper, thisLast, nextFirst rune) bool {
	return html.VerifSoftLineBreak(d.ea, thisLast, nextFirst)
}

func hookSoftLineBreak(style int, a, b rune) bool {
	return html.VerifSoftLineBreak(html.EastAsianLineBreaks(style), a, b)
}
