package main

// Component `extdecline` (property C11): the early-exit paths of the built-in extensions, function by function,
// through the PUBLIC constructors with a real block reader and a real parser.Context; compared with
// GM.Model.ExtDecline (lean/Driver/ExtDecline.lean) and, independently of the model, with the property's own
// clauses (a parser must return nil WITHOUT effect on a line that lacks its characters).
//
//   trig <pkg> <type>                                 real Trigger() vs. the literals gmgen read from the source
//   linkify <inLabel> <line>                          extension.NewLinkifyParser().Parse at the head of <line>
//   fnparse <none|refs> <line>                        extension.NewFootnoteParser().Parse; refs = footnote definitions closed before
//   fnopen <line> <blockOffset>                       extension.NewFootnoteBlockParser().Open
//   fntr <doc> / tbtr <doc>                           extension.NewFootnoteASTTransformer() / NewTableASTTransformer() .Transform on a
//                                                     parsed document with an empty context (no FootnoteList / no escaped-pipe list)
//   dlopen <parentIsDL> <line> <pos> <indent> <last>  extension.NewDefinitionListParser().Open
//   ddopen <parentIsDL> <line> <pos> <indent>         extension.NewDefinitionDescriptionParser().Open
//   task <ctx> <line>                                 extension.NewTaskCheckBoxParser().Parse, ctx = where the parent sits
//   typo <line>                                       extension.NewTypographerParser().Parse
//   slb <style> <a> <b> <bitsA> <bitsB>               html.VerifSoftLineBreak (bits = the real Unicode predicates of a, b)
//   sbw <style> <valueEmpty> <last> <next> <bl> <bn>  a hand-built paragraph Text(soft) Text rendered by html.NewRenderer
//   wr <bytes>                                        html.NewWriter(html.WithEscapedSpace()).Write and html.DefaultWriter.Write
//   loop <ext> <escapedSpace> <doc>                   the REAL extension parser as the only inline parser inside the real
//                                                     (*parser).parseBlock (default block parsers, no paragraph transformers),
//                                                     every Parse call logged by a forwarding wrapper; per block: Text children,
//                                                     call log — compared with the loop model run with GM.Model.ExtLoop.extOf;
//                                                     oracle: same resolved text as with no inline parser at all
//
// Inline results: `nil <moved>` | `node <kind> <advanced> <flushed>`; block results: `nil` | `node <kind> <state> <advanced>`.

import (
	"bufio"
	"bytes"
	"fmt"
	"strconv"
	"strings"
	"unicode"
	"unicode/utf8"

	"github.com/yuin/goldmark"
	"github.com/yuin/goldmark/ast"
	"github.com/yuin/goldmark/extension"
	east "github.com/yuin/goldmark/extension/ast"
	"github.com/yuin/goldmark/parser"
	"github.com/yuin/goldmark/renderer"
	"github.com/yuin/goldmark/renderer/html"
	"github.com/yuin/goldmark/text"
	"github.com/yuin/goldmark/util"
)

func init() {
	register(&Component{
		Name:       "extdecline",
		Rule:       "every line over a per-function alphabet up to length N (exhaustive) x every context flag; every ASCII rune pair x both East-Asian styles through the real softLineBreak; the real Trigger() of every parser type; + random longer lines from one SplitMix64 stream; non-trivial = the parser got past its first test (a node, a moved reader, or a line containing one of the extension's characters); distinct = distinct (op, arguments)",
		Gen:        genExtDecline,
		Impl:       implExtDecline,
		Exhaustive: true,
		Scope: func(tier string) string {
			if tier == "thorough" {
				return "exhaustive lines of length<=5 (linkify, 14 symbols, x in/out of a link label), <=6 (footnote inline 9 symbols x 3 contexts; footnote Open 8 symbols x offsets), <=5 (definition list 6 symbols x parents x last children x indents), <=4 (task list x 5 contexts; typographer 12 symbols); all 128x128 ASCII pairs x 3 styles + 40k rune pairs; 23 Trigger() methods; 200k random lines per function"
			}
			return "exhaustive lines of length<=4 (linkify, 14 symbols, x in/out of a link label), <=5 (footnote inline 9 symbols x 3 contexts; footnote Open 8 symbols x offsets), <=4 (definition list 6 symbols x parents x last children x indents), <=4 (task list x 5 contexts), <=3 (typographer 12 symbols); all 128x128 ASCII pairs x 3 styles + 6k rune pairs; 23 Trigger() methods; 15k random lines per function"
		},
	})
}

// ---------- the parsers with a Trigger() method, by (package, type) ----------

type edTrig interface{ Trigger() []byte }

var edParsers = []struct {
	pkg, typ string
	mk       func() edTrig
	ext      string // extension whose clause of C11 bounds the set ("" = core)
}{
	{"parser", "atxHeadingParser", func() edTrig { return parser.NewATXHeadingParser() }, ""},
	{"parser", "autoLinkParser", func() edTrig { return parser.NewAutoLinkParser() }, ""},
	{"parser", "blockquoteParser", func() edTrig { return parser.NewBlockquoteParser() }, ""},
	{"parser", "codeBlockParser", func() edTrig { return parser.NewCodeBlockParser() }, ""},
	{"parser", "codeSpanParser", func() edTrig { return parser.NewCodeSpanParser() }, ""},
	{"parser", "emphasisParser", func() edTrig { return parser.NewEmphasisParser() }, ""},
	{"parser", "fencedCodeBlockParser", func() edTrig { return parser.NewFencedCodeBlockParser() }, ""},
	{"parser", "htmlBlockParser", func() edTrig { return parser.NewHTMLBlockParser() }, ""},
	{"parser", "linkParser", func() edTrig { return parser.NewLinkParser() }, ""},
	{"parser", "listParser", func() edTrig { return parser.NewListParser() }, ""},
	{"parser", "listItemParser", func() edTrig { return parser.NewListItemParser() }, ""},
	{"parser", "paragraphParser", func() edTrig { return parser.NewParagraphParser() }, ""},
	{"parser", "rawHTMLParser", func() edTrig { return parser.NewRawHTMLParser() }, ""},
	{"parser", "setextHeadingParser", func() edTrig { return parser.NewSetextHeadingParser() }, ""},
	{"parser", "thematicBreakPraser", func() edTrig { return parser.NewThematicBreakParser() }, ""},
	{"extension", "definitionListParser", func() edTrig { return extension.NewDefinitionListParser() }, "definitionList"},
	{"extension", "definitionDescriptionParser", func() edTrig { return extension.NewDefinitionDescriptionParser() }, "definitionList"},
	{"extension", "footnoteBlockParser", func() edTrig { return extension.NewFootnoteBlockParser() }, "footnoteBlock"},
	{"extension", "footnoteParser", func() edTrig { return extension.NewFootnoteParser() }, "footnoteInline"},
	{"extension", "linkifyParser", func() edTrig { return extension.NewLinkifyParser() }, "linkify"},
	{"extension", "strikethroughParser", func() edTrig { return extension.NewStrikethroughParser() }, "strikethrough"},
	{"extension", "taskCheckBoxParser", func() edTrig { return extension.NewTaskCheckBoxParser() }, "taskList"},
	{"extension", "typographerParser", func() edTrig { return extension.NewTypographerParser() }, "typographer"},
}

// the characters C11 allows each extension's parsers to be triggered by (written from the property text; for
// Linkify and Typographer the bytes at which the decline theorems apply)
var edAllowed = map[string]string{
	"strikethrough":  "~",
	"taskList":       "[",
	"footnoteBlock":  "[",
	"footnoteInline": "![",
	"definitionList": ":",
	"typographer":    "'\"-.<>,*[",
	"linkify":        " *_~(",
}

// ---------- generation ----------

var edAlphabets = map[string][][]byte{
	"linkify":  syms("a", " ", ":", "@", ".", "www.", "http", "*", "(", "-", "b.c", "_", "\n", "/"),
	"fnparse":  syms("[", "^", "]", "!", "a", "\\", " ", "b", "\n"),
	"fnopen":   syms("[", "^", "]", ":", "a", " ", "\\", "\n"),
	"deflist":  syms(":", " ", "\t", "a", "\n", "~"),
	"task":     syms("[", "]", "x", " ", "X", "a", "\t", "\n"),
	"typo":     syms("-", ".", "<", ">", "'", "\"", ",", "*", "[", "a", " ", "\n"),
	"trigfree": syms("a", "b", " ", "w", ".", "/", "!", "x", "\n", "_", "*", "(", "~", "-"),
}

func init() {
	edAlphabets["loop-linkify"] = syms("a", " ", "*", "_", "~", "(", "\n", "\\", "w.", ":", "  \n", "# ", "> ", "\t")
	edAlphabets["loop-typographer"] = syms("a", " ", ",", "*", "[", "-", ".", "<", ">", "\n", "\\", "  \n")
	edAlphabets["wr"] = syms("\\", " ", "a", "&amp;", "&", "*", "<", "\n", "\xc3\xa9", "\x00")
	edAlphabets["loop-footnote"] = syms("a", " ", "!", "[", "^", "]", "\n", "\\", "b")
}

// documents on which the decline model answers completely and the parser never touches the parent
func edLoopOK(ext string, d []byte) bool {
	switch ext {
	case "linkify":
		return !bytes.Contains(d, []byte("@")) && !bytes.Contains(d, []byte("http:")) && !bytes.Contains(d, []byte("https:")) &&
			!bytes.Contains(d, []byte("ftp:")) && !bytes.Contains(d, []byte("www."))
	case "typographer":
		return !bytes.ContainsAny(d, "'\"")
	}
	return true
}

var edTaskCtx = []string{"item", "orphan", "second", "haskids", "quote"}
var edLast = []string{"none", "para0", "para1", "dl", "other"}
var edRefs = []string{"none", "61", "61,62", "5e"}

func genExtDecline(tier string, rng *RNG, emit func(Case)) {
	thorough := tier == "thorough"
	pick := func(q, t int) int {
		if thorough {
			return t
		}
		return q
	}
	for _, p := range edParsers {
		emit(Case{Op: "trig", Args: []string{p.pkg, p.typ}})
	}
	// linkify
	enumStrings(edAlphabets["linkify"], pick(4, 5), func(b []byte) {
		if len(b) == 0 {
			return // `line[0]` panics on an empty peeked line (model: panic:index); the loop never calls Parse there
		}
		emit(Case{Op: "linkify", Args: []string{"0", hx(b)}})
		if len(b) <= 3 {
			emit(Case{Op: "linkify", Args: []string{"1", hx(b)}})
		}
	})
	// every first byte in front of an e-mail address and of a trigger-free word
	for c := 0; c < 256; c++ {
		for _, tail := range []string{"a@b.cd", "ab cd", "@", "a@b", "a.b@c.de.", "a@b.c-"} {
			emit(Case{Op: "linkify", Args: []string{"0", hx(append([]byte{byte(c)}, tail...))}})
		}
		emit(Case{Op: "typo", Args: []string{hx([]byte{byte(c)})}})
		emit(Case{Op: "typo", Args: []string{hx([]byte{byte(c), byte(c)})}})
		emit(Case{Op: "typo", Args: []string{hx([]byte{byte(c), byte(c), byte(c), 'a'})}})
		emit(Case{Op: "task", Args: []string{"item", hx([]byte{'[', byte(c), ']', ' '})}})
		emit(Case{Op: "task", Args: []string{"item", hx([]byte{byte(c), 'x', ']', ' '})}})
		emit(Case{Op: "fnparse", Args: []string{"61", hx([]byte{byte(c), '^', 'a', ']'})}})
		emit(Case{Op: "fnparse", Args: []string{"61", hx([]byte{'!', byte(c), '^', 'a', ']'})}})
		emit(Case{Op: "fnopen", Args: []string{hx([]byte{byte(c), '^', 'a', ']', ':', ' ', 'x'}), "0"}})
		emit(Case{Op: "dlopen", Args: []string{"0", hx([]byte{byte(c), ' ', 'x'}), "0", "0", "para0"}})
		emit(Case{Op: "ddopen", Args: []string{"1", hx([]byte{byte(c), ' ', 'x'}), "0", "0"}})
	}
	for i := 0; i < pick(15000, 200000); i++ {
		al := edAlphabets["linkify"]
		if i%2 == 0 {
			al = edAlphabets["trigfree"]
		}
		if b := randString(rng, al, 16); len(b) > 0 {
			emit(Case{Op: "linkify", Args: []string{b2s(rng.Chance(10)), hx(b)}})
		}
	}
	// footnote inline parser
	enumStrings(edAlphabets["fnparse"], pick(5, 6), func(b []byte) {
		for i, r := range edRefs {
			if i > 0 && len(b) > 4 {
				continue
			}
			emit(Case{Op: "fnparse", Args: []string{r, hx(b)}})
		}
	})
	for i := 0; i < pick(15000, 200000); i++ {
		emit(Case{Op: "fnparse", Args: []string{rng.Pick(edRefs), hx(randString(rng, edAlphabets["fnparse"], 12))}})
	}
	// footnote block parser
	enumStrings(edAlphabets["fnopen"], pick(5, 6), func(b []byte) {
		if len(b) == 0 {
			return // openBlocks sets BlockOffset -1 on an empty line; `line[pos]` out of range is a panic in code and model
		}
		emit(Case{Op: "fnopen", Args: []string{hx(b), "0"}})
		if len(b) >= 2 && len(b) <= 4 {
			emit(Case{Op: "fnopen", Args: []string{hx(b), "1"}})
			emit(Case{Op: "fnopen", Args: []string{hx(b), "-1"}})
		}
	})
	for i := 0; i < pick(15000, 200000); i++ {
		b := randString(rng, edAlphabets["fnopen"], 12)
		off := -1
		if len(b) > 0 {
			off = rng.Intn(len(b))
			if rng.Chance(70) {
				off = 0
			}
		}
		emit(Case{Op: "fnopen", Args: []string{hx(b), fmt.Sprint(off)}})
	}
	// footnote AST transformer without a list
	for i, d := range CorpusDocs() {
		if i%7 == 0 || thorough {
			emit(Case{Op: "fntr", Args: []string{hx(d)}})
			emit(Case{Op: "tbtr", Args: []string{hx(d)}})
		}
	}
	// definition list
	enumStrings(edAlphabets["deflist"], pick(4, 5), func(b []byte) {
		if len(b) == 0 {
			return
		}
		for _, pdl := range []string{"0", "1"} {
			for _, last := range edLast {
				if pdl == "1" && last != "none" && len(b) > 2 {
					continue
				}
				emit(Case{Op: "dlopen", Args: []string{pdl, hx(b), "0", "0", last}})
				if len(b) <= 3 {
					emit(Case{Op: "dlopen", Args: []string{pdl, hx(b), "0", "1", last}})
					emit(Case{Op: "dlopen", Args: []string{pdl, hx(b), fmt.Sprint(len(b) - 1), "0", last}})
					emit(Case{Op: "dlopen", Args: []string{pdl, hx(b), "-1", "-1", last}})
				}
			}
			emit(Case{Op: "ddopen", Args: []string{pdl, hx(b), "0", "0"}})
			if len(b) <= 3 {
				emit(Case{Op: "ddopen", Args: []string{pdl, hx(b), "0", "2"}})
				emit(Case{Op: "ddopen", Args: []string{pdl, hx(b), fmt.Sprint(len(b) - 1), "0"}})
				emit(Case{Op: "ddopen", Args: []string{pdl, hx(b), "-1", "-1"}})
			}
		}
	})
	for i := 0; i < pick(15000, 200000); i++ {
		b := randString(rng, edAlphabets["deflist"], 10)
		if len(b) == 0 {
			continue
		}
		pos := rng.Intn(len(b))
		ind := 0
		if rng.Chance(20) {
			ind = rng.Intn(5)
		}
		emit(Case{Op: "dlopen", Args: []string{b2s(rng.Chance(15)), hx(b), fmt.Sprint(pos), fmt.Sprint(ind), rng.Pick(edLast)}})
		emit(Case{Op: "ddopen", Args: []string{b2s(rng.Chance(60)), hx(b), fmt.Sprint(pos), fmt.Sprint(ind)}})
	}
	// task list
	enumStrings(edAlphabets["task"], 4, func(b []byte) {
		if len(b) == 0 {
			return
		}
		for _, ctx := range edTaskCtx {
			if ctx != "item" && len(b) > 3 {
				continue
			}
			emit(Case{Op: "task", Args: []string{ctx, hx(b)}})
		}
	})
	for i := 0; i < pick(15000, 200000); i++ {
		b := randString(rng, edAlphabets["task"], 10)
		if len(b) == 0 {
			continue
		}
		emit(Case{Op: "task", Args: []string{rng.Pick(edTaskCtx), hx(b)}})
	}
	// typographer
	enumStrings(edAlphabets["typo"], pick(3, 4), func(b []byte) {
		if len(b) > 0 {
			emit(Case{Op: "typo", Args: []string{hx(b)}})
		}
	})
	for i := 0; i < pick(15000, 200000); i++ {
		b := randString(rng, edAlphabets["typo"], 8)
		if len(b) > 0 {
			emit(Case{Op: "typo", Args: []string{hx(b)}})
		}
	}
	// the real parsers inside the real loop, on documents the decline models answer completely
	for _, ext := range []string{"linkify", "typographer", "footnote"} {
		al := edAlphabets["loop-"+ext]
		enumStrings(al, pick(4, 5), func(b []byte) {
			if len(b) > 0 && edLoopOK(ext, b) {
				emit(Case{Op: "loop", Args: []string{ext, "0", hx(b)}})
				if ext == "linkify" && len(b) <= 3 {
					emit(Case{Op: "loop", Args: []string{ext, "1", hx(b)}})
				}
			}
		})
		for i := 0; i < pick(6000, 80000); i++ {
			b := randString(rng, al, 24)
			if len(b) > 0 && edLoopOK(ext, b) {
				emit(Case{Op: "loop", Args: []string{ext, b2s(rng.Chance(15)), hx(b)}})
			}
		}
	}
	// the two writers (CJK's WithEscapedSpace)
	enumStrings(edAlphabets["wr"], pick(4, 5), func(b []byte) { emit(Case{Op: "wr", Args: []string{hx(b)}}) })
	for i := 0; i < pick(5000, 60000); i++ {
		emit(Case{Op: "wr", Args: []string{hx(randString(rng, edAlphabets["wr"], 16))}})
	}
	// East-Asian line breaks: all ASCII pairs, all three styles
	for s := 0; s <= 2; s++ {
		for a := 0; a < 128; a++ {
			for b := 0; b < 128; b++ {
				emit(Case{Op: "slb", Args: edSlbArgs(s, rune(a), rune(b))})
			}
		}
	}
	runes := []rune{'a', ' ', '.', 0x200B, 0x3000, 0x3001, 0x3042, 0x4E00, 0xAC00, 0x1100, 0xFF01, 0xFF61, 0xFFE8, 0x00E9, 0x2014, 0x2026, 0x1F600, 0x20000, 0xFFFD, 0x00A0}
	for s := 0; s <= 2; s++ {
		for _, a := range runes {
			for _, b := range runes {
				emit(Case{Op: "slb", Args: edSlbArgs(s, a, b)})
			}
		}
	}
	for i := 0; i < pick(6000, 40000); i++ {
		rr := func() rune {
			switch rng.Intn(4) {
			case 0:
				return rune(rng.Intn(128))
			case 1:
				return rune(0x2E80 + rng.Intn(0x8000))
			case 2:
				return runes[rng.Intn(len(runes))]
			}
			r := rune(rng.Intn(0x30000))
			if r >= 0xD800 && r <= 0xDFFF {
				r = 'x'
			}
			return r
		}
		emit(Case{Op: "slb", Args: edSlbArgs(1+rng.Intn(2), rr(), rr())})
	}
	// the renderer's use of the decision: Text(soft) followed by Text / nothing
	vals := []string{"", "a", "b ", "x.", "あ", "一", "aあ", "あa", "가", "、", "é"}
	for s := 0; s <= 2; s++ {
		for _, v1 := range vals {
			for _, v2 := range append([]string{"<none>"}, vals...) {
				emit(Case{Op: "sbw", Args: edSbwArgs(s, v1, v2)})
			}
		}
		for a := 0x20; a < 0x7f; a++ {
			for _, b := range []int{0x20, 0x2a, 0x41, 0x61, 0x7e, a} {
				emit(Case{Op: "sbw", Args: edSbwArgs(s, string(rune(a)), string(rune(b)))})
			}
		}
	}
}

func edBits(r rune) int {
	bits := 0
	if util.IsEastAsianWideRune(r) {
		bits |= 1
	}
	if w := util.EastAsianWidth(r); w == "F" || w == "W" || w == "H" {
		bits |= 2
	}
	if unicode.Is(unicode.Hangul, r) {
		bits |= 4
	}
	if util.IsSpaceDiscardingUnicodeRune(r) {
		bits |= 8
	}
	if unicode.IsPunct(r) {
		bits |= 16
	}
	return bits
}

func edSlbArgs(style int, a, b rune) []string {
	return []string{fmt.Sprint(style), fmt.Sprint(int(a)), fmt.Sprint(int(b)), fmt.Sprint(edBits(a)), fmt.Sprint(edBits(b))}
}

// sbw arguments carry the two values; last/next runes and their class bits are derived in Impl and put into ModelLine
func edSbwArgs(style int, v1, v2 string) []string {
	a2 := "none"
	if v2 != "<none>" {
		a2 = hx([]byte(v2))
	}
	return []string{fmt.Sprint(style), hx([]byte(v1)), a2}
}

// ---------- running the real code ----------

func edReader(src []byte) text.BlockReader {
	segs := text.NewSegments()
	segs.Append(text.NewSegment(0, len(src)))
	return text.NewBlockReader(src, segs)
}

func edSnapshot(n ast.Node, src []byte) string {
	var sb strings.Builder
	for c := n.FirstChild(); c != nil; c = c.NextSibling() {
		sb.WriteString(c.Kind().String())
		if t, ok := c.(*ast.Text); ok {
			fmt.Fprintf(&sb, "[%d:%d]", t.Segment.Start, t.Segment.Stop)
		}
		sb.WriteString("(" + edSnapshot(c, src) + ")")
	}
	return sb.String()
}

func edPos(r text.Reader) (int, int) {
	l, s := r.Position()
	return l, s.Start
}

// inline result: what the loop can observe of one Parse call
type edInline struct {
	out          string
	isNil        bool
	moved        int
	parentBefore string
	parentAfter  string
}

func edRunInline(p parser.InlineParser, parent ast.Node, src []byte, pc parser.Context, kind func(ast.Node) string) edInline {
	rd := edReader(src)
	before := edSnapshot(parent, src)
	l0, s0 := edPos(rd)
	n := p.Parse(parent, rd, pc)
	l1, s1 := edPos(rd)
	after := edSnapshot(parent, src)
	moved := s1 - s0
	if l1 != l0 {
		moved = len(src) - s0
	}
	r := edInline{isNil: n == nil, moved: moved, parentBefore: before, parentAfter: after}
	if n == nil {
		r.out = fmt.Sprintf("nil %d", moved)
	} else {
		r.out = fmt.Sprintf("node %s %d %s", kind(n), moved, b2s(before != after))
	}
	return r
}

func edHas(b []byte, set string) bool { return bytes.ContainsAny(b, set) }

func edEffectFree(op string, r edInline, res *ImplResult, detail string, allowMove bool) {
	if !r.isNil {
		res.Fails = append(res.Fails, OracleFail{"C11", op + "-accepts-trigger-free-line", detail + ": " + r.out})
		return
	}
	if r.parentBefore != r.parentAfter {
		res.Fails = append(res.Fails, OracleFail{"C11", op + "-nil-with-side-effect", detail + ": parent " + r.parentBefore + " -> " + r.parentAfter})
	}
	if !allowMove && r.moved != 0 {
		res.Fails = append(res.Fails, OracleFail{"C11", op + "-nil-but-reader-moved", fmt.Sprintf("%s: moved %d", detail, r.moved)})
	}
}

// a context in which `n` footnote definitions have been closed (the only way to get a FootnoteList into it)
func edFootnoteContext(refs []string) parser.Context {
	pc := parser.NewContext()
	bp := extension.NewFootnoteBlockParser()
	doc := ast.NewDocument()
	for _, r := range refs {
		line := append(append([]byte("[^"), unhx(r)...), []byte("]: x\n")...)
		rd := edReader(line)
		pc.SetBlockOffset(0)
		pc.SetBlockIndent(0)
		n, _ := bp.Open(doc, rd, pc)
		if n == nil {
			panic("extdecline: cannot open footnote " + r)
		}
		doc.AppendChild(doc, n)
		bp.Close(n, rd, pc)
	}
	return pc
}

func implExtDecline(cs Case) ImplResult {
	res := ImplResult{}
	switch cs.Op {
	case "trig":
		for _, p := range edParsers {
			if p.pkg != cs.Args[0] || p.typ != cs.Args[1] {
				continue
			}
			t := p.mk().Trigger()
			if t == nil {
				res.Out = "nil"
			} else {
				res.Out = hx(t)
				if len(t) == 0 {
					res.Out = "-"
				}
			}
			res.Key = cs.Args[1]
			if allowed, ok := edAllowed[p.ext]; ok {
				for _, c := range t {
					if strings.IndexByte(allowed, c) < 0 {
						res.Fails = append(res.Fails, OracleFail{"C11", "trigger-outside-allowed-set",
							fmt.Sprintf("%s.%s Trigger() = %q contains %q; C11 allows only %q for this parser", p.pkg, p.typ, t, c, allowed)})
					}
				}
				if t == nil {
					res.Fails = append(res.Fails, OracleFail{"C11", "trigger-outside-allowed-set", fmt.Sprintf("%s.%s Trigger() = nil", p.pkg, p.typ)})
				}
				if p.ext == "linkify" && string(t) != allowed {
					res.Fails = append(res.Fails, OracleFail{"C11", "linkify-trigger-set-changed", fmt.Sprintf("Trigger() = %q, the decline model strips %q", t, allowed)})
				}
			}
			return res
		}
		res.Out = "unknown"
		return res

	case "linkify":
		line := unhx(cs.Args[1])
		pc := parser.NewContext()
		if cs.Args[0] == "1" {
			parser.NewLinkParser().Parse(ast.NewParagraph(), edReader([]byte("[a")), pc)
			if !pc.IsInLinkLabel() {
				panic("extdecline: could not enter a link label")
			}
		}
		parent := ast.NewParagraph()
		r := edRunInline(extension.NewLinkifyParser(), parent, line, pc, func(n ast.Node) string {
			if al, ok := n.(*ast.AutoLink); ok && al.AutoLinkType == ast.AutoLinkEmail {
				return "email"
			}
			return "url"
		})
		res.Out = r.out
		// the guard in front of the URL regexps (not modelled): recomputed here, the model answers `regexp` there
		rest := line
		if len(line) > 0 && strings.IndexByte(" *_~(", line[0]) >= 0 {
			rest = line[1:]
		}
		if cs.Args[0] != "1" && len(line) > 0 && (bytes.HasPrefix(rest, []byte("http:")) || bytes.HasPrefix(rest, []byte("https:")) ||
			bytes.HasPrefix(rest, []byte("ftp:")) || bytes.HasPrefix(rest, []byte("www."))) {
			res.Out = "regexp"
		}
		if !r.isNil || edHas(line, ":@") {
			res.Key = cs.Args[0] + "|" + cs.Args[1]
		}
		if len(line) > 0 && !edHas(line, ":@") && !bytes.Contains(line, []byte("www.")) {
			edEffectFree("linkify", r, &res, fmt.Sprintf("line %q", line), false)
		} else if r.isNil {
			edEffectFree("linkify", r, &res, fmt.Sprintf("line %q", line), false) // nil must be effect-free on every line
		}
		return res

	case "fnparse":
		line := unhx(cs.Args[1])
		var pc parser.Context
		if cs.Args[0] == "none" {
			pc = parser.NewContext()
		} else {
			pc = edFootnoteContext(strings.Split(cs.Args[0], ","))
		}
		parent := ast.NewParagraph()
		r := edRunInline(extension.NewFootnoteParser(), parent, line, pc, func(n ast.Node) string { return "footnoteLink" })
		res.Out = r.out
		if !r.isNil || r.moved != 0 {
			res.Key = cs.Args[0] + "|" + cs.Args[1]
		}
		if cs.Args[0] == "none" || !bytes.Contains(line, []byte("[^")) && len(line) > 0 && line[0] == '[' {
			edEffectFree("footnote-inline", r, &res, fmt.Sprintf("refs %s line %q", cs.Args[0], line), true)
		} else if r.isNil && r.parentBefore != r.parentAfter {
			res.Fails = append(res.Fails, OracleFail{"C11", "footnote-inline-nil-with-side-effect", fmt.Sprintf("line %q", line)})
		}
		return res

	case "fnopen":
		line := unhx(cs.Args[0])
		off, _ := strconv.Atoi(cs.Args[1])
		pc := parser.NewContext()
		pc.SetBlockOffset(off)
		pc.SetBlockIndent(0)
		doc := ast.NewDocument()
		rd := edReader(line)
		_, s0 := edPos(rd)
		n, st := extension.NewFootnoteBlockParser().Open(doc, rd, pc)
		_, s1 := edPos(rd)
		if n == nil {
			res.Out = "nil"
			if st != parser.NoChildren || s1 != s0 || doc.HasChildren() {
				res.Fails = append(res.Fails, OracleFail{"C11", "footnote-open-nil-with-side-effect", fmt.Sprintf("line %q state %d moved %d", line, st, s1-s0)})
			}
		} else {
			res.Out = fmt.Sprintf("node footnote %d %d", int(st), s1-s0)
			res.Key = cs.Args[0] + "|" + cs.Args[1]
			if !bytes.Contains(line, []byte("[^")) {
				res.Fails = append(res.Fails, OracleFail{"C11", "footnote-open-accepts-trigger-free-line", fmt.Sprintf("line %q offset %d", line, off)})
			}
		}
		return res

	case "fntr", "tbtr":
		src := unhx(cs.Args[0])
		doc := goldmark.New().Parser().Parse(text.NewReader(src)).(*ast.Document)
		before := edSnapshot(doc, src)
		if cs.Op == "fntr" {
			extension.NewFootnoteASTTransformer().Transform(doc, text.NewReader(src), parser.NewContext())
		} else {
			extension.NewTableASTTransformer().Transform(doc, text.NewReader(src), parser.NewContext())
		}
		after := edSnapshot(doc, src)
		res.Out = "same"
		if doc.HasChildren() {
			res.Key = cs.Args[0]
		}
		if before != after {
			res.Out = "changed"
			res.Fails = append(res.Fails, OracleFail{"C11", map[string]string{"fntr": "footnote", "tbtr": "table"}[cs.Op] + "-transformer-changes-document-without-list", fmt.Sprintf("%q", src)})
		}
		return res

	case "dlopen", "ddopen":
		line := unhx(cs.Args[1])
		pos, _ := strconv.Atoi(cs.Args[2])
		indent, _ := strconv.Atoi(cs.Args[3])
		pc := parser.NewContext()
		pc.SetBlockOffset(pos)
		pc.SetBlockIndent(indent)
		var parent ast.Node = ast.NewDocument()
		var parentDL *east.DefinitionList
		if cs.Args[0] == "1" {
			parentDL = east.NewDefinitionList(pos+2, nil)
			parent = parentDL
		}
		var existing *east.DefinitionList
		if cs.Op == "dlopen" {
			switch cs.Args[4] {
			case "para0":
				parent.AppendChild(parent, ast.NewParagraph())
			case "para1":
				existing = east.NewDefinitionList(2, nil)
				parent.AppendChild(parent, existing)
				parent.AppendChild(parent, ast.NewParagraph())
			case "dl":
				existing = east.NewDefinitionList(2, nil)
				parent.AppendChild(parent, existing)
			case "other":
				parent.AppendChild(parent, ast.NewThematicBreak())
			}
		}
		rd := edReader(line)
		before := edSnapshot(parent, line)
		_, s0 := edPos(rd)
		var n ast.Node
		var st parser.State
		if cs.Op == "dlopen" {
			n, st = extension.NewDefinitionListParser().Open(parent, rd, pc)
		} else {
			n, st = extension.NewDefinitionDescriptionParser().Open(parent, rd, pc)
		}
		_, s1 := edPos(rd)
		if n == nil {
			res.Out = "nil"
			if st != parser.NoChildren || s1 != s0 || before != edSnapshot(parent, line) {
				res.Fails = append(res.Fails, OracleFail{"C11", "deflist-open-nil-with-side-effect", fmt.Sprintf("%s line %q", cs.Op, line)})
			}
		} else {
			res.Key = strings.Join(cs.Args, "|")
			switch {
			case cs.Op == "ddopen":
				res.Out = fmt.Sprintf("node description %d 0", int(st))
			case existing != nil && n == ast.Node(existing):
				res.Out = fmt.Sprintf("node existing %d %d", int(st), s1-s0)
			default:
				res.Out = fmt.Sprintf("node new %d %d", int(st), s1-s0)
			}
			if !edHas(line, ":") {
				res.Fails = append(res.Fails, OracleFail{"C11", "deflist-open-accepts-trigger-free-line", fmt.Sprintf("%s line %q", cs.Op, line)})
			}
		}
		return res

	case "task":
		line := unhx(cs.Args[1])
		parent := ast.NewTextBlock()
		switch cs.Args[0] {
		case "item", "second", "haskids":
			list := ast.NewList('-')
			item := ast.NewListItem(2)
			list.AppendChild(list, item)
			if cs.Args[0] == "second" {
				item.AppendChild(item, ast.NewTextBlock())
			}
			item.AppendChild(item, parent)
			if cs.Args[0] == "haskids" {
				parent.AppendChild(parent, ast.NewTextSegment(text.NewSegment(0, 0)))
			}
		case "quote":
			q := ast.NewBlockquote()
			q.AppendChild(q, parent)
		}
		r := edRunInline(extension.NewTaskCheckBoxParser(), parent, line, parser.NewContext(), func(n ast.Node) string {
			if cb, ok := n.(*east.TaskCheckBox); ok && cb.IsChecked {
				return "checked"
			}
			return "unchecked"
		})
		res.Out = r.out
		if !r.isNil {
			res.Key = cs.Args[0] + "|" + cs.Args[1]
		}
		if len(line) == 0 || line[0] != '[' {
			edEffectFree("tasklist", r, &res, fmt.Sprintf("ctx %s line %q", cs.Args[0], line), false)
		} else if r.isNil {
			edEffectFree("tasklist", r, &res, fmt.Sprintf("ctx %s line %q", cs.Args[0], line), false)
		}
		return res

	case "typo":
		line := unhx(cs.Args[0])
		names := map[string]string{"&mdash;": "emdash", "&hellip;": "ellipsis", "&laquo;": "laquo", "&raquo;": "raquo", "&ndash;": "endash"}
		parent := ast.NewParagraph()
		r := edRunInline(extension.NewTypographerParser(), parent, line, parser.NewContext(), func(n ast.Node) string {
			if s, ok := n.(*ast.String); ok {
				if nm, ok := names[string(s.Value)]; ok {
					return nm
				}
				return "quote-entity"
			}
			return "other"
		})
		res.Out = r.out
		if len(line) > 0 && (line[0] == '\'' || line[0] == '"') {
			// the model does not cover quotes; emdash/ellipsis/… are decided before the quote code and are compared
			if r.isNil || strings.Contains(r.out, "quote-entity") {
				res.Out = "quote"
			}
		}
		if !r.isNil {
			res.Key = cs.Args[0]
		}
		if len(line) > 0 && strings.IndexByte("'\"-.<>", line[0]) < 0 {
			edEffectFree("typographer", r, &res, fmt.Sprintf("line %q", line), false)
		} else if r.isNil {
			edEffectFree("typographer", r, &res, fmt.Sprintf("line %q", line), false)
		}
		return res

	case "slb":
		style, _ := strconv.Atoi(cs.Args[0])
		a, _ := strconv.Atoi(cs.Args[1])
		b, _ := strconv.Atoi(cs.Args[2])
		if !hooksAvailable { // hook-free fallback build: the decision function is not exported
			return ImplResult{Out: "skip", NoModel: true}
		}
		got := hookSoftLineBreak(style, rune(a), rune(b))
		res.Out = b2s(got)
		if a >= 128 || b >= 128 {
			res.Key = strings.Join(cs.Args[:3], "|")
		}
		if a < 128 && b < 128 {
			res.Key = "ascii|" + cs.Args[0] + "|" + fmt.Sprint(edBits(rune(a))|edBits(rune(b))<<8)
			if style != 0 && !got {
				res.Fails = append(res.Fails, OracleFail{"C11", "cjk-ascii-break-suppressed", fmt.Sprintf("style %d between %q and %q: softLineBreak = false", style, rune(a), rune(b))})
			}
			if (edBits(rune(a))|edBits(rune(b)))&(1|2|8) != 0 {
				res.Fails = append(res.Fails, OracleFail{"C11", "assumption:ascii-runes-are-narrow", fmt.Sprintf("runes %q %q have class bits %d %d", rune(a), rune(b), edBits(rune(a)), edBits(rune(b)))})
			}
		}
		return res

	case "sbw":
		style, _ := strconv.Atoi(cs.Args[0])
		v1 := unhx(cs.Args[1])
		var v2 []byte
		has2 := cs.Args[2] != "none"
		if has2 {
			v2 = unhx(cs.Args[2])
		}
		src := append(append(append([]byte{}, v1...), '\n'), v2...)
		doc := ast.NewDocument()
		p := ast.NewParagraph()
		doc.AppendChild(doc, p)
		t1 := ast.NewTextSegment(text.NewSegment(0, len(v1)))
		t1.SetSoftLineBreak(true)
		p.AppendChild(p, t1)
		if has2 {
			p.AppendChild(p, ast.NewTextSegment(text.NewSegment(len(v1)+1, len(src))))
		}
		render := func(style int) []byte {
			r := renderer.NewRenderer(renderer.WithNodeRenderers(util.Prioritized(html.NewRenderer(html.WithEastAsianLineBreaks(html.EastAsianLineBreaks(style))), 1000)))
			var buf bytes.Buffer
			if err := r.Render(&buf, src, doc); err != nil {
				panic(err)
			}
			return buf.Bytes()
		}
		out := render(style)
		written := bytes.Count(out, []byte("\n")) == 2
		res.Out = b2s(written)
		last, next := 0, -1
		if len(v1) > 0 {
			last = int(util.ToRune(v1, len(v1)-1))
		}
		if len(v2) > 0 {
			r, _ := utf8.DecodeRune(v2)
			next = int(r)
		}
		nb := 0
		if next >= 0 {
			nb = edBits(rune(next))
		}
		res.ModelLine = fmt.Sprintf("extdecline sbw %d %s %d %d %d %d", style, b2s(len(v1) == 0), last, next, edBits(rune(last)), nb)
		res.Key = strings.Join(cs.Args, "|")
		ascii := func(b []byte) bool {
			for _, c := range b {
				if c >= 128 {
					return false
				}
			}
			return true
		}
		if ascii(v1) && ascii(v2) && !bytes.Equal(out, render(0)) {
			res.Fails = append(res.Fails, OracleFail{"C11", "cjk-changes-ascii-paragraph", fmt.Sprintf("style %d %q / %q: %q, without the option %q", style, v1, v2, out, render(0))})
		}
		return res

	case "wr":
		v := unhx(cs.Args[0])
		wr := func(w html.Writer) []byte {
			var buf bytes.Buffer
			bw := bufio.NewWriter(&buf)
			w.Write(bw, v)
			bw.Flush()
			return buf.Bytes()
		}
		esc, def := wr(html.NewWriter(html.WithEscapedSpace())), wr(html.DefaultWriter)
		res.Out = hx(esc) + "|" + hx(def)
		if bytes.Contains(v, []byte("\\")) {
			res.Key = cs.Args[0]
		}
		if !bytes.Contains(v, []byte("\\ ")) && !bytes.Equal(esc, def) {
			res.Fails = append(res.Fails, OracleFail{"C11", "escaped-space-writer-changes-text-without-backslash-space", fmt.Sprintf("%q: %q vs %q", v, esc, def)})
		}
		return res

	case "loop":
		return edLoop(cs)
	}
	res.Out = "bad-op"
	return res
}

// ---------- op loop ----------

type edLogging struct {
	inner parser.InlineParser
	calls map[ast.Node][]string
}

func (p *edLogging) Trigger() []byte { return p.inner.Trigger() }
func (p *edLogging) Parse(parent ast.Node, block text.Reader, pc parser.Context) ast.Node {
	l, pos := block.Position()
	p.calls[parent] = append(p.calls[parent], fmt.Sprintf("0@%d.%d", l, pos.Start))
	return p.inner.Parse(parent, block, pc)
}
func (p *edLogging) CloseBlock(parent ast.Node, block text.Reader, pc parser.Context) {
	if cb, ok := p.inner.(parser.CloseBlocker); ok {
		cb.CloseBlock(parent, block, pc)
	}
}

func edLoopParse(src []byte, esc bool, ip parser.InlineParser) (blocks []*ilBlock, calls map[ast.Node][]string) {
	calls = map[ast.Node][]string{}
	opts := []parser.Option{parser.WithBlockParsers(parser.DefaultBlockParsers()...), parser.WithParagraphTransformers()}
	if ip != nil {
		opts = append(opts, parser.WithInlineParsers(util.Prioritized(&edLogging{inner: ip, calls: calls}, 100)))
	} else {
		opts = append(opts, parser.WithInlineParsers())
	}
	if esc {
		opts = append(opts, parser.WithEscapedSpace())
	}
	doc := parser.NewParser(opts...).Parse(text.NewReader(src))
	run := &ilRun{calls: map[ast.Node][]string{}, raw: map[ast.Node][]ilCall{}, starts: map[int]bool{}}
	var visit func(n ast.Node)
	visit = func(n ast.Node) {
		if n.Type() == ast.TypeInline {
			return
		}
		if n.Lines() != nil && n.Lines().Len() > 0 && !n.IsRaw() {
			blocks = append(blocks, ilDumpBlock(n, src, run))
		}
		for c := n.FirstChild(); c != nil; c = c.NextSibling() {
			visit(c)
		}
	}
	visit(doc)
	return
}

func edLoop(cs Case) ImplResult {
	res := ImplResult{}
	ext, esc, src := cs.Args[0], cs.Args[1] == "1", unhx(cs.Args[2])
	var ip parser.InlineParser
	switch ext {
	case "linkify":
		ip = extension.NewLinkifyParser()
	case "typographer":
		ip = extension.NewTypographerParser()
	case "footnote":
		ip = extension.NewFootnoteParser()
	default:
		res.Out = "bad-op"
		return res
	}
	blocks, calls := edLoopParse(src, esc, ip)
	plain, _ := edLoopParse(src, esc, nil)
	var outs, segs []string
	ncalls := 0
	for _, b := range blocks {
		if len(b.segs) == 0 {
			continue
		}
		// the String nodes of the typographer are the model's node 0
		kids := strings.Split(b.children, ",")
		for i, k := range kids {
			if k != "" && !strings.HasPrefix(k, "T") {
				kids[i] = "N0"
			}
		}
		if b.odd != "" && !strings.HasPrefix(b.odd, "unexpected child") {
			res.Out = "skip"
			res.NoModel = true
			res.Stats = append(res.Stats, "loop-skipped-padding")
			return res
		}
		ncalls += len(calls[b.node])
		outs = append(outs, strings.Join(kids, ",")+"|"+strings.Join(calls[b.node], ",")+"|done")
		segs = append(segs, ilSegsArg(b.segs))
	}
	if len(outs) == 0 {
		res.Out = "skip"
		res.NoModel = true
		return res
	}
	res.Out = strings.Join(outs, "/")
	res.ModelLine = fmt.Sprintf("extdecline loop %s %s %s %s", ext, cs.Args[1], cs.Args[2], strings.Join(segs, "/"))
	if ncalls > 0 {
		res.Key = strings.Join(cs.Args, "|")
	}
	// the property itself on the real code: without the extension's characters the resolved text of every block is
	// what it is without the parser
	free := false
	switch ext {
	case "linkify":
		free = !bytes.ContainsAny(src, ":@") && !bytes.Contains(src, []byte("www."))
	case "typographer":
		free = !bytes.ContainsAny(src, "'\"-.<>")
	case "footnote":
		free = true // no footnote definition can exist: there is no footnote block parser in this configuration
	}
	if free {
		if len(plain) != len(blocks) {
			res.Fails = append(res.Fails, OracleFail{"C11", "ext-parser-changes-trigger-free-block", fmt.Sprintf("%s on %q: %d blocks vs %d", ext, src, len(blocks), len(plain))})
		} else {
			for i := range blocks {
				if blocks[i].resolved != plain[i].resolved {
					res.Fails = append(res.Fails, OracleFail{"C11", "ext-parser-changes-trigger-free-block",
						fmt.Sprintf("%s (escapedSpace=%v) on %q: block %d resolves to %q, without the parser %q", ext, esc, src, i, blocks[i].resolved, plain[i].resolved)})
					break
				}
			}
		}
	}
	return res
}
