package main

// Metamorphic oracles on the real library (search side of the partial properties):
//   quote        (C08)  Convert(prefix "> " on every line of D) == <blockquote> Convert(D) </blockquote>
//   indep        (C09)  Convert(A ⏎⏎ # h ⏎⏎ B) == Convert(A) + heading + Convert(B); definitions movable top <-> bottom
//   conservative (C11)  enabling an extension does not change documents free of its trigger characters

import (
	"bytes"
	"fmt"
	"strings"

	"github.com/yuin/goldmark/ast"
	"github.com/yuin/goldmark/text"
)

func convertWith(c Cfg, src []byte) []byte {
	var b bytes.Buffer
	if err := c.Build().Convert(src, &b); err != nil {
		return []byte("ERROR: " + err.Error())
	}
	return b.Bytes()
}

func hasByte(d []byte, set string) bool { return bytes.ContainsAny(d, set) }

func nonBlank(d []byte) bool {
	for _, c := range d {
		if c > 0x20 {
			return true
		}
	}
	return false
}

func stripBytes(d []byte, set string) []byte {
	var out []byte
	for _, c := range d {
		if strings.IndexByte(set, c) < 0 {
			out = append(out, c)
		}
	}
	return out
}

func prefixLines(d []byte, pre string) []byte {
	lines := bytes.SplitAfter(d, []byte("\n"))
	var out []byte
	for _, l := range lines {
		if len(l) == 0 {
			continue
		}
		out = append(out, pre...)
		out = append(out, l...)
	}
	return out
}

// ---------- C08 ----------

var quoteCfgs = []Cfg{{}, {Unsafe: true}, {XHTML: true}, {Exts: "tskl"}, {Exts: "tskl", Unsafe: true}, {Exts: "tskl", XHTML: true, Unsafe: true}}

func init() {
	register(&Component{
		Name: "quote",
		Rule: "documents without tab/CR (corpus, mutants, generated, adversarial; tabs and CRs stripped; reference links whose 940..1001-byte labels run over 2..8 lines), each under {core,GFM}x{safe,unsafe,XHTML}, with the marker applied 1..3 times; spec examples are additionally checked against spec.json's expected HTML; non-trivial = the document has >= 2 lines or a container/leaf block other than a paragraph; distinct = distinct (configuration, document)",
		Gen:  genQuote,
		Impl: implQuote,
		Scope: func(tier string) string {
			if tier == "thorough" {
				return "all corpus documents x 6 configurations + 80k generated/mutated documents, depth 1..3"
			}
			return "all corpus documents x 6 configurations + 8k generated/mutated documents, depth 1..3"
		},
	})
	register(&Component{
		Name: "indep",
		Rule: "pairs (A,B) of CR-free documents without '[' where A does not end inside a code/HTML block (checked on the real parse): A+heading+B vs parts; and documents D with fresh link reference definitions moved from top to bottom, referenced in case/whitespace variants; core and GFM; non-trivial = both parts non-blank; distinct = distinct (configuration, A, B)",
		Gen:  genIndep,
		Impl: implIndep,
		Scope: func(tier string) string {
			if tier == "thorough" {
				return "100k pairs + 30k definition moves"
			}
			return "10k pairs + 3k definition moves"
		},
	})
	register(&Component{
		Name: "conservative",
		Rule: "documents with the extension's trigger characters stripped, rendered with and without the extension (alone and on top of the other extensions); GFM vs its four members; non-trivial = non-blank document with an inline or block construct; distinct = distinct (extension, base configuration, document)",
		Gen:  genConservative,
		Impl: implConservative,
		Scope: func(tier string) string {
			if tier == "thorough" {
				return "9 extension clauses x 2 base configurations x (corpus + 20k generated) documents"
			}
			return "9 extension clauses x 2 base configurations x (corpus sample + 1.5k generated) documents"
		},
	})
}

func genQuote(tier string, rng *RNG, emit func(Case)) {
	n := 8000
	if tier == "thorough" {
		n = 80000
	}
	for i, d := range CorpusDocs() {
		for ci := range quoteCfgs {
			emit(Case{Op: "q", Args: []string{fmt.Sprint(ci), fmt.Sprint(1 + (i+ci)%3), hx(stripBytes(d, "\t\r"))}})
		}
	}
	for i, e := range SpecExamples() {
		_ = i
		emit(Case{Op: "spec", Args: []string{fmt.Sprint(e.Example)}})
	}
	// directed: multi-line constructs whose SIZE is next to a limit of the inline parsers (a link label may have 999
	// characters): inside a quote the source span of a label that runs over several lines also holds the markers, its
	// value does not. Shortcut, collapsed, full and image references with labels of 940..1001 bytes over 2..8 lines.
	for _, total := range []int{940, 960, 985, 995, 997, 998, 999, 1000, 1001} {
		for _, k := range []int{2, 3, 5, 8} {
			var multi, single []byte
			per := (total - (k - 1)) / k
			for i := 0; i < k; i++ {
				w := per
				if i == k-1 {
					w = total - (k-1) - per*(k-1)
				}
				if i > 0 {
					multi = append(multi, '\n')
					single = append(single, ' ')
				}
				multi = append(multi, bytes.Repeat([]byte{byte('a' + i%3)}, w)...)
				single = append(single, bytes.Repeat([]byte{byte('a' + i%3)}, w)...)
			}
			def := "\n\n[" + string(single) + "]: /u\n"
			for fi, doc := range []string{"[" + string(multi) + "]" + def, "x [" + string(multi) + "][] y" + def, "[t][" + string(multi) + "]" + def, "![" + string(multi) + "]" + def} {
				emit(Case{Op: "q", Args: []string{fmt.Sprint((fi + k) % len(quoteCfgs)), fmt.Sprint(1 + (fi+total)%3), hx([]byte(doc))}})
			}
		}
	}
	// directed: DEEP nesting (bookkeeping per nesting level that is bounded by a machine word or a fixed table): state-sensitive
	// shapes (loose / tight lists, a list after a blank line, fenced code, setext heading) inside 28..36 and 58..70 block quotes
	for _, inner := range []string{"- a\n\n- b\n", "- a\n- b\n", "a\n\n- b\n\n  c\n", "1. a\n\n2. b\n", "```\nx\n\ny\n```\n", "a\n===\n\nb\n", "- a\n\n  - b\n\n  - c\n"} {
		for _, k := range []int{28, 30, 31, 32, 33, 36, 58, 60, 61, 62, 63, 64, 65, 66, 70} {
			d := []byte(inner)
			for i := 0; i < k; i++ {
				d = prefixLines(d, "> ")
			}
			emit(Case{Op: "q", Args: []string{fmt.Sprint(k % len(quoteCfgs)), "1", hx(d)}})
		}
	}
	DocStream(rng, len(CorpusDocs())+n, func(kind string, d []byte) {
		if kind == "corpus" {
			return
		}
		emit(Case{Op: "q", Args: []string{fmt.Sprint(rng.Intn(len(quoteCfgs))), fmt.Sprint(1 + rng.Intn(3)), hx(stripBytes(d, "\t\r"))}})
	})
}

func implQuote(cs Case) ImplResult {
	if cs.Op == "spec" {
		var ex *SpecExample
		for i := range SpecExamples() {
			if fmt.Sprint(SpecExamples()[i].Example) == cs.Args[0] {
				ex = &SpecExamples()[i]
			}
		}
		if ex == nil || hasByte([]byte(ex.Markdown), "\t\r") || !nonBlank([]byte(ex.Markdown)) {
			return ImplResult{Out: "skip", NoModel: true}
		}
		c := Cfg{Unsafe: true, XHTML: true}
		got := convertWith(c, prefixLines([]byte(ex.Markdown), "> "))
		want := "<blockquote>\n" + ex.HTML + "</blockquote>\n"
		res := ImplResult{Out: "ok", NoModel: true, Key: "spec" + cs.Args[0]}
		// spec.json's expected HTML is compared modulo what the spec's own normaliser ignores; only use examples goldmark renders byte-identically at top level
		if string(convertWith(c, []byte(ex.Markdown))) == ex.HTML && string(got) != want {
			res.Fails = append(res.Fails, OracleFail{"C08", "quote-prefix-differs-from-spec", fmt.Sprintf("spec example %d %q: got %q want %q", ex.Example, ex.Markdown, got, want)})
		}
		return res
	}
	var ci, depth int
	fmt.Sscan(cs.Args[0], &ci)
	fmt.Sscan(cs.Args[1], &depth)
	c := quoteCfgs[ci%len(quoteCfgs)]
	d := unhx(cs.Args[2])
	if !nonBlank(d) || hasByte(d, "\t\r") {
		return ImplResult{Out: "skip", NoModel: true}
	}
	res := ImplResult{Out: "ok", NoModel: true}
	if bytes.Count(d, []byte("\n")) >= 1 {
		res.Key = c.Name() + "|" + cs.Args[2]
	}
	inner := convertWith(c, d)
	cur := d
	want := inner
	for k := 1; k <= depth; k++ {
		cur = prefixLines(cur, "> ")
		want = append(append([]byte("<blockquote>\n"), want...), "</blockquote>\n"...)
		got := convertWith(c, cur)
		if !bytes.Equal(got, want) {
			clause := "quote-prefix-not-wrapping"
			if bracketSpanCrossesLimit(d, k) {
				// recorded finding (KNOWN_FINDINGS): parser/link.go measures the distance between the first and the last pending
				// `[` in SOURCE offsets (linkLabelStateLength) and gives up above 998; inside a quote the markers of the lines
				// between the two brackets are counted too, so a span just below the limit in D is above it in the quoted D
				clause = "bracket-span-limit-counts-container-markers"
			}
			res.Fails = append(res.Fails, OracleFail{"C08", clause, fmt.Sprintf("config %s depth %d: D=%q Convert(prefix(D))=%q want %q", c.Name(), k, d, got, want)})
			break
		}
	}
	return res
}

// bracketSpanCrossesLimit: D has two `[` with at least one line ending between them whose distance (first bracket's start to the
// second one's end) is at most 998 bytes in D but more than 998 once every line ending between them carries 2*depth marker bytes -
// exactly the documents on which the arithmetic of linkLabelStateLength (parser/link.go) differs between D and the quoted D
func bracketSpanCrossesLimit(d []byte, depth int) bool {
	var pos []int
	for i, c := range d {
		if c == '[' {
			pos = append(pos, i)
		}
	}
	for a := 0; a < len(pos); a++ {
		for b := a + 1; b < len(pos); b++ {
			span := pos[b] + 1 - pos[a]
			if span > 998 {
				break
			}
			nl := bytes.Count(d[pos[a]:pos[b]], []byte("\n"))
			if nl > 0 && span+2*depth*nl > 998 {
				return true
			}
		}
	}
	return false
}

// ---------- C09 ----------

var indepCfgs = []Cfg{{}, {Exts: "tskl"}, {Unsafe: true}, {Exts: "tskl", Unsafe: true, XHTML: true}}

func genIndep(tier string, rng *RNG, emit func(Case)) {
	n, m := 10000, 3000
	if tier == "thorough" {
		n, m = 100000, 30000
	}
	var pool [][]byte
	DocStream(rng, len(CorpusDocs())+n, func(kind string, d []byte) {
		d = stripBytes(d, "\r")
		pool = append(pool, d)
	})
	listBs := []string{"- a\n\n  b\n", "- a\n\n- b\n", "- a\n- b\n", "1. a\n\n   b\n", "- a\n\n      code\n", "> - a\n>\n>   b\n"}
	for i := 0; i < n/20; i++ { // line counts 1..300 of a repeated unit in front of a list whose shape depends on blank-line bookkeeping
		unit := []string{"- item\n", "x\n\n", "> q\n", "- item\n\n"}[rng.Intn(4)]
		a := []byte(strings.Repeat(unit, 1+rng.Intn(300)))
		emit(Case{Op: "pair", Args: []string{fmt.Sprint(rng.Intn(len(indepCfgs))), hx(a), hx([]byte(listBs[rng.Intn(len(listBs))]))}})
	}
	// state-sensitive shapes: every sequence of <= 4 block tokens as A against a fixed list of B whose rendering depends on
	// parser state that A can leave behind (blank-line bookkeeping, empty list items, open fences, setext candidates,
	// list-item offsets), and the other way round
	toks := []string{"- ", "-", "a", "\n", "  ", "1. ", "> ", "```", "    ", "\n\n"}
	sens := []string{"-\n  - b\n", "- a\n\n  b\n", "- a\n\n- b\n", "- a\n- b\n", "1.\n   2. b\n", "1. a\n\n   b\n", "- a\n\n      code\n", "> - a\n>\n>   b\n",
		"```\nc\n```\n", "~~~\nc\n", "a\n===\n", "a\n---\n", "    code\n", "<div>\nx\n</div>\n", "-\n\n  a\n", "- \n  a\n", "*\n  * b\n", "+ a\n\n  > q\n",
		"1) a\n2) b\n", "- a\n  ```\n  c\n  ```\n", "> a\nb\n", "a\n  b\n", "- a\n\n\n  b\n", "-\n-\n  - c\n", "- a\n\n  - b\n\n  c\n", "1.\n\n   a\n", "-\n  -\n    - c\n"}
	var seqs []string
	var trec func(cur string, d int)
	trec = func(cur string, d int) {
		if cur != "" {
			seqs = append(seqs, cur)
		}
		if d == 4 {
			return
		}
		for _, t := range toks {
			trec(cur+t, d+1)
		}
	}
	trec("", 0)
	for i := 0; i < len(seqs); i++ {
		for j, sb := range sens {
			emit(Case{Op: "pair", Args: []string{fmt.Sprint((i + j) % len(indepCfgs)), hx([]byte(seqs[i])), hx([]byte(sb))}})
			emit(Case{Op: "pair", Args: []string{fmt.Sprint((i + j) % len(indepCfgs)), hx([]byte(sb)), hx([]byte(seqs[i]))}})
		}
	}
	for i := 0; i < n; i++ {
		a := stripBytes(pool[rng.Intn(len(pool))], "[")
		b := stripBytes(pool[rng.Intn(len(pool))], "[")
		emit(Case{Op: "pair", Args: []string{fmt.Sprint(rng.Intn(len(indepCfgs))), hx(a), hx(b)}})
	}
	for i := 0; i < m; i++ {
		emit(Case{Op: "defs", Args: []string{fmt.Sprint(rng.Intn(len(indepCfgs))), hx(pool[rng.Intn(len(pool))]), fmt.Sprint(rng.Next())}})
	}
}

// endsInsideRawBlock: the deepest last block of the parse is a code or HTML block (it may still be open at the end).
func endsInsideRawBlock(c Cfg, src []byte) bool {
	doc := c.Build().Parser().Parse(text.NewReader(src))
	n := ast.Node(doc)
	for n.LastChild() != nil && n.LastChild().Type() == ast.TypeBlock {
		n = n.LastChild()
	}
	switch n.Kind() {
	case ast.KindFencedCodeBlock, ast.KindCodeBlock, ast.KindHTMLBlock:
		return true
	}
	return false
}

func implIndep(cs Case) ImplResult {
	var ci int
	fmt.Sscan(cs.Args[0], &ci)
	c := indepCfgs[ci%len(indepCfgs)]
	res := ImplResult{Out: "ok", NoModel: true}
	switch cs.Op {
	case "pair":
		a, b := unhx(cs.Args[1]), unhx(cs.Args[2])
		if hasByte(a, "[\r") || hasByte(b, "[\r") || endsInsideRawBlock(c, a) {
			return ImplResult{Out: "skip", NoModel: true}
		}
		joined := append(append(append([]byte{}, a...), "\n\n# h\n\n"...), b...)
		got := convertWith(c, joined)
		want := append(append(convertWith(c, a), "<h1>h</h1>\n"...), convertWith(c, b)...)
		if nonBlank(a) && nonBlank(b) {
			res.Key = c.Name() + "|" + cs.Args[1] + "|" + cs.Args[2]
		}
		if !bytes.Equal(got, want) {
			res.Fails = append(res.Fails, OracleFail{"C09", "neighbour-changes-rendering", fmt.Sprintf("config %s A=%q B=%q: joined %q, parts %q", c.Name(), a, b, got, want)})
		}
	case "defs":
		d := unhx(cs.Args[1])
		var seed uint64
		fmt.Sscan(cs.Args[2], &seed)
		rng := NewRNG(seed)
		if hasByte(d, "\r") || endsInsideRawBlock(c, d) || bytes.Contains(bytes.ToLower(d), []byte("zq")) {
			return ImplResult{Out: "skip", NoModel: true}
		}
		defs := []string{
			"[zq one]: /u1 \"t1\"\n[ZQTWO]: <u 2>\n[zq-3]: /u3\n",
			"[zq one]: /u1\n\"t1\"\n[ZQTWO]: <u 2>\n[zq-3]: /u3 'last title'",
			"[zq-3]: /u3\n[ZQTWO]: <u 2>\n[zq one]: /u1\n  \"title on its own line\"",
			"[zq one]:\n/u1\n[zqtwo]: /u2 (paren title)\n[zq-3]: </u3>",
		}[rng.Intn(4)]
		variants := []string{"[zq one]", "[ZQ ONE]", "[zq   one]", "[Zq\none]", "[zqtwo]", "[ZqTwO][]", "[text][zq-3]", "[ zq-3 ]", "![i][ZQ-3]", "[undefinedzq]"}
		var uses strings.Builder
		for i, k := 0, 1+rng.Intn(4); i < k; i++ {
			uses.WriteString(variants[rng.Intn(len(variants))])
			uses.WriteString([]string{" ", "\n", "\n\n"}[rng.Intn(3)])
		}
		body := string(d)
		if !strings.HasSuffix(body, "\n") {
			body += "\n"
		}
		body = uses.String() + "\n\n" + body + "\n" + uses.String() + "\n"
		top := convertWith(c, []byte(defs+"\n\n"+body))
		bottom := convertWith(c, []byte(body+"\n"+defs))
		res.Key = c.Name() + "|defs|" + cs.Args[1] + cs.Args[2]
		if !bytes.Equal(top, bottom) {
			res.Fails = append(res.Fails, OracleFail{"C09", "definition-position-matters", fmt.Sprintf("config %s body=%q: defs on top %q, at bottom %q", c.Name(), body, top, bottom)})
		}
	}
	return res
}

// ---------- C11 ----------

type consClause struct {
	name    string
	ext     string // extension letters added
	strip   string // trigger bytes removed from the document
	stripWW bool   // also remove "www."
	ascii   bool   // restrict to ASCII and remove backslash-space
}

var consClauses = []consClause{
	{"strikethrough", "s", "~", false, false},
	{"table", "t", "-", false, false},
	{"tasklist", "k", "[", false, false},
	{"footnote", "f", "", false, false}, // "[^" removed below
	{"definitionlist", "d", ":", false, false},
	{"typographer", "y", "'\"-.<>", false, false},
	{"linkify", "l", ":@", true, false},
	{"cjk-simple", "1e", "", false, true},
	{"cjk-css3", "2e", "", false, true},
}

// indexFoldASCII: first index of pat in d, comparing ASCII letters case-insensitively (byte offsets preserved)
func indexFoldASCII(d []byte, pat string) int {
	for i := 0; i+len(pat) <= len(d); i++ {
		ok := true
		for j := 0; j < len(pat); j++ {
			c := d[i+j]
			if c >= 'A' && c <= 'Z' {
				c += 32
			}
			if c != pat[j] {
				ok = false
				break
			}
		}
		if ok {
			return i
		}
	}
	return -1
}

func consPrepare(cl consClause, d []byte) []byte {
	d = stripBytes(d, cl.strip)
	if cl.name == "footnote" {
		d = bytes.ReplaceAll(d, []byte("[^"), []byte("["))
		for bytes.Contains(d, []byte("[^")) {
			d = bytes.ReplaceAll(d, []byte("[^"), []byte("["))
		}
	}
	if cl.stripWW {
		for {
			i := indexFoldASCII(d, "www.")
			if i < 0 {
				break
			}
			d = append(append([]byte{}, d[:i]...), d[i+1:]...)
		}
	}
	if cl.ascii {
		var o []byte
		for _, c := range d {
			if c < 0x80 {
				o = append(o, c)
			}
		}
		d = o
		for bytes.Contains(d, []byte("\\ ")) {
			d = bytes.ReplaceAll(d, []byte("\\ "), []byte("\\"))
		}
	}
	return d
}

var consBases = []string{"", "tskldfy"}

func genConservative(tier string, rng *RNG, emit func(Case)) {
	n := 1500
	step := 4
	if tier == "thorough" {
		n = 20000
		step = 1
	}
	var docs [][]byte
	for i, d := range CorpusDocs() {
		if i%step == 0 {
			docs = append(docs, d)
		}
	}
	DocStream(rng, len(CorpusDocs())+n, func(kind string, d []byte) {
		if kind != "corpus" {
			docs = append(docs, d)
		}
	})
	// regression inputs for the trailing-space / line-break cases
	docs = append(docs, []byte("||\n|\nrow one\nrow two\n"), []byte("|\n|\nx\n"), []byte("| |\n||\ny\n"), []byte("a\n|\n|\n"), []byte("|||\n|:|\nz\n"), []byte("tab\\\tseparated\n"), []byte("foo\t\t\nbar\n"), []byte("foo \t\nbar\n"),
		[]byte("### bar    ###\n"), []byte("aaa     \nbbb\n"), []byte("foo\n*bar*\n"), []byte("foo\n`bar`\n"), []byte("a\n![b](c)\n"))
	// near misses of every extension's trigger syntax (a document WITHOUT the characters the extension needs, but with text that
	// a loosened guard would take for its syntax): words that begin like `www.` without the dot, addresses without `@`, schemes
	// without `:`, brackets without `^`, pipes without a dash row, tildes replaced, definition markers without a colon
	for _, w := range []string{"www2.example.com", "wwwroot.example.com/path", "wwwexample.com", "WWWX.example.org/a?b=c", "ww.example.com www",
		"see wwwa.b and wwww.c.d/e", "http//example.com/a", "https example.com", "ftp.example.com/file", "mailto example.com", "a.b.example.com/path_(x)",
		"user at example.com", "user.example.com", "x w.w.w y", "wwwwww.", "- wwwx.y.z\n> www9.q.example\n",
		"| a | b |\n| = | = |\n| c | d |\n", "a | b\n= | =\nc | d\n", "[ ] todo\n- ( ) x\n- [y] z\n", "term\n; definition\n", "x~y z^w [a] [1]: note\n"} {
		docs = append(docs, []byte(strings.ReplaceAll(w, "\\n", "\n")+"\n"))
	}
	for ci := range consClauses {
		for bi := range consBases {
			for _, d := range docs {
				emit(Case{Op: "ext", Args: []string{fmt.Sprint(ci), fmt.Sprint(bi), hx(d)}})
			}
		}
	}
	for _, d := range docs {
		emit(Case{Op: "gfm", Args: []string{hx(d)}})
	}
	// CJK clauses: EVERY pair of printable ASCII characters around a soft line break (end of one line, start of the
	// next), plain and inside emphasis - the East Asian line-break rules look at exactly these two characters
	for ci, cl := range consClauses {
		if !cl.ascii {
			continue
		}
		for a := byte(0x21); a < 0x7f; a++ {
			for b := byte(0x21); b < 0x7f; b++ {
				emit(Case{Op: "ext", Args: []string{fmt.Sprint(ci), "0", hx([]byte{'x', a, '\n', b, 'y', '\n'})}})
				if (int(a)+int(b))%7 == 0 {
					emit(Case{Op: "ext", Args: []string{fmt.Sprint(ci), "1", hx([]byte{'p', ' ', a, '\n', '*', b, 'q', '*', '\n'})}})
				}
			}
		}
	}
}

func removeLetters(s, rm string) string {
	var o []byte
	for i := 0; i < len(s); i++ {
		if strings.IndexByte(rm, s[i]) < 0 {
			o = append(o, s[i])
		}
	}
	return string(o)
}

func implConservative(cs Case) ImplResult {
	res := ImplResult{Out: "ok", NoModel: true}
	if cs.Op == "gfm" {
		d := unhx(cs.Args[0])
		// extension.GFM versus its four members enabled together
		// another GFM converter with NON-default renderer options renders first: GFM must not share renderer/parser
		// objects between converters
		ax := convertWithExtGFMOpts(d, true)
		bx := convertWith(Cfg{Exts: "tskl", XHTML: true, Unsafe: true}, d)
		if !bytes.Equal(ax, bx) {
			res.Fails = append(res.Fails, OracleFail{"C11", "gfm-differs-from-members", fmt.Sprintf("%q (XHTML, unsafe): GFM %q, members %q", d, ax, bx)})
		}
		a := convertWithExtGFM(d)
		b := convertWith(Cfg{Exts: "tskl"}, d)
		if nonBlank(d) {
			res.Key = "gfm|" + cs.Args[0]
		}
		if !bytes.Equal(a, b) {
			res.Fails = append(res.Fails, OracleFail{"C11", "gfm-differs-from-members", fmt.Sprintf("%q: GFM %q, members %q", d, a, b)})
		}
		return res
	}
	var ci, bi int
	fmt.Sscan(cs.Args[0], &ci)
	fmt.Sscan(cs.Args[1], &bi)
	cl := consClauses[ci]
	d := consPrepare(cl, unhx(cs.Args[2]))
	base := removeLetters(consBases[bi], cl.ext)
	if strings.ContainsAny(cl.ext, "12e") {
		base = removeLetters(base, "12e")
	}
	without := Cfg{Exts: base}
	with := Cfg{Exts: base + cl.ext}
	a, b := convertWith(without, d), convertWith(with, d)
	if nonBlank(d) {
		res.Key = cl.name + "|" + base + "|" + hx(d)
	}
	if !bytes.Equal(a, b) {
		clause := "extension-changes-trigger-free-document-" + cl.name
		res.Fails = append(res.Fails, OracleFail{"C11", clause, fmt.Sprintf("base %q + %s on %q: without %q, with %q", base, cl.name, d, a, b)})
	}
	return res
}
