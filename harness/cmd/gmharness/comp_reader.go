package main

// Component `reader`: text.Reader / text.BlockReader / text.Segment (text/reader.go, text/segment.go).
//
//   reader run <srchex> <kind> <ops>     kind = r | b:<start>:<stop>:<pad>,...   (b:_ = empty segment list)
//   reader seg <op> <srchex> <start> <stop> <pad> <fn> [<x> <y> <z> <w>]
//
// `run` executes a call sequence on a fresh reader and prints every return value of every call. The same
// line goes to the Lean model (GM.Model.Reader through Driver/Reader.lean). Independently of the model the
// real reader is compared, call by call, with a plain Go cursor over the list of line views (specCursor
// below, property C18); a difference is an OracleFail. Sequences that leave the documented preconditions
// (cases whose op string starts with "!") are still compared with the model, but the cursor oracle is
// replaced by "no panic, position inside the source" for those violations where the code promises it.

import (
	"fmt"
	"strconv"
	"strings"
	"unicode/utf8"

	"github.com/yuin/goldmark/text"
	"github.com/yuin/goldmark/util"
)

func init() {
	register(&Component{
		Name:       "reader",
		Rule:       "all sources of <= N symbols over {a,' ',\\t,\\n,\\r,é,[,],`,\\} x all call sequences of <= M calls that respect Pre (exhaustive, source reader and block reader with plain and padded segment lists) + random longer sequences on longer sources + a stream of Pre-violating sequences + all Segment methods on small segments; non-trivial = at least one state-changing call; distinct = distinct (source, kind, outputs)",
		Gen:        genReader,
		Impl:       implReader,
		Exhaustive: true,
		Scope: func(tier string) string {
			if tier == "thorough" {
				return "exhaustive: sources<=3 symbols x Pre-respecting sequences<=3 calls (13 calls) and sequences<=2 calls (19 calls), source reader and 1-4 block segment lists per source; 400k random sequences of <=14 calls on sources of <=24 symbols; 100k Pre-violating sequences; Segment methods on all segments over sources<=4; every Pre-respecting sequence also evaluated on the Lean specification cursor"
			}
			return "exhaustive: sources<=2 symbols x Pre-respecting sequences<=3 calls (13 calls) and sources<=3 x sequences<=2 calls (19 calls), source reader and 1-4 block segment lists per source; 40k random sequences of <=12 calls on sources of <=16 symbols; 20k Pre-violating sequences; Segment methods on all segments over sources<=3; every Pre-respecting sequence also evaluated on the Lean specification cursor"
		},
	})
}

var readerAlphabet = syms("a", " ", "\t", "\n", "\r", "\xc3\xa9", "[", "]", "`", "\\")

// ---------------------------------------------------------------------------------------------------
// formatting

func segStr(s text.Segment) string {
	return fmt.Sprintf("%d:%d:%d:%s", s.Start, s.Stop, s.Padding, b2s(s.ForceNewline))
}

func hxn(b []byte) string {
	if b == nil {
		return "~"
	}
	return hx(b)
}

func readerPanicKind(r interface{}) string {
	msg := fmt.Sprint(r)
	switch {
	case strings.Contains(msg, "index out of range"):
		return "index"
	case strings.Contains(msg, "slice bounds out of range"):
		return "slice"
	case strings.Contains(msg, "nil pointer"):
		return "nil"
	case strings.Contains(msg, "interface conversion"):
		return "assert"
	}
	return "explicit"
}

func atoi(s string) int {
	v, err := strconv.Atoi(s)
	if err != nil {
		panic("bad int " + s)
	}
	return v
}

func parseSeg(p []string) text.Segment {
	return text.Segment{Start: atoi(p[0]), Stop: atoi(p[1]), Padding: atoi(p[2]), ForceNewline: p[3] == "1"}
}

func parseKind(kind string) (block bool, segs []text.Segment) {
	if kind == "r" {
		return false, nil
	}
	body := strings.TrimPrefix(kind, "b:")
	if body == "_" {
		return true, nil
	}
	for _, s := range strings.Split(body, ",") {
		p := strings.Split(s, ":")
		segs = append(segs, text.NewSegmentPadding(atoi(p[0]), atoi(p[1]), atoi(p[2])))
	}
	return true, segs
}

func kindStr(segs []text.Segment) string {
	if len(segs) == 0 {
		return "b:_"
	}
	var s []string
	for _, g := range segs {
		s = append(s, fmt.Sprintf("%d:%d:%d", g.Start, g.Stop, g.Padding))
	}
	return "b:" + strings.Join(s, ",")
}

// exact-capacity copy: Go slices `buffer[a:b]` up to cap, the model slices up to len.
func exactCopy(b []byte) []byte {
	c := make([]byte, len(b))
	copy(c, b)
	return c[:len(b):len(b)]
}

// ---------------------------------------------------------------------------------------------------
// the plain cursor spec (independent of the Lean model)

type lineView struct{ start, stop, pad int }

type specCursor struct {
	src   []byte
	block bool
	lines []lineView // block reader: the given segments; source reader: the lines of the source
	ln    int
	p     int
	pad   int
	fresh bool // unused since 0634ec3 (reader.SetPadding drops the caches)
}

func newSpec(src []byte, block bool, segs []text.Segment) *specCursor {
	c := &specCursor{src: src, block: block, fresh: true}
	if block {
		for _, s := range segs {
			c.lines = append(c.lines, lineView{s.Start, s.Stop, s.Padding})
		}
		c.reset()
		return c
	}
	st := 0
	for i, b := range src {
		if b == '\n' {
			c.lines = append(c.lines, lineView{st, i + 1, 0})
			st = i + 1
		}
	}
	if st < len(src) {
		c.lines = append(c.lines, lineView{st, len(src), 0})
	}
	c.reset()
	return c
}

func (c *specCursor) reset() {
	c.ln, c.fresh = 0, true
	if len(c.lines) > 0 {
		c.p, c.pad = c.lines[0].start, c.lines[0].pad
	} else if c.block {
		c.p, c.pad = -1, 0
	} else {
		c.p, c.pad = 0, 0
	}
}

func (c *specCursor) end() int {
	if c.block {
		if len(c.lines) == 0 {
			return 0
		}
		return c.lines[len(c.lines)-1].stop
	}
	return len(c.src)
}

func (c *specCursor) atEOF() bool {
	if !c.block {
		return c.p >= len(c.src)
	}
	return c.ln >= len(c.lines) || c.p >= c.end()
}

// source reader: the end / the start of the line that contains position p
func (c *specCursor) lineEnd(p int) int {
	for i := p; i < len(c.src); i++ {
		if c.src[i] == '\n' {
			return i + 1
		}
	}
	return len(c.src)
}

func (c *specCursor) lineStart(p int) int {
	for p > 0 && c.src[p-1] != '\n' {
		p--
	}
	return p
}

func (c *specCursor) stop() int {
	if !c.block {
		return c.lineEnd(c.p)
	}
	if len(c.lines) == 0 {
		if c.block {
			return -1
		}
		return 0
	}
	if c.ln < len(c.lines) {
		return c.lines[c.ln].stop
	}
	return c.lines[len(c.lines)-1].stop
}

func (c *specCursor) seg() text.Segment { return text.NewSegmentPadding(c.p, c.stop(), c.pad) }

func (c *specCursor) view() []byte {
	if c.atEOF() {
		return nil
	}
	v := []byte(strings.Repeat(" ", c.pad))
	return append(v, c.src[c.p:c.stop()]...)
}

// peekLine is view+seg as a call: the source reader caches a non-nil line
func (c *specCursor) peekLine() ([]byte, text.Segment) {
	v := c.view()
	if v != nil && !c.block {
		c.fresh = false
	}
	return v, c.seg()
}

// remaining bytes of the whole view from the cursor to the end
func (c *specCursor) remaining() int {
	if c.atEOF() {
		return 0
	}
	if !c.block {
		return c.pad + len(c.src) - c.p
	}
	n := c.pad + c.stop() - c.p
	for j := c.ln + 1; j < len(c.lines); j++ {
		n += c.lines[j].pad + c.lines[j].stop - c.lines[j].start
	}
	return n
}

func (c *specCursor) advance1() {
	if c.pad > 0 {
		c.pad--
		return
	}
	if !c.block {
		if c.src[c.p] == '\n' {
			c.ln++
		}
		c.p++
		return
	}
	if c.p+1 < c.stop() {
		c.p++
		return
	}
	if c.ln+1 < len(c.lines) {
		c.ln++
		c.p, c.pad = c.lines[c.ln].start, c.lines[c.ln].pad
		return
	}
	c.p++
}

func (c *specCursor) advance(n int) {
	c.fresh = true
	for ; n > 0 && !c.atEOF(); n-- {
		c.advance1()
	}
}

func (c *specCursor) advanceLine() {
	c.fresh = true
	if c.block {
		c.ln++
		if c.ln < len(c.lines) {
			c.p, c.pad = c.lines[c.ln].start, c.lines[c.ln].pad
		}
		return
	}
	c.p = c.lineEnd(c.p)
	c.ln++
	c.pad = 0
}

func (c *specCursor) lineOffset() int {
	head := c.p
	if !c.block {
		head = c.lineStart(c.p)
	} else if c.ln < len(c.lines) {
		head = c.lines[c.ln].start
	}
	v := 0
	for i := head; i < c.p; i++ {
		if c.src[i] == '\t' {
			v += 4 - v%4
		} else {
			v++
		}
	}
	return v - c.pad
}

// wfPos: a position that Position() can have returned (what SetPosition accepts under Pre)
func (c *specCursor) wfPos(line int, s text.Segment) bool {
	if s.ForceNewline || s.Padding < 0 || line < 0 {
		return false
	}
	n := len(c.lines)
	if c.block {
		if n == 0 {
			return false
		}
		if line >= n {
			l := c.lines[n-1]
			return s.Stop == l.stop && l.start <= s.Start && s.Start <= l.stop
		}
		l := c.lines[line]
		return s.Stop == l.stop && l.start <= s.Start && (s.Start < l.stop || (line == n-1 && s.Start == l.stop))
	}
	return 0 <= s.Start && s.Start <= len(c.src) && s.Stop == c.lineEnd(s.Start)
}

// ---------------------------------------------------------------------------------------------------
// running a call sequence on the real reader

type savedPos struct {
	line int
	seg  text.Segment
}

type readerRun struct {
	src    []byte
	orig   []byte
	block  bool
	segs   []text.Segment
	r      text.Reader
	saved  []savedPos
	ssaved []savedPos // the cursor's own record of the positions it has returned
	spec   *specCursor
	inPre  bool
	fails  []OracleFail
	moved  bool
	strict bool // a sequence generated as Pre-respecting
	kind   string
	done   []string // calls made so far (to replay them on a second reader)
	guard  bool     // check that a looping helper terminates before calling it
}

func newReaderRun(src []byte, kind string, strict bool) *readerRun {
	rr := &readerRun{src: exactCopy(src), orig: exactCopy(src), inPre: true, strict: strict, kind: kind, guard: true}
	rr.block, rr.segs = parseKind(kind)
	if rr.block {
		ss := text.NewSegments()
		ss.AppendAll(append([]text.Segment{}, rr.segs...))
		rr.r = text.NewBlockReader(rr.src, ss)
	} else {
		rr.r = text.NewReader(rr.src)
	}
	rr.spec = newSpec(rr.src, rr.block, rr.segs)
	if !wfSource(rr.src, rr.block, rr.segs) {
		rr.inPre = false
	}
	return rr
}

// WFSegs of the property: segments inside the source, non-empty, increasing, padding >= 0, at least one.
func wfSource(src []byte, block bool, segs []text.Segment) bool {
	if !block {
		return true
	}
	if len(segs) == 0 {
		return false
	}
	prev := 0
	for _, s := range segs {
		if s.Padding < 0 || s.Start < prev || s.Start >= s.Stop || s.Stop > len(src) {
			return false
		}
		prev = s.Stop
	}
	return true
}

func (rr *readerRun) fail(clause, format string, a ...interface{}) {
	if len(rr.fails) < 4 {
		rr.fails = append(rr.fails, OracleFail{Property: "C18", Clause: clause, Detail: fmt.Sprintf(format, a...)})
	}
}

// opPre: does the call respect the documented preconditions in the current spec state?
func (rr *readerRun) opPre(p []string) bool {
	c := rr.spec
	switch p[0] {
	case "ad":
		n := atoi(p[1])
		return n >= 0 && (n <= c.remaining() || !c.block) // the source reader clamps at the end
	case "ap":
		n := atoi(p[1])
		return n >= 0 && (n <= c.remaining() || !c.block) && atoi(p[2]) >= 0
	case "pd":
		v := atoi(p[1])
		return v >= 0
	case "rs":
		k := atoi(p[1])
		return k < len(rr.saved) // a saved position is a returned position
	case "sp":
		return c.wfPos(atoi(p[1]), parseSeg(p[2:6]))
	case "lo":
		return !c.atEOF() // at the end the column origin depends on how the end was reached (status_C18.md)
	case "rp":
		return c.block // reader.ResetPosition does not go back to the start (status_C18.md)
	case "va":
		s := parseSeg(p[1:5])
		if s.Start < 0 || s.Start > s.Stop || s.Stop > len(c.src) || s.Padding < 0 {
			return false
		}
		if c.block {
			// BlockReader.Value works line by line and ignores seg.Padding/ForceNewline (status_C18.md): the segment
			// must start inside the block; inside one line it must carry the padding that stands at its start
			if s.ForceNewline || len(c.lines) == 0 || s.Start < c.lines[0].start {
				return false
			}
			return blockValueMulti(c, s) || blockValuePre(c, s)
		}
		return true
	}
	return true
}

func (rr *readerRun) checkPos(where string) {
	// pos_in_range on the real reader
	_, s := rr.r.Position()
	if s.Start < 0 || s.Start > s.Stop || s.Stop > len(rr.src) {
		rr.fail("pos-in-range", "%s: position %s outside the source (len %d)", where, segStr(s), len(rr.src))
	}
}

// specSkipSpaces etc. are written against the cursor's own view/advance.
func (c *specCursor) skipSpaces() (text.Segment, int, bool) {
	chars := 0
	for {
		v, seg := c.peekLine()
		if v == nil {
			return seg, chars, false
		}
		k := 0
		for k < len(v) && util.IsSpace(v[k]) {
			k++
		}
		if k > 0 {
			c.advance(k)
		}
		chars += k
		if k < len(v) {
			return seg.WithStart(seg.Start + k + 1), chars, true
		}
	}
}

func (c *specCursor) skipBlankLines() (text.Segment, int, bool) {
	lines := 0
	for {
		v, seg := c.peekLine()
		if v == nil {
			return seg, lines, false
		}
		if !util.IsBlank(v) {
			return seg, lines, true
		}
		lines++
		c.advanceLine()
	}
}

// specFindClosure: what FindClosure means on the cursor. Returns the segments, found, and moves the cursor.
func (c *specCursor) findClosure(opener, closer byte, codeSpan, nesting, newline, adv bool) ([]text.Segment, bool) {
	o := *c
	var ret []text.Segment
	opened, cso, closed := 1, 0, false
scan:
	for {
		bs, seg := c.peekLine()
		if bs == nil {
			break
		}
		for i := 0; i < len(bs); {
			ch := bs[i]
			switch {
			case codeSpan && cso != 0 && ch == '`':
				j := i
				for j < len(bs) && bs[j] == '`' {
					j++
				}
				if j-i == cso {
					cso = 0
				}
				i = j
			case cso == 0 && ch == '\\' && i < len(bs)-1 && util.IsPunct(bs[i+1]):
				i += 2
			case codeSpan && cso == 0 && ch == '`':
				j := i
				for j < len(bs) && bs[j] == '`' {
					j++
				}
				cso = j - i
				i = j
			default:
				if !codeSpan || cso == 0 {
					if ch == closer {
						opened--
						if opened == 0 {
							// the closing segment stops at the SOURCE offset of the closer: `i` indexes the view, which begins with
							// seg.Padding virtual spaces (repair 9e57c92; before it real code and this cursor both said Start+i)
							ret = append(ret, seg.WithStop(seg.Start+i-seg.Padding))
							c.advance(i + 1)
							closed = true
							break scan
						}
					} else if ch == opener {
						if !nesting {
							break scan
						}
						opened++
					}
				}
				i++
			}
		}
		if !newline {
			break
		}
		c.advanceLine()
		ret = append(ret, seg)
	}
	if !adv {
		ln, p, pad := o.ln, o.p, o.pad
		c.ln, c.p, c.pad = ln, p, pad
		c.fresh = true
	}
	if closed {
		return ret, true
	}
	return nil, false
}

func readerSegsStr(ss []text.Segment) string {
	if ss == nil {
		return "~"
	}
	var s []string
	for _, g := range ss {
		s = append(s, segStr(g))
	}
	return strings.Join(s, "|")
}

// step executes one call on the real reader; ok=false after a panic.
func (rr *readerRun) step(op string) (out string, ok bool) {
	p := strings.Split(op, ":")
	if rr.guard && loopingHelper(op) && !helperTerminates(rr.orig, rr.kind, rr.done, op) {
		if rr.inPre && rr.opPre(p) {
			rr.fail("helper-loops", "%s does not terminate although the call sequence respects the preconditions", op)
		}
		return "loop", false
	}
	rr.done = append(rr.done, op)
	pre := rr.inPre && rr.opPre(p)
	if rr.inPre && !pre {
		rr.inPre = false
	}
	defer func() {
		if e := recover(); e != nil {
			out, ok = "panic:"+readerPanicKind(e), false
			if pre {
				rr.fail("panic-under-pre", "%s panicked (%v) although the call sequence respects the preconditions", op, e)
			}
		}
	}()
	r, c := rr.r, rr.spec
	cmp := func(what, got, want string) {
		if pre && got != want {
			rr.fail(what, "%s returned %s, the cursor over the line views says %s", op, got, want)
		}
	}
	switch p[0] {
	case "pk":
		out = strconv.Itoa(int(r.Peek()))
		if pre {
			want := 255
			if v := c.view(); len(v) > 0 {
				want = int(v[0])
			}
			cmp("peek", out, strconv.Itoa(want))
		}
	case "pl":
		l, s := r.PeekLine()
		out = hxn(l) + "@" + segStr(s)
		if pre {
			v, sg := c.peekLine()
			cmp("peekline", out, hxn(v)+"@"+segStr(sg))
		}
	case "ad":
		r.Advance(atoi(p[1]))
		out = "."
		rr.moved = true
		if pre {
			c.advance(atoi(p[1]))
		}
	case "ap":
		r.AdvanceAndSetPadding(atoi(p[1]), atoi(p[2]))
		out = "."
		rr.moved = true
		if pre {
			c.advance(atoi(p[1]))
			if atoi(p[2]) > c.pad {
				c.pad = atoi(p[2])
			}
		}
	case "al":
		r.AdvanceLine()
		out = "."
		rr.moved = true
		if pre {
			c.advanceLine()
		}
	case "po":
		l, s := r.Position()
		rr.saved = append(rr.saved, savedPos{l, s})
		out = strconv.Itoa(l) + "@" + segStr(s)
		rr.ssaved = append(rr.ssaved, savedPos{c.ln, c.seg()})
		if pre {
			cmp("position", out, strconv.Itoa(c.ln)+"@"+segStr(c.seg()))
		}
	case "rs":
		k := atoi(p[1])
		if k >= len(rr.saved) {
			return "x", true
		}
		r.SetPosition(rr.saved[k].line, rr.saved[k].seg)
		out = "."
		rr.moved = true
		if pre {
			c.ln, c.p, c.pad, c.fresh = rr.ssaved[k].line, rr.ssaved[k].seg.Start, rr.ssaved[k].seg.Padding, true
		}
	case "sp":
		s := parseSeg(p[2:6])
		r.SetPosition(atoi(p[1]), s)
		out = "."
		rr.moved = true
		if pre {
			c.ln, c.p, c.pad, c.fresh = atoi(p[1]), s.Start, s.Padding, true
		}
	case "pd":
		r.SetPadding(atoi(p[1]))
		out = "."
		rr.moved = true
		if pre {
			c.pad = atoi(p[1])
		}
	case "lo":
		out = strconv.Itoa(r.LineOffset())
		if pre {
			cmp("lineoffset", out, strconv.Itoa(c.lineOffset()))
			if !c.block {
				c.fresh = false
			}
		}
	case "pc":
		out = strconv.Itoa(int(r.PrecendingCharacter()))
		if pre && c.pad == 0 && c.p > 0 && c.p <= len(c.src) && utf8.Valid(c.src) && (c.p == len(c.src) || utf8.RuneStart(c.src[c.p])) {
			if !(c.block && c.ln == 0 && c.p <= c.lines[0].start) {
				want, _ := utf8.DecodeLastRune(c.src[:c.p])
				cmp("preceding", out, strconv.Itoa(int(want)))
			}
		}
	case "va":
		s := parseSeg(p[1:5])
		out = hxn(r.Value(s))
		if pre {
			want := append([]byte(strings.Repeat(" ", s.Padding)), rr.orig[s.Start:s.Stop]...)
			if s.ForceNewline && len(want) > 0 && want[len(want)-1] != '\n' {
				want = append(want, '\n')
			}
			if c.block && !blockValuePre(c, s) {
				// the segment runs on over later block lines: each later line contributes its padding and its bytes
				want = blockValueSpec(c, s)
			}
			cmp("value", out, hxn(want))
		}
	case "ss":
		s, n, f := r.SkipSpaces()
		out = segStr(s) + "," + strconv.Itoa(n) + "," + b2s(f)
		rr.moved = true
		if pre {
			s2, n2, f2 := c.skipSpaces()
			cmp("skipspaces", out, segStr(s2)+","+strconv.Itoa(n2)+","+b2s(f2))
			if f {
				if b := r.Peek(); util.IsSpace(b) {
					rr.fail("skipspaces-post", "%s said found but Peek is the space %d", op, b)
				}
			}
		}
	case "sl":
		s, n, f := r.SkipBlankLines()
		out = segStr(s) + "," + strconv.Itoa(n) + "," + b2s(f)
		rr.moved = true
		if pre {
			s2, n2, f2 := c.skipBlankLines()
			cmp("skipblanklines", out, segStr(s2)+","+strconv.Itoa(n2)+","+b2s(f2))
		}
	case "rr":
		rn, sz, err := r.ReadRune()
		out = strconv.Itoa(int(rn)) + "," + strconv.Itoa(sz) + "," + b2s(err != nil)
		rr.moved = true
		if pre {
			v, _ := c.peekLine()
			wr, ws, we := 0, 0, true
			if v != nil {
				if x, n := utf8.DecodeRune(v); x != utf8.RuneError {
					wr, ws, we = int(x), n, false
				}
			}
			cmp("readrune", out, strconv.Itoa(wr)+","+strconv.Itoa(ws)+","+b2s(we))
			if !we {
				c.advance(ws)
			}
		}
	case "fc":
		fl := atoi(p[3])
		opts := text.FindClosureOptions{CodeSpan: fl&1 != 0, Nesting: fl&2 != 0, Newline: fl&4 != 0, Advance: fl&8 != 0}
		var before savedPos
		before.line, before.seg = r.Position()
		ss, f := r.FindClosure(byte(atoi(p[1])), byte(atoi(p[2])), opts)
		var list []text.Segment
		if ss != nil {
			list = ss.Sliced(0, ss.Len())
			if list == nil {
				list = []text.Segment{}
			}
		}
		out = readerSegsStr(list) + "," + b2s(f)
		rr.moved = true
		if pre {
			want, wf := c.findClosure(byte(atoi(p[1])), byte(atoi(p[2])), opts.CodeSpan, opts.Nesting, opts.Newline, opts.Advance)
			cmp("findclosure", out, readerSegsStr(want)+","+b2s(wf))
			if !opts.Advance {
				l, s := r.Position()
				if l != before.line || s != before.seg {
					rr.fail("findclosure-restores", "%s without Advance moved the position from %d@%s to %d@%s", op, before.line, segStr(before.seg), l, segStr(s))
				}
			}
		}
	case "rp":
		r.ResetPosition()
		out = "."
		if pre {
			c.reset()
		}
	default:
		panic("bad reader op " + op)
	}
	if pre {
		rr.checkPos(op)
	}
	if string(rr.src) != string(rr.orig) {
		// no Reader/Segment call may write to the source (Segment.Value once appended its forced newline in place, 8e80f0e)
		rr.fails = append(rr.fails, OracleFail{Property: "C18", Clause: "source-mutated", Detail: fmt.Sprintf("%s changed the source from %x to %x", op, rr.orig, rr.src)})
		copy(rr.src, rr.orig)
	}
	return out, true
}

// blockLineOf: the block line in which position p lies (the last line starting at or before p), -1 if none
func blockLineOf(c *specCursor, p int) int {
	j := -1
	for i, l := range c.lines {
		if l.start <= p {
			j = i
		}
	}
	return j
}

// blockValuePre: BlockReader.Value(seg) is the segment's own value when seg lies inside one block line and
// either starts at the line's first byte with the line's padding, or starts inside the line with padding 0
// (since 96b5bf4 the line's padding is only put in front of the line's first byte).
func blockValuePre(c *specCursor, s text.Segment) bool {
	j := blockLineOf(c, s.Start)
	if j < 0 || s.Start > s.Stop || s.Stop > c.lines[j].stop {
		return false
	}
	l := c.lines[j]
	if s.Start == l.start {
		return s.Padding == l.pad
	}
	return s.Padding == 0
}

// blockValueMulti: seg starts in a block line and runs on past its end (labels / titles spanning lines);
// its padding is not looked at
func blockValueMulti(c *specCursor, s text.Segment) bool {
	j := blockLineOf(c, s.Start)
	return j >= 0 && s.Start <= s.Stop && s.Stop > c.lines[j].stop
}

// blockValueSpec: the meaning of BlockReader.Value for a segment spanning block lines: the first line gives its
// padding only if seg starts at its first byte, then its bytes from seg.Start; every later line that begins
// before seg.Stop is reached gives its padding and its bytes (up to seg.Stop)
func blockValueSpec(c *specCursor, s text.Segment) []byte {
	j := blockLineOf(c, s.Start)
	out := []byte{}
	from := s.Start
	for ; j < len(c.lines); j++ {
		l := c.lines[j]
		if from == l.start {
			out = append(out, strings.Repeat(" ", l.pad)...)
		}
		to := l.stop
		if s.Stop < to {
			to = s.Stop
		}
		if from < to {
			out = append(out, c.src[from:to]...)
		}
		if l.stop >= s.Stop {
			break
		}
		if j+1 < len(c.lines) {
			from = c.lines[j+1].start
		}
	}
	return out
}

// helperTerminates replays the calls made so far on a second reader and runs a bounded skeleton of the
// helper's loop there (SkipSpaces; SkipBlankLines and FindClosure: PeekLine/AdvanceLine until nil), so that neither
// a Pre-violating sequence nor a broken goldmark can hang the harness.
func helperTerminates(src []byte, kind string, done []string, op string) (res bool) {
	defer func() {
		if recover() != nil {
			res = true
		}
	}()
	rr := newReaderRun(src, kind, false)
	rr.guard = false
	for _, o := range done {
		if _, ok := rr.step(o); !ok {
			return true
		}
	}
	bound := 4*len(src) + 64
	if op == "ss" {
		for iter := 0; iter < bound; iter++ {
			line, _ := rr.r.PeekLine()
			if line == nil {
				return true
			}
			for _, ch := range line {
				if util.IsSpace(ch) {
					rr.r.Advance(1)
					continue
				}
				return true
			}
		}
		return false
	}
	for iter := 0; iter < bound; iter++ {
		line, _ := rr.r.PeekLine()
		if line == nil {
			return true
		}
		rr.r.AdvanceLine()
	}
	return false
}

func loopingHelper(op string) bool {
	return op == "ss" || op == "sl" || strings.HasPrefix(op, "fc:")
}

func implReader(c Case) ImplResult {
	if c.Op == "seg" {
		return implSeg(c)
	}
	src := unhx(c.Args[0])
	kind := c.Args[1]
	opstr := c.Args[2]
	strict := true
	if strings.HasPrefix(opstr, "!") {
		strict = false
		opstr = opstr[1:]
	}
	rr := newReaderRun(src, kind, strict)
	var outs []string
	ops := strings.Split(opstr, ";")
	for _, op := range ops {
		o, ok := rr.step(op)
		outs = append(outs, o)
		if !ok {
			break
		}
	}
	res := ImplResult{Out: strings.Join(outs, ";"), Fails: rr.fails}
	if strict && !rr.inPre {
		res.Fails = append(res.Fails, OracleFail{Property: "C18", Clause: "generator-pre", Detail: "a sequence generated as Pre-respecting left Pre: " + c.Args[2]})
	}
	if rr.moved {
		res.Key = c.Args[0] + "|" + kind + "|" + res.Out
	}
	if strict && rr.inPre && len(res.Fails) == 0 && specDefined(rr.block, ops) {
		// Lean-defined oracle: the specification cursor of GM.Spec.Cursor, evaluated by the driver, must be defined
		// on this sequence (it respects Pre) and say exactly what the implementation returned
		res.Checks = append(res.Checks, ModelCheck{Line: "reader speccheck " + c.Args[0] + " " + kind + " " + opstr + " " + res.Out, Property: "C18"})
	}
	return res
}

// specDefined: calls for which GM.Spec.Cursor gives a meaning (PrecendingCharacter is modelled but not
// specified; BlockReader.Value has its own theorem)
func specDefined(block bool, ops []string) bool {
	for _, op := range ops {
		if op == "pc" || (block && strings.HasPrefix(op, "va:")) || (!block && op == "rp") {
			return false
		}
	}
	return true
}

// ---------------------------------------------------------------------------------------------------
// Segment methods

func implSeg(c Case) (res ImplResult) {
	defer func() {
		if e := recover(); e != nil {
			res.Out = "panic:" + readerPanicKind(e)
			res.Key = "panic"
		}
	}()
	op := c.Args[0]
	src := exactCopy(unhx(c.Args[1]))
	s := parseSeg(c.Args[2:6])
	inRange := 0 <= s.Start && s.Start <= s.Stop && s.Stop <= len(src) && s.Padding >= 0
	switch op {
	case "value":
		v := s.Value(src)
		res.Out = hxn(v)
		if inRange {
			want := append([]byte(strings.Repeat(" ", s.Padding)), src[s.Start:s.Stop]...)
			if s.ForceNewline && len(want) > 0 && want[len(want)-1] != '\n' {
				want = append(want, '\n')
			}
			if string(v) != string(want) {
				res.Fails = append(res.Fails, OracleFail{"C18", "segment-value", fmt.Sprintf("%s.Value = %q, want %q", segStr(s), v, want)})
			}
			if s.Len() != s.Padding+s.Stop-s.Start {
				res.Fails = append(res.Fails, OracleFail{"C18", "segment-len", segStr(s)})
			}
		}
	case "len":
		res.Out = strconv.Itoa(s.Len())
	case "isEmpty":
		res.Out = b2s(s.IsEmpty())
	case "between":
		o := parseSeg(c.Args[6:10])
		res.Out = segStr(s.Between(o))
	case "trimRight":
		t := s.TrimRightSpace(src)
		res.Out = segStr(t)
		if inRange && !(t.Start == s.Start && t.Stop <= s.Stop && t.Stop >= t.Start) {
			res.Fails = append(res.Fails, OracleFail{"C18", "segment-trim", fmt.Sprintf("TrimRightSpace %s -> %s", segStr(s), segStr(t))})
		}
	case "trimLeft":
		t := s.TrimLeftSpace(src)
		res.Out = segStr(t)
		if inRange && !(t.Stop == s.Stop && t.Start >= s.Start && t.Start <= t.Stop) {
			res.Fails = append(res.Fails, OracleFail{"C18", "segment-trim", fmt.Sprintf("TrimLeftSpace %s -> %s", segStr(s), segStr(t))})
		}
	case "trimLeftWidth":
		t := s.TrimLeftSpaceWidth(atoi(c.Args[6]), src)
		res.Out = segStr(t)
	case "withStart":
		res.Out = segStr(s.WithStart(atoi(c.Args[6])))
	case "withStop":
		res.Out = segStr(s.WithStop(atoi(c.Args[6])))
	case "concatPadding":
		res.Out = hxn(s.ConcatPadding(unhx(c.Args[6])))
	default:
		panic("bad seg op " + op)
	}
	res.Key = op + "|" + res.Out
	return res
}

// ---------------------------------------------------------------------------------------------------
// generation

// segment lists for a source: its lines; its lines with a padded first/second line where the line starts
// with a tab (the tab's first columns become padding); every second line (non-contiguous block); lines without
// their first byte (block quote like)
func blockKinds(src []byte) [][]text.Segment {
	var lines []text.Segment
	st := 0
	for i, b := range src {
		if b == '\n' {
			lines = append(lines, text.NewSegment(st, i+1))
			st = i + 1
		}
	}
	if st < len(src) {
		lines = append(lines, text.NewSegment(st, len(src)))
	}
	if len(lines) == 0 {
		return nil
	}
	out := [][]text.Segment{lines}
	// padded: skip a leading tab/space of each line and turn it into padding
	var padded []text.Segment
	anyPad := false
	for _, l := range lines {
		if l.Stop-l.Start >= 2 && src[l.Start] == '\t' {
			padded = append(padded, text.NewSegmentPadding(l.Start+1, l.Stop, 2))
			anyPad = true
		} else if l.Stop-l.Start >= 2 && src[l.Start] == ' ' {
			padded = append(padded, text.NewSegmentPadding(l.Start+1, l.Stop, 1))
			anyPad = true
		} else {
			padded = append(padded, l)
		}
	}
	if anyPad {
		out = append(out, padded)
	}
	// quote-like: drop the first byte of each line that has at least two
	var quoted []text.Segment
	for _, l := range lines {
		if l.Stop-l.Start >= 2 {
			quoted = append(quoted, text.NewSegment(l.Start+1, l.Stop))
		}
	}
	if len(quoted) > 0 {
		out = append(out, quoted)
	}
	if len(lines) >= 3 {
		out = append(out, []text.Segment{lines[0], lines[2]})
	}
	return out
}

var readerFixedOps = []string{"pk", "pl", "ad:1", "ad:2", "ap:1:1", "al", "po", "rs:0", "pd:1", "lo", "pc", "ss", "sl", "rr",
	"fc:91:93:0", "fc:91:93:14", "fc:91:93:5", "fc:91:93:7"}

var readerFewOps = []string{"pk", "pl", "ad:1", "ap:1:1", "al", "po", "rs:0", "pd:1", "lo", "ss", "sl", "rr", "fc:91:93:14"}

const readerObserve = "po;pl;pk;lo"

// observe: the trailing observation calls (LineOffset only where Pre allows it)
func (rr *readerRun) observe() string {
	if rr.opPre([]string{"lo"}) {
		return readerObserve
	}
	return "po;pl;pk"
}

// candidate calls in the current spec state (Pre-respecting ones are filtered by the caller)
func (rr *readerRun) candidateOps(rng *RNG, few bool) []string {
	ops := append([]string{}, readerFixedOps...)
	if few {
		return append([]string{}, readerFewOps...)
	}
	c := rr.spec
	s := c.seg()
	if s.Start >= 0 && s.Start <= s.Stop && s.Stop <= len(c.src) {
		ops = append(ops, "va:"+segStr(s))
	}
	if rng != nil {
		rem := c.remaining()
		ops = append(ops, "ad:"+strconv.Itoa(rng.Intn(rem+1)), "ad:"+strconv.Itoa(rem), "ad:3", "ad:0",
			"ap:"+strconv.Itoa(rng.Intn(rem+1))+":"+strconv.Itoa(rng.Intn(4)), "pd:"+strconv.Itoa(rng.Intn(4)), "pd:0",
			"rs:"+strconv.Itoa(rng.Intn(3)), "rp",
			fmt.Sprintf("fc:%d:%d:%d", []int{91, 96, 40}[rng.Intn(3)], []int{93, 96, 41}[rng.Intn(3)], rng.Intn(16)),
			fmt.Sprintf("fc:91:93:%d", rng.Intn(16)))
		if c.block && len(c.lines) > 0 {
			l := c.lines[rng.Intn(len(c.lines))]
			a := l.start + rng.Intn(l.stop-l.start+1)
			b := a + rng.Intn(len(c.src)+1-a)
			ops = append(ops, fmt.Sprintf("va:%d:%d:0:0", a, b), fmt.Sprintf("va:%d:%d:%d:0", l.start, l.stop, l.pad))
		}
		if len(c.src) > 0 {
			a := rng.Intn(len(c.src) + 1)
			b := a + rng.Intn(len(c.src)+1-a)
			ops = append(ops, fmt.Sprintf("va:%d:%d:%d:%d", a, b, rng.Intn(3)%2*rng.Intn(3), rng.Intn(6)/5))
		}
	}
	return ops
}

func genReader(tier string, rng *RNG, emit func(Case)) {
	srcA, seqA, srcB, seqB := 2, 3, 3, 2
	nrand, maxOps, maxSrc, nviol, segSrc := 40000, 12, 16, 20000, 3
	if tier == "thorough" {
		srcA, seqA, srcB, seqB = 3, 3, 3, 2
		nrand, maxOps, maxSrc, nviol, segSrc = 400000, 14, 24, 100000, 4
	}
	// exhaustive: every Pre-respecting sequence
	enumSeqs := func(src []byte, kind string, depth int) {
		var rec func(prefix []string)
		rec = func(prefix []string) {
			ops := strings.Join(prefix, ";")
			rr := newReaderRun(src, kind, true)
			for _, op := range prefix {
				rr.step(op)
			}
			if len(prefix) > 0 {
				emit(Case{Op: "run", Args: []string{hx(src), kind, ops + ";" + rr.observe()}})
			}
			if len(prefix) == depth {
				return
			}
			for _, op := range rr.candidateOps(nil, depth >= 3) {
				if rr.opPre(strings.Split(op, ":")) {
					rec(append(append([]string{}, prefix...), op))
				}
			}
		}
		rec(nil)
	}
	scope := func(nsrc, nseq int) {
		enumStrings(readerAlphabet, nsrc, func(src []byte) {
			enumSeqs(src, "r", nseq)
			for _, segs := range blockKinds(src) {
				enumSeqs(src, kindStr(segs), nseq)
			}
		})
	}
	scope(srcA, seqA)
	scope(srcB, seqB)
	// random longer Pre-respecting sequences
	for i := 0; i < nrand; i++ {
		src := randString(rng, readerAlphabet, maxSrc)
		kind := "r"
		if rng.Bool() {
			if ks := blockKinds(src); len(ks) > 0 {
				kind = kindStr(ks[rng.Intn(len(ks))])
			}
		}
		rr := newReaderRun(src, kind, true)
		n := 2 + rng.Intn(maxOps-1)
		var ops []string
		for j := 0; j < n; j++ {
			cand := rr.candidateOps(rng, false)
			op := cand[rng.Intn(len(cand))]
			if !rr.opPre(strings.Split(op, ":")) {
				continue
			}
			if _, ok := rr.step(op); !ok {
				ops = append(ops, op)
				break
			}
			ops = append(ops, op)
		}
		ops = append(ops, rr.observe())
		emit(Case{Op: "run", Args: []string{hx(src), kind, strings.Join(ops, ";")}})
	}
	// Pre-violating sequences (prefix "!"): too long advances, negative numbers, arbitrary SetPosition,
	// SetPadding after an observation, broken segment lists
	for i := 0; i < nviol; i++ {
		src := randString(rng, readerAlphabet, 8)
		kind := "r"
		if rng.Bool() {
			var segs []text.Segment
			for k := rng.Intn(4); k > 0; k-- {
				a := rng.Intn(len(src)+3) - 1
				segs = append(segs, text.NewSegmentPadding(a, a+rng.Intn(5)-1, rng.Intn(4)-1))
			}
			kind = kindStr(segs)
			if rng.Bool() {
				if ks := blockKinds(src); len(ks) > 0 {
					kind = kindStr(ks[rng.Intn(len(ks))])
				}
			}
		}
		n := 1 + rng.Intn(8)
		var ops []string
		if i%4 == 0 {
			// regression for 0634ec3: observe, SetPadding, observe again
			kind = "r"
			ops = append(ops, "ad:"+strconv.Itoa(rng.Intn(3)), []string{"pl", "lo", "ss", "pl;lo"}[rng.Intn(4)], "pd:"+strconv.Itoa(rng.Intn(3)),
				[]string{"pl", "lo", "pk;pl", "rr", "ad:1", "ss"}[rng.Intn(6)], readerObserve)
			emit(Case{Op: "run", Args: []string{hx(src), kind, "!" + strings.Join(ops, ";")}})
			continue
		}
		for j := 0; j < n; j++ {
			switch rng.Intn(8) {
			case 0:
				ops = append(ops, "ad:"+strconv.Itoa(rng.Intn(14)-2))
			case 1:
				ops = append(ops, fmt.Sprintf("sp:%d:%d:%d:%d:%d", rng.Intn(5)-1, rng.Intn(len(src)+4)-2, rng.Intn(len(src)+4)-2, rng.Intn(4)-1, rng.Intn(5)/4))
			case 2:
				ops = append(ops, "pd:"+strconv.Itoa(rng.Intn(6)-1))
			case 3:
				ops = append(ops, fmt.Sprintf("va:%d:%d:%d:%d", rng.Intn(len(src)+4)-2, rng.Intn(len(src)+4)-2, rng.Intn(4)-1, rng.Intn(2)))
			case 4:
				ops = append(ops, fmt.Sprintf("ap:%d:%d", rng.Intn(12)-1, rng.Intn(5)-1))
			default:
				ops = append(ops, readerFixedOps[rng.Intn(len(readerFixedOps))])
			}
		}
		ops = append(ops, readerObserve)
		emit(Case{Op: "run", Args: []string{hx(src), kind, "!" + strings.Join(ops, ";")}})
	}
	// Segment methods: every segment over every small source
	enumStrings(syms("a", " ", "\t", "\n"), segSrc, func(src []byte) {
		h := hx(src)
		for st := -1; st <= len(src)+1; st++ {
			for sp := -1; sp <= len(src)+1; sp++ {
				for pad := -1; pad <= 2; pad++ {
					for _, fn := range []string{"0", "1"} {
						base := []string{h, strconv.Itoa(st), strconv.Itoa(sp), strconv.Itoa(pad), fn}
						mk := func(op string, extra ...string) {
							emit(Case{Op: "seg", Args: append(append([]string{op}, base...), extra...)})
						}
						mk("value")
						if fn == "1" {
							continue
						}
						mk("trimRight")
						mk("trimLeft")
						for w := -1; w <= 5; w++ {
							mk("trimLeftWidth", strconv.Itoa(w))
						}
						if len(src) <= 1 {
							mk("len")
							mk("isEmpty")
							mk("withStart", "7")
							mk("withStop", "-3")
							mk("concatPadding", "6162")
							mk("concatPadding", "-")
							mk("between", strconv.Itoa(st+1), strconv.Itoa(sp), "1", "0")
							mk("between", strconv.Itoa(st+1), strconv.Itoa(sp+1), "0", "0")
						}
					}
				}
			}
		}
	})
}
