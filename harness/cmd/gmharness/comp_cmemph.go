package main

// Component `cmemph` (property C02): emphasis and strong emphasis (CommonMark 0.31.2 section 6.2, rules 1-17) against a
// SPEC-SIDE inline reference, GM.Spec.CMEmph (written from the specification text and its appendix "A parsing
// strategy", not from goldmark's code; served by the driver as `cmspec emph <hex source>` -> `<hex prescribed HTML>`
// or `n-a`, and `cmspec emphi <hex inline content>`).
//
//   op doc  <hex source>   the source is a document of paragraphs over the reference's alphabet (`emphOnly`: letters,
//                          digits, spaces, line endings, ASCII punctuation with "<" "[" "&" only backslash-escaped or
//                          inside a code span, a few non-ASCII letters / Unicode punctuation / Unicode spaces; code
//                          spans, 6.1, are part of the reference since step two); goldmark (core CommonMark,
//                          html.WithUnsafe + html.WithXHTML, as in `cmspec`) converts it; bytes compared.
//   op head <hex content>  the same inline content as an ATX heading `# content` (4.2: the raw contents are stripped of
//                          leading and trailing spaces and parsed as inlines) - reaches inline content that cannot start
//                          a paragraph (`* a`, `***`, ...).
//   op ex   <i>            example i of _test/spec.json (all examples inside the scope): the REFERENCE must reproduce
//                          spec.json's html (compared by the engine: a difference is an error of the reference), and
//                          goldmark must too (oracle).
//
// Gen asks the driver for every candidate first (two-phase flow, as `cmspec`) and emits the applicable ones; Impl
// compares goldmark's bytes with the prescribed bytes: clause `emphasis-differs` with source / got / want. The engine
// additionally compares Out with the driver's answer, so a difference is also a broken correspondence.

import (
	"bytes"
	"fmt"
	"os"
	"regexp"
	"strconv"
	"strings"
	"sync"
)

var (
	cmemphCache = map[string]string{}
	cmemphMu    sync.Mutex
)

func init() {
	register(&Component{
		Name: "cmemph",
		Rule: "documents of paragraphs (and ATX headings) over the alphabet of the spec-side emphasis reference GM.Spec.CMEmph; non-trivial = goldmark's HTML contains <em> or <strong>; distinct = distinct tag sequences x delimiter-run signatures",
		Gen:  genCMEmph,
		Impl: implCMEmph,
		Scope: func(tier string) string {
			n4, n7, nn, nu, nc := 7, 6, 6, 4, 7
			if tier == "thorough" {
				n4, n7, nn, nu, nc = 9, 7, 7, 5, 8
			}
			return fmt.Sprintf("exhaustive: every string of length <= %d over {a, space, *, _}; of length <= %d over {a, b, space, *, _, ., \\}; of length <= %d over {a, space, *, newline, \\}; of length <= %d over {a, *, _, e-acute, no-break space, em dash, euro sign, space}; of length <= %d over {a, space, *, backtick, \\} and <= %d over {a, backtick, *, _, space, newline} (code spans, 6.1); every string of length <= 6 over {a, space, *, _} and <= 5 over {a, space, *, backtick} as ATX heading content; the seeded family (4 or 5 delimiter runs of length 1..3 of one character, separated by a / 'a ' / ' a' / '.', with or without a trailing letter: opener, closer refused by the multiple-of-3 rule, later closers with other lengths mod 3); random strings of length 8..40; all spec.json examples inside the scope", n4, n7, nn, nu, nc, nc-1)
		},
		Exhaustive: true,
	})
}

func cmemphAnswer(line string) (string, bool) {
	cmemphMu.Lock()
	r, ok := cmemphCache[line]
	cmemphMu.Unlock()
	if ok {
		return r, true
	}
	rr, err := runDriver(driverPath, []string{line})
	if err != nil || len(rr) != 1 {
		return "", false
	}
	return rr[0], true
}

func cmemphModelLine(c Case) string {
	switch c.Op {
	case "doc":
		return "cmspec emph " + c.Args[0]
	case "head":
		return "cmspec emphi " + hx(bytes.Trim(unhx(c.Args[0]), " "))
	case "ex":
		i, _ := strconv.Atoi(c.Args[0])
		exs := SpecExamples()
		if i < 0 || i >= len(exs) {
			return "cmspec emph -"
		}
		return "cmspec emph " + hx([]byte(exs[i].Markdown))
	}
	return "cmspec bad"
}

func genCMEmph(tier string, rng *RNG, emit func(Case)) {
	n4, n7, nn, nu, nrand := 7, 6, 6, 4, 20000
	nc := 7
	if tier == "thorough" {
		n4, n7, nn, nu, nrand = 9, 7, 7, 5, 300000
		nc = 8
	}
	var cases []Case
	seen := map[string]struct{}{}
	add := func(op string, s []byte) {
		k := op + " " + string(s)
		if _, dup := seen[k]; dup {
			return
		}
		seen[k] = struct{}{}
		cases = append(cases, Case{Op: op, Args: []string{hx(s)}})
	}
	doc := func(s []byte) { add("doc", s) }
	enumStrings(syms("a", " ", "*", "_"), n4, doc)
	enumStrings(syms("a", "b", " ", "*", "_", ".", "\\"), n7, doc)
	enumStrings(syms("a", " ", "*", "\n", "\\"), nn, doc)
	enumStrings(syms("a", "*", "_", "\u00e9", "\u00a0", "\u2014", "\u20ac", " "), nu, doc)
	enumStrings(syms("a", " ", "*", "_"), 6, func(s []byte) { add("head", s) })
	// step two: code spans (6.1) take precedence over emphasis
	enumStrings(syms("a", " ", "*", "`", "\\"), nc, doc)
	enumStrings(syms("a", "`", "*", "_", " ", "\n"), nc-1, doc)
	enumStrings(syms("a", " ", "*", "`"), 5, func(s []byte) { add("head", s) })
	// the seeded family: k runs of one delimiter character with lengths 1..3, separated by short texts
	seps := []string{"a", "a ", " a", "."}
	for _, ch := range []string{"*", "_"} {
		for _, k := range []int{4, 5} {
			nl := 1
			for i := 0; i < k; i++ {
				nl *= 3
			}
			ns := 1
			for i := 0; i < k-1; i++ {
				ns *= len(seps)
			}
			if k == 5 {
				ns = 1 // five runs: letters only
			}
			for li := 0; li < nl; li++ {
				for si := 0; si < ns; si++ {
					for _, tail := range []string{"", "y"} {
						var sb strings.Builder
						l, s := li, si
						for i := 0; i < k; i++ {
							sb.WriteString(strings.Repeat(ch, 1+l%3))
							l /= 3
							if i < k-1 {
								sb.WriteString(seps[s%len(seps)])
								s /= len(seps)
							}
						}
						sb.WriteString(tail)
						doc([]byte(sb.String()))
					}
				}
			}
		}
	}
	// fixed inputs: the seeded change's witness (cmark issue 383), and the repaired deviation G1 (regression inputs inside the reference's alphabet)
	for _, f := range []string{"*a**b**c*y", "_a__b__c_ y", "*a\\  \n\\*", "*\\  \n\\*", "_a\\  \n\\_."} {
		doc([]byte(f))
	}
	// random longer strings, delimiter-heavy
	alph := syms("a", "b", "c", " ", " ", "*", "*", "*", "**", "_", "_", "__", "`", "`", "``", ".", "!", "\\", "\\*", "\\_", "(", ")", "\"", "\n", "\u00e9", "\u2014", "\u00a0", "\u20ac", "1", ">")
	for i := 0; i < nrand; i++ {
		n := 8 + rng.Intn(33)
		var b []byte
		for len(b) < n {
			b = append(b, alph[rng.Intn(len(alph))]...)
		}
		if i%5 == 4 {
			add("head", bytes.ReplaceAll(b, []byte("\n"), []byte(" ")))
		} else {
			doc(b)
		}
	}
	for i := range SpecExamples() {
		cases = append(cases, Case{Op: "ex", Args: []string{strconv.Itoa(i)}})
	}
	for i := range cmemphFixed {
		emit(Case{Op: "fixed", Args: []string{strconv.Itoa(i)}})
	}
	if noModel {
		return // the prescribed HTML comes from the driver: nothing to compare with
	}
	lines := make([]string, len(cases))
	for i, c := range cases {
		lines[i] = cmemphModelLine(c)
	}
	resp, err := runDriverParallel(driverPath, lines)
	if err != nil {
		emit(Case{Op: "doc", Args: []string{hx([]byte("*a*"))}}) // makes the failure visible as a disagreement
		return
	}
	cmemphMu.Lock()
	for i, l := range lines {
		cmemphCache[l] = resp[i]
	}
	cmemphMu.Unlock()
	for i, c := range cases {
		if resp[i] == "n-a" {
			continue
		}
		emit(c)
	}
}

func cmemphKey(src, got []byte) string {
	if !bytes.Contains(got, []byte("<em>")) && !bytes.Contains(got, []byte("<strong>")) && !bytes.Contains(got, []byte("<code>")) {
		return ""
	}
	// delimiter-run signature: lengths of the runs and the classes of their neighbours
	var sb strings.Builder
	sb.WriteString(tagSeq(got, 24))
	cls := func(i int) byte {
		if i < 0 || i >= len(src) || src[i] == ' ' || src[i] == '\n' {
			return 's'
		}
		c := src[i]
		switch {
		case c >= 0x80:
			return 'u'
		case c >= '0' && c <= '9', c >= 'a' && c <= 'z', c >= 'A' && c <= 'Z':
			return 'a'
		}
		return 'p'
	}
	for i := 0; i < len(src) && sb.Len() < 200; {
		if src[i] == '*' || src[i] == '_' {
			j := i
			for j < len(src) && src[j] == src[i] {
				j++
			}
			fmt.Fprintf(&sb, "|%c%d%c%c", src[i], (j-i)%3+3*b2i(j-i > 3), cls(i-1), cls(j))
			i = j
		} else {
			i++
		}
	}
	return sb.String()
}

func b2i(b bool) int {
	if b {
		return 1
	}
	return 0
}

// cmemphFixed: inputs of the deviation G1 with the HTML derived BY HAND from CommonMark 0.31.2 (2.4: any ASCII punctuation
// character may be backslash-escaped and then has no Markdown meaning - example 14; 6.7: a line ending preceded by two or
// more spaces is a hard line break, the backslash before those spaces is followed by a space and therefore literal).
// Three of them are outside the reference's alphabet (code span, link, raw HTML). Re-checked on every run. The deviation
// was repaired in /repo (KNOWN_FINDINGS `fixed:` 24c9f23: `escaped = false` at the top of parseBlock's line loop):
// they are regression cases now, a failure is a VIOLATION under the clause of the former finding.
var cmemphFixed = [][2]string{
	{"*a\\  \n\\*", "<p>*a\\<br />\n*</p>\n"},
	{"a\\  \n\\`b`", "<p>a\\<br />\n`b`</p>\n"},
	{"a\\  \n\\[b](c)", "<p>a\\<br />\n[b](c)</p>\n"},
	{"a\\  \n\\<b>", "<p>a\\<br />\n&lt;b&gt;</p>\n"},
}

func implCMEmph(c Case) ImplResult {
	if c.Op == "fixed" {
		i, _ := strconv.Atoi(c.Args[0])
		if i < 0 || i >= len(cmemphFixed) {
			return ImplResult{Out: "bad-op", NoModel: true}
		}
		src, want := []byte(cmemphFixed[i][0]), []byte(cmemphFixed[i][1])
		got := cmspecConvert(src)
		res := ImplResult{Out: "ok", NoModel: true, Key: "fixed|" + c.Args[0]}
		if !bytes.Equal(got, want) {
			res.Fails = append(res.Fails, OracleFail{Property: "C02", Clause: "escape-after-backslash-spaces-break-differs",
				Detail: fmt.Sprintf("hand-derived case %d: source=%q goldmark=%q CommonMark 2.4/6.7 prescribes=%q", i, src, got, want)})
		}
		return res
	}
	line := cmemphModelLine(c)
	ans, ok := cmemphAnswer(line)
	if !ok {
		return ImplResult{Out: "driver-unavailable", NoModel: true, Fails: []OracleFail{{Property: "C02", Clause: "assumption:generator-unavailable", Detail: line}}}
	}
	res := ImplResult{ModelLine: line}
	if ans == "n-a" || ans == "bad-op" {
		res.Out = ans // outside the scope of the reference (only reachable through a replayed / corpus case)
		return res
	}
	want := unhx(ans)
	var src, got []byte
	switch c.Op {
	case "doc":
		src = unhx(c.Args[0])
		got = cmspecConvert(src)
		res.Out = hx(got)
	case "head":
		src = append(append([]byte("# "), unhx(c.Args[0])...), '\n')
		got = cmspecConvert(src)
		want = append(append([]byte("<h1>"), want...), []byte("</h1>\n")...)
		if bytes.HasPrefix(got, []byte("<h1>")) && bytes.HasSuffix(got, []byte("</h1>\n")) {
			res.Out = hx(got[4 : len(got)-6])
		} else {
			res.Out = "not-a-heading:" + hx(got)
		}
	case "ex":
		i, _ := strconv.Atoi(c.Args[0])
		e := SpecExamples()[i]
		src = []byte(e.Markdown)
		got = cmspecConvert(src)
		// the line compared with the reference is spec.json's html: the reference itself is validated on every run
		res.Out = hx([]byte(e.HTML))
		res.Stats = append(res.Stats, "spec_examples_in_scope")
		if e.Section == "Emphasis and strong emphasis" {
			res.Stats = append(res.Stats, "spec_examples_in_scope_section_6_2")
		}
		if e.Section == "Code spans" {
			res.Stats = append(res.Stats, "spec_examples_in_scope_section_6_1")
		}
		want = []byte(e.HTML)
	default:
		return ImplResult{Out: "bad-op"}
	}
	res.Key = cmemphKey(src, got)
	if !bytes.Equal(got, want) {
		clause := "emphasis-differs"
		// Attribution of the REPAIRED deviation G1 (KNOWN_FINDINGS `fixed:` 24c9f23, notes/status_C02.md round 3): a line that
		// ends in an unescaped backslash + exactly two spaces left parseBlock's `escaped` flag set for the first character of the
		// next line, so a backslash escape there was not recognised. Respelling the hard line break with THREE spaces (6.7: "two or
		// more spaces"; same prescribed HTML - the reference is asked) avoids it: if goldmark then renders as prescribed, the
		// difference is that defect come back. It only names the clause: the case is a VIOLATION and a disagreement like any other.
		if c.Op == "doc" && cmemphBsBreak.Match(src) {
			alt := cmemphBsBreak.ReplaceAll(src, []byte("$1\\   \n"))
			if a, ok := cmemphAnswer("cmspec emph " + hx(alt)); ok && a == ans && bytes.Equal(cmspecConvert(alt), want) {
				clause = "escape-after-backslash-spaces-break-differs"
			}
		}
		if f := os.Getenv("CMEMPH_DUMP"); f != "" { // debugging aid: every difference, not only the kept samples
			cmemphMu.Lock()
			if fh, err := os.OpenFile(f, os.O_APPEND|os.O_CREATE|os.O_WRONLY, 0o644); err == nil {
				fmt.Fprintf(fh, "%s\t%q\t%q\t%q\n", clause, src, got, want)
				fh.Close()
			}
			cmemphMu.Unlock()
		}
		res.Fails = append(res.Fails, OracleFail{Property: "C02", Clause: clause,
			Detail: fmt.Sprintf("source=%q goldmark=%q CommonMark 6.1/6.2 prescribes=%q", src, got, want)})
	}
	return res
}

// an odd number of backslashes, exactly two spaces, line ending (the preceding character is not a backslash)
var cmemphBsBreak = regexp.MustCompile(`(?m)((?:^|[^\\])(?:\\\\)*)\\  \n`)
