package main

// Component `inlines`: the inline phase of ONE block ((*parser).parseBlock with the default inline parsers,
// ProcessDelimiters, linkParser.CloseBlock) against the Lean model GM.Model.Inlines*.
//
// A case is a source and a list of link reference definitions. The source is parsed with the default block
// and inline parsers and NO paragraph transformers (so reference definitions are never consumed from the
// text); the references go in through a parser.Context. Documents whose real tree is not exactly
// Document > Paragraph have no model counterpart (counted). The paragraph's line segments, the normalised
// reference map and the Unicode classes of the source's non-ASCII runes are sent to the model, and the
// model's inline tree is compared with the real one, node by node (kinds, segments, flags, destinations,
// titles, nesting).
//
// Oracles on the real tree (C05 b/c for inline content): no Delimiter / LinkLabelState node survives,
// emphasis levels are 1 or 2, no link below a link, code spans hold only text, every text segment lies in the
// source and the segments appear in document order.

import (
	"fmt"
	"reflect"
	"sort"
	"strings"
	"unicode/utf8"
	"unsafe"

	"github.com/yuin/goldmark/ast"
	"github.com/yuin/goldmark/parser"
	"github.com/yuin/goldmark/text"
	"github.com/yuin/goldmark/util"
)

func init() {
	register(&Component{
		Name: "inlines",
		Rule: "sources parsed with the default block+inline parsers (no paragraph transformers), references supplied through the context; compared when the real tree is Document > Paragraph; non-trivial = the paragraph has an inline child other than Text; distinct = distinct kind-shape of the inline tree",
		Gen:  genInlines,
		Impl: implInlines,
		Scope: func(tier string) string {
			if tier == "thorough" {
				return "all strings of length <= 5 over the 20-symbol inline alphabet; all strings of length <= 6..9 over 10 per-construct alphabets (emphasis, rule of 3, code span, link, destination/title, reference, autolink, raw HTML, comment/PI/declaration, line break) and of length <= 5..7 inside 8 fixed contexts; all spec.json examples; fixed adversarial sources; 400k random longer sources"
			}
			return "all strings of length <= 4 over the 20-symbol inline alphabet; all strings of length <= 5..8 over 10 per-construct alphabets (emphasis, rule of 3, code span, link, destination/title, reference, autolink, raw HTML, comment/PI/declaration, line break) and of length <= 4..6 inside 8 fixed contexts; all spec.json examples; fixed adversarial sources; 40k random longer sources"
		},
		Exhaustive: true,
	})
}

// ---------- references of a case ----------

type inlRef struct {
	label, dest []byte
	title       []byte // nil = no title
}

func refsArg(refs []inlRef) string {
	if len(refs) == 0 {
		return "-"
	}
	var parts []string
	for _, r := range refs {
		t := "~"
		if r.title != nil {
			t = hx(r.title)
		}
		parts = append(parts, hx(r.label)+":"+hx(r.dest)+":"+t)
	}
	return strings.Join(parts, ";")
}

func parseRefsArg(s string) []inlRef {
	if s == "-" || s == "" {
		return nil
	}
	var out []inlRef
	for _, p := range strings.Split(s, ";") {
		f := strings.Split(p, ":")
		if len(f) != 3 {
			panic("bad refs arg")
		}
		r := inlRef{label: unhx(f[0]), dest: unhx(f[1])}
		if f[2] != "~" {
			r.title = unhx(f[2])
		}
		out = append(out, r)
	}
	return out
}

var inlStdRefs = []inlRef{
	{[]byte("a"), []byte("/u"), []byte("t")},
	{[]byte("1"), []byte("/v"), nil},
	{[]byte("a 1"), []byte(""), []byte("")},
	{[]byte("A"), []byte("/dup"), nil}, // same key as "a": first wins
	{[]byte("foo"), []byte("/url"), []byte("title")},
	{[]byte("bar"), []byte("/bar"), nil},
	{[]byte("ref"), []byte("/ref"), nil},
	{[]byte("r"), []byte("/r"), nil},
	{[]byte("ẞ"), []byte("/ss"), nil},
	{[]byte("*"), []byte("/star"), nil},
	{[]byte("!"), []byte("/bang"), nil},
}

// ---------- generator ----------

func genInlines(tier string, rng *RNG, emit func(Case)) {
	std := refsArg(inlStdRefs)
	doc := func(b []byte) { emit(Case{Op: "parse", Args: []string{hx(b), std}}) }
	thorough := tier == "thorough"

	// 1. the full inline alphabet, exhaustively
	full := syms("*", "_", "`", "[", "]", "(", ")", "!", "<", ">", "\\", "&", "\"", "'", " ", "\n", "a", "1", ":", "/")
	nFull := 4
	if thorough {
		nFull = 5
	}
	enumStrings(full, nFull, doc)

	// 2. per-construct alphabets, exhaustively, deeper
	type scope struct {
		al     [][]byte
		n, nTh int
	}
	scopes := []scope{
		{syms("*", "_", "a", " ", "\n", "\\", "!"), 6, 7},                  // emphasis, flanking
		{syms("*", "a", " ", "."), 8, 9},                                     // rule of 3, long runs
		{syms("`", "a", " ", "\n", "\\", "*"), 6, 7},                        // code spans
		{syms("[", "]", "(", ")", "!", "a", " ", "\"", "*"), 6, 6},          // links
		{syms("[", "]", "(", ")", "<", ">", "a", "\\", "\n", "'"), 6, 6},    // destinations / titles
		{syms("[", "]", "a", "1", " ", "\n", "!", "`"), 6, 7},               // references
		{syms("<", ">", "a", ":", "@", ".", "/", "-", " "), 6, 6},           // autolinks
		{syms("<", ">", "a", "/", " ", "=", "\"", "'", "\n", "!", "-"), 5, 6}, // raw HTML
		{syms("<", ">", "!", "-", "?", "[", "]", "A", "a", "\n"), 5, 6},      // comments, PI, declarations
		{syms("a", " ", "\n", "\\", "\r", "*", "`"), 6, 7},                  // line breaks
	}
	for _, s := range scopes {
		n := s.n
		if thorough {
			n = s.nTh
		}
		enumStrings(s.al, n, doc)
	}

	// 2b. the same inside a fixed context (prefix + all strings + suffix)
	type pscope struct {
		pre, suf string
		al       [][]byte
		n, nTh   int
	}
	pscopes := []pscope{
		{"[a](/u ", "", syms("(", ")", "\"", "'", "a", "\\", " ", "\n"), 5, 6},                // titles
		{"[a](/u ", ")", syms("(", ")", "\"", "'", "a", "\\", " ", "\n"), 4, 5},               // titles, closed
		{"[a](", ")", syms("<", ">", "(", ")", "b", "\\", " ", "\""), 5, 6},                    // destinations
		{"[a][", "", syms("]", "[", "a", "1", " ", "\n", "\\", "A"), 5, 6},                     // reference labels
		{"<a ", "", syms("b", "=", "\"", "'", " ", ">", "/", "\n", "`", "<"), 5, 6},             // attributes
		{"<a b", ">", syms("=", "\"", "'", " ", "c", "\n", "\r", "/"), 5, 6},                   // attribute values
		{"*a", "", syms("*", "_", "a", " ", "b"), 6, 7},                                        // closers
		{"`` ", "", syms("`", " ", "a", "\n"), 6, 7},                                           // code span closers
	}
	for _, s := range pscopes {
		n := s.n
		if thorough {
			n = s.nTh
		}
		enumStrings(s.al, n, func(b []byte) { doc([]byte(s.pre + string(b) + s.suf)) })
	}

	// 3. spec.json, inline sections (and every other example: most are skipped as non-paragraphs)
	for _, e := range SpecExamples() {
		doc([]byte(e.Markdown))
		doc([]byte(strings.TrimSuffix(e.Markdown, "\n")))
	}
	// 4. fixed adversarial sources
	for _, s := range inlFixed() {
		doc([]byte(s))
	}
	// 5. inline pieces and random longer sources
	nRand := 40000
	if thorough {
		nRand = 400000
	}
	mixed := append(append([][]byte{}, full...), syms("**", "__", "``", "](", "![", "[a]", "[1]", "[a][]", "[a][1]", "<a>", "</a>", "<a b=\"c\">", "<!--", "-->", "<?", "?>", "<![CDATA[", "]]>",
		"<http://a.b>", "<a@b.c>", "é", "“", " ", " ", "日本", "\x80", "\xff", "\xef\xbf\xbd", "\r\n", "  \n", "\\\n", "\t", "\x00", "&amp;", "=", "-", "@", ".", "foo", "A", "(/u \"t\")", "(<b c> 'd')")...)
	for i := 0; i < nRand; i++ {
		switch rng.Intn(4) {
		case 0:
			doc([]byte(genInline(rng)))
		case 1:
			doc(randString(rng, mixed, 12))
		case 2:
			doc(randString(rng, mixed, 40))
		default:
			// pieces glued by delimiters
			var sb strings.Builder
			k := 1 + rng.Intn(5)
			for j := 0; j < k; j++ {
				sb.WriteString(inlinePieces[rng.Intn(len(inlinePieces))])
				sb.Write(mixed[rng.Intn(len(mixed))])
			}
			doc([]byte(sb.String()))
		}
	}
}

func inlFixed() []string {
	long := strings.Repeat("a", 1000)
	return []string{
		"[" + long + "]", "[" + long[:999] + "]", "[" + long[:998] + "]", "[" + long[:997] + "]",
		"[a][" + long + "]", "[a][" + long[:999] + "]", "[" + long[:996] + "[a]", "[[" + long[:997] + "]](x)",
		"[x [" + long[:990] + " [a] b", "[ [ [ [" + long[:992] + "]]]]",
		"[a](<b<c>)", "[a](b(c )", "[a](<b>\"t\")", "[a](b\x01c)", "[a](b (c(d)))", "[a](b 'c\nd')", "[a](b\n'c'\n)", "[a]\n(b)", "[a] [1]", "[a]\n[1]", "[a][\n1\n]",
		"[a][ ]", "[a][\n]", "![a][]", "![[a](x)](y)", "[![a](x)](y)", "[[a](x)](y)", "[a *b](c)*", "*[a*](c)", "*a [b*](c)", "**a [b** c](d)", "[a](b)[1]", "[a][a][1]",
		"*a**b*", "**a*b**", "***a***", "***a**b*", "*a***", "***a*", "****a****", "*****a*****", "******a******", "a***b***c", "_a__b_", "a_b_c", "_a_b", "*a _b* c_", "**a *b **c d* e",
		"*(*a*)*", "_(_a_)_", "*a*_b_", "\"*a*\"", "é*a*é", "“*a*”", "*“a”*", " *a* ", "* a*", "a*\xffb*", "*a\xef\xbf\xbd*", "\x80*a*", "*a*\x80",
		"`a", "``a`", "`a``", "` a `", "`  `", "` `", "`\na\n`", "` a", "`a `", "`` ` ``", "`a\n\nb`", "a `b\nc` d", "`a\\`b`", "\\`a`", "*a`*`", "[a`](b)`",
		"<a@b.c>", "<a@b>", "<a@b-.c>", "<a@" + strings.Repeat("b", 63) + ".c>", "<a@" + strings.Repeat("b", 64) + ".c>", "<a@" + strings.Repeat("b", 62) + "-.c>", "<a@b.c.>", "<a@b..c>", "<http://a b>", "<a:>", "<ab:c>",
		"<" + strings.Repeat("a", 32) + ":x>", "<" + strings.Repeat("a", 33) + ":x>", "<a+b.c-d:x<y>", "<made-up:\xffx>", "<ab:\x00>",
		"<a>", "<a/>", "<a />", "<a b>", "<a b=c>", "<a b='c'>", "<a b=\"c\">", "<a b = c >", "<a b=c/>", "<a b='>'>", "<a\nb>", "<a\n\nb>", "<a b\r>", "<a\rb>", "<a \r\n>", "<a b=>", "<a b=\"c\"d>", "<a_b>", "<a:b>", "<1a>", "<a é>", "<a b=é>", "<a b=\xff>",
		"</a>", "</a >", "</a\n>", "</a b>", "</1>", "<a b='c\nd'\ne>", "<a\n  b\n  c='d'>x", "a <b\nc> d", "<a b=c\xef\xbf\xbd>",
		"<!-->", "<!--->", "<!---->", "<!-- a -->", "<!-- a\nb -->c", "<!-- a", "<!--a--b-->", "<?a?>", "<?a\n?>b", "<?a", "<!A>", "<!A\nb>c", "<!a>", "<![CDATA[a]]>", "<![CDATA[a\n]]>b", "<![CDATA[a", "<![cdata[a]]>",
		"a\\\nb", "a\\\\\nb", "a\\\\\\\nb", "a  \nb", "a \nb", "a   \nb", "a\\  \n*b*", "a\\ \n*b*", "a\\\r\nb", "a  \r\nb", "a\r\nb", "a\\", "a  ", "a\\\n", "a  \n", " a", "a\n b", "a\n\tb", "*a  \nb*", "`a  \nb`", "[a  \nb](c)",
		"a *b  \n", "a `b` \nc", "a [b] \nc", "a *b* \nc", "*a* \n", "a! \nb", "a ] \nb", "a ]  \nb",
		"&amp; *a* &#42;a&#42;", "\\*a\\*", "\\[a](b)", "[a\\](b)", "[a](b\\))", "[a](\\(b)", "[a](b \"c\\\"d\")", "!\\[a](b)", "\\![a](b)", "!![a](b)",
		"[ẞ]", "[SS]", "[ss]", "[ a ]", "[A]", "[a\n1]", "[a  1]", "[*]", "[!]", "![!]", "[a]:", "[a]: b",
	}
}

// ---------- implementation run ----------

var inlParser = parser.NewParser(parser.WithBlockParsers(parser.DefaultBlockParsers()...), parser.WithInlineParsers(parser.DefaultInlineParsers()...))

func inlSeg(s text.Segment) string { return fmt.Sprintf("%d:%d:%d", s.Start, s.Stop, s.Padding) }

func autoLinkValue(n *ast.AutoLink) *ast.Text {
	f := reflect.ValueOf(n).Elem().FieldByName("value")
	return (*ast.Text)(unsafe.Pointer(f.Pointer()))
}

type inlWalk struct {
	src    []byte
	fails  []OracleFail
	shape  strings.Builder
	lastAt int
	nontxt bool
}

func (w *inlWalk) fail(clause, f string, a ...interface{}) {
	if len(w.fails) < 4 {
		w.fails = append(w.fails, OracleFail{"C05", clause, fmt.Sprintf(f, a...)})
	}
}

func (w *inlWalk) textSeg(s text.Segment) {
	if !(0 <= s.Start && s.Start <= s.Stop && s.Stop <= len(w.src)) {
		w.fail("inline-segment-out-of-range", "segment %s, source length %d", inlSeg(s), len(w.src))
	}
	if s.Start < w.lastAt {
		w.fail("inline-segments-out-of-order", "segment %s starts before %d", inlSeg(s), w.lastAt)
	}
	if s.Stop > w.lastAt {
		w.lastAt = s.Stop
	}
}

func (w *inlWalk) children(n ast.Node, sb *strings.Builder, inLink bool) {
	first := true
	for c := n.FirstChild(); c != nil; c = c.NextSibling() {
		if !first {
			sb.WriteByte(',')
		}
		first = false
		w.node(c, sb, inLink)
	}
}

func (w *inlWalk) node(n ast.Node, sb *strings.Builder, inLink bool) {
	switch v := n.(type) {
	case *ast.Text:
		sb.WriteString("T" + inlSeg(v.Segment))
		if v.SoftLineBreak() {
			sb.WriteByte('s')
		}
		if v.HardLineBreak() {
			sb.WriteByte('h')
		}
		if v.IsRaw() {
			sb.WriteByte('r')
		}
		w.textSeg(v.Segment)
		w.shape.WriteByte('T')
	case *ast.CodeSpan:
		w.nontxt = true
		w.shape.WriteString("C(")
		for c := v.FirstChild(); c != nil; c = c.NextSibling() {
			if _, ok := c.(*ast.Text); !ok {
				w.fail("codespan-holds-non-text", "child kind %s", c.Kind().String())
			}
		}
		sb.WriteString("C[")
		w.children(v, sb, inLink)
		sb.WriteString("]")
		w.shape.WriteByte(')')
	case *ast.Emphasis:
		w.nontxt = true
		if v.Level != 1 && v.Level != 2 {
			w.fail("emphasis-level", "level %d", v.Level)
		}
		w.shape.WriteString(fmt.Sprintf("E%d(", v.Level))
		sb.WriteString(fmt.Sprintf("E%d[", v.Level))
		w.children(v, sb, inLink)
		sb.WriteString("]")
		w.shape.WriteByte(')')
	case *ast.Link:
		w.nontxt = true
		if inLink {
			w.fail("link-in-link", "a Link below a Link")
		}
		w.shape.WriteString("L(")
		sb.WriteString("L" + hx(v.Destination) + ":" + inlTitle(v.Title) + "[")
		w.children(v, sb, true)
		sb.WriteString("]")
		w.shape.WriteByte(')')
	case *ast.Image:
		w.nontxt = true
		w.shape.WriteString("I(")
		sb.WriteString("I" + hx(v.Destination) + ":" + inlTitle(v.Title) + "[")
		w.children(v, sb, inLink)
		sb.WriteString("]")
		w.shape.WriteByte(')')
	case *ast.AutoLink:
		w.nontxt = true
		t := "u"
		if v.AutoLinkType == ast.AutoLinkEmail {
			t = "e"
		}
		val := autoLinkValue(v)
		sb.WriteString("A" + t + inlSeg(val.Segment))
		if v.Protocol != nil {
			sb.WriteString("p" + hx(v.Protocol))
		}
		w.textSeg(val.Segment)
		w.shape.WriteString("A" + t)
	case *ast.RawHTML:
		w.nontxt = true
		var parts []string
		for i := 0; i < v.Segments.Len(); i++ {
			s := v.Segments.At(i)
			parts = append(parts, inlSeg(s))
			w.textSeg(s)
		}
		sb.WriteString("H" + strings.Join(parts, ";"))
		w.shape.WriteByte('H')
	case *parser.Delimiter:
		w.fail("leftover-delimiter", "Delimiter node %s survives", inlSeg(v.Segment))
		sb.WriteString("D" + inlSeg(v.Segment))
	default:
		k := n.Kind().String()
		if k == "LinkLabelState" {
			w.fail("leftover-link-label-state", "LinkLabelState node survives")
			sb.WriteString("S?")
		} else {
			sb.WriteString("?" + k)
		}
	}
}

func inlTitle(t []byte) string {
	if t == nil {
		return "~"
	}
	return hx(t)
}

func implInlines(c Case) ImplResult {
	src := unhx(c.Args[0])
	refs := parseRefsArg(c.Args[1])
	pc := parser.NewContext()
	for _, r := range refs {
		pc.AddReference(parser.NewReference(r.label, r.dest, r.title))
	}
	doc := inlParser.Parse(text.NewReader(src), parser.WithContext(pc))
	p := doc.FirstChild()
	if p == nil || p.NextSibling() != nil || p.Kind() != ast.KindParagraph {
		return ImplResult{Out: "not-one-paragraph", NoModel: true, Stats: []string{"skipped_not_one_paragraph"}}
	}
	lines := p.Lines()
	var segs []string
	for i := 0; i < lines.Len(); i++ {
		s := lines.At(i)
		if s.ForceNewline {
			return ImplResult{Out: "force-newline", NoModel: true, Stats: []string{"skipped_force_newline"}}
		}
		segs = append(segs, inlSeg(s))
	}
	// hypothesis WF0 of the totality theorems (GM.Props.Inlines.parseBlock_fuel_suffices_*): the lines are non-empty,
	// inside the source, increasing, and carry no virtual padding
	var assume []OracleFail
	prevStop := 0
	for i := 0; i < lines.Len(); i++ {
		s := lines.At(i)
		if !(prevStop <= s.Start && s.Start < s.Stop && s.Stop <= len(src) && s.Padding == 0) {
			assume = append(assume, OracleFail{"C01", "assumption:lines-not-WF0", fmt.Sprintf("line %d = %s after stop %d, source length %d", i, inlSeg(s), prevStop, len(src))})
			break
		}
		prevStop = s.Stop
	}
	if lines.Len() == 0 {
		assume = append(assume, OracleFail{"C01", "assumption:lines-not-WF0", "paragraph without lines"})
	}
	segArg := "-"
	if len(segs) > 0 {
		segArg = strings.Join(segs, ",")
	}
	// the reference map as the context holds it (first definition wins), keys normalised
	var rparts []string
	seen := map[string]bool{}
	for _, r := range refs {
		key := util.ToLinkReference(r.label)
		if seen[key] {
			continue
		}
		seen[key] = true
		ref, ok := pc.Reference(key)
		if !ok {
			continue
		}
		rparts = append(rparts, hx([]byte(key))+":"+hx(ref.Destination())+":"+inlTitle(ref.Title()))
	}
	refArg := "-"
	if len(rparts) > 0 {
		refArg = strings.Join(rparts, ";")
	}
	// Unicode classes of every rune the scanner can decode
	ucs := map[rune]int{}
	for i := 0; i < len(src); i++ {
		if src[i] >= 0x80 {
			r, _ := utf8.DecodeRune(src[i:])
			ucs[r] = 0
			ucs[utf8.RuneError] = 0
		}
	}
	var ucparts []string
	for r := range ucs {
		f := 0
		if util.IsPunctRune(r) {
			f |= 1
		}
		if util.IsSpaceRune(r) {
			f |= 2
		}
		ucparts = append(ucparts, fmt.Sprintf("%d:%d", r, f))
	}
	sort.Strings(ucparts)
	ucArg := "-"
	if len(ucparts) > 0 {
		ucArg = strings.Join(ucparts, ",")
	}

	w := &inlWalk{src: src}
	var sb strings.Builder
	sb.WriteString("ok [")
	w.children(p, &sb, false)
	sb.WriteString("]")
	res := ImplResult{Out: sb.String(), Fails: append(w.fails, assume...), Stats: []string{"compared_one_paragraph"}}
	res.ModelLine = "inlines parse " + c.Args[0] + " " + segArg + " " + refArg + " " + ucArg
	if w.nontxt {
		res.Key = w.shape.String()
	}
	return res
}
