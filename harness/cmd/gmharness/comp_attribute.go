package main

// Component `attribute`: parser/attribute.go and the glue that attaches parsed attributes to headings
// (parser/atx_heading.go, parser/setext_headings.go, ast.BaseNode.SetAttribute), compared with GM.Model.Attribute.
//   pa       parser.ParseAttributes(text.NewReader(src)) after Advance(k): ok flag, reader position, attributes
//   atx      a document whose first line is an ATX heading line, parsed with WithAttribute (+ WithAutoHeadingID):
//            level, line segments and attribute list of the first block
//   nested   headings with attribute blocks inside block quotes / list items (tab padding): oracles only
//   lastline a document that starts with a Setext heading: the heading's last line as parsed WITHOUT the Attribute
//            option is handed to the model's Close; its prediction is compared with the heading parsed WITH it
// Oracles on the real code, independent of the model (C01: no panic - engine; C03): every attribute name the parser
// produces is lexically [A-Za-z_:][A-Za-z0-9_:.-]*, the names on a node are pairwise distinct, the reader stands
// behind the closing brace / where it started, the safe-mode HTML tokenizes (tok safe) and the tree satisfies
// Spec.Inv (render inv).

import (
	"bytes"
	"fmt"
	"math"
	"regexp"
	"strconv"
	"strings"

	"github.com/yuin/goldmark/ast"
	"github.com/yuin/goldmark/parser"
	"github.com/yuin/goldmark/text"
)

func init() {
	register(&Component{
		Name:       "attribute",
		Rule:       "pa: '{' followed by every string of length <= N over a 22-symbol attribute-significant byte alphabet and over a 24-token alphabet (exhaustive), every string of length <= 3 without the brace at offsets 0..2, + random attribute blocks (grammar-generated, mutated) and number literals around the float64 limits; atx/lastline: every heading line '# ' + string of length <= M over a 13-symbol alphabet x continuation lines x {Attribute, Attribute+AutoHeadingID} + random heading lines; non-trivial = the parse succeeded with at least one attribute / the heading carries attributes; distinct = distinct (ok, value-kind signature)",
		Gen:        genAttribute,
		Impl:       implAttribute,
		Exhaustive: true,
		Scope: func(tier string) string {
			if tier == "thorough" {
				return "pa: '{'+all strings len<=5 over 22 bytes, len<=4 over 24 tokens, all len<=3 x 3 offsets, 300k random; atx: '# '+all strings len<=5 over 13 symbols x 2 configurations + 60k random; lastline: 60k; nested (oracle only): 60k"
			}
			return "pa: '{'+all strings len<=4 over 22 bytes, len<=3 over 24 tokens, all len<=3 x 3 offsets, 30k random; atx: '# '+all strings len<=4 over 13 symbols x 2 configurations + 6k random; lastline: 6k; nested (oracle only): 6k"
		},
	})
}

var attrByteAlphabet = syms("{", "}", "#", ".", "=", "\"", "'", "\\", " ", "a", "-", "_", ":", "1", ",", "[", "]", "t", "\n", "e", "+", "\xff")
var attrTokAlphabet = syms("{", "}", "#a", ".b", "class=", "id=", "k=", "\"x\"", "\"", "\\\"", "1", "1.5e3", "-", "true", "null", "[", "]", ",", " ", "\n", "x", "false", ".", "=")
var attrHeadAlphabet = syms("a", " ", "#", "{", "}", ".b", "=", "\\", "x", "\"", "1", "#i", "\t")

func genAttribute(tier string, rng *RNG, emit func(Case)) {
	nb, nt, nh, nrand, ndoc := 4, 3, 4, 30000, 6000
	if tier == "thorough" {
		nb, nt, nh, nrand, ndoc = 5, 4, 5, 300000, 60000
	}
	pa := func(b []byte, k int) { emit(Case{Op: "pa", Args: []string{hx(b), strconv.Itoa(k)}}) }
	enumStrings(attrByteAlphabet, nb, func(b []byte) { pa(append([]byte("{"), b...), 0) })
	enumStrings(attrTokAlphabet, nt, func(b []byte) { pa(append([]byte("{"), b...), 0) })
	enumStrings(attrByteAlphabet, 3, func(b []byte) {
		for k := 0; k <= 2; k++ {
			pa(b, k)
		}
	})
	for _, s := range attrSeeds {
		pa([]byte(s), 0)
		pa([]byte("ab"+s+" tail"), 2)
	}
	for _, n := range attrNumbers {
		pa([]byte("{a="+n+"}"), 0)
		pa([]byte("{a=-"+n+" b=+"+n+"}"), 0)
	}
	for c := 0; c < 256; c++ {
		pa([]byte{'{', byte(c), '=', '1', '}'}, 0)
		pa([]byte{'{', 'a', byte(c), '=', '1', '}'}, 0)
		pa([]byte{'{', '#', 'a', byte(c), 'b', '}'}, 0)
		pa([]byte{'{', 'a', '=', byte(c), '}'}, 0)
		pa([]byte{'{', 'a', '=', 'b', byte(c), '}'}, 0)
	}
	for i := 0; i < nrand; i++ {
		b := genAttrBlock(rng, 2)
		if rng.Chance(50) {
			b = mutateBytes(rng, b, attrByteAlphabet)
		}
		k := 0
		if rng.Chance(20) {
			pre := randString(rng, syms(" ", "a", "\n", "{"), 3)
			k = len(pre)
			b = append(pre, b...)
		}
		if rng.Chance(20) {
			b = append(b, randString(rng, attrByteAlphabet, 4)...)
		}
		pa(b, k)
	}
	// ---- documents ----
	conts := []string{"", "\n", "\n}\n", "\n} x\nnext\n", "\nnext\n", "\n {#z}\n", "\n#k=1}\n"}
	doc := func(op string, flags string, b []byte) { emit(Case{Op: op, Args: []string{flags, hx(b)}}) }
	enumStrings(attrHeadAlphabet, nh, func(b []byte) {
		for _, fl := range []string{"a", "ai"} {
			doc("atx", fl, append([]byte("# "), b...))
		}
	})
	for i := 0; i < ndoc; i++ {
		h := genHeadingLine(rng)
		fl := []string{"a", "ai", "ai", "", "i"}[rng.Intn(5)]
		doc("atx", fl, []byte(h+conts[rng.Intn(len(conts))]))
	}
	for _, s := range attrSeeds {
		for _, fl := range []string{"a", "ai"} {
			doc("atx", fl, []byte("# h "+s))
			doc("atx", fl, []byte("## h ## "+s+"\n"))
			doc("lastline", fl, []byte("h "+s+"\n===\n"))
		}
	}
	// headings with attribute blocks inside containers (reader with padding, nested block offsets): oracles only
	prefixes := []string{"> ", ">\t", "- ", "-\t", "1. ", "  - ", "> - ", "- > ", ">  ", "-   ", "* \t", "> >\t"}
	for i := 0; i < ndoc; i++ {
		pre := prefixes[rng.Intn(len(prefixes))]
		cont := strings.Repeat(" ", len(pre))
		var sb strings.Builder
		if rng.Chance(30) {
			sb.WriteString(pre + "para\n")
			pre = cont
			if strings.HasPrefix(prefixes[i%len(prefixes)], ">") {
				pre = prefixes[i%len(prefixes)]
			}
		}
		sb.WriteString(pre + genHeadingLine(rng) + "\n")
		if rng.Chance(50) {
			sb.WriteString(cont + genHeadingText(rng) + "\n" + cont + rng.Pick([]string{"===", "---", "="}) + "\n")
		}
		sb.WriteString(rng.Pick([]string{"", "}\n", cont + "}\n", "next\n"}))
		doc("nested", []string{"a", "ai"}[rng.Intn(2)], []byte(sb.String()))
	}
	for i := 0; i < ndoc; i++ {
		var b []byte
		if rng.Chance(40) {
			b = append(b, "first line\n"...)
		}
		b = append(b, genHeadingText(rng)...)
		b = append(b, []string{"\n===\n", "\n---\n", "\n=\n", "  \n-\nnext\n"}[rng.Intn(4)]...)
		doc("lastline", []string{"a", "ai"}[rng.Intn(2)], b)
	}
}

var attrSeeds = []string{
	`{#id}`, `{.c}`, `{#a .b .c}`, `{a=b}`, `{a="b c"}`, `{a=1}`, `{a=true b=false c=null}`, `{a=[1,2,"x",y]}`, `{a={b=c}}`,
	`{class=x class="y z" .w}`, `{id=5}`, `{class=5}`, `{class=[a]}`, `{class=null}`, `{#x #y id=z}`, `{a=1 a=2}`, `{a=1,b=2, c=3 ,d=4}`,
	`{ #a }`, `{#a`, `{a=}`, `{a}`, `{=b}`, `{a="x}`, `{a="x\"y"}`, `{a="\b\f\n\r\t\/\\\q"}`, `{a="x\`, `{a=[}`, `{a=[1,]}`, `{a=[,1]}`, `{a=[1 2]}`,
	`{a=[ 1 , 2 ]}`, `{a=[[1],[2,[3]]]}`, `{a={}}`, `{a={#x}}`, `{a = b}`, "{a=\nb}", "{#a\n}", "{\n#a}", "{a=1e5}", "{a=1e}", "{a=1e+}", "{a=1.}", "{a=.5}",
	"{a=-}", "{a=+1}", "{a=--1}", "{a=1.2.3}", "{a=1e5e5}", "{a=0x10}", "{a=1_000}", "{a=Inf}", "{a=nan}", "{a=truex}", "{a=true.}", "{data-x=1 on:click=y _z=2 :w=3}",
	"{a<b=1}", "{a/b=1}", "{a=b<c}", "{#a<b}", "{.a\"b}", "{#a&b}", "{a=\"<&>\"}", "{\xff}", "{a=\xff}", "{#\xff}", "{a=b\xff}", "{}", "{ }", "{,}", "{a=1,,b=2}", "  {#a}",
	"{#a}}", "{#a} x", "{{#a}}", "{#a}{#b}", "{#a} {#b}", "\\{#a}", "{#a\\}", "{a='b'}", "{a=b'c}", "{A=B}", "{a.b-c:d_e=f.g-h:i_j}", "{#a.b-c:d_e}", "{-a=1}", "{1a=1}", "{.}", "{#}",
}

var attrNumbers = []string{
	"0", "1", "12345678901234567890", "0.1", "0.5", "1.5", "2.5e-1", "1e308", "1.7976931348623157e308", "1.7976931348623158e308", "1.7976931348623159e308",
	"1.797693134862315807e308", "1.797693134862315808e308", "17976931348623158079372897140530341507993413271003782693617377898044496829276475094664901797758720709633028641669288791094655554785194040263065748867150582068190890200070838367627385484581771153176447573027006985557136695962284291481986083893647529271907416844436551070434271155969950809304288017790417449779",
	"179769313486231580793728971405303415079934132710037826936173778980444968292764750946649017977587207096330286416692887910946555547851940402630657488671505820681908902000708383676273854845817711531764475730270069855571366959622842914819860838936475292719074168444365510704342711559699508093042880177904174497791", "1e309", "1e400", "1e-307", "2.2250738585072014e-308", "2.2250738585072011e-308",
	"4.9e-324", "5e-324", "2.4703282292062327e-324", "2.4703282292062328e-324", "2.5e-324", "1e-400", "1e-99999", "1e99999", "1e100000", "0e99999", "0.0e-99999", "1e10000", "1e-10000", "0.000000000000000000000000000001e340",
	"9007199254740993", "9007199254740992.5", "9007199254740993.0000000000000000000000001", "1.00000000000000011102230246251565404236316680908203125", "1.00000000000000011102230246251565404236316680908203124", "1.00000000000000011102230246251565404236316680908203126",
	"123456789e-5", "00001", "1e05", "1e+05", "1E5", "1.e5", "1.e", "100000000000000000000000000000000000000000000000000", "0.3", "3.14159", "6.02e23", "1e23", "8.41e21", "2.2250738585072012e-308",
}

func mutateBytes(rng *RNG, b []byte, alpha [][]byte) []byte {
	out := append([]byte{}, b...)
	for n := 1 + rng.Intn(2); n > 0; n-- {
		s := alpha[rng.Intn(len(alpha))]
		if len(out) == 0 {
			out = append(out, s...)
			continue
		}
		i := rng.Intn(len(out))
		switch rng.Intn(3) {
		case 0:
			out = append(out[:i], out[i+1:]...)
		case 1:
			out = append(out[:i], append(append([]byte{}, s...), out[i:]...)...)
		default:
			out = append(out[:i], append(append([]byte{}, s...), out[i+1:]...)...)
		}
	}
	return out
}

func genAttrNumber(rng *RNG) string {
	if rng.Chance(30) {
		return attrNumbers[rng.Intn(len(attrNumbers))]
	}
	dig := func(n int) string {
		var sb strings.Builder
		for i := 0; i < n; i++ {
			sb.WriteByte(byte('0' + rng.Intn(10)))
		}
		return sb.String()
	}
	s := dig(1 + rng.Intn(20))
	if rng.Chance(50) {
		s += "." + dig(rng.Intn(20))
	}
	if rng.Chance(50) {
		s += []string{"e", "E"}[rng.Intn(2)] + []string{"", "+", "-"}[rng.Intn(3)]
		switch rng.Intn(4) {
		case 0:
			s += strconv.Itoa(290 + rng.Intn(40))
		case 1:
			s += strconv.Itoa(rng.Intn(30))
		case 2:
			s += dig(rng.Intn(6))
		default:
			s += strconv.Itoa(300 + rng.Intn(30))
		}
	}
	return s
}

func genAttrValue(rng *RNG, depth int) string {
	switch rng.Intn(10) {
	case 0, 1:
		return rng.Pick([]string{"b", "x-y", "a.b", "_q", ":z", "true", "false", "null", "True", "nul", "t1"})
	case 2, 3:
		return `"` + rng.Pick([]string{"", "v", "a b", `x\"y`, `\\`, `\n\t`, `\q`, "<&>", "é", "}", "{", `'`}) + `"`
	case 4, 5:
		s := genAttrNumber(rng)
		if rng.Chance(30) {
			s = rng.Pick([]string{"-", "+"}) + s
		}
		return s
	case 6:
		if depth <= 0 {
			return "1"
		}
		n := rng.Intn(4)
		var parts []string
		for i := 0; i < n; i++ {
			parts = append(parts, genAttrValue(rng, depth-1))
		}
		return "[" + strings.Join(parts, rng.Pick([]string{",", ", ", " ,", " , "})) + "]"
	case 7:
		if depth <= 0 {
			return "x"
		}
		return string(genAttrBlock(rng, depth-1))
	default:
		return rng.Pick([]string{"v", "w1", "A"})
	}
}

func genAttrBlock(rng *RNG, depth int) []byte {
	var sb strings.Builder
	sb.WriteString(rng.Pick([]string{"{", "{", "{ ", " {", "{\n"}))
	n := rng.Intn(5)
	for i := 0; i < n; i++ {
		switch rng.Intn(6) {
		case 0:
			sb.WriteString("#" + rng.Pick([]string{"id1", "a-b", "x.y:z", "", "é", "a_b"}))
		case 1:
			sb.WriteString("." + rng.Pick([]string{"c", "c-1", "", "C", "x_y"}))
		case 2:
			sb.WriteString("class" + rng.Pick([]string{"=", " = ", "= "}) + genAttrValue(rng, depth))
		default:
			sb.WriteString(rng.Pick([]string{"a", "b", "id", "data-x", "title", "_u", ":v", "a.b", "A", "style", "onclick"}))
			sb.WriteString(rng.Pick([]string{"=", "=", " = ", " =", "= "}))
			sb.WriteString(genAttrValue(rng, depth))
		}
		sb.WriteString(rng.Pick([]string{" ", " ", ",", ", ", " , ", "  ", "", "\n"}))
	}
	sb.WriteString(rng.Pick([]string{"}", "}", "}", " }", ""}))
	return []byte(sb.String())
}

func genHeadingText(rng *RNG) string {
	var sb strings.Builder
	sb.WriteString(rng.Pick([]string{"h", "Head ing", "a *b*", "x \\{ y", "", "q {#no} r", "a\\", "\xff z", "t {"}))
	sb.WriteString(rng.Pick([]string{" ", "  ", "", "\t"}))
	b := genAttrBlock(rng, 1)
	if rng.Chance(25) {
		b = mutateBytes(rng, b, attrByteAlphabet)
	}
	sb.Write(b)
	sb.WriteString(rng.Pick([]string{"", "", " ", "  ", " x", "{", " {#l}", "}"}))
	return strings.ReplaceAll(sb.String(), "\n", " ")
}

func genHeadingLine(rng *RNG) string {
	var sb strings.Builder
	sb.WriteString(rng.Pick([]string{"", "", "", " ", "  ", "   "}))
	sb.WriteString(strings.Repeat("#", 1+rng.Intn(7)))
	sb.WriteString(rng.Pick([]string{" ", " ", "  ", "\t", ""}))
	t := genHeadingText(rng)
	if rng.Chance(40) {
		// closing sequence in front of the attribute block: `# text ## {…}`
		i := strings.LastIndex(t, "{")
		if i > 0 {
			t = t[:i] + rng.Pick([]string{" # ", " ## ", "# ", " #", " \\# ", " ### "}) + t[i:]
		}
	}
	sb.WriteString(t)
	return sb.String()
}

// ---------- serialisation (mirrors lean/Driver/Attribute.lean) ----------

func attrSerVal(v interface{}) string {
	switch t := v.(type) {
	case []byte:
		return "b" + hx(t)
	case float64:
		return "n" + strconv.FormatUint(math.Float64bits(t), 10)
	case bool:
		if t {
			return "t"
		}
		return "f"
	case nil:
		return "z"
	case parser.Attributes:
		return "{" + attrSerParser(t) + "}"
	case []interface{}:
		parts := make([]string, len(t))
		for i, x := range t {
			parts[i] = attrSerVal(x)
		}
		return "[" + strings.Join(parts, ",") + "]"
	}
	return fmt.Sprintf("?%T", v)
}

func attrSerParser(as parser.Attributes) string {
	if len(as) == 0 {
		return "_"
	}
	parts := make([]string, len(as))
	for i, a := range as {
		parts[i] = hx(a.Name) + "=" + attrSerVal(a.Value)
	}
	return strings.Join(parts, ";")
}

func attrSerNode(as []ast.Attribute) string {
	if as == nil {
		return "~"
	}
	if len(as) == 0 {
		return "_"
	}
	parts := make([]string, len(as))
	for i, a := range as {
		parts[i] = hx(a.Name) + "=" + attrSerVal(a.Value)
	}
	return strings.Join(parts, ";")
}

func attrKindSig(v interface{}) string {
	switch t := v.(type) {
	case []byte:
		return "b"
	case float64:
		return "n"
	case bool:
		return "o"
	case nil:
		return "z"
	case parser.Attributes:
		s := "{"
		for _, a := range t {
			s += attrKindSig(a.Value)
		}
		return s + "}"
	case []interface{}:
		s := "["
		for _, x := range t {
			s += attrKindSig(x)
		}
		return s + "]"
	}
	return "?"
}

// the lexical class Spec.Inv (attrNameOK) and the strict tokenizer demand of an attribute name
var attrNameRe = regexp.MustCompile(`^[A-Za-z_:][A-Za-z0-9_:.\-]*$`)

func attrNameOracle(names [][]byte, distinct bool) []OracleFail {
	var fails []OracleFail
	seen := map[string]bool{}
	for _, n := range names {
		if !attrNameRe.Match(n) {
			fails = append(fails, OracleFail{"C03", "attr-name-not-lexical", fmt.Sprintf("attribute name %q", n)})
		}
		if distinct && seen[string(n)] {
			fails = append(fails, OracleFail{"C03", "attr-name-duplicate", fmt.Sprintf("attribute name %q twice on one node", n)})
		}
		seen[string(n)] = true
	}
	return fails
}

func hexNames(names [][]byte) string {
	if len(names) == 0 {
		return "_"
	}
	parts := make([]string, len(names))
	for i, n := range names {
		parts[i] = hx(n)
	}
	return strings.Join(parts, ",")
}

// ---------- implementation runs ----------

func implAttribute(cs Case) ImplResult {
	switch cs.Op {
	case "pa":
		return implAttrPA(cs)
	case "atx", "lastline", "nested":
		return implAttrDoc(cs)
	}
	return ImplResult{Out: "bad-op"}
}

func implAttrPA(cs Case) ImplResult {
	src := unhx(cs.Args[0])
	k, _ := strconv.Atoi(cs.Args[1])
	r := text.NewReader(src)
	r.Advance(k)
	_, before := r.Position()
	attrs, ok := parser.ParseAttributes(r)
	line, pos := r.Position()
	res := ImplResult{}
	word := "fail"
	if ok {
		word = "ok"
	}
	res.Out = fmt.Sprintf("%s %d %d %d %s", word, line, pos.Start, pos.Stop, attrSerParser(attrs))
	if pos.Padding != 0 || pos.ForceNewline {
		res.Out += " padding"
	}
	// oracles (independent of the model)
	if ok {
		var names [][]byte
		sig := ""
		for _, a := range attrs {
			names = append(names, a.Name)
			sig += attrKindSig(a.Value)
			// what parseAttribute promises its callers: class values are []byte (findUpdate asserts it)
			if string(a.Name) == "class" {
				if _, isb := a.Value.([]byte); !isb {
					res.Fails = append(res.Fails, OracleFail{"C01", "class-value-not-bytes", fmt.Sprintf("class=%T", a.Value)})
				}
			}
		}
		res.Fails = append(res.Fails, attrNameOracle(names, false)...)
		if pos.Start <= before.Start || pos.Start > len(src) || src[pos.Start-1] != '}' {
			res.Fails = append(res.Fails, OracleFail{"C01", "attr-position", fmt.Sprintf("after a successful parse the reader is at %d (started at %d, len %d)", pos.Start, before.Start, len(src))})
		}
		if len(attrs) > 0 {
			res.Key = "ok|" + sig
		}
		res.Checks = append(res.Checks, ModelCheck{Line: "attribute names " + hexNames(dedupNames(names)), Property: "C03"})
		res.Stats = append(res.Stats, "pa:ok")
	} else {
		if attrs != nil {
			res.Fails = append(res.Fails, OracleFail{"C01", "attr-fail-not-nil", "ParseAttributes returned attributes with ok=false"})
		}
		if pos.Start != before.Start || pos.Stop != before.Stop {
			res.Fails = append(res.Fails, OracleFail{"C01", "attr-position", fmt.Sprintf("after a failed parse the reader is at %d, not where it started (%d)", pos.Start, before.Start)})
		}
		res.Stats = append(res.Stats, "pa:fail")
	}
	return res
}

// ParseAttributes itself may return a name twice (`{a=1 a=2}`): SetAttribute makes them distinct. For the Lean
// lexical check of the names of one ParseAttributes result duplicates are removed.
func dedupNames(names [][]byte) [][]byte {
	seen := map[string]bool{}
	var out [][]byte
	for _, n := range names {
		if !seen[string(n)] {
			seen[string(n)] = true
			out = append(out, n)
		}
	}
	return out
}

func firstHeading(doc ast.Node) *ast.Heading {
	if c := doc.FirstChild(); c != nil {
		if h, ok := c.(*ast.Heading); ok {
			return h
		}
	}
	return nil
}

func implAttrDoc(cs Case) ImplResult {
	flags := cs.Args[0]
	src := unhx(cs.Args[1])
	c := Cfg{Attr: strings.Contains(flags, "a"), AutoID: strings.Contains(flags, "i"), XHTML: len(src)%2 == 0}
	md := pooledMarkdown(c)
	defer releaseMarkdown(c, md)
	doc := md.Parser().Parse(text.NewReader(src))
	res := ImplResult{}
	h := firstHeading(doc)
	switch cs.Op {
	case "atx":
		if h == nil {
			res.Out = "none"
		} else {
			var segs []string
			for i := 0; i < h.Lines().Len(); i++ {
				s := h.Lines().At(i)
				segs = append(segs, fmt.Sprintf("%d-%d", s.Start, s.Stop))
				if s.Padding != 0 {
					segs[len(segs)-1] += "p"
				}
			}
			ls := "_"
			if len(segs) > 0 {
				ls = strings.Join(segs, ",")
			}
			res.Out = fmt.Sprintf("H %d %s %s", h.Level, ls, attrSerNode(h.Attributes()))
		}
	case "nested":
		res.NoModel = true
		res.Out = "oracle-only"
	case "lastline":
		// the same document without the Attribute option: the heading's lines before Close looks for attributes
		c0 := Cfg{}
		md0 := pooledMarkdown(c0)
		doc0 := md0.Parser().Parse(text.NewReader(src))
		releaseMarkdown(c0, md0)
		h0 := firstHeading(doc0)
		if h == nil || h0 == nil || h0.Lines().Len() == 0 || h.Lines().Len() != h0.Lines().Len() {
			res.NoModel = true
			res.Out = "none"
			break
		}
		n := h0.Lines().Len()
		l0 := h0.Lines().At(n - 1)
		l1 := h.Lines().At(n - 1)
		for i := 0; i < n-1; i++ {
			if h0.Lines().At(i) != h.Lines().At(i) {
				res.Fails = append(res.Fails, OracleFail{"C03", "assumption:attr-glue-lines", "an earlier heading line changed with the Attribute option"})
			}
		}
		if l1.Start != l0.Start {
			res.Fails = append(res.Fails, OracleFail{"C03", "assumption:attr-glue-lines", "the last heading line starts elsewhere with the Attribute option"})
		}
		res.ModelLine = "attribute lastline " + flags + " " + hx(l0.Value(src))
		res.Out = fmt.Sprintf("H 1 0-%d %s", l1.Stop-l1.Start, attrSerNode(h.Attributes()))
	}
	// oracles on every node of the real tree
	nattr := 0
	_ = ast.Walk(doc, func(n ast.Node, entering bool) (ast.WalkStatus, error) {
		if !entering {
			return ast.WalkContinue, nil
		}
		var names [][]byte
		for _, a := range n.Attributes() {
			names = append(names, a.Name)
		}
		nattr += len(names)
		res.Fails = append(res.Fails, attrNameOracle(names, true)...)
		if len(names) > 0 {
			res.Checks = append(res.Checks, ModelCheck{Line: "attribute names " + hexNames(names), Property: "C03"})
		}
		return ast.WalkContinue, nil
	})
	// safe-mode rendering tokenizes; the tree satisfies Spec.Inv
	kinds := map[string]int{}
	toks, ok := DumpTree(doc, src, c.EAStyle(), kinds)
	var obuf bytes.Buffer
	err := md.Renderer().Render(&obuf, src, doc)
	out := obuf.Bytes()
	if err != nil {
		res.Fails = append(res.Fails, OracleFail{"C01", "render-error", fmt.Sprintf("Render returned %v", err)})
	}
	res.Checks = append(res.Checks, ModelCheck{Line: "tok safe " + b2s(c.XHTML) + " " + hx(out), Property: "C03"})
	if ok {
		o, e := c.ModelCfg()
		res.Checks = append(res.Checks, ModelCheck{Line: "render inv " + o + " " + e + " " + toks, Property: "C03"})
	}
	if cs.Op == "nested" && nattr > 0 {
		res.Key = flags + "|nested"
		res.Stats = append(res.Stats, "nested:attributes-attached")
	}
	if h != nil && len(h.Attributes()) > 0 {
		sig := ""
		for _, a := range h.Attributes() {
			sig += attrKindSig(a.Value)
		}
		res.Key = flags + "|" + sig
		res.Stats = append(res.Stats, "doc:heading-with-attributes")
	}
	return res
}
