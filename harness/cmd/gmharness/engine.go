package main

// Generic correspondence engine: a component generates cases, each case is run on the real goldmark code
// (in-process, panic-recovering) and sent as one protocol line to the Lean driver; the two canonical
// outputs are compared. Independently of the model, each case may report oracle failures: direct
// violations of a property observed on the implementation.

import (
	"bufio"
	"bytes"
	"encoding/hex"
	"encoding/json"
	"fmt"
	"hash/fnv"
	"os"
	"os/exec"
	"runtime"
	"runtime/metrics"
	"sort"
	"strconv"
	"strings"
	"sync"
	"sync/atomic"
	"time"
)

// ---------- PRNG (SplitMix64): every random choice of a run derives from one state ----------

type RNG struct{ s uint64 }

// NewRNG scrambles the seed first: without it NewRNG(n+1) is NewRNG(n)'s stream shifted by one step.
func NewRNG(seed uint64) *RNG {
	r := &RNG{s: seed*0x9E3779B97F4A7C15 + 0x1234567}
	r.s = r.Next() * 0xD1342543DE82EF95
	return r
}
func (r *RNG) Next() uint64 {
	r.s += 0x9E3779B97F4A7C15
	z := r.s
	z = (z ^ (z >> 30)) * 0xBF58476D1CE4E5B9
	z = (z ^ (z >> 27)) * 0x94D049BB133111EB
	return z ^ (z >> 31)
}
func (r *RNG) Intn(n int) int {
	if n <= 0 {
		return 0
	}
	return int(r.Next() % uint64(n))
}
func (r *RNG) Bool() bool       { return r.Next()&1 == 1 }
func (r *RNG) Chance(p int) bool { return r.Intn(100) < p }
func (r *RNG) Fork() *RNG       { return NewRNG(r.Next()) }
func (r *RNG) Pick(xs []string) string {
	return xs[r.Intn(len(xs))]
}

// ---------- cases / results ----------

type Case struct {
	Op   string   `json:"op"`
	Args []string `json:"args"`
}

func (c Case) Line(component string) string {
	if len(c.Args) == 0 {
		return component + " " + c.Op
	}
	return component + " " + c.Op + " " + strings.Join(c.Args, " ")
}

type OracleFail struct {
	Property string `json:"property"`
	Clause   string `json:"clause"`
	Detail   string `json:"detail"`
}

// ModelCheck: a Lean-defined oracle evaluated by the model driver on the implementation's output.
// The driver must answer "ok"; any other answer ("fail:<clause> …") is a violation of Property.
type ModelCheck struct {
	Line     string
	Property string
}

type ImplResult struct {
	Out       string       // canonical output (compared with the model's line)
	NoModel   bool         // this case has no model counterpart (oracle only)
	Fails     []OracleFail // property violations observed on the implementation
	Key       string       // non-triviality key ("" = trivial case)
	ModelLine string       // protocol line for the model when it is not Case.Line (e.g. derived from the real parse)
	Checks    []ModelCheck // Lean-defined oracles to run on this case's real output
	Stats     []string     // counters to bump in Result.Stats
}

type Disagreement struct {
	Component string `json:"component"`
	Case      Case   `json:"case"`
	Impl      string `json:"impl"`
	Model     string `json:"model"`
}

type Violation struct {
	Component string `json:"component"`
	Property  string `json:"property"`
	Clause    string `json:"clause"`
	Detail    string `json:"detail"`
	Case      Case   `json:"case"`
}

type Result struct {
	Component     string            `json:"component"`
	Seed          uint64            `json:"seed"`
	Tier          string            `json:"tier"`
	Evaluations   int               `json:"evaluations"`
	Compared      int               `json:"compared_with_model"`
	Distinct      int               `json:"distinct_nontrivial"`
	Rule          string            `json:"rule"`
	Exhaustive    bool              `json:"exhaustive"`
	Scope         string            `json:"scope"`
	Samples       []interface{}     `json:"samples"`
	OpCounts      map[string]int    `json:"op_counts"`
	Stats         map[string]int    `json:"stats"`
	Disagreements []Disagreement    `json:"disagreements"`
	NDisagree     int               `json:"n_disagreements"`
	Violations    []Violation       `json:"violations"`
	NViolations   int               `json:"n_violations"`
	Panics        int               `json:"impl_panics"`
	ViolClauses   map[string]int    `json:"violation_clauses"`
	DisagreeOps   map[string]int    `json:"disagreement_ops"`
	DisagreeProp  map[string]int    `json:"disagree_by_prop"`
	WallS         float64           `json:"wall_s"`
	Notes         []string          `json:"notes,omitempty"`
	Extra         map[string]string `json:"extra,omitempty"`
	Suspects      []Case            `json:"suspects,omitempty"` // in flight when the process ran away with memory; re-run alone by `isolate`
}

type Component struct {
	Name string
	Rule string
	// Gen emits cases. tier is "quick" or "thorough". It must derive all randomness from rng.
	Gen func(tier string, rng *RNG, emit func(Case))
	// Impl runs one case on the real implementation.
	Impl func(c Case) ImplResult
	// Scope describes the enumerated space (for evidence).
	Scope func(tier string) string
	// Exhaustive says whether the quick-tier space includes a completely enumerated finite scope.
	Exhaustive bool
	// Affects (optional) projects a disagreement onto the properties whose theorems depend on the differing part of
	// the output; nil = every property that lists the component.
	Affects func(cs Case, impl, model string) []string
}

// budgetS > 0: wall-clock budget of a run in seconds (flag -budget); the case list is cut when half of it is used
var budgetS float64

var components = map[string]*Component{}

func register(c *Component) { components[c.Name] = c }

// ---------- helpers ----------

func hx(b []byte) string {
	if len(b) == 0 {
		return "-"
	}
	return hex.EncodeToString(b)
}

func unhx(s string) []byte {
	if s == "-" || s == "" {
		return []byte{}
	}
	b, err := hex.DecodeString(s)
	if err != nil {
		panic("bad hex " + s)
	}
	return b
}

func b2s(b bool) string {
	if b {
		return "1"
	}
	return "0"
}

func hashKey(s string) uint64 {
	h := fnv.New64a()
	h.Write([]byte(s))
	return h.Sum64()
}

// caseTimeout: wall-clock bound for ONE case on the implementation (env VERIF_CASE_TIMEOUT, seconds; default 60).
// A case that exceeds it is reported as a hang of the code under test (property "*" = the property being checked):
// the harness must terminate on a tree whose change makes a call loop forever.
var caseTimeout = func() time.Duration {
	if v, err := strconv.Atoi(os.Getenv("VERIF_CASE_TIMEOUT")); err == nil && v > 0 {
		return time.Duration(v) * time.Second
	}
	return 60 * time.Second
}()

var (
	hungCases   int64 // cases abandoned after caseTimeout (their goroutines keep running)
	maxCaseNano int64 // longest single case seen (evidence)
)

const maxHung = 6 // after this many hangs the remaining cases of the run are skipped

// ---- memory runaway guard. A change to the code under test can make ONE call allocate without end (a loop that
// appends while following a cyclic list); the goroutine cannot be stopped, and before the per-case watchdog expires the
// process is out of memory and killed - the run would end without any result. A monitor samples the process's memory;
// above the limit (env VERIF_MEM_LIMIT_GB, default 24; the largest component needs about 8) the cases in flight become
// SUSPECTS, everything else is skipped (also the model comparison), the result is written at once, and main re-executes
// the binary (which frees the memory) in mode `isolate`: every suspect is run alone in a child process under its own
// limits; the ones that hang, run away or violate an oracle there are reported as violations with that case as replay.
var (
	runawayCh   = make(chan struct{})
	runawayFlag int32
	monitorOnce sync.Once
	suspectMu   sync.Mutex
	suspects    []Case
)

func memLimitBytes() uint64 {
	if v, err := strconv.Atoi(os.Getenv("VERIF_MEM_LIMIT_GB")); err == nil && v > 0 {
		return uint64(v) << 30
	}
	return 24 << 30
}

func startMemMonitor() {
	monitorOnce.Do(func() {
		limit := memLimitBytes()
		go func() {
			sample := []metrics.Sample{{Name: "/memory/classes/total:bytes"}, {Name: "/memory/classes/heap/released:bytes"}}
			for {
				time.Sleep(150 * time.Millisecond)
				metrics.Read(sample)
				if sample[0].Value.Kind() != metrics.KindUint64 {
					return
				}
				used := sample[0].Value.Uint64()
				if sample[1].Value.Kind() == metrics.KindUint64 && sample[1].Value.Uint64() < used {
					used -= sample[1].Value.Uint64()
				}
				if used > limit {
					if atomic.CompareAndSwapInt32(&runawayFlag, 0, 1) {
						close(runawayCh)
					}
					return
				}
			}
		}()
	})
}

// safeImpl runs Impl with panic recovery and a watchdog; a panic is reported as output "panic:<kind>", a hang as "timeout".
func safeImpl(c *Component, cs Case) (res ImplResult, panicked bool) {
	if atomic.LoadInt64(&hungCases) >= maxHung || atomic.LoadInt32(&runawayFlag) != 0 {
		return ImplResult{Out: "skipped-after-hangs", NoModel: true}, false
	}
	type outT struct {
		res      ImplResult
		panicked bool
	}
	ch := make(chan outT, 1)
	t0 := time.Now()
	go func() {
		r, p := safeImplInner(c, cs)
		ch <- outT{r, p}
	}()
	timer := time.NewTimer(caseTimeout)
	defer timer.Stop()
	select {
	case o := <-ch:
		d := int64(time.Since(t0))
		for {
			old := atomic.LoadInt64(&maxCaseNano)
			if d <= old || atomic.CompareAndSwapInt64(&maxCaseNano, old, d) {
				break
			}
		}
		return o.res, o.panicked
	case <-runawayCh:
		if os.Getenv("VERIF_NO_ISOLATE") != "" { // a child of `isolate`: this case alone ran away
			res = ImplResult{Out: "runaway", Key: "runaway", NoModel: true}
			res.Fails = append(res.Fails, OracleFail{Property: "*", Clause: "runaway-in-" + c.Name,
				Detail: fmt.Sprintf("the case, run alone, made the process exceed %d GB of memory (a few hundred MB on the unchanged tree)", memLimitBytes()>>30)})
			return res, false
		}
		suspectMu.Lock()
		suspects = append(suspects, cs)
		suspectMu.Unlock()
		return ImplResult{Out: "suspect-after-memory-runaway", NoModel: true}, false
	case <-timer.C:
		atomic.AddInt64(&hungCases, 1)
		if os.Getenv("VERIF_NO_ISOLATE") == "" {
			// not yet a verdict: on a loaded machine a case can exceed the bound without hanging. It is re-run ALONE in a
			// child process by the isolating pass and reported as a hang only if it does not finish there either.
			suspectMu.Lock()
			suspects = append(suspects, cs)
			suspectMu.Unlock()
			return ImplResult{Out: "suspect-after-timeout", NoModel: true}, false
		}
		res = ImplResult{Out: "timeout", Key: "timeout", NoModel: true}
		res.Fails = append(res.Fails, OracleFail{Property: "*", Clause: "hang-in-" + c.Name,
			Detail: fmt.Sprintf("the case did not return within %s (the same component needs at most a few seconds per case on the unchanged tree)", caseTimeout)})
		return res, false
	}
}

func safeImplInner(c *Component, cs Case) (res ImplResult, panicked bool) {
	defer func() {
		if r := recover(); r != nil {
			msg := fmt.Sprint(r)
			kind := "explicit"
			switch {
			case strings.Contains(msg, "index out of range"):
				kind = "index"
			case strings.Contains(msg, "slice bounds out of range"):
				kind = "slice"
			case strings.Contains(msg, "nil pointer"):
				kind = "nil"
			case strings.Contains(msg, "interface conversion"):
				kind = "assert"
			}
			res = ImplResult{Out: "panic:" + kind, Key: "panic"}
			// property "*": a panic the component's own code did not expect is a violation of whatever property is being checked
			res.Fails = append(res.Fails, OracleFail{Property: "*", Clause: "panic-in-" + c.Name, Detail: msg})
			panicked = true
		}
	}()
	return c.Impl(cs), false
}

// runDriver sends lines to the Lean driver and returns one response per line.
func runDriver(driver string, lines []string) ([]string, error) {
	cmd := exec.Command(driver)
	stdin, err := cmd.StdinPipe()
	if err != nil {
		return nil, err
	}
	var outBuf bytes.Buffer
	cmd.Stdout = &outBuf
	var errBuf bytes.Buffer
	cmd.Stderr = &errBuf
	if err := cmd.Start(); err != nil {
		return nil, err
	}
	go func() {
		w := bufio.NewWriterSize(stdin, 1<<20)
		for _, l := range lines {
			w.WriteString(l)
			w.WriteByte('\n')
		}
		w.Flush()
		stdin.Close()
	}()
	err = cmd.Wait()
	if err != nil {
		return nil, fmt.Errorf("driver: %v: %s", err, errBuf.String())
	}
	out := strings.Split(strings.TrimRight(outBuf.String(), "\n"), "\n")
	if len(lines) == 0 {
		return nil, nil
	}
	if len(out) != len(lines) {
		return nil, fmt.Errorf("driver returned %d lines for %d requests; stderr: %s", len(out), len(lines), errBuf.String())
	}
	return out, nil
}

// runDriverParallel shards lines over several driver processes.
func runDriverParallel(driver string, lines []string) ([]string, error) {
	n := runtime.NumCPU()
	if n > 16 {
		n = 16
	}
	if len(lines) < 2000 {
		n = 1
	}
	out := make([]string, len(lines))
	var wg sync.WaitGroup
	var firstErr error
	var mu sync.Mutex
	chunk := (len(lines) + n - 1) / n
	for i := 0; i < n; i++ {
		lo, hi := i*chunk, (i+1)*chunk
		if hi > len(lines) {
			hi = len(lines)
		}
		if lo >= hi {
			continue
		}
		wg.Add(1)
		go func(lo, hi int) {
			defer wg.Done()
			r, err := runDriver(driver, lines[lo:hi])
			if err != nil {
				mu.Lock()
				if firstErr == nil {
					firstErr = err
				}
				mu.Unlock()
				return
			}
			copy(out[lo:hi], r)
		}(lo, hi)
	}
	wg.Wait()
	return out, firstErr
}

const maxKept = 25

// maxChunk: cases evaluated (implementation, model, comparison) at a time; the outputs of a chunk are dropped before the
// next one starts (component blocks at thorough scope held 57 GB for 17.8M cases in one chunk and was killed)
const maxChunk = 400000

// RunComponent generates, executes and compares.
func RunComponent(c *Component, tier string, seed uint64, driver string, corpus []Case) *Result {
	t0 := time.Now()
	res := &Result{Component: c.Name, Seed: seed, Tier: tier, Rule: c.Rule, OpCounts: map[string]int{}, Stats: map[string]int{},
		ViolClauses: map[string]int{}, DisagreeOps: map[string]int{}}
	if c.Scope != nil {
		res.Scope = c.Scope(tier)
	}
	res.Exhaustive = c.Exhaustive
	if c.Affects != nil {
		res.DisagreeProp = map[string]int{}
	}
	startMemMonitor()
	rng := NewRNG(seed)
	var all []Case
	all = append(all, corpus...)
	c.Gen(tier, rng, func(cs Case) { all = append(all, cs) })
	distinct := map[uint64]struct{}{}
	if budgetS > 0 {
		// a budgeted run may not reach the end of the list: shuffle (deterministically) so that every prefix is a
		// sample of the whole scope; corpus cases stay in front
		sh := NewRNG(seed ^ 0x5eed5eed)
		gen := all[len(corpus):]
		for i := len(gen) - 1; i > 0; i-- {
			j := sh.Intn(i + 1)
			gen[i], gen[j] = gen[j], gen[i]
		}
	}
	// without a budget the whole list is one chunk; with a budget (focus runs) the list is worked off in chunks of
	// 50,000 cases (implementation, model, comparison per chunk) until the budget is used
	chunk := len(all)
	if budgetS > 0 && chunk > 50000 {
		chunk = 50000
	}
	if chunk > maxChunk { // memory: implementation outputs and model answers are held per chunk only
		chunk = maxChunk
	}
	done := 0
	for done < len(all) || (done == 0 && len(all) == 0) {
		end := done + chunk
		if end > len(all) {
			end = len(all)
		}
		evalChunk(c, all[done:end], driver, res, distinct)
		done = end
		if len(all) == 0 {
			break
		}
		if budgetS > 0 && time.Since(t0).Seconds() > budgetS && done < len(all) {
			res.Notes = append(res.Notes, fmt.Sprintf("budget: evaluated the first %d of %d generated cases (budget %.0f s)", done, len(all), budgetS))
			break
		}
	}
	res.Evaluations = done
	res.Distinct = len(distinct)
	sort.Slice(res.Disagreements, func(a, b int) bool {
		return len(res.Disagreements[a].Case.Line("")) < len(res.Disagreements[b].Case.Line(""))
	})
	if res.Extra == nil {
		res.Extra = map[string]string{}
	}
	res.Extra["max_case_ms"] = strconv.FormatInt(atomic.LoadInt64(&maxCaseNano)/1e6, 10)
	res.Extra["hung_cases"] = strconv.FormatInt(atomic.LoadInt64(&hungCases), 10)
	suspectMu.Lock()
	res.Suspects = append(res.Suspects, suspects...)
	suspectMu.Unlock()
	if len(res.Suspects) > 0 {
		if atomic.LoadInt32(&runawayFlag) != 0 {
			res.Extra["runaway"] = "1"
			res.Notes = append(res.Notes, fmt.Sprintf("memory runaway: the process exceeded %d GB; %d cases in flight are re-run alone, the cases after them were skipped", memLimitBytes()>>30, len(res.Suspects)))
		} else {
			res.Notes = append(res.Notes, fmt.Sprintf("%d cases exceeded the per-case bound of %s and are re-run alone", len(res.Suspects), caseTimeout))
		}
	}
	res.WallS = time.Since(t0).Seconds()
	return res
}

// evalChunk runs one chunk of cases on the implementation and the model and accumulates into res.
func evalChunk(c *Component, cases []Case, driver string, res *Result, distinct map[uint64]struct{}) {

	impl := make([]ImplResult, len(cases))
	panicked := make([]bool, len(cases))
	// implementation runs in parallel workers
	nw := runtime.NumCPU()
	var wg sync.WaitGroup
	idx := make(chan int, 1024)
	for w := 0; w < nw; w++ {
		wg.Add(1)
		go func() {
			defer wg.Done()
			for i := range idx {
				impl[i], panicked[i] = safeImpl(c, cases[i])
			}
		}()
	}
	for i := range cases {
		idx <- i
	}
	close(idx)
	wg.Wait()

	// model (skipped after a memory runaway: the result must be written before the process is killed)
	ranAway := atomic.LoadInt32(&runawayFlag) != 0
	var lines []string
	var lineIdx []int
	for i, cs := range cases {
		if impl[i].NoModel || noModel || ranAway {
			continue
		}
		if impl[i].ModelLine != "" {
			lines = append(lines, impl[i].ModelLine)
		} else {
			lines = append(lines, cs.Line(c.Name))
		}
		lineIdx = append(lineIdx, i)
	}
	nMain := len(lines)
	type chkRef struct{ i, k int }
	var chkIdx []chkRef
	if !noModel && !ranAway {
		for i := range cases {
			for k, ch := range impl[i].Checks {
				lines = append(lines, ch.Line)
				chkIdx = append(chkIdx, chkRef{i, k})
			}
		}
	}
	model, err := runDriverParallel(driver, lines)
	if err == nil {
		for j, ref := range chkIdx {
			resp := model[nMain+j]
			res.Stats["lean_oracle_checks"]++
			if resp != "ok" {
				clause := resp
				if sp := strings.IndexByte(clause, ' '); sp >= 0 {
					clause = clause[:sp]
				}
				clause = strings.TrimPrefix(clause, "fail:")
				impl[ref.i].Fails = append(impl[ref.i].Fails, OracleFail{Property: impl[ref.i].Checks[ref.k].Property, Clause: clause, Detail: resp})
			}
		}
		lines = lines[:nMain]
	}
	if err != nil {
		res.Notes = append(res.Notes, "driver-error: "+err.Error())
		res.NDisagree++
		res.Disagreements = append(res.Disagreements, Disagreement{Component: c.Name, Case: Case{Op: "driver-error"}, Impl: "", Model: err.Error()})
	}
	res.Compared += nMain
	for i, cs := range cases {
		res.OpCounts[cs.Op]++
		if panicked[i] {
			res.Panics++
		}
		if impl[i].Key != "" {
			distinct[hashKey(cs.Op+"|"+impl[i].Key)] = struct{}{}
		}
		for _, st := range impl[i].Stats {
			res.Stats[st]++
		}
		for _, f := range impl[i].Fails {
			res.NViolations++
			res.ViolClauses[f.Property+"/"+f.Clause]++
			if res.ViolClauses[f.Property+"/"+f.Clause] <= 4 && len(res.Violations) < maxKept {
				res.Violations = append(res.Violations, Violation{Component: c.Name, Property: f.Property, Clause: f.Clause, Detail: f.Detail, Case: cs})
			}
		}
	}
	if err == nil {
		for k, i := range lineIdx {
			if model[k] != impl[i].Out {
				res.NDisagree++
				res.DisagreeOps[cases[i].Op]++
				if c.Affects != nil {
					if res.DisagreeProp == nil {
						res.DisagreeProp = map[string]int{}
					}
					for _, pid := range c.Affects(cases[i], impl[i].Out, model[k]) {
						res.DisagreeProp[pid]++
					}
				}
				if res.DisagreeOps[cases[i].Op] <= 6 && len(res.Disagreements) < maxKept {
					res.Disagreements = append(res.Disagreements, Disagreement{Component: c.Name, Case: cases[i], Impl: impl[i].Out, Model: model[k]})
				}
			}
		}
	}
	// samples: a few spread over the case list
	step := len(cases)/6 + 1
	for i := 0; i < len(cases) && len(res.Samples) < 8; i += step {
		res.Samples = append(res.Samples, map[string]interface{}{"case": cases[i].Line(c.Name), "impl": impl[i].Out})
	}
}

func writeJSON(path string, v interface{}) {
	b, err := json.MarshalIndent(v, "", " ")
	if err != nil {
		panic(err)
	}
	if path == "" || path == "-" {
		os.Stdout.Write(b)
		os.Stdout.Write([]byte("\n"))
		return
	}
	if err := os.WriteFile(path, b, 0o644); err != nil {
		panic(err)
	}
}

// enumerate all strings over alphabet with length <= n (calls f with a fresh copy each time)
func enumStrings(alphabet [][]byte, n int, f func([]byte)) {
	var rec func(prefix []byte, depth int)
	rec = func(prefix []byte, depth int) {
		cp := make([]byte, len(prefix))
		copy(cp, prefix)
		f(cp)
		if depth == n {
			return
		}
		for _, a := range alphabet {
			rec(append(prefix, a...), depth+1)
		}
	}
	rec(nil, 0)
}

func randString(rng *RNG, alphabet [][]byte, maxLen int) []byte {
	n := rng.Intn(maxLen + 1)
	var b []byte
	for i := 0; i < n; i++ {
		b = append(b, alphabet[rng.Intn(len(alphabet))]...)
	}
	return b
}

func syms(ss ...string) [][]byte {
	var r [][]byte
	for _, s := range ss {
		r = append(r, []byte(s))
	}
	return r
}
