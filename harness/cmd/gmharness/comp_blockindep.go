package main

// Component `blockindep`: the first half of C09 AT THE BLOCK-TREE LEVEL (lean/GM/Model/Blocks/Indep.lean,
// statement GM.Props.C09.IndependentBlocks). A case is a triple (A, h, B). With
//
//	doc = A ++ sep(A) ++ "# " ++ h ++ "\n" ++ "\n" ++ B        sep(A) = "\n" if A is empty or ends with "\n", else "\n\n"
//
// the statement says: the block tree of doc has as Document children the children of A's Document, then the
// Heading of "# h\n" moved by |A sep|, then the children of B's Document moved by |A sep "# h\n\n"|
// (HasBlankPreviousLines compared where the block phase reads it). Side conditions (answer `n-a`): no '[' / CR in
// A, B; no LF / CR in h; "# h\n" alone is one level-1 Heading; the deepest last block of A's tree is not a
// CodeBlock / FencedCodeBlock / HTMLBlock.
//
// The REAL parser (ten default block parsers, no paragraph transformers) is run on A, "# h\n", B and doc, the
// statement is evaluated on the real trees, and the answer line (`ok` / `n-a` / `fail:indep-tree <expected> <> <got>`)
// must be byte-identical to the answer of the Lean model (`blocks indep <hexA> <hexH> <hexB>`), which evaluates
// GM.Blocks.indepCheck on the model's trees. A `fail` on the real trees is a C09 violation on its own
// (clause neighbour-changes-block-tree); independently of the trees the HTML of goldmark.Convert (core and
// GFM+unsafe) is compared for the same triple (clause neighbour-changes-rendering).

import (
	"bytes"
	"fmt"
	"strconv"
	"strings"
	"sync"

	"github.com/yuin/goldmark"
	"github.com/yuin/goldmark/ast"
	"github.com/yuin/goldmark/text"
)

func init() {
	register(&Component{
		Name:       "blockindep",
		Rule:       "triples (A, h, B): all pairs of strings up to a length bound over block-significant alphabets (complete), all strings up to a larger bound x a list of probe documents (both ways round), corpus / generated / mutated documents paired at random, long repeated units; '[' and CR stripped; non-trivial = the statement applies and A and B are non-blank; distinct = distinct (A, h, B)",
		Gen:        genBlockIndep,
		Impl:       implBlockIndep,
		Exhaustive: true,
		Scope: func(tier string) string {
			if tier == "thorough" {
				return "ALL pairs (A,B) of strings of length <= 2 over the 16-symbol block alphabet and <= 3 (list, quote, setext, code) / <= 2 (list2, fence, atx, html) over eight per-construct sub-alphabets, h = \"h\"; ALL strings of length <= 3 (full alphabet, html) / <= 4 (seven sub-alphabets) as A x 64 probe documents as B, and the other way round; probes x probes x 7 heading texts; 200k random pairs of corpus/generated/mutated documents; 50k random pairs of token strings; 3k long repeated units (1..300 lines) in front of a list"
			}
			return "ALL pairs (A,B) of strings of length <= 2 over the 16-symbol block alphabet and over eight per-construct sub-alphabets, h = \"h\"; ALL strings of length <= 2 (full alphabet and five sub-alphabets) / <= 3 (list, quote, code) as A x 64 probe documents as B, and the other way round; probes x probes x 2 heading texts; 10k random pairs of corpus/generated/mutated documents; 5k random pairs of token strings; 200 long repeated units (1..300 lines) in front of a list"
		},
	})
}

// probe documents: each one is sensitive to one piece of state a neighbour could leak (list parser flags, the
// fence / temporary-paragraph keys, blank-line statistics, indentation, lazy continuation)
var blockIndepProbes = []string{
	"", "a", "a\n", "\n", "\n\na", "  a", "    a", "    a\n\n    b\n", "\ta",
	"-", "-\n", "- a", "- a\n- b\n", "- a\n\n- b\n", "- a\n\n  b\n", "-\n\n  a\n", "-\n  a\n", "- a\n  - b\n\n    c\n", "-\n\n-\n", "- a\n-\n\n- b\n",
	"1. a", "1. a\n2. b\n", "2. a\n", "1) a\n\n   b\n", "* a\n+ b\n", "- a\n1. b\n", "- - a\n", "-   a\n\n    b\n",
	"> a", "> a\nb\n", ">\n", "> - a\n>\n>   b\n", "> a\n\n> b\n", ">     a\n", "- > a\n",
	"a\n===\n", "a\n---\n", "===\n", "---\n", "- a\n---\n", "* * *\n", "a\n- b\n",
	"# x", "#", "## x ##\n", "#x\n",
	"```\n", "```\na\n```\n", "~~~ x\na\n", "```\n\n```\nb\n", "- ```\n  a\n", "> ```\n> a\n",
	"<div>\n", "<div>\na\n\nb\n", "<!-- a\n\nb -->\nc\n", "<a>\n", "<pre>\n\n</pre>\n",
	"a\n    b\n", "- a\n\n      b\n", "1. a\n\n       b\n", "  - a\n - b\n- c\n", "-\ta\n\n\tb\n", "a\n\n\n\nb\n",
	"- a\n\n\n  b\n",
}

// heading texts (no LF / CR): plain, empty, closing sequence, only a closing sequence, trailing backslash, blanks, markers
var blockIndepHeadings = []string{"h", "", "x #", "#", "a\\", " \tq  ", "1. - >"}

type biAlpha struct {
	name   string
	syms   [][]byte
	qp, tp int // pair scope: length bound, quick / thorough
	qs, ts int // single scope (x probes): length bound, quick / thorough
}

var blockIndepAlphabets = []biAlpha{
	{"full", syms(">", "-", "*", "+", "1", ".", ")", "#", "=", "`", "~", "<", " ", "\t", "\n", "a"), 2, 2, 2, 3},
	{"list", syms("-", "1", ".", " ", "\n", "a", "\t"), 2, 3, 3, 4},
	{"list2", syms("*", "+", "2", ")", " ", "\n", "a"), 2, 2, 2, 4},
	{"quote", syms(">", " ", "\n", "a", "-", "\t"), 2, 3, 3, 4},
	{"setext", syms("=", "-", " ", "\n", "a", ">"), 2, 3, 2, 4},
	{"code", syms(" ", "\t", "\n", "a", ">", "-"), 2, 3, 3, 4},
	{"fence", syms("`", "~", " ", "\n", "a", ">", "-"), 2, 2, 2, 4},
	{"atx", syms("#", " ", "\n", "a", "-", "="), 2, 2, 2, 4},
	{"html", syms("<", ">", "/", "!", "-", "a", "p", " ", "\n"), 2, 2, 2, 3},
}

func genBlockIndep(tier string, rng *RNG, emit func(Case)) {
	th := tier == "thorough"
	// the cases are collected and emitted in a (seeded) random order: the engine gives the model driver contiguous
	// shards, and the expensive cases (long documents) would otherwise all land in the last one
	var all []Case
	em := func(a, h, b []byte) { all = append(all, Case{Op: "indep", Args: []string{hx(a), hx(h), hx(b)}}) }
	defer func() {
		for i := len(all) - 1; i > 0; i-- {
			j := rng.Intn(i + 1)
			all[i], all[j] = all[j], all[i]
		}
		for _, c := range all {
			emit(c)
		}
	}()
	hh := []byte("h")
	probes := syms(blockIndepProbes...)
	for _, al := range blockIndepAlphabets {
		np, ns := al.qp, al.qs
		if th {
			np, ns = al.tp, al.ts
		}
		var small [][]byte
		enumStrings(al.syms, np, func(s []byte) { small = append(small, s) })
		for _, a := range small {
			for _, b := range small {
				em(a, hh, b)
			}
		}
		enumStrings(al.syms, ns, func(s []byte) {
			for _, p := range probes {
				em(s, hh, p)
				em(p, hh, s)
			}
		})
	}
	nh := 2
	if th {
		nh = len(blockIndepHeadings)
	}
	for _, a := range probes {
		for _, b := range probes {
			for _, h := range blockIndepHeadings[:nh] {
				em(a, []byte(h), b)
			}
		}
	}
	nd, nt, nu := 10000, 5000, 200
	if th {
		nd, nt, nu = 200000, 50000, 3000
	}
	var pool [][]byte
	DocStream(rng, len(CorpusDocs())+nd/4, func(kind string, d []byte) {
		pool = append(pool, stripBytes(d, "[\r"))
	})
	pickH := func() []byte { return []byte(blockIndepHeadings[rng.Intn(len(blockIndepHeadings))]) }
	for i := 0; i < nd; i++ {
		em(pool[rng.Intn(len(pool))], pickH(), pool[rng.Intn(len(pool))])
	}
	toks := syms(blocksTokens...)
	for i := 0; i < nt; i++ {
		a := stripBytes(randString(rng, toks, 12), "[\r")
		b := stripBytes(randString(rng, toks, 12), "[\r")
		em(a, pickH(), b)
	}
	listBs := []string{"- a\n\n  b\n", "- a\n\n- b\n", "- a\n- b\n", "1. a\n\n   b\n", "- a\n\n      code\n", "> - a\n>\n>   b\n", "-\n\n  a\n"}
	units := []string{"- item\n", "x\n\n", "> q\n", "- item\n\n", "-\n\n", "1. a\n   - b\n\n"}
	for i := 0; i < nu; i++ {
		a := []byte(strings.Repeat(units[rng.Intn(len(units))], 1+rng.Intn(300)))
		em(a, pickH(), []byte(listBs[rng.Intn(len(listBs))]))
	}
}

// ---- the real tree as a value ----

type biTree struct {
	kind                 ast.NodeKind
	blank                bool
	level, start, offset int
	marker               byte
	tight                bool
	info                 *text.Segment
	htmlType             int
	closure              text.Segment
	hasLines             bool
	lines                []text.Segment
	kids                 []*biTree
}

func biBuild(n ast.Node, unmodelled *bool) *biTree {
	t := &biTree{kind: n.Kind(), blank: n.HasBlankPreviousLines()}
	if !blocksModelled[t.kind] {
		*unmodelled = true
	}
	switch v := n.(type) {
	case *ast.Heading:
		t.level = v.Level
	case *ast.List:
		t.marker, t.start, t.tight = v.Marker, v.Start, v.IsTight
	case *ast.ListItem:
		t.offset = v.Offset
	case *ast.FencedCodeBlock:
		if v.Info != nil {
			s := v.Info.Segment
			t.info = &s
		}
	case *ast.HTMLBlock:
		t.htmlType, t.closure = int(v.HTMLBlockType), v.ClosureLine
	}
	if t.kind != ast.KindDocument || n.Lines() != nil {
		t.hasLines = true
		ls := n.Lines()
		for i := 0; i < ls.Len(); i++ {
			t.lines = append(t.lines, ls.At(i))
		}
	}
	for c := n.FirstChild(); c != nil; c = c.NextSibling() {
		if c.Type() == ast.TypeBlock || c.Type() == ast.TypeDocument {
			t.kids = append(t.kids, biBuild(c, unmodelled))
		}
	}
	return t
}

func biMove(s text.Segment, k int) text.Segment {
	s.Start += k
	s.Stop += k
	return s
}

// GM.Blocks.Tree.mapSegs (moveSeg k)
func (t *biTree) move(k int) *biTree {
	r := *t
	r.lines = nil
	for _, s := range t.lines {
		r.lines = append(r.lines, biMove(s, k))
	}
	if t.info != nil {
		s := biMove(*t.info, k)
		r.info = &s
	}
	if t.closure.Start >= 0 {
		r.closure = biMove(t.closure, k)
	}
	r.kids = nil
	for _, c := range t.kids {
		r.kids = append(r.kids, c.move(k))
	}
	return &r
}

// GM.Blocks.Tree.readBlank
func (t *biTree) readBlank(keep bool) *biTree {
	r := *t
	r.blank = keep && t.blank
	inList := t.kind == ast.KindList || t.kind == ast.KindListItem
	r.kids = nil
	for i, c := range t.kids {
		r.kids = append(r.kids, c.readBlank(inList && i > 0))
	}
	return &r
}

// GM.Blocks.Tree.str
func (t *biTree) str(sb *strings.Builder) {
	sb.WriteString(t.kind.String())
	if t.blank {
		sb.WriteString("(1|")
	} else {
		sb.WriteString("(0|")
	}
	switch t.kind {
	case ast.KindHeading:
		sb.WriteString(strconv.Itoa(t.level))
	case ast.KindList:
		tt := "0"
		if t.tight {
			tt = "1"
		}
		sb.WriteString(strconv.Itoa(int(t.marker)) + "," + strconv.Itoa(t.start) + "," + tt)
	case ast.KindListItem:
		sb.WriteString(strconv.Itoa(t.offset))
	case ast.KindFencedCodeBlock:
		if t.info != nil {
			sb.WriteString(blkSegStr(*t.info))
		} else {
			sb.WriteString("nil")
		}
	case ast.KindHTMLBlock:
		sb.WriteString(strconv.Itoa(t.htmlType) + "," + blkSegStr(t.closure))
	}
	sb.WriteByte('|')
	for i, s := range t.lines {
		if i > 0 {
			sb.WriteByte(',')
		}
		sb.WriteString(blkSegStr(s))
	}
	sb.WriteByte('|')
	for _, c := range t.kids {
		c.str(sb)
	}
	sb.WriteByte(')')
}

func (t *biTree) lastLeafKind() ast.NodeKind {
	for len(t.kids) > 0 {
		t = t.kids[len(t.kids)-1]
	}
	return t.kind
}

func biParse(src []byte, unmodelled *bool) *biTree {
	buf := make([]byte, len(src))
	copy(buf, src)
	return biBuild(theBlocksParser().Parse(text.NewReader(buf)), unmodelled)
}

func blockIndepSep(a []byte) []byte {
	if len(a) == 0 || a[len(a)-1] == '\n' {
		return []byte("\n")
	}
	return []byte("\n\n")
}

var blockIndepCfgs = []Cfg{{}, {Exts: "tskl", Unsafe: true}}
var blockIndepMds []goldmark.Markdown
var blockIndepMdsOnce sync.Once

// one shared goldmark instance per configuration (Convert is safe for concurrent use)
func blockIndepConvert(i int, src []byte) []byte {
	blockIndepMdsOnce.Do(func() {
		for _, c := range blockIndepCfgs {
			blockIndepMds = append(blockIndepMds, c.Build())
		}
	})
	var b bytes.Buffer
	if err := blockIndepMds[i].Convert(src, &b); err != nil {
		return []byte("ERROR: " + err.Error())
	}
	return b.Bytes()
}

func implBlockIndep(c Case) ImplResult {
	a, h, b := unhx(c.Args[0]), unhx(c.Args[1]), unhx(c.Args[2])
	res := ImplResult{ModelLine: "blocks indep " + c.Args[0] + " " + c.Args[1] + " " + c.Args[2]}
	if hasByte(a, "[\r") || hasByte(b, "[\r") || hasByte(h, "\n\r") {
		res.Out = "n-a"
		res.Stats = append(res.Stats, "n-a:bytes")
		return res
	}
	var unm bool
	hl := append(append([]byte("# "), h...), '\n')
	ta, thd, tb := biParse(a, &unm), biParse(hl, &unm), biParse(b, &unm)
	switch ta.lastLeafKind() {
	case ast.KindCodeBlock, ast.KindFencedCodeBlock, ast.KindHTMLBlock:
		res.Out = "n-a"
		res.Stats = append(res.Stats, "n-a:A-ends-in-raw-block")
		return res
	}
	if !(len(thd.kids) == 1 && thd.kids[0].kind == ast.KindHeading && thd.kids[0].level == 1 && len(thd.kids[0].kids) == 0) {
		res.Out = "n-a"
		res.Stats = append(res.Stats, "n-a:not-a-heading")
		return res
	}
	pre := append(append([]byte{}, a...), blockIndepSep(a)...)
	k1 := len(pre)
	doc := append(append(append(append([]byte{}, pre...), hl...), '\n'), b...)
	k2 := k1 + len(hl) + 1
	exp := *ta
	exp.kids = append([]*biTree{}, ta.kids...)
	exp.kids = append(exp.kids, thd.kids[0].move(k1))
	for _, kb := range tb.kids {
		exp.kids = append(exp.kids, kb.move(k2))
	}
	td := biParse(doc, &unm)
	var es, gs strings.Builder
	exp.readBlank(false).str(&es)
	td.readBlank(false).str(&gs)
	if unm {
		res.NoModel = true
		res.Stats = append(res.Stats, "skipped-unmodelled")
	}
	if es.String() == gs.String() {
		res.Out = "ok"
	} else {
		res.Out = "fail:indep-tree " + es.String() + " <> " + gs.String()
		res.Fails = append(res.Fails, OracleFail{"C09", "neighbour-changes-block-tree",
			fmt.Sprintf("A=%q h=%q B=%q: tree of A+sep+heading+blank+B is %s, the parts give %s", a, h, b, gs.String(), es.String())})
	}
	res.Stats = append(res.Stats, "statement-applies")
	// the property as worded, on the HTML of goldmark.Convert
	for i, cfg := range blockIndepCfgs {
		got := blockIndepConvert(i, doc)
		want := append(append(append([]byte{}, blockIndepConvert(i, a)...), blockIndepConvert(i, hl)...), blockIndepConvert(i, b)...)
		if !bytes.Equal(got, want) {
			res.Fails = append(res.Fails, OracleFail{"C09", "neighbour-changes-rendering",
				fmt.Sprintf("config %s A=%q h=%q B=%q: joined %q, parts %q", cfg.Name(), a, h, b, got, want)})
			break
		}
	}
	if nonBlank(a) && nonBlank(b) {
		res.Key = c.Args[0] + "|" + c.Args[1] + "|" + c.Args[2]
	}
	return res
}
