package main

// Component `options`: property C10's own metamorphic oracle on the real library, independent of the Lean
// model. One document and one extension set (table alignment pinned to the Attribute method, East-Asian
// line-break suppression off) are converted under the 8 combinations of {XHTML, HardWraps, Unsafe} by 8
// freshly built Markdown instances; the 12 pairs that differ in exactly one option are compared:
//
//   XHTML      on vs off: byte-identical except ` />` for `>` at the end of hr/br/img/input tags, and the number
//              of rewritten tags equals the number of void elements the AST says the renderer writes;
//   HardWraps  on vs off: byte-identical except an inserted `<br>` (`<br />` with XHTML) in front of a newline, and
//              the number of insertions equals the number of rendered soft line breaks of the AST;
//   Unsafe     on vs off: byte-identical when the AST has no rendered RawHTML / HTMLBlock and no rendered
//              Link / Image / AutoLink whose URL-escaped destination html.IsDangerousURL classifies dangerous;
//              otherwise the safe output, cut at its placeholder comments and emptied URLs, is an in-order
//              sequence of chunks of the unsafe output (first chunk a prefix, last chunk a suffix), and the
//              number of placeholders equals the number of raw nodes.
//
// There is no model counterpart (NoModel): the tie of the model is component `render`.

import (
	"bytes"
	"fmt"
	"sort"
	"strings"

	"github.com/yuin/goldmark/ast"
	east "github.com/yuin/goldmark/extension/ast"
	"github.com/yuin/goldmark/renderer/html"
	"github.com/yuin/goldmark/text"
	"github.com/yuin/goldmark/util"
)

func init() {
	register(&Component{
		Name:       "options",
		Rule:       "each case = one document x one extension set, converted under all 8 combinations of XHTML/HardWraps/Unsafe (12 single-option comparisons); documents: every string of <= 3 tokens over a 12-token alphabet (enumerated completely), the repo's corpora, mutants, grammar-generated and adversarial documents; non-trivial = the rendered tree has a void element, a soft line break, raw HTML or a dangerous destination; distinct = distinct (extension set, kind set, which of the four are present)",
		Gen:        genOptions,
		Impl:       implOptions,
		Exhaustive: true,
		Scope: func(tier string) string {
			if tier == "thorough" {
				return "all strings of <= 3 tokens over 12 tokens x ext set tskdf (exhaustive) + all corpus documents x 12 extension sets + 400k generated documents x random extension set; 8 option combinations each"
			}
			return "all strings of <= 3 tokens over 12 tokens x ext set tskdf (exhaustive) + all corpus documents x 3 extension sets + 20k generated documents x random extension set; 8 option combinations each"
		},
	})
}

// extension sets of this component: never '1'/'2' (East-Asian line breaks), table always with alignment method 1
var optExtSets = []string{"", "tskldfy", "tskdf", "t", "k", "f", "s", "d", "l", "y", "tskldfye", "kf"}

// the small scope: every option-sensitive construct, plus neutral material
var optAlphabet = []string{"a", "\n", "  \n", "<b>", "![i](u)", "***\n", "[x](javascript:y)", "- [ ] ", "\n\n", "<div>\n", "`", "[^1]: n\n\n[^1]"}

func optCfg(exts string, flags int) Cfg {
	c := Cfg{Exts: exts}
	c.Attr = flags&1 != 0
	c.AutoID = flags&2 != 0
	if c.has('t') {
		c.TableAlign = 1
	}
	return c
}

func genOptions(tier string, rng *RNG, emit func(Case)) {
	one := func(c Cfg, d []byte) { emit(Case{Op: "doc", Args: []string{c.Name(), hx(d)}}) }
	// exhaustive small scope
	enumStrings(syms(optAlphabet...), 3, func(d []byte) { one(optCfg("tskdf", 0), d) })
	// corpora
	sets := []string{"", "tskldfy", "tskdf"}
	if tier == "thorough" {
		sets = optExtSets
	}
	for _, d := range CorpusDocs() {
		for i, e := range sets {
			one(optCfg(e, i&1), d)
		}
	}
	n := 20000
	if tier == "thorough" {
		n = 400000
	}
	DocStream(rng, len(CorpusDocs())+n, func(kind string, d []byte) {
		if kind == "corpus" {
			return
		}
		e := optExtSets[rng.Intn(len(optExtSets))]
		if rng.Chance(50) {
			e = "tskldfy"
		}
		one(optCfg(e, rng.Intn(4)), d)
	})
}

// ---------- what the AST says the renderer writes ----------

type optFacts struct {
	hr, img, hard, soft, checkbox, footList int // void elements (soft: only with HardWraps)
	rawInline, htmlBlock, closures          int // placeholders in safe mode
	dangerous                               int // rendered destinations classified dangerous
	kinds                                   map[string]int
}

// collect walks the tree the way the renderer does: the children of Image (alt text only), CodeSpan and RawHTML
// are not rendered as nodes.
func (f *optFacts) collect(n ast.Node, src []byte) {
	f.kinds[n.Kind().String()]++
	switch v := n.(type) {
	case *ast.ThematicBreak:
		f.hr++
	case *ast.Image:
		f.img++
		if html.IsDangerousURL(util.URLEscape(v.Destination, true)) {
			f.dangerous++
		}
		return
	case *ast.Link:
		if html.IsDangerousURL(util.URLEscape(v.Destination, true)) {
			f.dangerous++
		}
	case *ast.AutoLink:
		if html.IsDangerousURL(util.URLEscape(v.URL(src), false)) {
			f.dangerous++
		}
	case *ast.RawHTML:
		f.rawInline++
		return
	case *ast.HTMLBlock:
		f.htmlBlock++
		if v.HasClosure() {
			f.closures++
		}
	case *ast.CodeSpan:
		return
	case *ast.Text:
		if !v.IsRaw() {
			if v.HardLineBreak() {
				f.hard++
			} else if v.SoftLineBreak() {
				f.soft++
			}
		}
	case *east.TaskCheckBox:
		f.checkbox++
	case *east.FootnoteList:
		f.footList++
	}
	for c := n.FirstChild(); c != nil; c = c.NextSibling() {
		f.collect(c, src)
	}
}

func (f *optFacts) voids(hardWraps bool) int {
	n := f.hr + f.img + f.hard + f.checkbox + f.footList
	if hardWraps {
		n += f.soft
	}
	return n
}

// ---------- the three comparisons ----------

var voidTagNames = map[string]bool{"hr": true, "br": true, "img": true, "input": true}

func clip(b []byte, at int) string {
	lo, hi := at-24, at+24
	if lo < 0 {
		lo = 0
	}
	if hi > len(b) {
		hi = len(b)
	}
	return fmt.Sprintf("%q", b[lo:hi])
}

// tagNameBefore: the name of the tag whose `>` is at off[i] (nearest `<` to the left)
func tagNameBefore(off []byte, i int) string {
	lt := bytes.LastIndexByte(off[:i], '<')
	if lt < 0 {
		return ""
	}
	j := lt + 1
	for j < i && (off[j] >= 'a' && off[j] <= 'z' || off[j] >= 'A' && off[j] <= 'Z' || off[j] >= '0' && off[j] <= '9') {
		j++
	}
	return strings.ToLower(string(off[lt+1 : j]))
}

// compareXHTML: on == off with some `>` of void tags replaced by ` />`; returns the number of rewrites
func compareXHTML(off, on []byte) (int, string) {
	i, j, n := 0, 0, 0
	for i < len(off) && j < len(on) {
		if off[i] == on[j] {
			i++
			j++
			continue
		}
		if off[i] == '>' && bytes.HasPrefix(on[j:], []byte(" />")) {
			if name := tagNameBefore(off, i); !voidTagNames[name] {
				return n, fmt.Sprintf("` />` written for non-void tag %q at %d: %s", name, i, clip(on, j))
			}
			i++
			j += 3
			n++
			continue
		}
		return n, fmt.Sprintf("outputs diverge at off=%d on=%d: off %s on %s", i, j, clip(off, i), clip(on, j))
	}
	if i != len(off) || j != len(on) {
		return n, fmt.Sprintf("one output is a proper prefix of the other modulo void ends (off %d/%d, on %d/%d)", i, len(off), j, len(on))
	}
	return n, ""
}

// compareHardWraps: on == off with `br` inserted in front of some newlines; returns the number of insertions
func compareHardWraps(off, on []byte, br []byte) (int, string) {
	i, j, n := 0, 0, 0
	for i < len(off) && j < len(on) {
		if off[i] == on[j] {
			i++
			j++
			continue
		}
		if off[i] == '\n' && bytes.HasPrefix(on[j:], br) && j+len(br) < len(on) && on[j+len(br)] == '\n' {
			j += len(br)
			n++
			continue
		}
		return n, fmt.Sprintf("outputs diverge at off=%d on=%d: off %s on %s", i, j, clip(off, i), clip(on, j))
	}
	if i != len(off) || j != len(on) {
		return n, fmt.Sprintf("one output is a proper prefix of the other modulo inserted breaks (off %d/%d, on %d/%d)", i, len(off), j, len(on))
	}
	return n, ""
}

var placeholderBytes = []byte("<!-- raw HTML omitted -->")

const (
	wildRaw = 1 // anything (the original raw HTML)
	wildURL = 2 // anything without a double quote (an HTML-escaped URL)
)

// cutSafe splits the safe output at its placeholder comments (with the newline that follows, if any) and
// inside every empty href/src value; returns the chunks and the kind of wildcard after each chunk but the last.
func cutSafe(safe []byte) (chunks [][]byte, wild []int, nPlaceholders int) {
	start, i := 0, 0
	for i < len(safe) {
		switch {
		case bytes.HasPrefix(safe[i:], placeholderBytes):
			chunks = append(chunks, safe[start:i])
			wild = append(wild, wildRaw)
			nPlaceholders++
			i += len(placeholderBytes)
			if i < len(safe) && safe[i] == '\n' {
				i++
			}
			start = i
		case bytes.HasPrefix(safe[i:], []byte(`href=""`)):
			chunks = append(chunks, safe[start:i+6])
			wild = append(wild, wildURL)
			i += 6
			start = i
		case bytes.HasPrefix(safe[i:], []byte(`src=""`)):
			chunks = append(chunks, safe[start:i+5])
			wild = append(wild, wildURL)
			i += 5
			start = i
		default:
			i++
		}
	}
	chunks = append(chunks, safe[start:])
	return
}

// matchChunks decides whether unsafe = chunks[0] w0 chunks[1] w1 … chunks[n] with each wildcard of its kind.
func matchChunks(unsafe []byte, chunks [][]byte, wild []int) bool {
	dead := map[[2]int]bool{}
	var at func(k, j int) bool // chunk k must start exactly at j
	at = func(k, j int) bool {
		if dead[[2]int{k, j}] {
			return false
		}
		ok := false
		if bytes.HasPrefix(unsafe[j:], chunks[k]) {
			e := j + len(chunks[k])
			if k == len(chunks)-1 {
				ok = e == len(unsafe)
			} else if wild[k] == wildURL {
				q := bytes.IndexByte(unsafe[e:], '"')
				ok = q >= 0 && at(k+1, e+q)
			} else {
				next := chunks[k+1]
				for p := e; p <= len(unsafe) && !ok; {
					q := bytes.Index(unsafe[p:], next)
					if q < 0 {
						break
					}
					ok = at(k+1, p+q)
					p += q + 1
				}
			}
		}
		if !ok {
			dead[[2]int{k, j}] = true
		}
		return ok
	}
	return at(0, 0)
}

// ---------- the case ----------

func implOptions(cs Case) ImplResult {
	base := ParseCfg(cs.Args[0])
	base.Unsafe, base.XHTML, base.HardWraps = false, false, false
	src := unhx(cs.Args[1])
	res := ImplResult{NoModel: true}
	fail := func(clause, format string, a ...interface{}) {
		res.Fails = append(res.Fails, OracleFail{Property: "C10", Clause: clause, Detail: fmt.Sprintf(format, a...)})
	}

	// the AST (parsing does not depend on renderer options)
	doc := base.Build().Parser().Parse(text.NewReader(src))
	f := &optFacts{kinds: map[string]int{}}
	f.collect(doc, src)

	// 8 conversions, index = x | h<<1 | u<<2, each by a fresh Markdown
	var out [8][]byte
	for m := 0; m < 8; m++ {
		c := base
		c.XHTML, c.HardWraps, c.Unsafe = m&1 != 0, m&2 != 0, m&4 != 0
		var buf bytes.Buffer
		if err := c.Build().Convert(src, &buf); err != nil {
			fail("convert-error", "cfg %s: %v", c.Name(), err)
		}
		out[m] = buf.Bytes()
	}
	name := func(m int) string {
		return fmt.Sprintf("[xhtml=%d hardwraps=%d unsafe=%d]", m&1, m>>1&1, m>>2&1)
	}

	for m := 0; m < 8; m++ {
		if m&1 == 0 { // XHTML axis
			n, msg := compareXHTML(out[m], out[m|1])
			if msg != "" {
				fail("xhtml-not-void-only", "%s vs %s: %s", name(m), name(m|1), msg)
			} else if want := f.voids(m&2 != 0); n != want {
				fail("xhtml-void-missed", "%s vs %s: %d void elements rewritten, the tree renders %d (hr %d img %d hard %d soft %d checkbox %d footnote-hr %d)",
					name(m), name(m|1), n, want, f.hr, f.img, f.hard, f.soft, f.checkbox, f.footList)
			}
		}
		if m&2 == 0 { // HardWraps axis
			br := []byte("<br>")
			if m&1 != 0 {
				br = []byte("<br />")
			}
			n, msg := compareHardWraps(out[m], out[m|2], br)
			if msg != "" {
				fail("hardwraps-not-softbreak-only", "%s vs %s: %s", name(m), name(m|2), msg)
			} else if n != f.soft {
				fail("hardwraps-softbreak-count", "%s vs %s: %d breaks inserted, the tree renders %d soft line breaks", name(m), name(m|2), n, f.soft)
			}
		}
		if m&4 == 0 { // Unsafe axis
			safe, uns := out[m], out[m|4]
			nraw := f.rawInline + f.htmlBlock + f.closures
			chunks, wild, nph := cutSafe(safe)
			if nraw == 0 && f.dangerous == 0 {
				if !bytes.Equal(safe, uns) {
					i := 0
					for i < len(safe) && i < len(uns) && safe[i] == uns[i] {
						i++
					}
					fail("unsafe-differs-without-raw", "%s vs %s: no raw HTML and no dangerous destination in the tree, outputs differ at %d: safe %s unsafe %s",
						name(m), name(m|4), i, clip(safe, i), clip(uns, i))
				}
			} else {
				if nph != nraw {
					fail("unsafe-placeholder-count", "%s: %d placeholders, the tree renders %d raw HTML nodes/lines groups", name(m), nph, nraw)
				}
				if !matchChunks(uns, chunks, wild) {
					fail("unsafe-not-raw-only", "%s vs %s: the safe output cut at placeholders/emptied URLs (%d chunks) is not an in-order chunk sequence of the unsafe output",
						name(m), name(m|4), len(chunks))
				}
			}
		}
	}

	// evidence
	var ks []string
	for k := range f.kinds {
		ks = append(ks, k)
		res.Stats = append(res.Stats, "kind:"+k)
	}
	sort.Strings(ks)
	present := b2s(f.voids(false) > 0) + b2s(f.soft > 0) + b2s(f.rawInline+f.htmlBlock > 0) + b2s(f.dangerous > 0)
	if present != "0000" {
		res.Key = base.Name() + "|" + present + "|" + strings.Join(ks, ",")
	}
	if f.voids(false) > 0 {
		res.Stats = append(res.Stats, "has:void")
	}
	if f.soft > 0 {
		res.Stats = append(res.Stats, "has:softbreak")
	}
	if f.rawInline+f.htmlBlock > 0 {
		res.Stats = append(res.Stats, "has:raw")
	}
	if f.dangerous > 0 {
		res.Stats = append(res.Stats, "has:dangerous-url")
	}
	res.Out = hx(out[0])
	return res
}
