package main

// Shared document-level machinery: the named configuration lattice, the repo's own corpora (read from the
// working tree at run time), a Markdown-aware grammar generator, byte-level mutation and adversarial
// fragment streams. Every random choice derives from the RNG handed in.

import (
	"bytes"
	"fmt"
	"encoding/json"
	"os"
	"path/filepath"
	"sort"
	"strings"
	"sync"

	"github.com/yuin/goldmark"
	"github.com/yuin/goldmark/extension"
	"github.com/yuin/goldmark/parser"
	"github.com/yuin/goldmark/renderer"
	"github.com/yuin/goldmark/renderer/html"
)

// ---------- configurations ----------

type Cfg struct {
	Exts       string // letters: t(able) s(trike) k(tasklist) l(inkify) d(eflist) f(ootnote) y(typographer) 1(cjk simple) 2(cjk css3) e(scaped space)
	AutoID     bool
	Attr       bool
	Unsafe     bool
	XHTML      bool
	HardWraps  bool
	TableAlign int // 0 default, 1 attribute, 2 style, 3 none
}

func (c Cfg) has(x byte) bool { return strings.IndexByte(c.Exts, x) >= 0 }

// Name is a canonical, parseable spelling: exts/flags, e.g. "tskl/ia/uxh/2"
func (c Cfg) Name() string {
	f := ""
	if c.AutoID {
		f += "i"
	}
	if c.Attr {
		f += "a"
	}
	r := ""
	if c.Unsafe {
		r += "u"
	}
	if c.XHTML {
		r += "x"
	}
	if c.HardWraps {
		r += "h"
	}
	return c.Exts + "/" + f + "/" + r + "/" + string(rune('0'+c.TableAlign))
}

func ParseCfg(s string) Cfg {
	p := strings.Split(s, "/")
	for len(p) < 4 {
		p = append(p, "")
	}
	c := Cfg{Exts: p[0]}
	c.AutoID = strings.Contains(p[1], "i")
	c.Attr = strings.Contains(p[1], "a")
	c.Unsafe = strings.Contains(p[2], "u")
	c.XHTML = strings.Contains(p[2], "x")
	c.HardWraps = strings.Contains(p[2], "h")
	if len(p[3]) == 1 {
		c.TableAlign = int(p[3][0] - '0')
	}
	return c
}

func (c Cfg) EAStyle() html.EastAsianLineBreaks {
	if c.has('1') {
		return html.EastAsianLineBreaksSimple
	}
	if c.has('2') {
		return html.EastAsianLineBreaksCSS3Draft
	}
	return html.EastAsianLineBreaksNone
}

func (c Cfg) extenders() []goldmark.Extender {
	var exts []goldmark.Extender
	if c.has('t') {
		if c.TableAlign != 0 {
			exts = append(exts, extension.NewTable(extension.WithTableCellAlignMethod(extension.TableCellAlignMethod(c.TableAlign))))
		} else {
			exts = append(exts, extension.Table)
		}
	}
	if c.has('s') {
		exts = append(exts, extension.Strikethrough)
	}
	if c.has('l') {
		exts = append(exts, extension.Linkify)
	}
	if c.has('k') {
		exts = append(exts, extension.TaskList)
	}
	if c.has('d') {
		exts = append(exts, extension.DefinitionList)
	}
	if c.has('f') {
		exts = append(exts, extension.Footnote)
	}
	if c.has('F') { // footnotes with templated options (^^ = index, %% = reference count) and an id prefix
		exts = append(exts, extension.NewFootnote(
			extension.WithFootnoteIDPrefix("p-"),
			extension.WithFootnoteLinkTitle("note ^^ of %%"),
			extension.WithFootnoteBacklinkTitle("back ^^ (%% refs)"),
			extension.WithFootnoteLinkClass("fr fr-^^"),
			extension.WithFootnoteBacklinkClass("fb fb-%%"),
			extension.WithFootnoteBacklinkHTML("^^/%%"),
		))
	}
	if c.has('y') {
		exts = append(exts, extension.Typographer)
	}
	if c.has('1') || c.has('2') || c.has('e') {
		var o []extension.CJKOption
		if c.has('1') {
			o = append(o, extension.WithEastAsianLineBreaks(extension.EastAsianLineBreaksSimple))
		}
		if c.has('2') {
			o = append(o, extension.WithEastAsianLineBreaks(extension.EastAsianLineBreaksCSS3Draft))
		}
		if c.has('e') {
			o = append(o, extension.WithEscapedSpace())
		}
		exts = append(exts, extension.NewCJK(o...))
	}
	return exts
}

// Build constructs a fresh Markdown for this configuration.
func (c Cfg) Build() goldmark.Markdown {
	var popts []parser.Option
	if c.AutoID {
		popts = append(popts, parser.WithAutoHeadingID())
	}
	if c.Attr {
		popts = append(popts, parser.WithAttribute())
	}
	var ropts []renderer.Option
	if c.Unsafe {
		ropts = append(ropts, html.WithUnsafe())
	}
	if c.XHTML {
		ropts = append(ropts, html.WithXHTML())
	}
	if c.HardWraps {
		ropts = append(ropts, html.WithHardWraps())
	}
	return goldmark.New(goldmark.WithExtensions(c.extenders()...), goldmark.WithParserOptions(popts...), goldmark.WithRendererOptions(ropts...))
}

// ModelCfg returns the two configuration tokens of the Lean render model.
func (c Cfg) ModelCfg() (string, string) {
	ea := 0
	if c.has('1') {
		ea = 1
	}
	if c.has('2') {
		ea = 2
	}
	o := b2s(c.Unsafe) + b2s(c.XHTML) + b2s(c.HardWraps) + string(rune('0'+ea)) + b2s(c.has('e')) + string(rune('0'+c.TableAlign))
	e := b2s(c.has('t')) + b2s(c.has('s')) + b2s(c.has('k')) + b2s(c.has('d')) + b2s(c.has('f') || c.has('F'))
	if c.has('F') {
		e += "F"
	}
	return o, e
}

// extension sets of the lattice
var extSets = []string{"", "tskl", "t", "s", "k", "l", "d", "f", "F", "y", "1", "2", "e", "tskldfy", "tskldFy", "tskldfy1e", "tskldfy2e"}

// CornerCfgs: the configurations quick tiers use.
func CornerCfgs() []Cfg {
	return []Cfg{
		{},
		{Exts: "tskl"},
		{Exts: "tskldfy", AutoID: true, Attr: true},
		{Exts: "tskldfy1e", AutoID: true, Attr: true},
		{Exts: "tskldfy2e", Attr: true, XHTML: true},
		{Unsafe: true, XHTML: true},
		{Exts: "tskl", Unsafe: true, HardWraps: true},
		{Exts: "tskldfy", AutoID: true, Attr: true, XHTML: true, HardWraps: true, TableAlign: 1},
	}
}

// FullLattice: ext sets x parser options x renderer options.
func FullLattice() []Cfg {
	var r []Cfg
	for _, e := range extSets {
		for po := 0; po < 4; po++ {
			for ro := 0; ro < 8; ro++ {
				r = append(r, Cfg{Exts: e, AutoID: po&1 != 0, Attr: po&2 != 0, Unsafe: ro&1 != 0, XHTML: ro&2 != 0, HardWraps: ro&4 != 0})
			}
		}
	}
	return r
}

func randCfg(rng *RNG) Cfg {
	c := Cfg{Exts: extSets[rng.Intn(len(extSets))]}
	c.AutoID, c.Attr = rng.Bool(), rng.Bool()
	c.Unsafe, c.XHTML, c.HardWraps = rng.Chance(30), rng.Bool(), rng.Chance(30)
	if c.has('t') && rng.Chance(50) {
		c.TableAlign = rng.Intn(4)
	}
	return c
}

// ---------- the repo's own corpora ----------

func goldmarkDir() string {
	if d := os.Getenv("GOLDMARK_DIR"); d != "" {
		return d
	}
	return "/repo"
}

type SpecExample struct {
	Markdown string `json:"markdown"`
	HTML     string `json:"html"`
	Example  int    `json:"example"`
	Section  string `json:"section"`
}

var specCache []SpecExample
var specOnce sync.Once

func SpecExamples() []SpecExample {
	specOnce.Do(func() {
		b, err := os.ReadFile(filepath.Join(goldmarkDir(), "_test", "spec.json"))
		if err != nil {
			return
		}
		_ = json.Unmarshal(b, &specCache)
	})
	return specCache
}

var corpusCache [][]byte
var corpusOnce sync.Once

// CorpusDocs: markdown sources of spec.json and of every _test/*.txt, extension/_test/*.txt case.
func CorpusDocs() [][]byte {
	corpusOnce.Do(loadCorpus)
	return corpusCache
}

func loadCorpus() {
	var docs [][]byte
	for _, e := range SpecExamples() {
		docs = append(docs, []byte(e.Markdown))
	}
	var files []string
	for _, pat := range []string{"_test/*.txt", "extension/_test/*.txt"} {
		m, _ := filepath.Glob(filepath.Join(goldmarkDir(), pat))
		sort.Strings(m)
		files = append(files, m...)
	}
	for _, f := range files {
		b, err := os.ReadFile(f)
		if err != nil {
			continue
		}
		for _, cs := range strings.Split(string(b), "//= = = = = = = = = = = = = = = = = = = = = = = =//") {
			parts := strings.Split(cs, "//- - - - - - - - -//")
			if len(parts) >= 3 {
				md := strings.TrimPrefix(parts[1], "\n")
				docs = append(docs, []byte(md))
			}
		}
	}
	corpusCache = docs
}

// ---------- generators ----------

var mdTokens = []string{
	"*", "_", "**", "`", "``", "[", "]", "(", ")", "<", ">", "!", "#", "-", "+", "|", ":", "~", "~~", "\\", "&", "\"", "'", "=",
	"\n", "\n\n", " ", "  ", "    ", "\t", "a", "1", ".", "1. ", "- ", "> ", "```", "~~~", "***", "---", "===", "é", "\x80", "\x00", "\r",
	"{id=5}", "{id=true}", "{a=[1,\"x\"]}", "{a={b=c}}", "{#i .c k=1.5}", " {", "}", "=", "[^1]", "[^1]: ", "[a]: /u", "](", "![", "<a>", "</a>", "<!--", "-->", "&amp;", "&#35;", "&#x22;", "{#id}", "{.c k=v}", "www.a.b", "http://a.b", "a@b.c",
	"\xef\xbb\xbf", "\xef\xbb\xbf# ", "- [ ] ", "- [x] ", "|-|-|", "| a | b |", ":-:", "\n: ", "日本", "語", "\\ ", "  \n", "\\\n",
}

func mutateDoc(rng *RNG, d []byte, other []byte) []byte {
	out := append([]byte{}, d...)
	n := 1 + rng.Intn(4)
	for k := 0; k < n; k++ {
		switch rng.Intn(6) {
		case 0, 1: // insert token
			pos := rng.Intn(len(out) + 1)
			t := mdTokens[rng.Intn(len(mdTokens))]
			out = append(out[:pos], append([]byte(t), out[pos:]...)...)
		case 2: // delete a span
			if len(out) > 0 {
				pos := rng.Intn(len(out))
				l := 1 + rng.Intn(4)
				if pos+l > len(out) {
					l = len(out) - pos
				}
				out = append(out[:pos], out[pos+l:]...)
			}
		case 3: // replace a byte
			if len(out) > 0 {
				t := mdTokens[rng.Intn(len(mdTokens))]
				out[rng.Intn(len(out))] = t[0]
			}
		case 4: // duplicate a line
			lines := strings.SplitAfter(string(out), "\n")
			if len(lines) > 0 {
				i := rng.Intn(len(lines))
				lines = append(lines[:i+1], lines[i:]...)
				out = []byte(strings.Join(lines, ""))
			}
		case 5: // splice with another document
			if len(other) > 0 {
				a, b := rng.Intn(len(out)+1), rng.Intn(len(other)+1)
				out = append(append([]byte{}, out[:a]...), other[b:]...)
			}
		}
	}
	return out
}

var inlinePieces = []string{
	"foo", "bar baz", "*em*", "**strong**", "_em_", "__s__", "`code`", "`` a`b ``", "[link](/url)", "[link](/url \"title\")", "[ref][r]", "[r]",
	"![img](/i.png)", "![a *b*](/i \"t\")", "<http://a.b/c>", "<a@b.co>", "<span class=\"x\">", "</span>", "<!-- c -->", "\\*", "\\\\", "&amp;", "&copy;", "&#65;", "&#x41;", "&#0;",
	"a  \nb", "a\\\nb", "a\nb", "~~del~~", "www.example.com", "http://example.com/a?b=c", "mail@example.com", "[^1]", "[^n]", "\"q\"", "'s", "--", "---", "...", "<<", ">>",
	"日本語", "日本\n語", "é", "[x](javascript:alert(1))", "[x](data:image/png;base64,AA)", "<javascript:x>", "![i](vbscript:x)", "a<b>c", "\"'&<>", "{#i .c}", "\x00", "\xff",
	"[![~~[in](/in)~~](/i.png)](/out)", "[![*[a](b)*](c)](d)", "[~~[a](b)~~](c)", "[*[a](b)*](c)", "[![[a](b)](c)](d)", "[![`x` [a](b) **[c](d)**](e)](f)", "[a](<b c> 'd')", "[a]( /u )", "*a `b* c`", "**a *b* c**", "_a_b_", "[![i](s)](d)", "[a [b](c)](d)", "\\ ", "\\&amp;", "&ouml;x", "&#1234567;", "&#xffffff;", "&nosuch;",
}

func genInline(rng *RNG) string {
	n := 1 + rng.Intn(4)
	var sb strings.Builder
	for i := 0; i < n; i++ {
		if i > 0 {
			sb.WriteString([]string{" ", "", "\n", "  \n"}[rng.Intn(4)])
		}
		sb.WriteString(inlinePieces[rng.Intn(len(inlinePieces))])
	}
	return sb.String()
}

func indent(s, first, rest string) string {
	lines := strings.Split(strings.TrimSuffix(s, "\n"), "\n")
	for i := range lines {
		if i == 0 {
			lines[i] = first + lines[i]
		} else if lines[i] != "" {
			lines[i] = rest + lines[i]
		}
	}
	return strings.Join(lines, "\n") + "\n"
}

func genBlock(rng *RNG, depth int) string {
	k := rng.Intn(22)
	if depth <= 0 && k >= 8 && k <= 11 {
		k = 0
	}
	switch k {
	case 0, 1, 2:
		return genInline(rng) + "\n"
	case 3:
		return strings.Repeat("#", 1+rng.Intn(6)) + " " + strings.ReplaceAll(genInline(rng), "\n", " ") + []string{"", " #", " ##  ", " {#hid .c}", " {a=b}", " {id=5}", " {id=true x=[1,2]}", " {a={b=c} id=\"q\"}", " {.c id=-1.5e3}", " " + genDocAttrBlock(rng), " ## " + genDocAttrBlock(rng), " " + genDocAttrBlock(rng)}[rng.Intn(12)] + "\n"
	case 4:
		return strings.ReplaceAll(genInline(rng), "\n", " ") + []string{"", "", " " + genDocAttrBlock(rng)}[rng.Intn(3)] + "\n" + []string{"===", "---", "=", "-"}[rng.Intn(4)] + "\n"
	case 5:
		return []string{"***", "---", "___", " * * *", "- - -"}[rng.Intn(5)] + "\n"
	case 6:
		f := []string{"```", "~~~", "````", "~~~~"}[rng.Intn(4)]
		return f + []string{"", "go", " lang x", "a&amp;b", "\"q\""}[rng.Intn(5)] + "\n" + genInline(rng) + "\n" + []string{f, f, "", f[:len(f)-1]}[rng.Intn(4)] + "\n"
	case 7:
		return indent(genInline(rng)+"\n", "    ", "    ")
	case 8:
		return indent(genBlocks(rng, depth-1, 1+rng.Intn(2)), "> ", []string{"> ", "> ", ">", ""}[rng.Intn(4)])
	case 9:
		m := []string{"- ", "* ", "+ ", "-   "}[rng.Intn(4)]
		var sb strings.Builder
		for i, n := 0, 1+rng.Intn(3); i < n; i++ {
			sb.WriteString(indent(genBlocks(rng, depth-1, 1+rng.Intn(2)), m, strings.Repeat(" ", len(m))))
			if rng.Chance(30) {
				sb.WriteString("\n")
			}
		}
		return sb.String()
	case 10:
		start := []string{"1", "2", "0", "10", "007", "123456789"}[rng.Intn(6)]
		d := []string{". ", ") "}[rng.Intn(2)]
		var sb strings.Builder
		for i, n := 0, 1+rng.Intn(3); i < n; i++ {
			m := start + d
			sb.WriteString(indent(genBlocks(rng, depth-1, 1), m, strings.Repeat(" ", len(m))))
		}
		return sb.String()
	case 11:
		return indent(genBlocks(rng, depth-1, 1), "- [ ] ", "  ") + indent(genInline(rng)+"\n", "- [x] ", "  ")
	case 12:
		return []string{"<div>\n*a*\n</div>\n", "<!-- c\nd -->\n", "<?php\n?>\n", "<script>\nx\n</script>\n", "<![CDATA[\nx\n]]>\n", "<!X\n>\n", "<div class=\"a\">\n\nb\n\n</div>\n", "<p\nx=\"\x00\">\n"}[rng.Intn(8)]
	case 18:
		// a definition and shortcut / collapsed / full references whose label spans lines
		return "[foo bar]: /multi \"t\"\n\n[foo\nbar] and [foo\n  bar][] and [x][foo\nbar] ![foo\nbar]\n"
	case 13:
		return "[r]: /ref " + []string{"", "\"t\"", "'t&amp;'", "(t)"}[rng.Intn(4)] + "\n"
	case 14:
		// table
		cols := 1 + rng.Intn(3)
		row := func() string {
			var c []string
			for i, n := 0, cols+rng.Intn(3)-1; i < n; i++ {
				c = append(c, []string{"a", "*b*", "`c|d`", "e\\|f", "", "[l](/u)", "&amp;", "`a \\| b \\| c`", "`x\\|y\\|z\\|w` `p\\|q`", "*`m\\|n\\|o`*"}[rng.Intn(10)])
			}
			return "| " + strings.Join(c, " | ") + " |\n"
		}
		var d []string
		for i := 0; i < cols; i++ {
			d = append(d, []string{"---", ":--", "--:", ":-:", "-"}[rng.Intn(5)])
		}
		hdr := make([]string, cols)
		for i := range hdr {
			hdr[i] = []string{"h", "*x*", "`y`"}[rng.Intn(3)]
		}
		s := "| " + strings.Join(hdr, " | ") + " |\n|" + strings.Join(d, "|") + "|\n"
		for i, n := 0, rng.Intn(3); i < n; i++ {
			s += row()
		}
		return s
	case 15:
		return "[^1]: " + genInline(rng) + "\n" + []string{"", "    more\n", "\n    para\n"}[rng.Intn(3)]
	case 16:
		return "term\n: " + strings.ReplaceAll(genInline(rng), "\n", " ") + "\n" + []string{"", "\n: second\n", ": tight\n"}[rng.Intn(3)]
	case 17:
		return "[^n]: x\n\ntext[^n] and [^1] " + genInline(rng) + "\n"
	default:
		return genInline(rng) + "\n"
	}
}

func genBlocks(rng *RNG, depth, n int) string {
	var sb strings.Builder
	for i := 0; i < n; i++ {
		if i > 0 {
			sb.WriteString([]string{"\n", "\n", "", "\n\n"}[rng.Intn(4)])
		}
		sb.WriteString(genBlock(rng, depth))
	}
	return sb.String()
}

// GenDoc: a random structured document.
func GenDoc(rng *RNG) []byte {
	return []byte(genBlocks(rng, 2, 1+rng.Intn(4)))
}

// adversarial fragments for the safety properties
var advPieces = []string{
	"![<http://x/\"onerror=\"alert(1)>](y.png)", "![a <http://x/?a&b=\"c\"> b](y)", "![<x@y.z>](y)", "![`\"><b>`](y)", "![**\"&<>**](y)", "![[l](\"u\")](y)", "![a\\\nb <b>raw</b> &amp; &#34;](y \"t\")",
	"# h {a<b=c}", "# h {a/b=1}", "# h {data-a<b=1}", "# h {data-a/b=1}", "# h {data-a\"b=1}", "# h {x\"y=1}", "# h {data-<i>=1}", "# h {a>=1}", "# h {a&b=1}", "# h {9a=1}", "# h {-a=1}", "# h {id=a id=b}", "# h {#a #b}", "# h {title=x title=y}",
	"<script>alert(1)</script>", "<img src=x onerror=alert(1)>", "\"><script>", "' onmouseover='x", "<a href=\"javascript:x\">", "<!-- --><b>", "--><x>", "<![CDATA[", "]]>",
	"[a](\"><b>)", "[a](/u \"t\\\"><b>\")", "![\"><b>](u)", "![a](u '\"<')", "<http://a.b/\"><b>>", "<x@y.z\"<>", "`<b>`", "```\"><b>\n<b>\n```", "# h {#\"><b>}", "# h {a=\"\\\"><b>\"}", "# h {onclick=x}",
	"# h {.a\"b}", "# h {data-x=\"<\"}", "&lt;b&gt;", "&#60;b&#62;", "&#x3c;b&#x3e;", "&amp;lt;", "&quot;", "&#34;", "&#0;", "&#xD800;", "&#x110000;", "&#99999999;", "\x00", "\xc3", "\xe2\x82", "\xf0\x9f\x98",
	"[a]: \"><b>\n[a]", "[a]: /u \"\"><b>\"\n[a]", "| <b> | \"x |\n|---|---|\n| \"> | <i> |", "- [ ] <b>", "[^\"><b>]: x\n[^\"><b>]", "~~<b>~~", "a\n: <b>\"", "www.a.b/\"><b>", "http://a.b/<b>\"'", "x@y.z<b>",
	"\\<b\\>", "\\\"", "<b\nc=\"d\">", "<b c='d\"e'>", "<?x ?>", "<!DOCTYPE x>", "<a><b></a></b>", "</div>", "<div>\n\n</div>", "jav\tascript:", "JaVaScRiPt:alert(1)", "&#106;avascript:x", "java&#x0A;script:x", "javascript&colon;x", "\\j\\avascript\\:x",
	"# h {data-a=[\"\\\"><a href=\\\"javascript:alert(1)\\\">x</a>\"]}", "# h {data-a=[1,\"a\\\"b\",\"<&>\"] title=[\"\\\" onclick=x y=\\\"\"]}", "# h {title=\"x\xc3\\\" onmouseover=alert(1) y=\xc3\\\"\"}",
	"<http://a.example/?q=\xc3&b=1>", "<http://a.example/\xe2\x82\"x>", "<m\xf0\x9f@x.y&z>", "[a](/u \"t\xc3\\\"x\")", "![a\xc3&b\xe2\x82<c](u)", "`\xc3<b>`", "\xc3&amp;", "\xf0\x9f\x98<b>", "\xe2\x82\"",
	"<!-- a --><a href=\"javascript:alert(1)\">x</a><!-- b -->", "<!-- a --!><script>x</script> -->", "a <!--> b --> c", "a <!---> b", "![alt](javascript:alert(1) \"the title\")", "[pic](data:image/pn&#103;;base64,iVBORw0KGgo=)", "![pic](data:image/&#x70;ng;base64,AA==)", "[p](DATA:image/jp\\eg;x)",
	"data:text/html,<b>", "data:image/svg+xml;base64,x", "DATA:IMAGE/PNG;x", "vbscript:x", "file:///etc", " javascript:x", "\x01javascript:x", "[x]( javascript:x )", "[x](<javascript:x>)", "<javascript:x>", "<vbscript:x>", "<file:x>", "<data:x>",
}

// GenAdversarial: a document assembled from hostile fragments and ordinary structure.
func GenAdversarial(rng *RNG) []byte {
	var sb strings.Builder
	for i, n := 0, 1+rng.Intn(5); i < n; i++ {
		switch rng.Intn(5) {
		case 0:
			sb.WriteString(genBlock(rng, 1))
		default:
			sb.WriteString(advPieces[rng.Intn(len(advPieces))])
		}
		sb.WriteString([]string{"\n", "\n\n", " ", ""}[rng.Intn(4)])
	}
	return []byte(sb.String())
}

// GenLongDoc: a document of 100-400 lines (internal line/blank-line bookkeeping buffers wrap around here)
func GenLongDoc(rng *RNG) []byte {
	var sb strings.Builder
	target := 100 + rng.Intn(300)
	unit := []string{"- item\n", "- item\n\n  para\n", "> q\n", "para\n\n", "1. a\n", "    code\n", "# h\n", "- a\n\n- b\n", "* x\n  y\n\n"}[rng.Intn(9)]
	lines := 0
	for lines < target {
		if rng.Chance(85) {
			sb.WriteString(unit)
			lines += strings.Count(unit, "\n")
		} else {
			b := genBlock(rng, 1)
			sb.WriteString(b)
			lines += strings.Count(b, "\n")
		}
	}
	return []byte(sb.String())
}

// DocStream emits n documents: corpus first (all of it when n allows), then mutants, generated and adversarial ones.
func DocStream(rng *RNG, n int, f func(kind string, doc []byte)) {
	corpus := CorpusDocs()
	k := 0
	for _, d := range corpus {
		if k >= n {
			return
		}
		f("corpus", d)
		k++
	}
	for k < n {
		if rng.Chance(2) {
			f("long", GenLongDoc(rng))
			k++
			continue
		}
		if rng.Chance(2) { // footnotes defined in one order and referenced in another (the footnote list is SORTED by index)
			f("fnperm", GenFootnotePerm(rng))
			k++
			continue
		}
		if rng.Chance(3) { // a truncated UTF-8 lead byte directly in front of a character the writers must escape
			d := GenAdversarial(rng)
			if rng.Bool() {
				d = GenDoc(rng)
			}
			f("leadbyte", insertLeadBytes(rng, d))
			k++
			continue
		}
		if rng.Chance(2) { // unclosed brackets about one label-length limit (999) apart, then a closing bracket
			f("longbracket", GenLongBrackets(rng))
			k++
			continue
		}
		if rng.Chance(2) { // DEEP inline nesting: images in images in a link text, emphasis in emphasis, brackets in brackets
			f("deepinline", GenDeepInline(rng))
			k++
			continue
		}
		if rng.Chance(2) { // named character references: a run of the table's names in text, titles, alt text, info strings
			f("entities", GenEntityDoc(rng))
			k++
			continue
		}
		if rng.Chance(2) { // a dangerous scheme together with the marker of an allowed one somewhere in the same URL
			f("mixedurl", GenMixedURLDoc(rng))
			k++
			continue
		}
		if rng.Chance(2) { // a byte-order mark in front of an otherwise ordinary document
			f("bom", append([]byte("\xef\xbb\xbf"), GenDoc(rng)...))
			k++
			continue
		}
		switch rng.Intn(4) {
		case 0:
			if len(corpus) > 0 {
				f("mutant", mutateDoc(rng, corpus[rng.Intn(len(corpus))], corpus[rng.Intn(len(corpus))]))
			} else {
				f("gen", GenDoc(rng))
			}
		case 1:
			f("gen", GenDoc(rng))
		case 2:
			f("adv", GenAdversarial(rng))
		case 3:
			f("genmut", mutateDoc(rng, GenDoc(rng), GenAdversarial(rng)))
		}
		k++
	}
}


// GenFootnotePerm: n footnotes (2..6, sometimes 13..20) whose definitions are written in one permutation and which are
// referenced in another (some twice, some inside emphasis / links / containers); SortChildren moves every definition.
func GenFootnotePerm(rng *RNG) []byte {
	n := 2 + rng.Intn(5)
	if rng.Chance(10) {
		n = 13 + rng.Intn(8)
	}
	perm := func() []int {
		p := make([]int, n)
		for i := range p {
			p[i] = i
		}
		for i := n - 1; i > 0; i-- {
			j := rng.Intn(i + 1)
			p[i], p[j] = p[j], p[i]
		}
		return p
	}
	var sb strings.Builder
	for _, i := range perm() {
		lbl := fmt.Sprintf("[^n%d]", i)
		switch rng.Intn(6) {
		case 0:
			sb.WriteString("*x" + lbl + "* ")
		case 1:
			sb.WriteString("[l" + lbl + "](/u) ")
		case 2:
			sb.WriteString("w" + lbl + " again" + lbl + " ")
		default:
			sb.WriteString("w" + lbl + " ")
		}
	}
	sb.WriteString("\n\n")
	for _, i := range perm() {
		pre := []string{"", "", "", "> ", "- "}[rng.Intn(5)]
		sb.WriteString(fmt.Sprintf("%s[^n%d]: note %d\n", pre, i, i))
		if pre != "" || rng.Chance(30) {
			sb.WriteString("\n")
		}
	}
	return []byte(sb.String())
}

// insertLeadBytes: put a truncated UTF-8 sequence (a lead byte without its continuation bytes) directly in front of
// some of the characters & " < > ' ` of the document
func insertLeadBytes(rng *RNG, d []byte) []byte {
	leads := [][]byte{{0xc3}, {0xe2}, {0xe2, 0x82}, {0xf0}, {0xf0, 0x9f}, {0xf0, 0x9f, 0x98}, {0xdf}}
	var out []byte
	for _, c := range d {
		if (c == '&' || c == '"' || c == '<' || c == '>' || c == '\'' || c == '`') && rng.Chance(35) {
			out = append(out, leads[rng.Intn(len(leads))]...)
		}
		out = append(out, c)
	}
	return out
}

func convertWithExtGFM(src []byte) []byte {
	var b bytes.Buffer
	if err := goldmark.New(goldmark.WithExtensions(extension.GFM)).Convert(src, &b); err != nil {
		return []byte("ERROR: " + err.Error())
	}
	return b.Bytes()
}

// pooled instances (one user at a time) for high-volume components
var mdPools sync.Map

func pooledMarkdown(c Cfg) goldmark.Markdown {
	p, _ := mdPools.LoadOrStore(c.Name(), &sync.Pool{})
	if v := p.(*sync.Pool).Get(); v != nil {
		return v.(goldmark.Markdown)
	}
	return c.Build()
}

func releaseMarkdown(c Cfg, m goldmark.Markdown) {
	p, _ := mdPools.LoadOrStore(c.Name(), &sync.Pool{})
	p.(*sync.Pool).Put(m)
}


// genDocAttrBlock: one attribute block of the parser's attribute syntax (parser/attribute.go): 1-4 items out of #id,
// .class, key=value with keys in every letter case (class / id / allowed / unknown names) and values of every kind
// the value parser knows (bare word, quoted with escapes, number, bool, null, array, nested object, empty).
func genDocAttrBlock(rng *RNG) string {
	keys := []string{"class", "Class", "CLASS", "cLaSs", "id", "ID", "Id", "title", "Title", "lang", "style", "data-x", "DATA-y", "onclick", "x", "a.b", "a:b", "_u", "k-1"}
	vals := []string{"v", "\"q r\"", "\"e\\\"s\\\\c\"", "\"\"", "1", "-1.5e3", "0x10", "true", "false", "null", "[1,\"x\"]", "[]", "[[1],2]", "[\"\\\"><b>\"]", "[\"a\\\"b\",\"<&>\"]", "{b=c}", "{}", "\"<&>\"", "\"tab\\ty\"", "é"}
	n := 1 + rng.Intn(4)
	var items []string
	for i := 0; i < n; i++ {
		switch rng.Intn(6) {
		case 0:
			items = append(items, "#"+[]string{"i", "i-1", "I", "é", "a b"}[rng.Intn(5)])
		case 1, 2:
			items = append(items, "."+[]string{"a", "b-c", "C", "a.b", "é"}[rng.Intn(5)])
		default:
			items = append(items, rng.Pick(keys)+"="+rng.Pick(vals))
		}
	}
	sep := []string{" ", " ", "  ", "\t", ""}[rng.Intn(5)]
	return "{" + []string{"", " "}[rng.Intn(2)] + strings.Join(items, sep) + []string{"", " "}[rng.Intn(2)] + "}" + []string{"", "", " ", "  "}[rng.Intn(4)]
}

// globalAttrNames: the names html.GlobalAttributeFilter allows (data only; used to derive NEAR MISSES of allowed names)
var globalAttrNames = strings.Split("accesskey,autocapitalize,autofocus,class,contenteditable,dir,draggable,enterkeyhint,hidden,id,inert,inputmode,is,itemid,itemprop,itemref,itemscope,itemtype,lang,part,role,slot,spellcheck,style,tabindex,title,translate", ",")


// attrNameAlphabet: bytes parser/attribute.go accepts inside an attribute name
var attrNameAlphabet = []byte("abcdefghijklmnopqrstuvwxyzABCDEFGHIJKLMNOPQRSTUVWXYZ0123456789-_:.")

// attrVariants calls f with every variant of name in which one byte, or two ADJACENT bytes, are replaced by other
// attribute-name bytes (the first byte stays a lower-case letter). This is the complete Hamming-ball a linear hash
// (h*k + c) or a position-wise comparison can confuse with the name itself.
func attrVariants(name string, f func(v []byte)) {
	b := []byte(name)
	v := make([]byte, len(b))
	for i := 0; i < len(b); i++ {
		for _, x := range attrNameAlphabet {
			if i == 0 && !(x >= 'a' && x <= 'z') {
				continue
			}
			copy(v, b)
			v[i] = x
			if x != b[i] {
				f(v)
			}
			if i+1 < len(b) {
				for _, y := range attrNameAlphabet {
					if x == b[i] && y == b[i+1] {
						continue
					}
					copy(v, b)
					v[i], v[i+1] = x, y
					f(v)
				}
			}
		}
	}
}

var (
	directedOnce  sync.Once
	directedNames []string
)

// DirectedAttrNames: names that the REAL html.GlobalAttributeFilter accepts although they are not allowed, found by
// screening every one- and adjacent-two-byte variant of every allowed name through the real Contains (a search
// directed by the implementation; empty on a correct filter). Capped at 64.
func DirectedAttrNames() []string {
	directedOnce.Do(func() {
		allowed := map[string]bool{}
		for _, n := range globalAttrNames {
			allowed[n] = true
		}
		seen := map[string]bool{}
		for _, n := range globalAttrNames {
			attrVariants(n, func(v []byte) {
				if len(directedNames) >= 64 || allowed[string(v)] || seen[string(v)] || bytes.HasPrefix(v, []byte("data-")) {
					return
				}
				if html.GlobalAttributeFilter.Contains(v) {
					seen[string(v)] = true
					directedNames = append(directedNames, string(v))
				}
			})
		}
	})
	return directedNames
}

// NearMissAttrNames: names that are NOT allowed but agree with allowed names position by position in their first
// three bytes and in length/suffix (what a prefix-table-only or suffix-only comparison would let through), plus
// one-off edits of allowed names.
func NearMissAttrNames() []string {
	allowed := map[string]bool{}
	for _, n := range globalAttrNames {
		allowed[n] = true
	}
	seen := map[string]bool{}
	var out []string
	add := func(n string) {
		if n == "" || allowed[n] || seen[n] || strings.HasPrefix(n, "data-") {
			return
		}
		c := n[0]
		if !(c >= 'a' && c <= 'z') {
			return
		}
		seen[n] = true
		out = append(out, n)
	}
	for _, a := range globalAttrNames {
		for _, b := range globalAttrNames {
			for _, c := range globalAttrNames {
				// first byte from a, second from b, third from c, rest (and length) from a / b / c
				for _, base := range []string{a, b, c} {
					if len(base) < 2 {
						continue
					}
					m := []byte(base)
					m[0] = a[0]
					if len(b) > 1 {
						m[1] = b[1]
					}
					if len(m) > 2 && len(c) > 2 {
						m[2] = c[2]
					}
					add(string(m))
				}
			}
		}
		add(a + "x")
		add(a[:len(a)-1])
		add("x" + a)
	}
	sort.Strings(out)
	return out
}

// convertWithExtGFMOpts: extension.GFM with (xhtml=true) XHTML + Unsafe renderer options
func convertWithExtGFMOpts(src []byte, xhtml bool) []byte {
	var b bytes.Buffer
	opts := []goldmark.Option{goldmark.WithExtensions(extension.GFM)}
	if xhtml {
		opts = append(opts, goldmark.WithRendererOptions(html.WithXHTML(), html.WithUnsafe()))
	}
	if err := goldmark.New(opts...).Convert(src, &b); err != nil {
		return []byte("ERROR: " + err.Error())
	}
	return b.Bytes()
}


// GenDeepInline: inline constructs nested 8..60 deep, each level with text in front of the nested one (work that doubles
// per level, or a recursion per level, shows as a timeout): images in the text of a link, links in image descriptions,
// emphasis, plain brackets, code-span-like backtick runs.
func GenDeepInline(rng *RNG) []byte {
	depth := 8 + rng.Intn(20)
	if rng.Chance(30) {
		depth = 30 + rng.Intn(31)
	}
	var open, close string
	switch rng.Intn(6) {
	case 0:
		open, close = "![a ", "](u)"
	case 1:
		open, close = "![a *b* ", "](u \"t\")"
	case 2:
		open, close = "[a ", "]"
	case 3:
		open, close = "*a _b ", "_ c*"
	case 4:
		open, close = "[a ![b ", "](u)](v)"
	default:
		open, close = "![", "][r]"
	}
	var sb strings.Builder
	if rng.Bool() {
		sb.WriteString("[")
	}
	for i := 0; i < depth; i++ {
		sb.WriteString(open)
	}
	sb.WriteString("x")
	for i := 0; i < depth; i++ {
		sb.WriteString(close)
	}
	sb.WriteString("](v)\n\n[r]: /r\n")
	return []byte(sb.String())
}

var entityNameList []string

// GenEntityDoc: 20..60 names of the HTML5 entity table (read from the tree under test) as references in a paragraph, a
// link title, an image description, a fenced-code info string and a heading; every name is reached within a few hundred documents.
func GenEntityDoc(rng *RNG) []byte {
	if entityNameList == nil {
		entityNameList = loadEntityNames()
	}
	if len(entityNameList) == 0 {
		return []byte("&amp;&lt;&nvlt;&nvgt;&quot;\n")
	}
	n := 20 + rng.Intn(41)
	start := rng.Intn(len(entityNameList))
	var refs []string
	for i := 0; i < n; i++ {
		refs = append(refs, "&"+entityNameList[(start+i)%len(entityNameList)]+";")
	}
	j := strings.Join
	third := n / 3
	return []byte("a " + j(refs[:third], " b") + "\n\n[l](/u \"" + j(refs[third:2*third], "") + "\") ![" + j(refs[2*third:], "x") + "](/i)\n\n```" + j(refs[:3], "") + "\nc\n```\n\n# " + j(refs[third:third+4], " ") + "\n")
}

func loadEntityNames() []string {
	b, err := os.ReadFile(filepath.Join(goldmarkDir(), "_tools", "html5entities.json"))
	if err != nil {
		return nil
	}
	var m struct {
		Data []struct{ Name string } `json:"data"`
	}
	if json.Unmarshal(b, &m) != nil {
		return nil
	}
	var names []string
	for _, e := range m.Data {
		if e.Name != "" {
			names = append(names, e.Name)
		}
	}
	sort.Strings(names)
	return names
}

// GenMixedURLDoc: destinations that carry a dangerous scheme AND, further right, the text that marks an allowed one
// (an allow-list test that is not anchored at the start lets them through), in every URL-bearing construct.
func GenMixedURLDoc(rng *RNG) []byte {
	bad := []string{"javascript:alert(1)", "JaVaScRiPt:alert(1)", "vbscript:x", "file:///etc/passwd", "data:text/html,x", "data:text/html;base64,PHNjcmlwdD4="}
	ok := []string{"data:image/png;", "data:image/gif;", "data:image/jpeg;", "data:image/webp;", "data:image/svg+xml;", "http://a/", "https://a/", "mailto:a@b"}
	sep := []string{"//", "?", "#", ";", ",", "/", "%20"}
	u := bad[rng.Intn(len(bad))] + sep[rng.Intn(len(sep))] + ok[rng.Intn(len(ok))] + []string{"", "x", "base64,AA=="}[rng.Intn(3)]
	switch rng.Intn(5) {
	case 0:
		return []byte("[a](" + u + ")\n")
	case 1:
		return []byte("![a](" + u + " \"t\")\n")
	case 2:
		return []byte("<" + u + ">\n")
	case 3:
		return []byte("[a][r]\n\n[r]: " + u + "\n")
	}
	return []byte("[a](<" + u + ">) ![b][r]\n\n[r]: <" + u + "> 't'\n")
}


// GenLongBrackets: two to four unclosed `[` whose distances straddle the 999-byte label limit of the link parser (the
// parser gives up on an opener that is too far back: what it leaves behind must still be plain text), then `]`,
// optionally an inline destination or a reference label, in one paragraph of one or several lines.
func GenLongBrackets(rng *RNG) []byte {
	var sb strings.Builder
	n := 2 + rng.Intn(3)
	for i := 0; i < n; i++ {
		sb.WriteString([]string{"[", "![", "[", "*["}[rng.Intn(4)])
		gap := []int{3, 40, 990, 996, 997, 998, 999, 1000, 1001, 1010, 1500}[rng.Intn(11)]
		for j := 0; j < gap; j++ {
			if rng.Chance(2) {
				sb.WriteByte('\n')
			} else {
				sb.WriteByte(byte('a' + j%3))
			}
		}
	}
	sb.WriteString("]")
	sb.WriteString([]string{"", "(u)", "[r]", "[]", "] x ]"}[rng.Intn(5)])
	sb.WriteString("\n\n[r]: /r\n")
	return []byte(sb.String())
}
