//go:build verif

package main

// Component `linerec`: goldmark's line-level recognisers (parser.isThematicBreak, parseListItem,
// calcListOffset, lastOffset, listParser.Open, listItemParser.Open, atxHeadingParser.Open,
// matchesSetextHeadingBar, fencedCodeBlockParser.Open/Continue, blockquoteParser.process,
// codeBlockParser.Open/Continue, the per-line gate of parser.openBlocks, util.IndentPosition(Padding),
// DedentPosition(Padding), TabWidth) driven through the verif-tagged hook parser/export_verif.go and compared
// with GM.Model.LineRec, function by function, on ALL lines up to a length bound over a per-recogniser
// alphabet x start columns, plus random longer lines.
//
// Oracles independent of the model:
//   C08  quote-marker-consumption   on a tab-free line  [0-3 spaces] '>' [' '] r  process() advances exactly over
//                                   the marker and one optional space, leaves padding 0 and the view r
//   C08  offset-variance            on a tab-free line every recogniser answers the same from every start column
//   C02  *-differs-from-spec        recogniser vs a Go regexp transcription of the CommonMark wording

import (
	"bytes"
	"fmt"
	"regexp"
	"strconv"
	"strings"

	"github.com/yuin/goldmark/parser"
	"github.com/yuin/goldmark/util"
)

func init() {
	register(&Component{
		Name:       "linerec",
		Rule:       "every recogniser on all lines of length <= N over its own alphabet (with and without the final newline) x reader start states (columns 0..4 by spaces, and inside a tab with padding 1..3), exhaustive, + random longer lines from one SplitMix64 stream; non-trivial = the recogniser accepts / returns a non-default value; distinct = distinct (op, input) among those",
		Gen:        genLineRec,
		Impl:       implLineRec,
		Exhaustive: true,
		Scope: func(tier string) string {
			if tier == "thorough" {
				return "exhaustive: bodies of length <= 7 (thematic, setext, quote), <= 6 (list, atx, fence, code, openBlocks gate), IndentPosition on whitespace lines <= 7; + 40k random lines of <= 30 symbols per op"
			}
			return "exhaustive: bodies of length <= 6 (thematic, setext, quote), <= 5 (list, atx, fence, code, openBlocks gate), IndentPosition on whitespace lines <= 6; + 4k random lines of <= 24 symbols per op"
		},
	})
}

// reader start states: source prefix, bytes to advance, padding. LineOffset = columns(prefix) - padding.
type lrState struct {
	prefix  string
	padding int
}

var lrStates = []lrState{{"", 0}, {">", 0}, {"> ", 0}, {">  ", 0}, {">>>>", 0}, {"\t", 1}, {"\t", 2}, {"\t", 3}, {">\t", 2}}

var (
	alTB    = syms("-", "*", "_", " ", "\t", "a")
	alList  = syms("-", "*", "+", "1", ".", ")", " ", "\t", "a")
	alSet   = syms("=", "-", " ", "\t", "a")
	alATX   = syms("#", " ", "\t", "a", "\\")
	alFence = syms("`", "~", " ", "\t", "a")
	alQuote = syms(">", " ", "\t", "a")
	alCode  = syms(" ", "\t", "a")
	alOpen  = syms("#", "-", "`", " ", "\t", "a")
	alWS    = syms(" ", "\t", "a")
)

func lrArgs(prefix string, line []byte, padding int) []string {
	return []string{hx(append([]byte(prefix), line...)), strconv.Itoa(len(prefix)), strconv.Itoa(padding)}
}

func genLineRec(tier string, rng *RNG, emit func(Case)) {
	big, small, nrand, maxLen := 6, 5, 4000, 24
	if tier == "thorough" {
		big, small, nrand, maxLen = 7, 6, 40000, 30
	}
	// lines: every body with and without the final newline
	lines := func(al [][]byte, n int, f func([]byte)) {
		enumStrings(al, n, func(b []byte) {
			f(b)
			f(append(append([]byte{}, b...), '\n'))
		})
	}
	randLine := func(al [][]byte) []byte {
		b := randString(rng, al, maxLen)
		if rng.Bool() {
			b = append(b, '\n')
		}
		return b
	}
	both := func(al [][]byte, n int, f func([]byte)) {
		lines(al, n, f)
		for i := 0; i < nrand; i++ {
			f(randLine(al))
		}
	}
	withStates := func(op string, extra ...string) func([]byte) {
		return func(b []byte) {
			for _, st := range lrStates {
				emit(Case{Op: op, Args: append(lrArgs(st.prefix, b, st.padding), extra...)})
			}
		}
	}

	// util
	for n := 0; n < 12; n++ {
		emit(Case{Op: "tabw", Args: []string{strconv.Itoa(n)}})
	}
	enumStrings(alWS, big, func(b []byte) {
		for cur := 0; cur < 5; cur++ {
			for w := 0; w <= 5; w++ {
				emit(Case{Op: "ip", Args: []string{hx(b), strconv.Itoa(cur), strconv.Itoa(w)}})
			}
		}
	})
	enumStrings(alWS, small, func(b []byte) {
		for cur := 0; cur < 5; cur++ {
			for _, w := range []int{0, 1, 2, 4} {
				for padv := 1; padv <= 3; padv++ {
					emit(Case{Op: "ipp", Args: []string{hx(b), strconv.Itoa(cur), strconv.Itoa(padv), strconv.Itoa(w)}})
					emit(Case{Op: "dedentp", Args: []string{hx(b), strconv.Itoa(cur), strconv.Itoa(padv), strconv.Itoa(w)}})
				}
				emit(Case{Op: "dedent", Args: []string{hx(b), strconv.Itoa(cur), strconv.Itoa(w)}})
			}
		}
	})
	lines(alQuote, 3, withStates("rstate"))

	// thematic break
	both(alTB, big, func(b []byte) {
		for off := 0; off < 5; off++ {
			emit(Case{Op: "tb", Args: []string{hx(b), strconv.Itoa(off)}})
		}
	})
	// lists
	both(alList, small, func(b []byte) {
		emit(Case{Op: "pli", Args: []string{hx(b)}})
		for lo := 0; lo < 5; lo++ {
			emit(Case{Op: "clo", Args: []string{hx(b), "pli", strconv.Itoa(lo)}})
		}
		emit(Case{Op: "listopen", Args: []string{hx(b), "0"}})
		emit(Case{Op: "listopen", Args: []string{hx(b), "1"}})
	})
	lines(alList, small-1, func(b []byte) {
		emit(Case{Op: "mli", Args: []string{hx(b), "0"}})
		emit(Case{Op: "mli", Args: []string{hx(b), "1"}})
		for _, lo := range []string{"0", "5"} {
			emit(Case{Op: "liopen", Args: append(lrArgs("", b, 0), lo)})
		}
		// since 3fb40b2 the reader's column enters the tab arithmetic: every start state
		for _, st := range lrStates {
			for _, lo := range []string{"-1", "2"} {
				emit(Case{Op: "liopen", Args: append(lrArgs(st.prefix, b, st.padding), lo)})
			}
		}
		for m4 := -1; m4 <= len(b)+1; m4++ {
			emit(Case{Op: "clo", Args: []string{hx(b), strconv.Itoa(m4), strconv.Itoa((m4 + len(b) + 5) % 5)}})
		}
	})
	for i := 0; i < nrand; i++ {
		b := randLine(alList)
		st := lrStates[rng.Intn(len(lrStates))]
		emit(Case{Op: "liopen", Args: append(lrArgs(st.prefix, b, st.padding), strconv.Itoa(rng.Intn(8)-1))})
	}
	// the digit limit, ordered start numbers, empty items, wide gaps after the marker
	for nd := 0; nd <= 12; nd++ {
		for _, d := range []string{"0", "1", "9", "10"} {
			num := strings.Repeat(d, nd)
			if d == "10" {
				num = strings.Repeat("0", nd) + "1"
			}
			for _, delim := range []string{".", ")", "", "a"} {
				for _, rest := range []string{"", "\n", " ", " a\n", "  a", "\ta\n", "a\n", "     a\n", "    a\n", " \n"} {
					for _, ind := range []string{"", " ", "   ", "    "} {
						b := []byte(ind + num + delim + rest)
						emit(Case{Op: "pli", Args: []string{hx(b)}})
						emit(Case{Op: "clo", Args: []string{hx(b), "pli", strconv.Itoa((nd + len(rest)) % 5)}})
						emit(Case{Op: "listopen", Args: []string{hx(b), "0"}})
						emit(Case{Op: "listopen", Args: []string{hx(b), "1"}})
						emit(Case{Op: "liopen", Args: append(lrArgs("", b, 0), "0")})
					}
				}
			}
		}
	}
	for _, os := range []string{"-", "0", "2", "2,3", "5,0", "1,2,3,4"} {
		emit(Case{Op: "lastoff", Args: []string{os}})
	}
	// setext
	both(alSet, big, func(b []byte) { emit(Case{Op: "setext", Args: []string{hx(b)}}) })
	// atx, fence open: the block offset is a parameter
	both(alATX, small, func(b []byte) {
		for pos := -1; pos < 5; pos++ {
			emit(Case{Op: "atx", Args: []string{hx(b), strconv.Itoa(pos)}})
		}
	})
	both(alFence, small, func(b []byte) {
		for pos := -1; pos < 5; pos++ {
			emit(Case{Op: "fopen", Args: []string{hx(b), strconv.Itoa(pos)}})
		}
	})
	// fence close
	for _, ch := range []string{"96", "126"} {
		for _, ln := range []string{"3", "4"} {
			lines(alFence, small, withStates("fclose", ch, ln))
		}
	}
	for i := 0; i < nrand; i++ {
		st := lrStates[rng.Intn(len(lrStates))]
		emit(Case{Op: "fclose", Args: append(lrArgs(st.prefix, randLine(alFence), st.padding), []string{"96", "126"}[rng.Intn(2)], strconv.Itoa(rng.Intn(6)))})
	}
	// block quote marker
	lines(alQuote, big, withStates("quote"))
	for i := 0; i < nrand; i++ {
		withStates("quote")(randLine(alQuote))
	}
	// indented code
	lines(alCode, big, withStates("codeopen"))
	lines(alCode, big, withStates("codecont"))
	// openBlocks gate with one parser
	for _, w := range []string{"thematic", "atx", "fence", "code", "none"} {
		w := w
		ol := func(b []byte) {
			for _, st := range lrStates {
				emit(Case{Op: "openline", Args: append([]string{w}, lrArgs(st.prefix, b, st.padding)...)})
			}
		}
		lines(alOpen, small, ol)
		for i := 0; i < nrand/4; i++ {
			ol(randLine(alOpen))
		}
	}
}

// ---------- spec-side oracles (independent of the Lean model) ----------

var (
	reTB      = regexp.MustCompile(`^ {0,3}(?:(?:-[ \t]*){3,}|(?:_[ \t]*){3,}|(?:\*[ \t]*){3,})\n?$`)
	reSetext  = regexp.MustCompile(`^ {0,3}(=+|-+)[ \t]*\n?$`)
	reBullet  = regexp.MustCompile(`^(( {0,3})([\-\*\+]))([ \t\n].*)?\n?$`)
	reOrdered = regexp.MustCompile(`^(( {0,3})(\d{1,9}[\.\)]))([ \t\n].*)?\n?$`)
	reATX     = regexp.MustCompile(`^#{1,6}(?:[ \t\n]|$)`)
	reFenceBT = regexp.MustCompile("^`{3,}[^`]*$")
	reFenceTL = regexp.MustCompile(`^~{3,}`)
)

// expandIndent rewrites the leading spaces/tabs of line as spaces, tab stops every 4 columns counted from col.
func expandIndent(line []byte, col int) []byte {
	i, w := 0, 0
	for ; i < len(line); i++ {
		if line[i] == ' ' {
			w++
		} else if line[i] == '\t' {
			w += 4 - (col+w)%4
		} else {
			break
		}
	}
	return append(bytes.Repeat([]byte{' '}, w), line[i:]...)
}

func hasTab(b []byte) bool { return bytes.IndexByte(b, '\t') >= 0 }

func leadingSpaces(b []byte) int {
	i := 0
	for i < len(b) && b[i] == ' ' {
		i++
	}
	return i
}

func spec(r *ImplResult, clause, format string, a ...interface{}) {
	r.Fails = append(r.Fails, OracleFail{"C02", clause, fmt.Sprintf(format, a...)})
}

func c08(r *ImplResult, clause, format string, a ...interface{}) {
	r.Fails = append(r.Fails, OracleFail{"C08", clause, fmt.Sprintf(format, a...)})
}

// expectedPanic runs f; a Go run-time panic becomes the output "panic:<kind>" (these are calls outside the
// functions' calling contract, made on purpose to exercise the model's explicit panic results; they are not
// reported as C01 findings because goldmark never makes them).
func expectedPanic(f func() string) (out string) {
	defer func() {
		if rec := recover(); rec != nil {
			msg := fmt.Sprint(rec)
			switch {
			case strings.Contains(msg, "index out of range"):
				out = "panic:index"
			case strings.Contains(msg, "slice bounds out of range"):
				out = "panic:slice"
			default:
				out = "panic:explicit"
			}
		}
	}()
	return f()
}

func pairStr(a, b int) string { return fmt.Sprintf("%d %d", a, b) }

func implLineRec(c Case) ImplResult {
	var r ImplResult
	ai := func(i int) int { n, _ := strconv.Atoi(c.Args[i]); return n }
	key := func(nontrivial bool) {
		if nontrivial {
			r.Key = strings.Join(c.Args, " ")
		}
	}
	// reader-based ops: <src> <advance> <padding>
	var src, line []byte
	var adv, pad int
	readerOp := false
	switch c.Op {
	case "rstate", "liopen", "fclose", "quote", "codeopen", "codecont":
		src, adv, pad, readerOp = unhx(c.Args[0]), ai(1), ai(2), true
	case "openline":
		src, adv, pad, readerOp = unhx(c.Args[1]), ai(2), ai(3), true
	}
	tabFree := false
	lineOffset := 0
	if readerOp {
		var st, pd int
		line, st, pd, lineOffset = parser.VerifReaderState(src, adv, pad)
		if st != adv || pd != pad || lineOffset < 0 {
			// the model's start state is (adv, pad) with a non-negative column
			r.Fails = append(r.Fails, OracleFail{"C08", "assumption:reader-start-state", fmt.Sprintf("reader over %q after AdvanceAndSetPadding(%d,%d) is at start=%d padding=%d lineOffset=%d", src, adv, pad, st, pd, lineOffset)})
		}
		tabFree = !hasTab(src)
	}
	switch c.Op {
	case "tabw":
		r.Out = strconv.Itoa(util.TabWidth(ai(0)))
	case "ip":
		p, q := util.IndentPosition(unhx(c.Args[0]), ai(1), ai(2))
		r.Out = pairStr(p, q)
		key(q > 0)
		b := unhx(c.Args[0])
		if !hasTab(b) {
			// C08 indent_pos_tabfree: position = width, padding 0, iff at least `width` leading spaces
			w := ai(2)
			wantP, wantQ := w, 0
			if leadingSpaces(b) < w {
				wantP, wantQ = -1, -1
			}
			if p != wantP || q != wantQ {
				c08(&r, "indent-position-tabfree", "IndentPosition(%q,%d,%d) = (%d,%d), want (%d,%d)", b, ai(1), w, p, q, wantP, wantQ)
			}
		}
	case "ipp":
		p, q := util.IndentPositionPadding(unhx(c.Args[0]), ai(1), ai(2), ai(3))
		r.Out = pairStr(p, q)
		key(p >= 0)
	case "dedent":
		p, q := util.DedentPosition(unhx(c.Args[0]), ai(1), ai(2))
		r.Out = pairStr(p, q)
		key(q > 0)
	case "dedentp":
		p, q := util.DedentPositionPadding(unhx(c.Args[0]), ai(1), ai(2), ai(3))
		r.Out = pairStr(p, q)
		key(q > 0)
	case "rstate":
		l2, st, pd, lo := parser.VerifReaderState(src, adv, pad)
		r.Out = fmt.Sprintf("%s %d %d %d", hx(l2), st, pd, lo)
		key(pd > 0)
	case "tb":
		b, off := unhx(c.Args[0]), ai(1)
		v := parser.VerifIsThematicBreak(b, off)
		r.Out = b2s(v)
		key(v)
		if want := reTB.Match(expandIndent(b, off)); want != v {
			spec(&r, "thematic-break-differs-from-spec", "isThematicBreak(%q,%d)=%v but the specification's definition says %v", b, off, v, want)
		}
		if !hasTab(b) && v != parser.VerifIsThematicBreak(b, 0) {
			c08(&r, "offset-variance", "isThematicBreak(%q, %d)=%v differs from column 0 on a tab-free line", b, off, v)
		}
	case "pli", "mli":
		b := unhx(c.Args[0])
		var m [6]int
		var typ int
		if c.Op == "pli" {
			m, typ = parser.VerifParseListItem(b)
		} else {
			m, typ = parser.VerifMatchesListItem(b, c.Args[1] == "1")
		}
		r.Out = fmt.Sprintf("%d %d %d %d %d %d %d", m[0], m[1], m[2], m[3], m[4], m[5], typ)
		key(typ != 0)
		want := 0
		var sm []int
		if sm = reBullet.FindSubmatchIndex(b); sm != nil {
			want = 1
		} else if sm = reOrdered.FindSubmatchIndex(b); sm != nil {
			want = 2
		}
		if want != typ {
			spec(&r, "list-marker-differs-from-spec", "parseListItem(%q) type %d, the specification's marker syntax says %d", b, typ, want)
		} else if typ != 0 && (m[1] != sm[5] || m[3] != sm[7] || m[4] != sm[8]) {
			spec(&r, "list-marker-differs-from-spec", "parseListItem(%q) = %v, marker expected at %d..%d, rest at %d", b, m, sm[5], sm[7], sm[8])
		}
	case "clo":
		b := unhx(c.Args[0])
		if c.Args[1] == "pli" {
			m, typ := parser.VerifParseListItem(b)
			if typ == 0 {
				r.Out = "notlist"
				r.NoModel = true
				break
			}
			lo := ai(2)
			v := parser.VerifCalcListOffset(b, m, lo)
			r.Out = strconv.Itoa(v)
			r.ModelLine = fmt.Sprintf("linerec clo %s %d %d", hx(b), m[4], lo)
			key(v != 1)
			// the specification: 1-4 COLUMNS of white space after the marker belong to it; more (indented code) or a
			// blank rest: 1. The marker ends at column lo+m[3] of the line (indentation and marker are tab-free), and a
			// tab is as wide as the distance to the next tab stop from there.
			rest := b[m[3]:]
			n := leadingSpaces(expandIndent(rest, lo+m[3]))
			want := n
			if n > 4 || len(bytes.TrimRight(rest, " \t\n")) == 0 {
				want = 1
			}
			if v != want {
				spec(&r, "list-content-offset-differs-from-spec", "calcListOffset(%q, line offset %d) = %d, %d columns of white space follow the marker (which ends at column %d): want %d", b, lo, v, n, lo+m[3], want)
			}
			if !hasTab(b) && v != parser.VerifCalcListOffset(b, m, 0) {
				c08(&r, "offset-variance", "calcListOffset(%q) differs between line offset %d and 0 on a tab-free line", b, lo)
			}
			break
		}
		var m [6]int
		m[4] = ai(1)
		lo := ai(2)
		r.Out = expectedPanic(func() string { return strconv.Itoa(parser.VerifCalcListOffset(b, m, lo)) })
		key(true)
	case "lastoff":
		var os []int
		if c.Args[0] != "-" {
			for _, s := range strings.Split(c.Args[0], ",") {
				n, _ := strconv.Atoi(s)
				os = append(os, n)
			}
		}
		r.Out = strconv.Itoa(parser.VerifLastOffset(os))
		key(true)
	case "setext":
		b := unhx(c.Args[0])
		if len(b) == 0 { // never called on an empty line by goldmark; the model says: index panic
			r.Out = expectedPanic(func() string { parser.VerifMatchesSetextHeadingBar(b); return "0" })
			break
		}
		ch, ok := parser.VerifMatchesSetextHeadingBar(b)
		if ok {
			r.Out = fmt.Sprintf("1 %d", ch)
		} else {
			r.Out = "0"
		}
		key(ok)
		if sm := reSetext.FindSubmatch(b); (sm != nil) != ok || (ok && sm[1][0] != ch) {
			spec(&r, "setext-underline-differs-from-spec", "matchesSetextHeadingBar(%q) = %q,%v; the specification's definition says %v", b, ch, ok, sm != nil)
		}
	case "listopen":
		b := unhx(c.Args[0])
		ok, marker, start, ordered := parser.VerifListOpen(b, c.Args[1] == "1")
		if ok {
			r.Out = fmt.Sprintf("1 %d %d %s", marker, start, b2s(ordered))
		} else {
			r.Out = "0"
		}
		key(ok)
		// paragraph interruption: only a non-empty item, and an ordered one only when it starts with 1
		if c.Args[1] == "1" && ok {
			_, typ := parser.VerifParseListItem(b)
			m, _ := parser.VerifParseListItem(b)
			empty := m[4] < 0 || len(bytes.TrimSpace(b[m[4]:])) == 0
			if empty || (typ == 2 && start != 1) {
				spec(&r, "list-interrupts-paragraph", "listParser.Open(%q) interrupts a paragraph (start %d, empty %v)", b, start, empty)
			}
		}
	case "liopen":
		ok, off, hasCh, st, pd := parser.VerifListItemOpen(src, adv, pad, ai(3))
		if ok {
			r.Out = fmt.Sprintf("1 %d %s %d %d", off, b2s(hasCh), st, pd)
		} else {
			r.Out = fmt.Sprintf("0 %d %d", st, pd)
		}
		key(ok)
	case "atx":
		b, pos := unhx(c.Args[0]), ai(1)
		ok, level, has, s, e := parser.VerifATXOpen(b, pos)
		switch {
		case !ok:
			r.Out = "0"
		case !has:
			r.Out = fmt.Sprintf("1 %d 0", level)
		default:
			r.Out = fmt.Sprintf("1 %d 1 %d %d", level, s, e)
		}
		key(ok)
		if pos >= 0 {
			want := pos <= len(b) && reATX.Match(b[pos:])
			if want != ok {
				spec(&r, "atx-open-differs-from-spec", "atx Open(%q, block offset %d) = %v, the specification's opening sequence rule says %v", b, pos, ok, want)
			}
			// (trailing spaces before a stripped closing sequence stay in the segment; the inline phase trims them)
			if ok && has && !(pos+level < s && s < e && e <= len(b) && !util.IsSpace(b[s])) {
				spec(&r, "atx-content-range", "atx Open(%q, %d): content [%d,%d) is not a non-empty range starting at a non-space after the opening sequence", b, pos, s, e)
			}
		}
	case "fopen":
		b, pos := unhx(c.Args[0]), ai(1)
		if pos >= len(b) { // openBlocks never publishes such a block offset; the model says: index panic
			r.Out = expectedPanic(func() string { parser.VerifFenceOpen(b, pos); return "0" })
			break
		}
		ok, ch, indent, length, hasInfo, is, ie := parser.VerifFenceOpen(b, pos)
		switch {
		case !ok:
			r.Out = "0"
		case !hasInfo:
			r.Out = fmt.Sprintf("1 %d %d %d 0", ch, indent, length)
		default:
			r.Out = fmt.Sprintf("1 %d %d %d 1 %d %d", ch, indent, length, is, ie)
		}
		key(ok)
		if pos >= 0 && pos < len(b) {
			rest := bytes.TrimSuffix(b[pos:], []byte("\n"))
			want := reFenceBT.Match(rest) || reFenceTL.Match(rest)
			if want != ok {
				spec(&r, "fence-open-differs-from-spec", "fence Open(%q, block offset %d) = %v, the specification's rule says %v", b, pos, ok, want)
			}
		}
	case "fclose":
		ch, length := byte(ai(3)), ai(4)
		if len(line) == 0 && length == 0 { // not reachable (opening fences have length >= 3); model: index panic
			r.Out = expectedPanic(func() string { return b2s(parser.VerifFenceContinueCloses(src, adv, pad, ch, 0, length)) })
			break
		}
		v := parser.VerifFenceContinueCloses(src, adv, pad, ch, 0, length)
		r.Out = b2s(v)
		key(v)
		if length > 0 {
			re := regexp.MustCompile(`^ {0,3}` + regexp.QuoteMeta(string(ch)) + `{` + strconv.Itoa(length) + `,}[ \t]*\n?$`)
			if want := re.Match(expandIndent(line, lineOffset)); want != v {
				spec(&r, "fence-close-differs-from-spec", "closing test of %q (column %d) for an open fence %q x %d = %v, the specification says %v", line, lineOffset, ch, length, v, want)
			}
		}
		if tabFree && v != parser.VerifFenceContinueCloses(line, 0, 0, ch, 0, length) {
			c08(&r, "offset-variance", "fence closing test of %q differs between column %d and column 0", line, lineOffset)
		}
	case "quote":
		ok, st, pd, lo, view := parser.VerifBlockquoteProcess(src, adv, pad)
		r.Out = fmt.Sprintf("%s %d %d %d %s", b2s(ok), st, pd, lo, hx(view))
		key(ok)
		if tabFree {
			k := leadingSpaces(line)
			switch {
			case k <= 3 && k < len(line) && line[k] == '>':
				n := k + 1
				if n < len(line) && line[n] == ' ' {
					n++
				}
				want := line[n:]
				if !ok || st != adv+n || pd != 0 || lo != lineOffset+n || !bytes.Equal(view, want) {
					c08(&r, "quote-marker-consumption", "process on %q (column %d): ok=%v advanced %d padding %d column %d view %q; want advance %d, padding 0, column %d, view %q", line, lineOffset, ok, st-adv, pd, lo, view, n, lineOffset+n, want)
				}
			default:
				if ok || st != adv || pd != pad {
					c08(&r, "quote-marker-consumption", "process on %q (no marker within 3 columns): ok=%v, reader moved to %d/%d", line, ok, st, pd)
				}
			}
			ok0, st0, pd0, _, view0 := parser.VerifBlockquoteProcess(line, 0, 0)
			if ok0 != ok || st0 != st-adv || pd0 != pd || !bytes.Equal(view0, view) {
				c08(&r, "offset-variance", "process on %q differs between column %d and column 0", line, lineOffset)
			}
		}
	case "codeopen":
		v := parser.VerifCodeBlockOpen(src, adv, pad)
		r.Out = b2s(v)
		key(v)
		if tabFree && v != parser.VerifCodeBlockOpen(line, 0, 0) {
			c08(&r, "offset-variance", "indented-code Open on %q differs between column %d and column 0", line, lineOffset)
		}
	case "codecont":
		v := parser.VerifCodeBlockContinue(src, adv, pad)
		r.Out = b2s(v)
		key(v)
		if tabFree && v != parser.VerifCodeBlockContinue(line, 0, 0) {
			c08(&r, "offset-variance", "indented-code Continue on %q differs between column %d and column 0", line, lineOffset)
		}
	case "openline":
		bo, bi, kind, level := parser.VerifOpenLine(c.Args[0], src, adv, pad)
		if kind == "" {
			kind = "-"
		}
		r.Out = fmt.Sprintf("%d %d %s %d", bo, bi, kind, level)
		key(kind != "-")
		if tabFree {
			bo0, bi0, kind0, level0 := parser.VerifOpenLine(c.Args[0], line, 0, 0)
			if kind0 == "" {
				kind0 = "-"
			}
			if bo0 != bo || bi0 != bi || kind0 != kind || level0 != level {
				c08(&r, "offset-variance", "openBlocks(%s) on %q differs between column %d (%d %d %s %d) and column 0 (%d %d %s %d)", c.Args[0], line, lineOffset, bo, bi, kind, level, bo0, bi0, kind0, level0)
			}
		}
	default:
		panic("linerec: unknown op " + c.Op)
	}
	return r
}
