package main

// Component `convertx`: WHOLE documents through `goldmark.New(goldmark.WithExtensions(members…),
// goldmark.WithRendererOptions(…)).Convert` for the 8 subsets of {extension.Strikethrough, extension.TaskList,
// extension.Table} (cfg = 1·strikethrough + 2·tasklist + 4·table) and the 8 renderer option sets {safe, unsafe} x
// {XHTML off/on} x {HardWraps off/on}, against the Lean composition GM.ConvertX.convertX (lean/GM/Model/ConvertX.lean:
// block phase with the link-reference and the table paragraph transformers, inline phase over the trigger table with
// the strikethrough and task-checkbox parsers and ProcessDelimiters over both delimiter processors, table AST
// transformer, renderer with the members' node renderers). HTML compared byte for byte: line `g0 r0 … r7`, r_i = hex of
// the output for option set i = 4·unsafe + 2·xhtml + hardWraps, or `=j` when identical to r_j. `g0` = the guarded
// composition answered (a run-time check of convertX firing is a disagreement here: none is expected).
//
// Oracles on the REAL outputs, independent of the model:
//   C01 convertx-panic / convertx-error / convertx-slow      every conversion
//   C11 extension-changes-trigger-free-document-<member>     source without the member's trigger byte (`~`, `[`, `-`):
//                                                            output with the member == output of the same configuration without it
//   C11 consultation-flush-changes-output                     op `htmlf` (every document that is also converted with Linkify):
//                                                            the member set next to an inline parser with Linkify's Trigger() and
//                                                            priority whose Parse returns nil (what is left of Linkify when it
//                                                            declines: Advance, the flush of the pending text, SetPosition —
//                                                            model GM.ConvertX.convertFlush) == the member set alone
//   C17 table-not-rectangular (AST) / table-html-not-rectangular (HTML of the safe option set)   every cfg with Table

import (
	"bytes"
	"fmt"
	"sort"
	"strings"
	"sync"
	"time"

	"github.com/yuin/goldmark"
	"github.com/yuin/goldmark/ast"
	"github.com/yuin/goldmark/extension"
	east "github.com/yuin/goldmark/extension/ast"
	"github.com/yuin/goldmark/parser"
	"github.com/yuin/goldmark/renderer"
	"github.com/yuin/goldmark/renderer/html"
	"github.com/yuin/goldmark/text"
	"github.com/yuin/goldmark/util"
)

func init() {
	register(&Component{
		Name:       "convertx",
		Rule:       "whole documents x the 8 subsets of {Strikethrough, TaskList, Table} (op html, cfg 0-7), these with Linkify (cfg 8-15; 15 = the members of extension.GFM, also compared with a real extension.GFM instance) and, for every document converted with Linkify, the member set next to an inline parser with Linkify's triggers whose Parse returns nil (op htmlf), x 8 renderer option sets: all strings up to a length bound over alphabets that contain the members' syntax (complete), inside list-item / table contexts (complete), the repo corpora (extension/_test/*.txt, _test/*.txt, spec.json), generated / mutated documents, random strings over the alphabets and a token list; non-trivial = output with >= 2 distinct tags one of which is del / input / table; distinct = distinct (cfg, tag multiset)",
		Gen:        genConvertX,
		Impl:       implConvertX,
		Exhaustive: true,
		Scope: func(tier string) string {
			if tier == "thorough" {
				return "ALL strings of length <= 6 / 5 over the strikethrough alphabet (cfg 1 / all cfgs with it), <= 5 behind `- ` over the task-list alphabet, <= 6 / 5 over the table alphabet and <= 4 / 5 inside 4 table contexts; spec.json, all corpora x 8 cfgs; 40k generated/mutated documents x 8 cfgs; 300k random strings"
			}
			return "ALL strings of length <= 5 / 4 over the strikethrough alphabet (cfg 1 / all cfgs with it), <= 4 behind `- ` over the task-list alphabet, <= 5 / 4 over the table alphabet and <= 3 / 4 inside 4 table contexts; spec.json, all corpora x 8 cfgs; 1.5k generated/mutated documents x 8 cfgs; 10k random strings"
		},
	})
}

var cvxOnce sync.Once
var cvxMD [16][8]goldmark.Markdown
var cvxGFM [8]goldmark.Markdown
var cvxNull [8][8]goldmark.Markdown

// cvxNullParser: Linkify's Trigger() (linkify.go:166-168), a Parse that returns nil
type cvxNullParser struct{}

func (cvxNullParser) Trigger() []byte { return []byte{' ', '*', '_', '~', '('} }
func (cvxNullParser) Parse(parent ast.Node, block text.Reader, pc parser.Context) ast.Node {
	return nil
}

func cvxInit() {
	cvxOnce.Do(func() {
		for c := 0; c < 16; c++ {
			for i := 0; i < 8; i++ {
				var opts []renderer.Option
				if i&4 != 0 {
					opts = append(opts, html.WithUnsafe())
				}
				if i&2 != 0 {
					opts = append(opts, html.WithXHTML())
				}
				if i&1 != 0 {
					opts = append(opts, html.WithHardWraps())
				}
				var exts []goldmark.Extender
				if c&1 != 0 {
					exts = append(exts, extension.Strikethrough)
				}
				if c&2 != 0 {
					exts = append(exts, extension.TaskList)
				}
				if c&4 != 0 {
					exts = append(exts, extension.Table)
				}
				if c&8 != 0 {
					exts = append(exts, extension.Linkify)
				}
				cvxMD[c][i] = goldmark.New(goldmark.WithExtensions(exts...), goldmark.WithRendererOptions(opts...))
				if c < 8 {
					cvxNull[c][i] = goldmark.New(goldmark.WithExtensions(exts...), goldmark.WithRendererOptions(opts...),
						goldmark.WithParserOptions(parser.WithInlineParsers(util.Prioritized(cvxNullParser{}, 999))))
				}
				if c == 15 {
					cvxGFM[i] = goldmark.New(goldmark.WithExtensions(extension.GFM), goldmark.WithRendererOptions(opts...))
				}
			}
		}
	})
}

func cvxConvert(c, i int, src []byte) (out []byte, fail *OracleFail) {
	return cvxConvertWith(cvxMD[c][i], c, i, src)
}

func cvxConvertWith(md goldmark.Markdown, c, i int, src []byte) (out []byte, fail *OracleFail) {
	defer func() {
		if r := recover(); r != nil {
			fail = &OracleFail{"C01", "convertx-panic", fmt.Sprintf("cfg %d option set %d: %v", c, i, r)}
			out = []byte("panic")
		}
	}()
	buf := make([]byte, len(src)) // no spare capacity
	copy(buf, src)
	var w bytes.Buffer
	t0 := time.Now()
	if err := md.Convert(buf, &w); err != nil {
		return w.Bytes(), &OracleFail{"C01", "convertx-error", fmt.Sprintf("cfg %d option set %d: %v", c, i, err)}
	}
	if d := time.Since(t0); d > 5*time.Second {
		// the machine is shared: a stall of the whole process looks like a slow conversion. Measure again (twice) and
		// report only when every measurement is slow.
		for k := 0; k < 2 && d > 5*time.Second; k++ {
			var w2 bytes.Buffer
			t1 := time.Now()
			_ = md.Convert(buf, &w2)
			if d2 := time.Since(t1); d2 < d {
				d = d2
			}
		}
		if d > 5*time.Second {
			return w.Bytes(), &OracleFail{"C01", "convertx-slow", fmt.Sprintf("cfg %d option set %d: %v for %d bytes (fastest of 3 runs)", c, i, d, len(src))}
		}
	}
	return w.Bytes(), nil
}

var cvxMembers = []struct {
	bit     int
	name    string
	trigger byte
}{{1, "strikethrough", '~'}, {2, "tasklist", '['}, {4, "table", '-'}, {8, "linkify", 0}}

// C11's trigger set of a member occurs in the source (Linkify: ':' , '@' or "www.")
func cvxHasTrigger(bit int, trigger byte, src []byte) bool {
	if bit == 8 {
		return bytes.IndexByte(src, ':') >= 0 || bytes.IndexByte(src, '@') >= 0 || bytes.Contains(src, []byte("www."))
	}
	return bytes.IndexByte(src, trigger) >= 0
}

// C17 on the AST the real parser builds
func cvxTablesAST(c int, src []byte) (fail *OracleFail, tables int) {
	defer func() {
		if r := recover(); r != nil {
			fail = &OracleFail{"C01", "convertx-panic", fmt.Sprintf("cfg %d Parse: %v", c, r)}
		}
	}()
	buf := make([]byte, len(src))
	copy(buf, src)
	doc := cvxMD[c][0].Parser().Parse(text.NewReader(buf))
	_ = ast.Walk(doc, func(n ast.Node, entering bool) (ast.WalkStatus, error) {
		if !entering || fail != nil {
			return ast.WalkContinue, nil
		}
		t, ok := n.(*east.Table)
		if !ok {
			return ast.WalkContinue, nil
		}
		tables++
		cols := len(t.Alignments)
		bad := func(s string) {
			fail = &OracleFail{"C17", "table-not-rectangular", fmt.Sprintf("%s in %q", s, src)}
		}
		if cols == 0 {
			bad("no columns")
		}
		idx := 0
		for r := t.FirstChild(); r != nil; r = r.NextSibling() {
			_, isH := r.(*east.TableHeader)
			_, isR := r.(*east.TableRow)
			if idx == 0 && !isH {
				bad("first child is not a TableHeader")
			}
			if idx > 0 && !isR {
				bad(fmt.Sprintf("child %d is not a TableRow", idx))
			}
			if r.ChildCount() != cols {
				bad(fmt.Sprintf("row %d has %d cells, %d columns", idx, r.ChildCount(), cols))
			}
			k := 0
			for cell := r.FirstChild(); cell != nil; cell = cell.NextSibling() {
				tc, ok := cell.(*east.TableCell)
				if !ok {
					bad("row child is not a TableCell")
				} else if tc.Lines().Len() > 0 && k < cols && tc.Alignment != t.Alignments[k] {
					bad(fmt.Sprintf("row %d cell %d alignment %v, column %v", idx, k, tc.Alignment, t.Alignments[k]))
				}
				k++
			}
			idx++
		}
		if idx == 0 {
			bad("no header")
		}
		return ast.WalkContinue, nil
	})
	return
}

// C17 on the HTML of a safe option set (raw HTML omitted, `<` of text escaped: every `<table>` is the extension's)
func cvxTablesHTML(out []byte) string {
	s := string(out)
	for {
		a := strings.Index(s, "<table>\n")
		if a < 0 {
			return ""
		}
		s = s[a+len("<table>\n"):]
		b := strings.Index(s, "</table>\n")
		if b < 0 {
			return "unclosed <table>"
		}
		body := s[:b]
		s = s[b:]
		if strings.Count(body, "<thead>") != 1 || !strings.HasPrefix(body, "<thead>\n<tr>\n") {
			return "not exactly one leading <thead>"
		}
		if strings.Count(body, "<tbody>") != strings.Count(body, "</tbody>") || strings.Count(body, "<tbody>") > 1 {
			return "tbody unbalanced"
		}
		rows := strings.Split(body, "<tr>\n")[1:]
		want := -1
		for ri, r := range rows {
			e := strings.Index(r, "</tr>")
			if e < 0 {
				return "unclosed <tr>"
			}
			r = r[:e]
			n := strings.Count(r, "<th") + strings.Count(r, "<td")
			if ri == 0 && (strings.Count(r, "<td") != 0 || n == 0) {
				return "header row with td / without th"
			}
			if ri > 0 && strings.Count(r, "<th") != 0 {
				return "body row with th"
			}
			if want < 0 {
				want = n
			} else if n != want {
				return fmt.Sprintf("row %d has %d cells, header %d", ri, n, want)
			}
		}
	}
}

func implConvertX(c Case) ImplResult {
	cvxInit()
	if c.Op == "htmlf" && len(c.Args) == 2 {
		return implConvertXFlush(c)
	}
	if c.Op != "html" || len(c.Args) != 2 {
		return ImplResult{Out: "bad-op", NoModel: true}
	}
	cfg := 0
	fmt.Sscanf(c.Args[0], "%d", &cfg)
	cfg &= 15
	src := unhx(c.Args[1])
	var res ImplResult
	addFail := func(f *OracleFail) {
		if f != nil && len(res.Fails) < 3 {
			res.Fails = append(res.Fails, *f)
		}
	}
	outs := make([][]byte, 8)
	for i := 0; i < 8; i++ {
		o, f := cvxConvert(cfg, i, src)
		outs[i] = o
		addFail(f)
	}
	// C11 on the real outputs
	for _, m := range cvxMembers {
		if cfg&m.bit == 0 || cvxHasTrigger(m.bit, m.trigger, src) {
			continue
		}
		res.Stats = append(res.Stats, "c11-checked-"+m.name)
		sets := []int{0, 7}
		if len(src) <= 64 {
			sets = []int{0, 1, 2, 3, 4, 5, 6, 7}
		}
		for _, i := range sets {
			o, f := cvxConvert(cfg&^m.bit, i, src)
			addFail(f)
			if !bytes.Equal(o, outs[i]) {
				addFail(&OracleFail{"C11", "extension-changes-trigger-free-document-" + m.name,
					fmt.Sprintf("cfg %d option set %d source %q: with %q without %q", cfg, i, src, outs[i], o)})
				break
			}
		}
	}
	// C17 on the real tree and the real HTML
	if cfg&4 != 0 {
		f, n := cvxTablesAST(cfg, src)
		addFail(f)
		if n > 0 {
			res.Stats = append(res.Stats, "docs-with-table")
			// the Lean-defined C17 oracles on the tree the MODEL renders (GM.ConvertX.rectB) and on the node store its block
			// phase ends in (GM.ConvertX.rectT, the hypothesis of tables_rectangular_of_store): the driver must answer ok
			res.Checks = append(res.Checks, ModelCheck{Line: "convertx rect " + c.Args[0] + " " + c.Args[1] + " " + cvUC(src), Property: "C17"})
		}
		for _, i := range []int{0, 3} {
			if msg := cvxTablesHTML(outs[i]); msg != "" {
				addFail(&OracleFail{"C17", "table-html-not-rectangular", fmt.Sprintf("cfg %d option set %d source %q: %s in %q", cfg, i, src, msg, outs[i])})
			}
		}
	}
	parts := make([]string, 8)
	for i := 0; i < 8; i++ {
		parts[i] = hx(outs[i])
		for j := 0; j < i; j++ {
			if bytes.Equal(outs[i], outs[j]) {
				parts[i] = fmt.Sprintf("=%d", j)
				break
			}
		}
	}
	res.Out = "g0 " + strings.Join(parts, " ")
	if cfg >= 8 {
		res.ModelLine = "convertx htmll " + c.Args[0] + " " + c.Args[1] + " " + cvUC(src)
	} else {
		res.ModelLine = "convertx html " + c.Args[0] + " " + c.Args[1] + " " + cvUC(src)
	}
	// C11, last clause: extension.GFM behaves exactly as its four members (on the real outputs)
	if cfg == 15 {
		for _, i := range []int{0, 3, 4, 7} {
			var w bytes.Buffer
			buf := make([]byte, len(src))
			copy(buf, src)
			func() {
				defer func() { _ = recover() }()
				_ = cvxGFM[i].Convert(buf, &w)
			}()
			if !bytes.Equal(w.Bytes(), outs[i]) {
				addFail(&OracleFail{"C11", "gfm-differs-from-members", fmt.Sprintf("option set %d source %q: GFM %q members %q", i, src, w.Bytes(), outs[i])})
				break
			}
		}
		res.Stats = append(res.Stats, "gfm-vs-members-checked")
	}
	if cfg&8 != 0 && bytes.Contains(outs[4], []byte("<a href=")) && !bytes.Contains(src, []byte("](")) && !bytes.Contains(src, []byte("<")) {
		res.Stats = append(res.Stats, "docs-with-linkified-url")
	}
	tags := cvTagRe(outs[4])
	if tags["del"] > 0 {
		res.Stats = append(res.Stats, "docs-with-del")
	}
	if tags["input"] > 0 && cfg&2 != 0 {
		res.Stats = append(res.Stats, "docs-with-checkbox")
	}
	if len(tags) >= 2 && (tags["del"] > 0 || tags["table"] > 0 || (tags["input"] > 0 && cfg&2 != 0) || (cfg&8 != 0 && tags["a"] > 0)) {
		var ks []string
		for k, v := range tags {
			ks = append(ks, fmt.Sprintf("%s=%d", k, v))
		}
		sort.Strings(ks)
		res.Key = fmt.Sprintf("%d:", cfg) + strings.Join(ks, ",")
	}
	return res
}

// op `htmlf`: the consultation without the parser (cvxNullParser) next to member set cfg < 8, against
// GM.ConvertX.convertFlush; oracle on the real outputs: the same HTML as the member set alone
func implConvertXFlush(c Case) ImplResult {
	cfg := 0
	fmt.Sscanf(c.Args[0], "%d", &cfg)
	cfg &= 7
	src := unhx(c.Args[1])
	var res ImplResult
	outs := make([][]byte, 8)
	for i := 0; i < 8; i++ {
		o, f := cvxConvertWith(cvxNull[cfg][i], cfg, i, src)
		outs[i] = o
		if f != nil && len(res.Fails) < 3 {
			res.Fails = append(res.Fails, *f)
		}
	}
	sets := []int{0, 7}
	if len(src) <= 64 {
		sets = []int{0, 1, 2, 3, 4, 5, 6, 7}
	}
	for _, i := range sets {
		o, _ := cvxConvert(cfg, i, src)
		if !bytes.Equal(o, outs[i]) {
			res.Fails = append(res.Fails, OracleFail{"C11", "consultation-flush-changes-output",
				fmt.Sprintf("cfg %d option set %d source %q: with the nil parser %q without %q", cfg, i, src, outs[i], o)})
			break
		}
	}
	res.Stats = append(res.Stats, "flush-vs-plain-checked")
	parts := make([]string, 8)
	for i := 0; i < 8; i++ {
		parts[i] = hx(outs[i])
		for j := 0; j < i; j++ {
			if bytes.Equal(outs[i], outs[j]) {
				parts[i] = fmt.Sprintf("=%d", j)
				break
			}
		}
	}
	res.Out = "g0 " + strings.Join(parts, " ")
	res.ModelLine = "convertx htmlf " + fmt.Sprint(cfg) + " " + c.Args[1] + " " + cvUC(src)
	return res
}

// ---------- generators ----------

var cvxStrikeAlphabet = syms("~", "a", " ", "*", "[", "]", "(", "\n")
var cvxTaskAlphabet = syms("[", "]", " ", "x", "X", "a", "\n", "-")
var cvxTableAlphabet = syms("|", "-", ":", "a", " ", "\n", "\\", "`")

type cvxCtx struct {
	pre, suf string
	al       [][]byte
	qn, tn   int
}

var cvxContexts = []cvxCtx{
	{"a|b\n-|-\n", "\n", syms("|", "a", " ", "\\", "`", "\n", "~", "*"), 4, 5},      // body rows
	{"", "\n-|:-\nc|d\n", syms("|", "a", " ", "\\", "`", "-", "\n"), 4, 5},          // header candidates
	{"a|b|c\n", "\na|b|c\n", syms("|", "-", ":", " ", "\t", "a"), 4, 5},             // delimiter rows
	{"> x\n> a|b\n> -|-", "\n", syms("|", "a", " ", ">", "\n", "-", "\t"), 3, 4},    // inside a quote, lazy lines
	{"- [", "\n", syms("]", " ", "x", "~", "\n", "\t", "[", "a"), 4, 5},             // a checkbox under construction
	{"- ~", "~\n", syms("~", "a", " ", "*", "_", "\\", "`", "\n"), 4, 5},            // strikethrough under construction
}

var cvxTokens = []string{
	"~", "~~", "~~~", "~a~", "~~a~~", "*", "**", "_", "`", "``", "[", "]", "(", ")", "![", "](/u)", "[a]", "[a]: /u", "\\", "\\~", "\\|", "\\[",
	"- ", "* ", "1. ", "- [ ] ", "- [x] ", "- [X] ", "[ ]", "[x]", "[ ] ", "[x] ", "  ", "    ", "\t", "> ", "\n", "\n\n", " ", "a", "b", "é",
	"|", "| ", " |", "|-|", "-|-", ":-|-:", "|:-:|", "---", "a|b", "| a | b |", "`|`", "`\\|`", "\\|", ":", "-", "#", "# ", "```\n", "<a>", "&amp;",
}

var cvxLinkAlphabet1 = syms("http://", "a", ".", "b", "/", ")", "(", " ", ";", "&")
var cvxLinkAlphabet2 = syms("www.", "a", ".", "b", "@", " ", "-", "_", ":", "1")
var cvxLinkTails = syms(".", ")", "(", ";", "&", "a", "/", "?", "!", ",", " ", ":", "*", "_", "~", "'", "1", "\n")
var cvxLinkHeads = []string{"http://a.bc", "www.a.bc", "x@y.zz", "https://a.b.cd:80", "(ftp://a.bc/d", "*www.a.bc", "[http://a.bc", "\"www.a.bc", "x\"http://a.bc", "a:www.a.bc"}

var cvxLinkTokens = []string{
	"http://", "https://", "ftp://", "http:", "www.", "a.b", "ex.com", "a@b.cd", "@", ":", ":80", "/p", "/p?q=1&r", "#f", "&amp;", "&amp", ";", ")", "(", "()", ".", ",", "!", "?",
	"*", "_", "~", "~~", " ", "\n", "\t", "[", "]", "](/u)", "<", ">", "`", "\\", "x", "Y", "1", "-", "é", "mailto:", "HTTP://A.B", "www.a.B", "www.a.b1", "http://a", "http://a.b:c", "a@b", "a@b.c-", "a@b.c_d", ".a@b.cd",
}

var cvxFixed = []string{
	// flush-insensitivity (op htmlf): where a consultation flush could show — a cut in front of a break flag, of trimmed trailing
	// blanks, inside what the text writer reads as one unit (entity, backslash escape), next to delimiter runs and labels
	"a \nb\n", "a  \nb\n", "a   \nb\n", "a \t\nb\n", "a\t \nb\n", "a \t \n", "a b  \nc d \ne\n", "a\\ b\n", "a\\\tb\n", "a \\nb\n", "a\\ \nb\n", "a \\  \nb\n",
	"x &amp; y &#40; z &amp z & w &x; &#x28;(\n", "&am p; &amp ; & amp;\n", "a\\( b\\* c\\_ d\\~ e\\ f\n", "a (b) (c (d\n", "a ~b~ ~ c~\n", "*a * b* _a _ b_ **a ** b**\n",
	"[a b](/u c) [a b]( /u ) [a b][c d]\n\n[c d]: /u\n", "![a b c](/u \"t u\") ![a *b* c](/u)\n", "`a b` `` a  b `` ` a\n b `\n", "<a b=\"c d\"> <!-- a b --> <http://a.bc/d e>\n",
	"a b\n  c d\n\te f  \n g\n", "# a b # \n## c  d  ##\n", "a b\n===\nc d\n---\n", "- a b \n- c  \n  d \n", "> a b \n> c  \n", "a|b c \n-|-\nd e | f  g \n", "- [x] a b \n- [ ] (c d)\n", "a *b c\nd e* f \n", "a [b c\nd e](/u) f \n",
	" a\n  b \n   c  \n", "a\u00a0b \u00a0\nc\n", "é è \nü ö\n", "a \r\nb  \r\nc\r\n",
	// the escaped flag across a line end (repo fix 24c9f23): a backslash-ended line in front of a trigger at a line head
	"a\\\n~b~\n", "a\\\n*b* ~~c~~\n", "- a\\\n  [x] y\n", "a\\\nwww.a.bc x\\\nhttp://d.ef\n", "a|b\n-|-\nc\\|d\\\n~e~|f\n", "a \\\n ~b~\n", "a\\  \n~b~\n", "a\\  \n*b* [c](/u)\n", "- a\\  \n  ~b~\n", "a\\\r\n~b~\n", "a\\   \nwww.a.bc\n", "a\\  \n\\~b~\n", "~a\\  \n\\~\n", "- a\\  \n  \\[x](/u) \\|\n", "a|b\\  \n-|-\n", "*a\\  \n\\*\n",
	"www.commonmark.org\n", "Visit www.commonmark.org/help for more information.\n", "Visit www.commonmark.org.\n\nVisit www.commonmark.org/a.b.\n", "www.google.com/search?q=Markup+(business)\n\nwww.google.com/search?q=Markup+(business)))\n\n(www.google.com/search?q=Markup+(business))\n\n(www.google.com/search?q=Markup+(business)\n",
	"www.google.com/search?q=(business))+ok\n", "www.google.com/search?q=commonmark&hl=en\n\nwww.google.com/search?q=commonmark&hl;\n", "www.commonmark.org/he<lp\n", "http://commonmark.org\n\n(Visit https://encrypted.google.com/search?q=Markup+(business))\n",
	"foo@bar.baz\n", "hello@mail+xyz.example isn't valid, but hello+xyz@mail.example is.\n", "a.b-c_d@a.b\n\na.b-c_d@a.b.\n\na.b-c_d@a.b-\n\na.b-c_d@a.b_\n", "[www.a.bc](/u) [x www.a.bc\n", "*www.a.bc* _http://a.bc_ ~~ftp://a.bc~~ (www.a.bc)\n",
	"www.a@b.Cd www.a@b.cd\n", "http://a.bc&amp; http://a.bc/&amp; http://a.bc/x&y; http://a.bc/;\n", "http://a.b.c.d.ef:8080/p?q#r http://a.bc:x http://a.bc: http://a.bc:1a\n", "- [ ] www.a.bc\n- [x] http://a.bc|\n\nwww.a.bc|http://d.ef\n-|-\n",
	"www.a.bc\nhttp://d.ef  \nx@y.zz\\\n", "# www.a.bc #\n", "> www.a.bc\n", "`www.a.bc` <www.a.bc> <http://a.bc>\n", "www." + strings.Repeat("a", 300) + ".bc www." + strings.Repeat("a", 255) + ".bc http://" + strings.Repeat("a.", 200) + "bc\n",

	"~~Hi~~ Hello, ~there~ world!\n", "This ~~has a\n\nnew paragraph~~.\n", "This will ~~~not~~~ strike.\n", "~a~~ ~~a~ ~~a~~~ ~~~a~~ a~~b~~c a ~~ b ~~\n",
	"*~a*~ ~*a~* **~~a**~~ ~~**a~~**\n", "[~~a~~](/u) ~~[a](/u)~~ ~[a~](/u) [a~](/u)~ ![~a~](/u)\n", "~`a~`~ `~a~` ~<b>~ <~a~>\n", "\\~a~ ~a\\~ ~~a\\~~\n",
	"~é~ é~é~é ~ é~ ~.a~ .~a~. a~.~\n", "~~~\ncode\n~~~\n", "~~~a~~~\n", "~~ a ~~\n", "# ~~h~~\n", "> ~~q~~\n", "- ~~l~~\n- ~l\n  l~\n",
	"- [ ] foo\n- [x] bar\n", "- [x] foo\n  - [ ] bar\n  - [x] baz\n- [ ] bim\n", "- [ ]\n- [x]\n- [ ] \n", "- [ ]a\n- [x]a\n- [y] a\n- [] a\n- [  ] a\n",
	"- test[x]=[x]\n", "- [x]\n  a\n", "-\n  [x] a\n", "- a\n\n  [x] b\n", "- [x] a\n\n  [x] b\n", "1. [x] a\n2. [ ] b\n", "* [X] a\n+ [x] b\n", "[x] a\n", "> [x] a\n", "- > [x] a\n",
	"- [x] [a](/u)\n", "- [x][a]\n\n[a]: /u\n", "- [ ]: /u\n\n[ ]\n", "- [x]: /u\n- [x]\n", "- # [x] a\n", "- \\[x] a\n", "- [x\\] a\n", "- ![x] a\n", "- [\t] a\n", "- [x]\ta\n", "- [x] ~a~\n", "- ~[x]~ a\n", "- *[x] a*\n",
	"-  [x] a\n", "-    [x] a\n", "-\t[x] a\n", "- [x] a\n  [x] b\n", "- [x]\n", "- [x]", "- [ ]", "- [x] ", "- [x]  \n  a\n", "- [x]\\\n  a\n",
	"| a | b |\n|---|---|\n| c | d |\n", "a|b\n-|-\n", "a|b\n-|-\nc\n", "a|b\n-|-\nc|d|e\n", "a|b\n-|-|-\nc|d\n", "a\n-\n", "|a|\n|-|\n", "|a|\n|-|\n|b|\n", "foo\na|b\n-|-\nc|d\n", "foo\nbar\na|b\n:-|-:\nc|d\n",
	"a|b\n:-:|-\nc|d\n", "| a | b |\n| :- | -: |\n| `\\|` | \\| |\n", "a|b\n-|-\n`c\\|d`|e\n", "a|b\n-|-\n`c`\\|d|e\n", "a|b\n-|-\n\\|`c\\|d`\\||`e\\|`\n", "a|b\n-|-\n``c\\|d\\|e``|*`f\\|g`*\n", "a|b\n-|-\n[`c\\|d`](/u)|e\n",
	"> a|b\n> -|-\n> c|d\n", "- a|b\n  -|-\n  c|d\n", "- a|b\n  -|-\n- c|d\n", "> a|b\n> -|-\nc|d\n", "a|b\n-|-\n\nc|d\n", "a|b\n-|-\n# h\n", "a|b\n-|-\n> q\n", "a|b\n-|-\n===\n", "a|b\n===\n-|-\n",
	"a|b\n-|-\nc|d\n-|-\ne|f\n", "a|b\n -|- \n", "a|b\n    -|-\n", "a|b\n\t-|-\n", "a | b\n- | -\n~~c~~ | [x] d\n", "- [x] a|b\n  -|-\n  c|d\n", "- a|b\n  -|-\n  [x]|d\n", "| |\n|-|\n| |\n", "||\n|-|\n", "|\n-\n", "|\n|-\n",
	"a|b\n-|-\n|\n", "a|b\n-|-\n||\n", "a|b\n-|-\n| |\n", "a|b\n-|-\n \n", "a|b\r\n-|-\r\nc|d\r\n", "a|b\n-|-\nc|d", "a|b\n-|-", "[a]: /u\na|b\n-|-\n[a]|d\n", "a|b\n-|-\n[a]: /u\n", "[a]: /u\n-|-\n", "a|[b]\n-|-\n\n[b]: /u\n",
	"a\\|b|c\n-|-\n", "a|b\\\n-|-\n", "a|b  \n-|-\nc|d  \n", "a|*b\n-|-\nc*|d\n", "`a|b`\n-|-\n", "a|b\n-|-\n`c|d`\n", "é|ü\n-|-\nß|ø\n", "a|b\n-|-\n\xff|\x00\n", "a|b\n:|:\n", "a|b\n-:|:-\n:|:\n", "a|b\n-|-\n:-|-:\n",
}

func genConvertX(tier string, rng *RNG, emit func(Case)) {
	thorough := tier == "thorough"
	pick := func(q, t int) int {
		if thorough {
			return t
		}
		return q
	}
	doc := func(cfgs []int, b []byte) {
		h := hx(b)
		for _, c := range cfgs {
			emit(Case{Op: "html", Args: []string{fmt.Sprint(c), h}})
			if c >= 8 {
				// the same document through the consultation without the parser
				emit(Case{Op: "htmlf", Args: []string{fmt.Sprint(c & 7), h}})
			}
		}
	}
	all := []int{0, 1, 2, 3, 4, 5, 6, 7, 8, 15}
	// 1. exhaustive small scopes
	enumStrings(cvxStrikeAlphabet, pick(5, 6), func(b []byte) { doc([]int{1}, b) })
	enumStrings(cvxStrikeAlphabet, pick(4, 5), func(b []byte) { doc([]int{3, 5, 7}, b) })
	enumStrings(cvxTaskAlphabet, pick(4, 5), func(b []byte) {
		doc([]int{2, 3, 6, 7}, append([]byte("- "), b...))
	})
	enumStrings(cvxTableAlphabet, pick(5, 6), func(b []byte) { doc([]int{4}, b) })
	enumStrings(cvxTableAlphabet, pick(4, 5), func(b []byte) { doc([]int{5, 6, 7}, b) })
	for _, s := range cvxContexts {
		s := s
		enumStrings(s.al, pick(s.qn-1, s.tn-1), func(b []byte) { doc([]int{7}, []byte(s.pre+string(b)+s.suf)) })
		enumStrings(s.al, pick(s.qn, s.tn), func(b []byte) {
			d := []byte(s.pre + string(b) + s.suf)
			switch {
			case strings.HasPrefix(s.pre, "- ["):
				doc([]int{2}, d)
			case strings.HasPrefix(s.pre, "- ~"):
				doc([]int{1}, d)
			default:
				doc([]int{4}, d)
			}
		})
	}
	// 1b. Linkify: URL alphabets (complete), tails behind fixed heads (complete)
	enumStrings(cvxLinkAlphabet1, pick(4, 5), func(b []byte) { doc([]int{8, 15}, b) })
	enumStrings(cvxLinkAlphabet2, pick(4, 5), func(b []byte) { doc([]int{8}, b) })
	for _, h := range cvxLinkHeads {
		h := h
		enumStrings(cvxLinkTails, pick(2, 3), func(b []byte) { doc([]int{8, 15}, []byte(h+string(b))) })
	}
	// 2. spec.json, corpora (extension/_test/{strikethrough,tasklist,table}.txt among them), fixed
	for _, e := range SpecExamples() {
		doc(all, []byte(e.Markdown))
	}
	for _, d := range CorpusDocs() {
		doc(all, d)
		doc([]int{7}, bytes.TrimSuffix(d, []byte("\n")))
	}
	for _, s := range cvxFixed {
		doc(all, []byte(s))
	}
	for _, s := range inlFixed() {
		doc([]int{1, 7}, []byte(s))
		doc([]int{3}, append([]byte("- [x] "), []byte(s)...))
	}
	// 3. generated / mutated documents
	DocStream(rng, len(CorpusDocs())+pick(1500, 40000), func(kind string, d []byte) {
		if kind != "corpus" {
			doc(all, d)
		}
	})
	// 4. random strings over the alphabets and the token list
	toks := syms(cvxTokens...)
	for i, n := 0, pick(10000, 300000); i < n; i++ {
		var d []byte
		switch rng.Intn(6) {
		case 0:
			d = randString(rng, cvxStrikeAlphabet, 24)
		case 1:
			d = append([]byte("- "), randString(rng, cvxTaskAlphabet, 20)...)
		case 2:
			d = randString(rng, cvxTableAlphabet, 30)
		case 3:
			// a table with random rows
			cols := 1 + rng.Intn(4)
			var sb strings.Builder
			cell := func() string {
				return []string{"a", "", " ", "~b~", "`c\\|d`", "\\|", "*e*", "[x]", "[f](/u)", "g  ", "`", "é"}[rng.Intn(12)]
			}
			row := func(n int) {
				if rng.Chance(50) {
					sb.WriteString("|")
				}
				for k := 0; k < n; k++ {
					if k > 0 {
						sb.WriteString("|")
					}
					sb.WriteString(cell())
				}
				if rng.Chance(50) {
					sb.WriteString("|")
				}
				sb.WriteString("\n")
			}
			pre := []string{"", "", "> ", "- ", "p\n"}[rng.Intn(5)]
			sb.WriteString(pre)
			row(cols + rng.Intn(2)*(rng.Intn(3)-1))
			if pre == "- " {
				sb.WriteString("  ")
			} else if pre == "> " {
				sb.WriteString(pre)
			}
			for k := 0; k < cols; k++ {
				if k > 0 {
					sb.WriteString("|")
				}
				sb.WriteString([]string{"-", ":-", "-:", ":-:", "---", " - "}[rng.Intn(6)])
			}
			sb.WriteString("\n")
			for r := rng.Intn(4); r > 0; r-- {
				if pre == "- " {
					sb.WriteString("  ")
				} else if pre == "> " && rng.Chance(70) {
					sb.WriteString(pre)
				}
				row(rng.Intn(cols + 3))
			}
			d = []byte(sb.String())
		default:
			d = randString(rng, toks, 14)
		}
		if rng.Intn(6) == 0 {
			d = randString(rng, syms(cvxLinkTokens...), 10)
			doc([]int{8 + rng.Intn(8), 15}, d)
			continue
		}
		if rng.Chance(20) {
			doc(all, d)
		} else {
			doc([]int{rng.Intn(16)}, d)
		}
	}
}
