package main

// Component `wfast` (C05 search): the tree returned by Parse is checked node by node:
//  (a) links: Parent / FirstChild / LastChild / NextSibling / PreviousSibling / ChildCount agree with the
//      actual child sequence in both directions; no node occurs twice;
//  (b) kinds in legal places: only public kinds, inline below block, list items in lists, code spans hold
//      text, no link inside a link, heading levels 1..6, emphasis levels 1..2;
//  (c) positions: 0 <= Start <= Stop <= len(source) for every segment, a block's lines increasing, the text
//      segments of a block's inline content in document order within the block's lines.

import (
	"fmt"
	"strconv"

	"github.com/yuin/goldmark/ast"
	east "github.com/yuin/goldmark/extension/ast"
	"github.com/yuin/goldmark/text"
)

func init() {
	register(&Component{
		Name: "wfast",
		Rule: "documents (corpus, mutants, generated, adversarial) under corner and random lattice configurations; every node of every tree checked; non-trivial = tree with an inline non-text kind or >= 2 block kinds; distinct = distinct (configuration, kind multiset)",
		Gen:  genWfast,
		Impl: implWfast,
		Scope: func(tier string) string {
			if tier == "thorough" {
				return "all corpus documents x 8 corner configurations + 150k documents x random configurations"
			}
			return "all corpus documents x 8 corner configurations + 12k documents x random configurations"
		},
	})
}

func genWfast(tier string, rng *RNG, emit func(Case)) {
	n := 12000
	if tier == "thorough" {
		n = 150000
	}
	for _, d := range CorpusDocs() {
		for _, c := range CornerCfgs() {
			emit(Case{Op: "doc", Args: []string{c.Name(), hx(d)}})
		}
	}
	for _, d := range []string{"- Foo\n--\n", "| a |\n|-|\n| b |\n", "a\n|-|-|\n"} {
		emit(Case{Op: "doc", Args: []string{Cfg{Exts: "tskldfy", AutoID: true, Attr: true}.Name(), hx([]byte(d))}})
	}
	DocStream(rng, len(CorpusDocs())+n, func(kind string, d []byte) {
		if kind == "corpus" {
			return
		}
		emit(Case{Op: "doc", Args: []string{randCfg(rng).Name(), hx(d)}})
	})
}

var publicKinds = map[ast.NodeKind]bool{}

func init() {
	for _, k := range []ast.NodeKind{ast.KindDocument, ast.KindHeading, ast.KindBlockquote, ast.KindCodeBlock, ast.KindFencedCodeBlock, ast.KindHTMLBlock,
		ast.KindList, ast.KindListItem, ast.KindParagraph, ast.KindTextBlock, ast.KindThematicBreak, ast.KindAutoLink, ast.KindCodeSpan, ast.KindEmphasis,
		ast.KindImage, ast.KindLink, ast.KindRawHTML, ast.KindText, ast.KindString,
		east.KindTable, east.KindTableHeader, east.KindTableRow, east.KindTableCell, east.KindStrikethrough, east.KindTaskCheckBox,
		east.KindDefinitionList, east.KindDefinitionTerm, east.KindDefinitionDescription,
		east.KindFootnoteLink, east.KindFootnoteBacklink, east.KindFootnote, east.KindFootnoteList} {
		publicKinds[k] = true
	}
}

type wfChecker struct {
	src   []byte
	seen  map[ast.Node]bool
	fails []OracleFail
	kinds map[string]int
}

func (w *wfChecker) fail(clause, f string, a ...interface{}) {
	if len(w.fails) < 4 {
		w.fails = append(w.fails, OracleFail{"C05", clause, fmt.Sprintf(f, a...)})
	}
}

func (w *wfChecker) seg(s text.Segment, what string, n ast.Node) bool {
	if s.Start < 0 || s.Start > s.Stop || s.Stop > len(w.src) || s.Padding < 0 {
		w.fail("segment-out-of-range", "%s of %s: [%d,%d) padding %d, source length %d", what, n.Kind(), s.Start, s.Stop, s.Padding, len(w.src))
		return false
	}
	return true
}

// inlineSegs collects, in document order, the source segments of the inline content below n
func (w *wfChecker) inlineSegs(n ast.Node, out *[]text.Segment) {
	for c := n.FirstChild(); c != nil; c = c.NextSibling() {
		switch v := c.(type) {
		case *ast.Text:
			*out = append(*out, v.Segment)
		case *ast.RawHTML:
			for i := 0; i < v.Segments.Len(); i++ {
				*out = append(*out, v.Segments.At(i))
			}
		default:
			if c.Type() == ast.TypeInline {
				w.inlineSegs(c, out)
			}
		}
	}
}

func (w *wfChecker) node(n ast.Node, parent ast.Node, inLink bool) {
	if w.seen[n] {
		w.fail("node-occurs-twice", "%s reachable twice", n.Kind())
		return
	}
	w.seen[n] = true
	w.kinds[n.Kind().String()]++
	if n.Parent() != parent {
		w.fail("parent-link", "%s: Parent() is not the node it is a child of", n.Kind())
	}
	// (a) child list, both directions, count
	var fwd []ast.Node
	for c := n.FirstChild(); c != nil; c = c.NextSibling() {
		fwd = append(fwd, c)
		if len(fwd) > 1<<20 {
			w.fail("sibling-cycle", "%s: forward sibling chain does not end", n.Kind())
			return
		}
	}
	var bwd []ast.Node
	for c := n.LastChild(); c != nil; c = c.PreviousSibling() {
		bwd = append(bwd, c)
		if len(bwd) > 1<<20 {
			w.fail("sibling-cycle", "%s: backward sibling chain does not end", n.Kind())
			return
		}
	}
	if len(fwd) != len(bwd) {
		w.fail("sibling-links", "%s: %d children forward, %d backward", n.Kind(), len(fwd), len(bwd))
	} else {
		for i := range fwd {
			if fwd[i] != bwd[len(bwd)-1-i] {
				w.fail("sibling-links", "%s: forward and backward child sequences differ", n.Kind())
				break
			}
		}
	}
	if n.ChildCount() != len(fwd) {
		w.fail("child-count", "%s: ChildCount()=%d but %d children", n.Kind(), n.ChildCount(), len(fwd))
	}
	if n.HasChildren() != (len(fwd) > 0) {
		w.fail("child-count", "%s: HasChildren()=%v with %d children", n.Kind(), n.HasChildren(), len(fwd))
	}
	if len(fwd) > 0 && (fwd[0].PreviousSibling() != nil || fwd[len(fwd)-1].NextSibling() != nil) {
		w.fail("sibling-links", "%s: first/last child has an outer sibling", n.Kind())
	}
	// (b) kinds and places
	if !publicKinds[n.Kind()] {
		w.fail("non-public-kind", "leftover node of kind %s below %v", n.Kind(), kindOf(parent))
	}
	if parent != nil {
		if n.Type() == ast.TypeBlock && parent.Type() == ast.TypeInline {
			w.fail("block-below-inline", "%s below %s", n.Kind(), parent.Kind())
		}
		if n.Type() == ast.TypeInline && parent.Type() == ast.TypeDocument {
			w.fail("inline-below-document", "%s directly below the document", n.Kind())
		}
		if n.Kind() == ast.KindListItem && parent.Kind() != ast.KindList {
			w.fail("list-item-outside-list", "ListItem below %s", parent.Kind())
		}
		if parent.Kind() == ast.KindList && n.Kind() != ast.KindListItem {
			w.fail("list-child-not-item", "%s directly below a List", n.Kind())
		}
		if parent.Kind() == ast.KindCodeSpan && n.Kind() != ast.KindText {
			w.fail("code-span-holds-non-text", "%s inside a CodeSpan", n.Kind())
		}
	} else if n.Kind() != ast.KindDocument {
		w.fail("root-not-document", "root is %s", n.Kind())
	}
	switch v := n.(type) {
	case *ast.Heading:
		if v.Level < 1 || v.Level > 6 {
			w.fail("heading-level", "level %d", v.Level)
		}
	case *ast.Emphasis:
		if v.Level < 1 || v.Level > 2 {
			w.fail("emphasis-level", "level %d", v.Level)
		}
	case *ast.Link:
		if inLink {
			w.fail("link-inside-link", "Link nested in a Link")
		}
	case *ast.Text:
		w.seg(v.Segment, "text segment", n)
	case *ast.RawHTML:
		for i := 0; i < v.Segments.Len(); i++ {
			w.seg(v.Segments.At(i), "raw HTML segment", n)
		}
	case *ast.FencedCodeBlock:
		if v.Info != nil {
			w.seg(v.Info.Segment, "info segment", n)
		}
	case *ast.HTMLBlock:
		if v.HasClosure() {
			w.seg(v.ClosureLine, "closure line", n)
		}
	}
	// (c) lines of blocks: in range, increasing
	if n.Type() == ast.TypeBlock || n.Type() == ast.TypeDocument {
		ls := n.Lines()
		if ls != nil {
			prevStop := -1
			ok := true
			for i := 0; i < ls.Len(); i++ {
				s := ls.At(i)
				if !w.seg(s, "line", n) {
					ok = false
					continue
				}
				if s.Start < prevStop {
					w.fail("lines-not-increasing", "%s: line %d starts at %d before the previous line's end %d", n.Kind(), i, s.Start, prevStop)
				}
				prevStop = s.Stop
			}
			// inline content in document order within the block's lines
			if ok && ls.Len() > 0 && n.Kind() != ast.KindCodeBlock && n.Kind() != ast.KindFencedCodeBlock && n.Kind() != ast.KindHTMLBlock {
				var segs []text.Segment
				w.inlineSegs(n, &segs)
				lo, hi := ls.At(0).Start, ls.At(ls.Len()-1).Stop
				prev := -1
				for _, s := range segs {
					if s.Start < 0 || s.Stop > len(w.src) || s.Start > s.Stop {
						continue
					}
					if s.Start < lo || s.Stop > hi {
						w.fail("inline-segment-outside-block-lines", "%s: inline segment [%d,%d) outside the block's lines [%d,%d)", n.Kind(), s.Start, s.Stop, lo, hi)
						break
					}
					if s.Start < prev {
						w.fail("inline-segments-out-of-order", "%s: inline segment [%d,%d) starts before the previous one ended (%d)", n.Kind(), s.Start, s.Stop, prev)
						break
					}
					prev = s.Stop
				}
			}
		}
	}
	for _, c := range fwd {
		w.node(c, n, inLink || n.Kind() == ast.KindLink)
	}
}

func kindOf(n ast.Node) string {
	if n == nil {
		return "<nil>"
	}
	return n.Kind().String()
}

func implWfast(cs Case) ImplResult {
	c := ParseCfg(cs.Args[0])
	src := unhx(cs.Args[1])
	doc := c.Build().Parser().Parse(text.NewReader(src))
	w := &wfChecker{src: src, seen: map[ast.Node]bool{}, kinds: map[string]int{}}
	w.node(doc, nil, false)
	res := ImplResult{Out: "ok", NoModel: true, Fails: w.fails}
	// the formal statement (GM.Spec.AstWF.wfAst) evaluated by the model driver on the same tree
	res.Checks = []ModelCheck{{Line: "wfast check " + strconv.Itoa(len(src)) + " " + DumpPositions(doc, src), Property: "C05"}}
	if key, nt := kindKey(w.kinds); nt {
		res.Key = c.Name() + "|" + key
	}
	return res
}
