package main

// Component `filter`: sequences of NewBytesFilter / NewBytesFilterString / Add / Extend / ExtendString on
// util.BytesFilter, observed through Contains over a key universe whose members collide in one hash
// bucket (so slots reach len 3 / cap 4, the window in which Go's append writes in place).
// Oracle (C19): every filter must behave as the plain set of keys added to it or inherited at Extend time.

import (
	"fmt"
	"sort"
	"strconv"
	"strings"

	"github.com/yuin/goldmark/util"
)

func djb2(b []byte) uint64 {
	var h uint64 = 5381
	for _, c := range b {
		h = ((h << 5) + h) + uint64(c)
	}
	return h
}

var filterKeys [][]byte // universe: 5 colliding keys, one from another bucket, the empty key

func init() {
	groups := map[uint64][][]byte{}
	enumStrings(syms("a", "b", "c"), 4, func(b []byte) {
		if len(b) >= 3 {
			groups[djb2(b)%64] = append(groups[djb2(b)%64], b)
		}
	})
	var best uint64
	for k, g := range groups {
		if len(g) > len(groups[best]) || (len(g) == len(groups[best]) && k < best) {
			best = k
		}
	}
	g := groups[best]
	sort.Slice(g, func(i, j int) bool { return string(g[i]) < string(g[j]) })
	filterKeys = append(filterKeys, g[:5]...)
	filterKeys = append(filterKeys, []byte("zz"), []byte{})
	register(&Component{
		Name:       "filter",
		Rule:       "all programs of <= N ops (first op creates a filter) over 7 keys, 5 of which collide in one bucket, + random longer programs + directed long lineages (70..1100 distinct keys added one by one / given to the constructor, then Extend and Adds on parent and child); non-trivial = at least one Extend and one later Add; distinct = distinct final contains-matrix",
		Gen:        genFilter,
		Impl:       implFilter,
		Exhaustive: true,
		Scope: func(tier string) string {
			if tier == "thorough" {
				return "exhaustive programs of <=5 ops + 200k random programs of <=14 ops"
			}
			return "exhaustive programs of <=4 ops + 20k random programs of <=12 ops"
		},
	})
}

func keysArg(ks [][]byte) string {
	if len(ks) == 0 {
		return "_"
	}
	var s []string
	for _, k := range ks {
		s = append(s, hx(k))
	}
	return strings.Join(s, ",")
}

// one step, given the number of filters existing so far; returns step strings
func filterSteps(nf int, first bool) []string {
	k := filterKeys
	var r []string
	r = append(r, "n:_", "n:"+keysArg(k[:1]), "n:"+keysArg(k[:3]), "N:"+hx([]byte(string(k[0])+","+string(k[1])+",")))
	if first {
		return r
	}
	for f := 0; f < nf; f++ {
		fs := strconv.Itoa(f)
		for _, key := range [][]byte{k[2], k[3], k[4], k[6]} {
			r = append(r, "a:"+fs+":"+hx(key))
		}
		r = append(r, "e:"+fs+":_", "e:"+fs+":"+keysArg(k[3:4]), "e:"+fs+":"+keysArg(k[4:5]), "s:"+fs+":"+hx([]byte(string(k[3])+",,"+string(k[5]))))
	}
	return r
}

func countFilters(steps []string) int {
	n := 0
	for _, s := range steps {
		switch s[0] {
		case 'n', 'N', 'e', 's':
			n++
		}
	}
	return n
}

func genFilter(tier string, rng *RNG, emit func(Case)) {
	depth, nrand, maxLen := 4, 20000, 12
	if tier == "thorough" {
		depth, nrand, maxLen = 5, 200000, 14
	}
	univ := keysArg(filterKeys)
	var rec func(prog []string)
	rec = func(prog []string) {
		if len(prog) > 0 {
			emit(Case{Op: "run", Args: []string{univ, strings.Join(prog, ";")}})
		}
		if len(prog) == depth {
			return
		}
		for _, s := range filterSteps(countFilters(prog), len(prog) == 0) {
			rec(append(append([]string{}, prog...), s))
		}
	}
	rec(nil)
	// directed: a real filter over the renderer's global attribute names is screened with every one- and
	// adjacent-two-byte variant of each name; variants it accepts (none expected) become the queried universe
	{
		var names [][]byte
		allowed := map[string]bool{}
		for _, n := range globalAttrNames {
			names = append(names, []byte(n))
			allowed[n] = true
		}
		f := util.NewBytesFilter(names...)
		var bad [][]byte
		k := 0
		for _, n := range globalAttrNames {
			attrVariants(n, func(v []byte) {
				k++
				if allowed[string(v)] {
					return
				}
				if (f.Contains(v) && len(bad) < 48) || (k%40009 == 0 && len(bad) < 60) {
					bad = append(bad, append([]byte{}, v...))
				}
			})
		}
		emit(Case{Op: "run", Args: []string{keysArg(bad), "n:" + keysArg(names)}})
		emit(Case{Op: "run", Args: []string{keysArg(bad), "n:" + keysArg(names[:9]) + ";e:0:" + keysArg(names[9:])}})
	}
	// directed: LONG lineages (a filter that grows or re-buckets past some size must still be the plain set): several
	// hundred distinct keys added one by one, a parent of > 512 keys extended, adds after the extension
	{
		big := func(n int, tag string) [][]byte {
			var ks [][]byte
			for i := 0; i < n; i++ {
				ks = append(ks, []byte(tag+strconv.Itoa(i*7919%100003)))
			}
			return ks
		}
		// a key lost when the table is reorganised at its n-th element is ONE key per reorganisation: different key
		// families per case, so that no single unlucky hash value hides it
		for ci, n := range []int{70, 130, 260, 520, 520, 520, 520, 530, 600, 700, 1030, 1100, 1100, 2100} {
			ks := big(n, string(rune('k'+ci%8))+strconv.Itoa(rng.Intn(1000))+"-")
			absent := big(12, "q")
			var prog []string
			prog = append(prog, "n:_")
			for _, k := range ks {
				prog = append(prog, "a:0:"+hx(k))
			}
			emit(Case{Op: "run", Args: []string{keysArg(append(append([][]byte{}, ks...), absent...)), strings.Join(prog, ";")}})
			// the same keys through the constructor, then Extend with fresh keys, then Adds on parent and child
			more := big(9, "m")
			prog2 := []string{"n:" + keysArg(ks), "e:0:" + keysArg(more[:3]), "a:1:" + hx(more[3]), "a:0:" + hx(more[4]), "e:1:" + keysArg(more[5:7]), "a:2:" + hx(more[7])}
			emit(Case{Op: "run", Args: []string{keysArg(append(append(append([][]byte{}, ks...), more...), absent...)), strings.Join(prog2, ";")}})
		}
	}
	for i := 0; i < nrand; i++ {
		n := 2 + rng.Intn(maxLen-1)
		var prog []string
		for j := 0; j < n; j++ {
			st := filterSteps(countFilters(prog), j == 0)
			prog = append(prog, st[rng.Intn(len(st))])
		}
		emit(Case{Op: "run", Args: []string{univ, strings.Join(prog, ";")}})
	}
}

func parseKeys(s string) [][]byte {
	if s == "_" {
		return nil
	}
	var r [][]byte
	for _, k := range strings.Split(s, ",") {
		r = append(r, unhx(k))
	}
	return r
}

func splitCommaGo(s string) []string {
	// reference meaning of the comma-separated constructors: pieces between commas, no trailing empty piece
	parts := strings.Split(s, ",")
	if len(parts) > 0 && parts[len(parts)-1] == "" {
		parts = parts[:len(parts)-1]
	}
	return parts
}

func implFilter(c Case) ImplResult {
	var r ImplResult
	univ := parseKeys(c.Args[0])
	var filters []util.BytesFilter
	var ref []map[string]bool
	hasExtend, addAfterExtend := false, false
	for _, st := range strings.Split(c.Args[1], ";") {
		p := strings.Split(st, ":")
		switch p[0] {
		case "n":
			ks := parseKeys(p[1])
			filters = append(filters, util.NewBytesFilter(ks...))
			m := map[string]bool{}
			for _, k := range ks {
				m[string(k)] = true
			}
			ref = append(ref, m)
		case "N":
			s := string(unhx(p[1]))
			filters = append(filters, util.NewBytesFilterString(s))
			m := map[string]bool{}
			for _, k := range splitCommaGo(s) {
				m[k] = true
			}
			ref = append(ref, m)
		case "a":
			f, _ := strconv.Atoi(p[1])
			k := unhx(p[2])
			filters[f].Add(k)
			ref[f][string(k)] = true
			if hasExtend {
				addAfterExtend = true
			}
		case "e", "s":
			f, _ := strconv.Atoi(p[1])
			m := map[string]bool{}
			for k := range ref[f] {
				m[k] = true
			}
			if p[0] == "e" {
				ks := parseKeys(p[2])
				filters = append(filters, filters[f].Extend(ks...))
				for _, k := range ks {
					m[string(k)] = true
				}
			} else {
				s := string(unhx(p[2]))
				filters = append(filters, filters[f].ExtendString(s))
				for _, k := range splitCommaGo(s) {
					m[k] = true
				}
			}
			ref = append(ref, m)
			hasExtend = true
		default:
			panic("bad filter step " + st)
		}
	}
	var rows []string
	for f, flt := range filters {
		var sb strings.Builder
		for _, u := range univ {
			got := flt.Contains(u)
			if got {
				sb.WriteByte('1')
			} else {
				sb.WriteByte('0')
			}
			if got != ref[f][string(u)] {
				r.Fails = append(r.Fails, OracleFail{"C19", "filter-set", fmt.Sprintf("after %s filter #%d Contains(%q)=%v but the keys added to it say %v", c.Args[1], f, u, got, ref[f][string(u)])})
			}
		}
		rows = append(rows, sb.String())
	}
	r.Out = strings.Join(rows, "|")
	if hasExtend && addAfterExtend {
		r.Key = r.Out
	}
	return r
}
