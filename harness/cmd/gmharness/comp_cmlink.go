package main

// Component `cmlink` (property C02): inline links and images (CommonMark 0.31.2 sections 6.3 / 6.4) against a SPEC-SIDE
// reference, GM.Spec.CMLink (written from the specification text and spec.json, not from goldmark's parser/link.go;
// served by the driver as `cmspec link <hex source>` -> `<hex prescribed HTML>` or `n-a`).
//
//   op doc <hex source>   a document of paragraphs over the reference's alphabet (letters, digits, space, line ending,
//                         [ ] ( ) < > " ' \ ! / . - # ? %, control bytes 0x01-0x08); goldmark (core CommonMark,
//                         html.WithUnsafe + html.WithXHTML) converts it; bytes compared.
//   op docr <hex body>    step two, reference links: the document is body + blank line + `[a]: /u` (full, collapsed and
//                         shortcut references, label matching); driver op `cmspec linkr`.
//   op ddef <hex X>       link reference definitions (4.7): the document is `[a]: X` + blank line + `[a]` (X on one line): is it a
//                         definition, and with which destination / title; driver op `cmspec linkdef`.
//   op docq <k> <hex body> a one-paragraph body with a reference label / link text ACROSS LINES, spelled in container k (top level,
//                         block quotes, list item, lazy continuation lines) + blank line + `[a b]: /u`: the paragraph's HTML is the
//                         reference's (`cmspec linkrx`), the container only adds its tags; clause reference-link-in-container-differs.
//   op exr <i>            a spec example that is a body plus ONE link reference definition: driver op `cmspec linkrx`.
//   op ex  <i>            example i of _test/spec.json inside the scope: the REFERENCE must reproduce spec.json's html
//                         (engine comparison) and goldmark must too (oracle).
//
// Two-phase flow as `cmemph`. Clause `inline-link-differs`; confirmed deviations of goldmark are attributed to their own
// clauses (see cmlinkAttribute) and listed in KNOWN_FINDINGS.txt. Four of them (L1 pointy, L2 unbalanced parenthesis, L3 title
// without separator, L5 blank label) are REPAIRED in /repo (`fixed:` 5e850d1, ce3b6c4, 8c83fd9, fb85ad2; package
// linkfix): their clauses are still named by the attribution, but as regressions - VIOLATION and disagreement, the model's line
// is not substituted; their hand-derived inputs in cmlinkFixed are regression cases. L4 (control character) and combinations
// stay recorded findings.

import (
	"bytes"
	"fmt"
	"os"
	"regexp"
	"strconv"
	"strings"
	"sync"
)

var (
	cmlinkCache = map[string]string{}
	cmlinkMu    sync.Mutex
)

func init() {
	register(&Component{
		Name: "cmlink",
		Rule: "documents of paragraphs over the alphabet of the spec-side inline-link reference GM.Spec.CMLink; non-trivial = goldmark's HTML contains <a or <img; distinct = distinct (tag sequence, shape of the source with letters collapsed) pairs",
		Gen:  genCMLink,
		Impl: implCMLink,
		Scope: func(tier string) string {
			ni, nt, ns, nr, nd, nq := 5, 4, 6, 6, 5, 6
			if tier == "thorough" {
				ni, nt, ns, nr, nd, nq = 6, 5, 7, 7, 6, 8
			}
			return fmt.Sprintf("exhaustive: `[a](X)` for every X of length <= %d (quick: with the byte 0x01 only up to one less) and `[a](X` for every X of length <= %d over {a, space, <, >, (, ), \", \\, newline, 0x01}; `[a](b T)` and `[a](<b>T)` for every T of length <= %d over {a, space, newline, \", ', (, ), \\}; every string of length <= %d over {a, [, ], (, ), !, \\} and over {a, [, ], (, ), <, >, space} (link text shapes, nesting, images, raw HTML precedence); random strings of length 6..30; with the definition `[a]: /u` appended: every string of length <= %d over {a, b, [, ], space, \\, !} and over {a, A, [, ], (, ), newline}; definitions `[a]: X` + `[a]` for every X of length <= %d over {a, space, <, >, (, ), \", \\, 0x01} and `b T`, `<b>T` for every T of that length over {a, space, \", ', (, ), \\}; every one-paragraph string of length <= %d over {a, b, [, ], !, newline} with a line ending between brackets (reference labels / link texts across lines; definition `[a b]: /u`) spelled at top level, in a block quote (3 spellings), nested quote, bullet item, quote in an item, and with lazy continuation lines; all spec.json examples inside the scope", ni, ni-1, nt+1, ns, nr, nd, nq)
		},
		Exhaustive: true,
	})
}

func cmlinkAnswer(line string) (string, bool) {
	cmlinkMu.Lock()
	r, ok := cmlinkCache[line]
	cmlinkMu.Unlock()
	if ok {
		return r, true
	}
	rr, err := runDriver(driverPath, []string{line})
	if err != nil || len(rr) != 1 {
		return "", false
	}
	return rr[0], true
}

// cmlinkRefSuffix: step two - the fixed link reference definition that follows the body of a `docr` case
const cmlinkRefSuffix = "\n\n[a]: /u\n"

var cmlinkDefRe = []*regexp.Regexp{
	regexp.MustCompile(`(?s)^(.*)\n\n\[([^\]\[\\\n]+)\]: (\S+)(?: "([^"\n]*)")?()\n$`),
	regexp.MustCompile(`(?s)^()\[([^\]\[\\\n]+)\]: (\S+)(?: "([^"\n]*)")?\n\n(.*)$`),
}

// cmlinkSplitDef: a spec example of the shape body + blank line + ONE link reference definition (or the definition
// first) whose destination and title need no resolving: body, label, destination, title ("none" = no title)
func cmlinkSplitDef(md string) (body, lab, dest, title string, ok bool) {
	for k, re := range cmlinkDefRe {
		m := re.FindStringSubmatchIndex(md)
		if m == nil {
			continue
		}
		g := func(i int) string {
			if m[2*i] < 0 {
				return ""
			}
			return md[m[2*i]:m[2*i+1]]
		}
		body = g(1)
		if k == 1 {
			body = g(5)
		}
		lab, dest = g(2), g(3)
		title = "none"
		if m[8] >= 0 {
			title = hx([]byte(g(4)))
		}
		if strings.Contains(body, "]:") || strings.ContainsAny(dest+g(4), "\\&<") {
			return "", "", "", "", false
		}
		return body, lab, dest, title, true
	}
	return "", "", "", "", false
}

func cmlinkModelLine(c Case) string {
	switch c.Op {
	case "exr":
		i, _ := strconv.Atoi(c.Args[0])
		exs := SpecExamples()
		if i >= 0 && i < len(exs) {
			if body, lab, dest, title, ok := cmlinkSplitDef(exs[i].Markdown); ok {
				return "cmspec linkrx " + hx([]byte(body)) + " " + hx([]byte(lab)) + " " + hx([]byte(dest)) + " " + title
			}
		}
		return "cmspec bad"
	case "doc":
		return "cmspec link " + c.Args[0]
	case "docr":
		return "cmspec linkr " + c.Args[0]
	case "ddef":
		return "cmspec linkdef " + c.Args[0]
	case "docq":
		// the paragraph alone, with the definition `[a b]: /u` (label given explicitly, no title)
		return "cmspec linkrx " + c.Args[1] + " " + hx([]byte("a b")) + " " + hx([]byte("/u")) + " none"
	case "ex":
		i, _ := strconv.Atoi(c.Args[0])
		exs := SpecExamples()
		if i < 0 || i >= len(exs) {
			return "cmspec link -"
		}
		return "cmspec link " + hx([]byte(exs[i].Markdown))
	}
	return "cmspec bad"
}

func genCMLink(tier string, rng *RNG, emit func(Case)) {
	ni, nt, ns, nrand := 5, 4, 6, 30000
	nr, nd, nq := 6, 5, 6
	if tier == "thorough" {
		ni, nt, ns, nrand = 6, 5, 7, 400000
		nr, nd, nq = 7, 6, 8
	}
	var cases []Case
	seen := map[string]struct{}{}
	doc := func(s []byte) {
		if _, dup := seen[string(s)]; dup {
			return
		}
		seen[string(s)] = struct{}{}
		cases = append(cases, Case{Op: "doc", Args: []string{hx(s)}})
	}
	wrap := func(pre, post string) func([]byte) {
		return func(x []byte) { doc([]byte(pre + string(x) + post)) }
	}
	inside := syms("a", " ", "<", ">", "(", ")", "\"", "\\", "\n", "\x01")
	if tier == "thorough" {
		enumStrings(inside, ni, wrap("[a](", ")"))
	} else {
		// quick: the control byte only up to length ni-1 (most of its strings differ by the known deviation L4, and every
		// known difference costs an attribution question to the driver)
		enumStrings(inside[:len(inside)-1], ni, wrap("[a](", ")"))
		enumStrings(inside, ni-1, wrap("[a](", ")"))
	}
	enumStrings(inside, ni-1, wrap("[a](", ""))
	titles := syms("a", " ", "\n", "\"", "'", "(", ")", "\\")
	enumStrings(titles, nt+1, wrap("[a](b ", ")"))
	enumStrings(titles, nt, wrap("[a](<b>", ")"))
	enumStrings(titles, nt, wrap("![a](b", ")"))
	enumStrings(syms("a", "[", "]", "(", ")", "!", "\\"), ns, doc)
	enumStrings(syms("a", "[", "]", "(", ")", "<", ">", " "), ns, doc)
	alph := syms("a", "b", " ", " ", "[", "[", "]", "]", "(", "(", ")", ")", "](", "<", ">", "\"", "'", "\\", "!", "![", "\n", "/", ".", "\x01", "](<", "\\)", "\\]")
	for i := 0; i < nrand; i++ {
		n := 6 + rng.Intn(25)
		var b []byte
		for len(b) < n {
			b = append(b, alph[rng.Intn(len(alph))]...)
		}
		doc(b)
	}
	// step two: reference links (full, collapsed, shortcut; label matching) against the fixed definition `[a]: /u`
	seenR := map[string]struct{}{}
	docr := func(s []byte) {
		if _, dup := seenR[string(s)]; dup {
			return
		}
		seenR[string(s)] = struct{}{}
		cases = append(cases, Case{Op: "docr", Args: []string{hx(s)}})
	}
	enumStrings(syms("a", "b", "[", "]", " ", "\\", "!"), nr, docr)
	enumStrings(syms("a", "A", "[", "]", "(", ")", "\n"), nr, docr)
	for i := 0; i < nrand/3; i++ {
		n := 4 + rng.Intn(20)
		var b []byte
		for len(b) < n {
			b = append(b, alph[rng.Intn(len(alph))]...)
		}
		docr(b)
	}
	// reference labels / link texts ACROSS LINES inside containers (6.3: a label may contain line endings, matching collapses
	// them; 5.1 / 5.2: the container's marker or indentation is not part of the paragraph's content): one paragraph over
	// {a, b, [, ], !, newline} with a line ending between brackets, definition `[a b]: /u`, spelled at top level, in a block
	// quote, in a nested quote, in a bullet item, and with lazy continuation lines (quote and item)
	enumStrings(syms("a", "b", "[", "]", "!", "\n"), nq, func(b []byte) {
		if !cmlinkMultiLineLabel(b) {
			return
		}
		for k := range cmlinkContainers {
			cases = append(cases, Case{Op: "docq", Args: []string{strconv.Itoa(k), hx(b)}})
		}
	})
	for _, f := range []string{"[A\nb]", "[a\nB][]", "![a\nb]", "![a\nb][]", "[x][a\nb]", "![x\ny][a\nB]", "[b\na][a\nb]", "a [a\nb] b\n[a\nb][]"} {
		for k := range cmlinkContainers {
			cases = append(cases, Case{Op: "docq", Args: []string{strconv.Itoa(k), hx([]byte(f))}})
		}
	}
	// link reference DEFINITIONS (4.7; goldmark's parseLinkDestination is shared with inline links): `[a]: X` + blank line + `[a]`
	enumStrings(syms("a", " ", "<", ">", "(", ")", "\"", "\\", "\x01"), nd, func(x []byte) {
		cases = append(cases, Case{Op: "ddef", Args: []string{hx(x)}})
	})
	enumStrings(syms("a", " ", "\"", "'", "(", ")", "\\"), nd, func(x []byte) {
		cases = append(cases, Case{Op: "ddef", Args: []string{hx(append([]byte("b "), x...))}})
		cases = append(cases, Case{Op: "ddef", Args: []string{hx(append([]byte("<b>"), x...))}})
	})
	for i := range cmlinkFixed {
		emit(Case{Op: "fixed", Args: []string{strconv.Itoa(i)}})
	}
	for i, e := range SpecExamples() {
		cases = append(cases, Case{Op: "ex", Args: []string{strconv.Itoa(i)}})
		if _, _, _, _, ok := cmlinkSplitDef(e.Markdown); ok && (e.Section == "Links" || e.Section == "Images") {
			cases = append(cases, Case{Op: "exr", Args: []string{strconv.Itoa(i)}})
		}
	}
	if noModel {
		return
	}
	lines := make([]string, len(cases))
	for i, c := range cases {
		lines[i] = cmlinkModelLine(c)
	}
	resp, err := runDriverParallel(driverPath, lines)
	if err != nil {
		emit(Case{Op: "doc", Args: []string{hx([]byte("[a](b)"))}})
		return
	}
	cmlinkMu.Lock()
	for i, l := range lines {
		cmlinkCache[l] = resp[i]
	}
	cmlinkMu.Unlock()
	for i, c := range cases {
		if resp[i] == "n-a" || resp[i] == "bad-op" {
			continue
		}
		emit(c)
	}
}

// cmlinkFixed: hand-derived inputs of confirmed deviations (source, prescribed HTML, clause); see notes/status_C02.md round 4.
// L1, L2, L3, L5 are repaired: regression cases (a failure is a VIOLATION); L4 is a recorded finding.
var cmlinkFixed = [][3]string{
	// L1 (6.3, first form of a destination: "no line endings or unescaped < or > characters"; cf. examples 491, 493)
	{"[a](<b<c>)", "<p>[a](&lt;b<c>)</p>\n", "link-destination-pointy-differs"},
	{"[a](<<>)", "<p>[a](&lt;&lt;&gt;)</p>\n", "link-destination-pointy-differs"},
	// L2 (second form: parentheses only "if (a) they are backslash-escaped or (b) they are part of a balanced pair"; cf. example 497)
	{"[a](b(c )", "<p>[a](b(c )</p>\n", "link-destination-unbalanced-paren-differs"},
	{"[a](( \"t\")", "<p>[a](( &quot;t&quot;)</p>\n", "link-destination-unbalanced-paren-differs"},
	// L3 ("If both link destination and link title are present, they must be separated by spaces, tabs, and up to one line ending")
	{"[a](<b>\"t\")", "<p>[a](<b>&quot;t&quot;)</p>\n", "link-title-without-separator-differs"},
	{"[a](<>(t))", "<p>[a](&lt;&gt;(t))</p>\n", "link-title-without-separator-differs"},
	// L4 (second form: "does not include ASCII control characters or space character"; cf. examples 488, 490)
	{"[a](b\x01c)", "<p>[a](b\x01c)</p>\n", "link-destination-control-char-differs"},
	{"[a](\x01)", "<p>[a](\x01)</p>\n", "link-destination-control-char-differs"},
	// L5 (link label: "Between these brackets there must be at least one character that is not a space, tab, or line ending";
	// a collapsed reference is a link label followed by the string `[]`; so `[a]` here is a shortcut reference, cf. example 565 ff.)
	{"[a][ ]\n\n[a]: /u\n", "<p><a href=\"/u\">a</a>[ ]</p>\n", "link-label-blank-differs"},
	{"![a][\n]\n\n[a]: /u\n", "<p><img src=\"/u\" alt=\"a\" />[\n]</p>\n", "link-label-blank-differs"},
}

func cmlinkKey(src, got []byte) string {
	if !bytes.Contains(got, []byte("<a ")) && !bytes.Contains(got, []byte("<img ")) {
		return ""
	}
	shape := make([]byte, 0, len(src))
	for _, c := range src {
		if (c >= 'a' && c <= 'z') || (c >= 'A' && c <= 'Z') || (c >= '0' && c <= '9') {
			if n := len(shape); n > 0 && shape[n-1] == 'a' {
				continue
			}
			c = 'a'
		}
		shape = append(shape, c)
	}
	if len(shape) > 40 {
		shape = shape[:40]
	}
	return tagSeq(got, 12) + "|" + string(shape)
}

func implCMLink(c Case) ImplResult {
	if c.Op == "fixed" {
		i, _ := strconv.Atoi(c.Args[0])
		if i < 0 || i >= len(cmlinkFixed) {
			return ImplResult{Out: "bad-op", NoModel: true}
		}
		src, want := []byte(cmlinkFixed[i][0]), []byte(cmlinkFixed[i][1])
		got := cmspecConvert(src)
		res := ImplResult{Out: "ok", NoModel: true, Key: "fixed|" + c.Args[0]}
		if !bytes.Equal(got, want) {
			res.Fails = append(res.Fails, OracleFail{Property: "C02", Clause: cmlinkFixed[i][2],
				Detail: fmt.Sprintf("hand-derived case %d: source=%q goldmark=%q CommonMark 6.3 prescribes=%q", i, src, got, want)})
		}
		return res
	}
	line := cmlinkModelLine(c)
	ans, ok := cmlinkAnswer(line)
	if !ok {
		return ImplResult{Out: "driver-unavailable", NoModel: true, Fails: []OracleFail{{Property: "C02", Clause: "assumption:generator-unavailable", Detail: line}}}
	}
	res := ImplResult{ModelLine: line}
	if ans == "n-a" || ans == "bad-op" {
		res.Out = ans
		return res
	}
	want := unhx(ans)
	var src, got []byte
	switch c.Op {
	case "doc":
		src = unhx(c.Args[0])
		got = cmspecConvert(src)
		res.Out = hx(got)
	case "docr":
		src = append(unhx(c.Args[0]), []byte(cmlinkRefSuffix)...)
		got = cmspecConvert(src)
		res.Out = hx(got)
	case "ddef":
		src = append(append([]byte("[a]: "), unhx(c.Args[0])...), []byte("\n\n[a]\n")...)
		got = cmspecConvert(src)
		res.Out = hx(got)
	case "docq":
		k, _ := strconv.Atoi(c.Args[0])
		if k < 0 || k >= len(cmlinkContainers) || len(c.Args) < 2 {
			return ImplResult{Out: "bad-op"}
		}
		ct := cmlinkContainers[k]
		src = append(ct.spell(unhx(c.Args[1])), []byte("\n\n[a b]: /u\n")...)
		got = cmspecConvert(src)
		// the reference prescribes the paragraph `<p>X</p>\n`; the container adds its tags (5.1 example 228 ff., 5.2 / 5.3 tight item)
		inner := bytes.TrimSuffix(bytes.TrimPrefix(want, []byte("<p>")), []byte("</p>\n"))
		if !bytes.HasPrefix(want, []byte("<p>")) || !bytes.HasSuffix(want, []byte("</p>\n")) || bytes.Contains(inner, []byte("<p>")) {
			return ImplResult{Out: "n-a", ModelLine: line, NoModel: true} // not a single paragraph
		}
		want = []byte(ct.pre + string(ct.para(inner)) + ct.post)
		if bytes.HasPrefix(got, []byte(ct.pre)) && bytes.HasSuffix(got, []byte(ct.post)) && len(got) >= len(ct.pre)+len(ct.post) {
			g := got[len(ct.pre) : len(got)-len(ct.post)]
			if ct.tight {
				g = append(append([]byte("<p>"), g...), []byte("</p>\n")...)
			}
			res.Out = hx(g)
		} else {
			res.Out = "other-block-structure:" + hx(got)
		}
	case "ex", "exr":
		i, _ := strconv.Atoi(c.Args[0])
		e := SpecExamples()[i]
		src = []byte(e.Markdown)
		got = cmspecConvert(src)
		res.Out = hx([]byte(e.HTML))
		if c.Op == "exr" {
			res.Stats = append(res.Stats, "spec_examples_with_one_definition_in_scope")
		} else {
			res.Stats = append(res.Stats, "spec_examples_in_scope")
		}
		if c.Op == "ex" && (e.Section == "Links" || e.Section == "Images") {
			res.Stats = append(res.Stats, "spec_examples_in_scope_sections_6_3_6_4")
		}
		want = []byte(e.HTML)
	default:
		return ImplResult{Out: "bad-op"}
	}
	res.Key = cmlinkKey(src, got)
	if !bytes.Equal(got, want) {
		clause, known := cmlinkAttribute(c, src, got, want)
		if known && c.Op != "ex" {
			res.Out = ans
		}
		if f := os.Getenv("CMLINK_DUMP"); f != "" {
			cmlinkMu.Lock()
			if fh, err := os.OpenFile(f, os.O_APPEND|os.O_CREATE|os.O_WRONLY, 0o644); err == nil {
				fmt.Fprintf(fh, "%s\t%q\t%q\t%q\n", clause, src, got, want)
				fh.Close()
			}
			cmlinkMu.Unlock()
		}
		res.Fails = append(res.Fails, OracleFail{Property: "C02", Clause: clause,
			Detail: fmt.Sprintf("source=%q goldmark=%q CommonMark 6.3/6.4 prescribes=%q", src, got, want)})
	}
	return res
}

// cmlinkContainers: how the paragraph of a `docq` case is spelled inside a container and what the container adds to the HTML
type cmlinkContainer struct {
	name      string
	first     string // prefix of the first line
	cont      string // prefix of the following lines ("" = lazy continuation lines where the first prefix is not empty)
	pre, post string
	tight     bool // the paragraph is the only child of a tight list item: no <p> tags
}

func (ct cmlinkContainer) spell(body []byte) []byte {
	lines := bytes.Split(body, []byte("\n"))
	var out []byte
	for i, l := range lines {
		if i == 0 {
			out = append(out, ct.first...)
		} else {
			out = append(out, '\n')
			out = append(out, ct.cont...)
		}
		out = append(out, l...)
	}
	return out
}

func (ct cmlinkContainer) para(inner []byte) []byte {
	if ct.tight {
		return inner
	}
	return append(append([]byte("<p>"), inner...), []byte("</p>\n")...)
}

var cmlinkContainers = []cmlinkContainer{
	{"top level", "", "", "", "", false},
	{"block quote", "> ", "> ", "<blockquote>\n", "</blockquote>\n", false},
	{"block quote, marker without space", ">", ">", "<blockquote>\n", "</blockquote>\n", false},
	{"nested block quote", "> > ", "> > ", "<blockquote>\n<blockquote>\n", "</blockquote>\n</blockquote>\n", false},
	{"block quote, lazy continuation lines", "> ", "", "<blockquote>\n", "</blockquote>\n", false},
	{"bullet list item", "- ", "  ", "<ul>\n<li>", "</li>\n</ul>\n", true},
	{"bullet list item, lazy continuation lines", "- ", "", "<ul>\n<li>", "</li>\n</ul>\n", true},
	{"block quote in a list item", "- > ", "  > ", "<ul>\n<li>\n<blockquote>\n", "</blockquote>\n</li>\n</ul>\n", false},
}

// cmlinkMultiLineLabel: the body is one paragraph (no empty line, no line ending at either end), has a line ending between
// an opening and a closing bracket, and no blank label `[⏎]` (deviation L5)
func cmlinkMultiLineLabel(b []byte) bool {
	if len(b) == 0 || b[0] == '\n' || b[len(b)-1] == '\n' || bytes.Contains(b, []byte("\n\n")) || bytes.Contains(b, []byte("[\n]")) {
		return false
	}
	i := bytes.IndexByte(b, '[')
	j := bytes.LastIndexByte(b, ']')
	if i < 0 || j < i {
		return false
	}
	return bytes.IndexByte(b[i:j], '\n') >= 0
}

// cmlinkAttribute names the clause of a difference. The reference can be asked to REPRODUCE four confirmed deviations
// of goldmark's inline-link scanner (driver op `cmspec linkattr <hex source> <hex got>`; bit 1 control character accepted in a
// destination, 2 destination may end at white space with an open parenthesis, 4 unescaped `<` inside `<...>`, 8 title
// directly after the destination): the smallest set of switches under which the reference's output equals goldmark's
// names the clause. known = attributed to recorded deviations (each clause needs its `finding:` line to be tolerated).
func cmlinkAttribute(c Case, src, got, want []byte) (string, bool) {
	if c.Op == "docq" {
		return "reference-link-in-container-differs", false
	}
	refA, body := "0", src
	if c.Op == "docr" {
		refA, body = "1", unhx(c.Args[0])
	} else if c.Op == "ddef" {
		refA, body = "2", unhx(c.Args[0])
	}
	// the deviation G1 of component cmemph (escape state kept across `backslash, two spaces, line ending`): respelling
	// the hard break with three spaces has the same prescribed HTML and avoids it
	if (c.Op == "doc" || c.Op == "docr") && cmemphBsBreak.Match(body) {
		altBody := cmemphBsBreak.ReplaceAll(body, []byte("$1\\   \n"))
		q, alt := "cmspec link "+hx(altBody), altBody
		if c.Op == "docr" {
			q, alt = "cmspec linkr "+hx(altBody), append(append([]byte{}, altBody...), []byte(cmlinkRefSuffix)...)
		}
		if a, ok := cmlinkAnswer(q); ok && a == hx(want) && bytes.Equal(cmspecConvert(alt), want) {
			return "escape-after-backslash-spaces-break-differs", false // repaired (24c9f23): a regression, not a known deviation
		}
	}
	a, err := cmspecAskOne("cmspec linkattr " + refA + " " + hx(body) + " " + hx(got))
	if err != nil {
		return "inline-link-differs", false
	}
	switch a {
	case "1":
		return "link-destination-control-char-differs", true
	case "2":
		return "link-destination-unbalanced-paren-differs", false // repaired (ce3b6c4): a regression
	case "4":
		return "link-destination-pointy-differs", false // repaired (5e850d1): a regression
	case "8":
		return "link-title-without-separator-differs", false // repaired (8c83fd9): a regression
	case "16":
		return "link-label-blank-differs", false // repaired (fb85ad2): a regression
	case "none", "bad-op":
		return "inline-link-differs", false
	}
	return "several-link-deviations-combined", true
}
