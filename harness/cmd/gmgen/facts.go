package main

// genFacts is filled in by facts extraction (see facts_*.go); placeholder keeps gmgen buildable.
func genFacts(repo, out string) {
	for _, f := range factGenerators {
		f(repo, out)
	}
}

var factGenerators []func(repo, out string)
