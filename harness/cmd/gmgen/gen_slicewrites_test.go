package main

// Self-test of the origin analysis of gen_slicewrites.go: testdata/slicewrites_probe.go.txt holds small functions
// (loops that re-assign after the write, break / continue / labelled continue, closures assigning captured
// variables, deferred closures, swaps, shadowing, select / switch / fallthrough, buffers constructed over a
// parameter, result summaries of helpers, the clipped-append idiom) whose write sites carry `// WANT <class>`.
// The probe file is added to a copy (symlinks) of the goldmark tree as util/zz_probe.go and analysed with it.
//   GOLDMARK_DIR=/repo go test ./cmd/gmgen

import (
	"os"
	"path/filepath"
	"regexp"
	"strings"
	"testing"
)

func TestSliceWriteOrigins(t *testing.T) {
	repo := os.Getenv("GOLDMARK_DIR")
	if repo == "" {
		repo = "/repo"
	}
	tmp := t.TempDir()
	for _, d := range swDirs {
		src := filepath.Join(repo, d.dir)
		dst := filepath.Join(tmp, d.dir)
		if err := os.MkdirAll(dst, 0o755); err != nil {
			t.Fatal(err)
		}
		ents, err := os.ReadDir(src)
		if err != nil {
			t.Skipf("no goldmark tree at %s: %v", repo, err)
		}
		for _, e := range ents {
			if !e.IsDir() && strings.HasSuffix(e.Name(), ".go") && !strings.HasSuffix(e.Name(), "_test.go") {
				if err := os.Symlink(filepath.Join(src, e.Name()), filepath.Join(dst, e.Name())); err != nil {
					t.Fatal(err)
				}
			}
		}
	}
	probe, err := os.ReadFile("testdata/slicewrites_probe.go.txt")
	if err != nil {
		t.Fatal(err)
	}
	if err := os.WriteFile(filepath.Join(tmp, "util", "zz_probe.go"), probe, 0o644); err != nil {
		t.Fatal(err)
	}
	a, err := swAnalyse(tmp)
	if err != nil {
		t.Fatal(err)
	}
	if len(a.l.errs) > 0 {
		t.Fatalf("type errors: %v", a.l.errs[0])
	}
	want := map[int]string{}
	re := regexp.MustCompile(`// WANT (\w+)`)
	for i, l := range strings.Split(string(probe), "\n") {
		if m := re.FindStringSubmatch(l); m != nil {
			want[i+1] = m[1]
		}
	}
	got := map[int][]string{}
	for _, f := range a.funcs {
		for _, s := range f.sites {
			if s.file == "zz_probe.go" {
				c := s.cls
				if c == "cparam" { // the probe functions are unexported and uncalled
					c = "param"
				}
				got[s.line] = append(got[s.line], c)
			}
		}
	}
	if len(want) < 30 {
		t.Fatalf("only %d expectations found", len(want))
	}
	for line, w := range want {
		g := got[line]
		if len(g) == 0 {
			t.Errorf("line %d: no site recorded, want %s", line, w)
		}
		for _, c := range g {
			if c != w {
				t.Errorf("line %d: class %s, want %s", line, c, w)
			}
		}
	}
	for line, g := range got {
		if _, ok := want[line]; !ok {
			t.Errorf("line %d: unexpected site(s) %v", line, g)
		}
	}
}
