package main

// Shared-state write facts (C06, C07): every statement that writes through the receiver of a method of a
// long-lived object (parser, renderer, markdown, the block/inline parser and transformer singletons, the
// node renderers and their configs), and every write to a package-level variable, with the enclosing
// function and whether the statement sits inside a closure passed to (sync.Once).Do.
// Purely syntactic (go/ast); what it cannot see is listed in DESIGN.md (writes through interfaces,
// reflection, aliases of the receiver).

import (
	"fmt"
	"go/ast"
	"go/token"
	"path/filepath"
	"sort"
	"strings"
)

func init() { factGenerators = append(factGenerators, genStateFacts) }

type writeSite struct {
	pkg, typ, fn, target string
	inOnce               bool
	line                 int
}

// per-document or value-like receiver types: writes through them are not shared state
var perCallTypes = map[string]bool{
	"parseContext": true, "ids": true, "reference": true, "Delimiter": true, "linkLabelState": true,
	"CopyOnWriteBuffer": true, "bytesFilter": true, "PrioritizedSlice": true, "Segments": true, "Segment": true,
	"reader": true, "blockReader": true, "escapedPipeCell": true, "BaseNode": true, "BaseBlock": true, "BaseInline": true,
	"Attributes": true, "unclosedCounter": true,
}

// methods of sync / sync/atomic values that change them
var mutatingMethods = map[string]bool{"Store": true, "Swap": true, "CompareAndSwap": true, "LoadOrStore": true, "LoadAndDelete": true,
	"Delete": true, "Add": true, "Put": true, "Lock": true, "Unlock": true, "RLock": true, "RUnlock": true, "CompareAndDelete": true, "Clear": true}

// packages whose receiver types are all per-document values (AST nodes, readers): only package-level writes count
var nodePkgs = map[string]bool{"ast": true, "east": true, "text": true}

func recvInfo(fd *ast.FuncDecl) (name, typ string) {
	if fd.Recv == nil || len(fd.Recv.List) == 0 {
		return "", ""
	}
	f := fd.Recv.List[0]
	if len(f.Names) > 0 {
		name = f.Names[0].Name
	}
	t := f.Type
	if st, ok := t.(*ast.StarExpr); ok {
		t = st.X
	}
	if id, ok := t.(*ast.Ident); ok {
		typ = id.Name
	}
	return
}

// root identifier and dotted path of an lvalue
func lvalueRoot(e ast.Expr) (*ast.Ident, string) {
	switch x := e.(type) {
	case *ast.Ident:
		return x, x.Name
	case *ast.SelectorExpr:
		r, p := lvalueRoot(x.X)
		return r, p + "." + x.Sel.Name
	case *ast.IndexExpr:
		r, p := lvalueRoot(x.X)
		return r, p + "[]"
	case *ast.StarExpr:
		return lvalueRoot(x.X)
	case *ast.ParenExpr:
		return lvalueRoot(x.X)
	}
	return nil, ""
}

func onceFields(p *pkgFiles) (fields map[string]bool, vars map[string]bool) {
	fields, vars = map[string]bool{}, map[string]bool{}
	isOnce := func(t ast.Expr) bool {
		se, ok := t.(*ast.SelectorExpr)
		if !ok {
			return false
		}
		id, ok := se.X.(*ast.Ident)
		return ok && id.Name == "sync" && se.Sel.Name == "Once"
	}
	for _, f := range p.files {
		ast.Inspect(f, func(n ast.Node) bool {
			switch x := n.(type) {
			case *ast.StructType:
				for _, fl := range x.Fields.List {
					if isOnce(fl.Type) {
						for _, nm := range fl.Names {
							fields[nm.Name] = true
						}
					}
				}
			case *ast.ValueSpec:
				if x.Type != nil && isOnce(x.Type) {
					for _, nm := range x.Names {
						vars[nm.Name] = true
					}
				}
			}
			return true
		})
	}
	return
}

func pkgLevelVars(p *pkgFiles) map[string]bool {
	r := map[string]bool{}
	for _, f := range p.files {
		for _, d := range f.Decls {
			gd, ok := d.(*ast.GenDecl)
			if !ok || gd.Tok != token.VAR {
				continue
			}
			for _, s := range gd.Specs {
				for _, nm := range s.(*ast.ValueSpec).Names {
					r[nm.Name] = true
				}
			}
		}
	}
	return r
}

func collectWrites(p *pkgFiles, pkg string) []writeSite {
	var sites []writeSite
	ofields, ovars := onceFields(p)
	gvars := pkgLevelVars(p)
	var fnames []string
	for n := range p.files {
		fnames = append(fnames, n)
	}
	sort.Strings(fnames)
	for _, fname := range fnames {
		file := p.files[fname]
		for _, d := range file.Decls {
			fd, ok := d.(*ast.FuncDecl)
			if !ok || fd.Body == nil {
				continue
			}
			recv, typ := recvInfo(fd)
			fn := fd.Name.Name
			// locals shadowing package-level names
			locals := map[string]bool{}
			ast.Inspect(fd, func(n ast.Node) bool {
				switch x := n.(type) {
				case *ast.AssignStmt:
					if x.Tok == token.DEFINE {
						for _, l := range x.Lhs {
							if id, ok := l.(*ast.Ident); ok {
								locals[id.Name] = true
							}
						}
					}
				case *ast.Field:
					for _, nm := range x.Names {
						locals[nm.Name] = true
					}
				case *ast.ValueSpec:
					for _, nm := range x.Names {
						locals[nm.Name] = true
					}
				case *ast.RangeStmt:
					if x.Tok == token.DEFINE {
						if id, ok := x.Key.(*ast.Ident); ok {
							locals[id.Name] = true
						}
						if id, ok := x.Value.(*ast.Ident); ok {
							locals[id.Name] = true
						}
					}
				}
				return true
			})
			record := func(lhs ast.Expr, inOnce bool) {
				root, path := lvalueRoot(lhs)
				if root == nil {
					return
				}
				line := p.fset.Position(lhs.Pos()).Line
				if recv != "" && root.Name == recv && path != recv && !perCallTypes[typ] && !nodePkgs[pkg] {
					sites = append(sites, writeSite{pkg, typ, fn, strings.TrimPrefix(path, recv+"."), inOnce, line})
				} else if gvars[root.Name] && !locals[root.Name] && root.Name != recv {
					sites = append(sites, writeSite{pkg, "<package>", fn, path, inOnce, line})
				}
			}
			recordCall := func(x ast.Expr, method string, inOnce bool) {
				root, path := lvalueRoot(x)
				if root == nil {
					return
				}
				if recv != "" && root.Name == recv && path != recv && !perCallTypes[typ] && !nodePkgs[pkg] {
					sites = append(sites, writeSite{pkg, typ, fn, strings.TrimPrefix(path, recv+".") + "." + method + "()", inOnce, 0})
				} else if gvars[root.Name] && !locals[root.Name] && root.Name != recv {
					sites = append(sites, writeSite{pkg, "<package>", fn, path + "." + method + "()", inOnce, 0})
				}
			}
			var walk func(n ast.Node, inOnce bool)
			walk = func(n ast.Node, inOnce bool) {
				ast.Inspect(n, func(m ast.Node) bool {
					switch x := m.(type) {
					case *ast.CallExpr:
						if se, ok := x.Fun.(*ast.SelectorExpr); ok && se.Sel.Name == "Do" && len(x.Args) == 1 {
							if fl, ok := x.Args[0].(*ast.FuncLit); ok {
								isOnce := false
								switch ox := se.X.(type) {
								case *ast.SelectorExpr:
									isOnce = ofields[ox.Sel.Name]
								case *ast.Ident:
									isOnce = ovars[ox.Name]
								}
								if isOnce {
									walk(fl.Body, true)
									return false
								}
							}
						}
						if id, ok := x.Fun.(*ast.Ident); ok && id.Name == "delete" && len(x.Args) == 2 {
							record(x.Args[0], inOnce)
						}
						// mutating method calls on a field / package variable (sync.Map.Store, atomic.Pointer.Store, sync.Pool.Put, ...)
						if se, ok := x.Fun.(*ast.SelectorExpr); ok && mutatingMethods[se.Sel.Name] {
							if root, path := lvalueRoot(se.X); root != nil && path != root.Name || (root != nil && gvars[root.Name] && !locals[root.Name]) {
								recordCall(se.X, se.Sel.Name, inOnce)
							}
						}
					case *ast.AssignStmt:
						if x.Tok != token.DEFINE {
							for _, l := range x.Lhs {
								record(l, inOnce)
							}
						}
					case *ast.IncDecStmt:
						record(x.X, inOnce)
					}
					return true
				})
			}
			walk(fd.Body, false)
		}
	}
	return sites
}

type syncDecl struct{ pkg, owner, name, typ string }

func syncTypeName(t ast.Expr) string {
	switch x := t.(type) {
	case *ast.SelectorExpr:
		if id, ok := x.X.(*ast.Ident); ok && (id.Name == "sync" || id.Name == "atomic") {
			return id.Name + "." + x.Sel.Name
		}
	case *ast.IndexExpr: // atomic.Pointer[T]
		return syncTypeName(x.X)
	case *ast.StarExpr:
		return syncTypeName(x.X)
	}
	return ""
}

func collectSyncDecls(p *pkgFiles, pkg string) []syncDecl {
	var r []syncDecl
	var fnames []string
	for n := range p.files {
		fnames = append(fnames, n)
	}
	sort.Strings(fnames)
	for _, fname := range fnames {
		for _, d := range p.files[fname].Decls {
			gd, ok := d.(*ast.GenDecl)
			if !ok {
				continue
			}
			for _, sp := range gd.Specs {
				switch x := sp.(type) {
				case *ast.TypeSpec:
					st, ok := x.Type.(*ast.StructType)
					if !ok {
						continue
					}
					for _, fl := range st.Fields.List {
						if tn := syncTypeName(fl.Type); tn != "" {
							for _, nm := range fl.Names {
								r = append(r, syncDecl{pkg, x.Name.Name, nm.Name, tn})
							}
							if len(fl.Names) == 0 {
								r = append(r, syncDecl{pkg, x.Name.Name, "<embedded>", tn})
							}
						}
					}
				case *ast.ValueSpec:
					if gd.Tok != token.VAR {
						continue
					}
					tn := ""
					if x.Type != nil {
						tn = syncTypeName(x.Type)
					}
					for _, v := range x.Values {
						if cl, ok := v.(*ast.CompositeLit); ok && tn == "" {
							tn = syncTypeName(cl.Type)
						}
						if ue, ok := v.(*ast.UnaryExpr); ok && tn == "" {
							if cl, ok := ue.X.(*ast.CompositeLit); ok {
								tn = syncTypeName(cl.Type)
							}
						}
					}
					if tn != "" {
						for _, nm := range x.Names {
							r = append(r, syncDecl{pkg, "<package>", nm.Name, tn})
						}
					}
				}
			}
		}
	}
	return r
}

func genStateFacts(repo, out string) {
	var sites []writeSite
	var syncs []syncDecl
	for _, d := range []struct{ dir, pkg string }{
		{".", "goldmark"}, {"parser", "parser"}, {"renderer", "renderer"}, {"renderer/html", "html"},
		{"extension", "extension"}, {"util", "util"}, {"ast", "ast"}, {"text", "text"}, {"extension/ast", "east"},
	} {
		pf := parseDir(filepath.Join(repo, d.dir))
		sites = append(sites, collectWrites(pf, d.pkg)...)
		syncs = append(syncs, collectSyncDecls(pf, d.pkg)...)
	}
	var sb strings.Builder
	sb.WriteString(header)
	sb.WriteString("namespace GM.Gen\n\n")
	sb.WriteString("/-- a write through a long-lived receiver or to a package-level variable -/\n")
	sb.WriteString("structure WriteSite where\n  pkg : String\n  typ : String\n  fn : String\n  target : String\n  inOnce : Bool\nderiving Repr, DecidableEq\n\n")
	sb.WriteString("def sharedWrites : List WriteSite := [\n")
	for i, s := range sites {
		sep := ","
		if i == len(sites)-1 {
			sep = ""
		}
		fmt.Fprintf(&sb, "  ⟨%q, %q, %q, %q, %v⟩%s\n", s.pkg, s.typ, s.fn, s.target, s.inOnce, sep)
	}
	sb.WriteString("]\n\n/-- every struct field / package variable whose type comes from sync or sync/atomic: (package, owner, name, type) -/\n")
	sb.WriteString("def syncDecls : List (String × String × String × String) := [\n")
	for i, s := range syncs {
		sep := ","
		if i == len(syncs)-1 {
			sep = ""
		}
		fmt.Fprintf(&sb, "  (%q, %q, %q, %q)%s\n", s.pkg, s.owner, s.name, s.typ, sep)
	}
	sb.WriteString("]\n\nend GM.Gen\n")
	writeIfChanged(filepath.Join(out, "StateFacts.lean"), []byte(sb.String()))
}
