package main

// Self-test of gen_consts.go on a small probe package: evaluation of regexp sources built from package-level
// strings, refusal when such a string is assigned anywhere, sorted string sets, normalisation of comparisons
// (literal on the right, operator flipped, char = int), write / other contexts of string literals, exclusion of
// files behind a build tag.   go test ./cmd/gmgen -run TestConstFacts

import (
	"fmt"
	"go/ast"
	"os"
	"path/filepath"
	"reflect"
	"strings"
	"testing"
)

const constProbe = `package probe

import "regexp"

var part = "[a-z]+"
var mutable = "x"
var okRe = regexp.MustCompile("^" + part + ` + "`\\d`" + ` + (part))
var badRe = regexp.MustCompile("^" + mutable)

var tags = map[string]bool{"b": true, "a": true, "c": false}
var closer = []byte{'-', '-', '>'}

const (
	kA = iota + 1
	kB
)

type W struct{}

func (W) WriteString(s string) {}
func (W) WriteByte(b byte)     {}

func f(n int, c byte, w W) bool {
	mutable = "y"
	if 3 < n || n > 999 || c == '-' || c == 0x2d || n == kB {
		w.WriteString("<p>")
		w.WriteByte('>')
		return "lit" == "lit"
	}
	return g(n, 4)[1:] == nil
}

func g(n, m int) []int { return nil }
`

const constProbeTagged = `//go:build verif

package probe

import "regexp"

var hookRe = regexp.MustCompile("hook")
`

func TestConstFacts(t *testing.T) {
	tmp := t.TempDir()
	dir := filepath.Join(tmp, "probe")
	if err := os.MkdirAll(dir, 0o755); err != nil {
		t.Fatal(err)
	}
	if err := os.WriteFile(filepath.Join(dir, "probe.go"), []byte(constProbe), 0o644); err != nil {
		t.Fatal(err)
	}
	if err := os.WriteFile(filepath.Join(dir, "hook_verif.go"), []byte(constProbeTagged), 0o644); err != nil {
		t.Fatal(err)
	}
	c := loadConstPkg(tmp, "probe", "probe")
	if _, ok := c.vals["hookRe"]; ok {
		t.Errorf("a file behind a build tag was read")
	}
	arg := func(name string) ast.Expr { return c.vals[name].(*ast.CallExpr).Args[0] }
	if pat, ok := c.evalString(arg("okRe"), 0); !ok || pat != `^[a-z]+\d[a-z]+` {
		t.Errorf("okRe: %q %v", pat, ok)
	}
	if pat, ok := c.evalString(arg("badRe"), 0); ok {
		t.Errorf("badRe is built from a string that is assigned in f, yet evaluated to %q", pat)
	}
	if c.ints["kA"] != 1 || c.ints["kB"] != 2 {
		t.Errorf("iota block: %v", c.ints)
	}
	var fd *ast.FuncDecl
	for _, d := range c.p.files["probe.go"].Decls {
		if x, ok := d.(*ast.FuncDecl); ok && x.Name.Name == "f" {
			fd = x
		}
	}
	ff := c.collectFunc("f", fd.Body)
	var ints, strs []string
	for _, l := range ff.ints {
		ints = append(ints, fmt.Sprintf("%s %d", l.op, l.n))
	}
	for _, l := range ff.strs {
		strs = append(strs, l.op+":"+l.str)
	}
	wantInts := []string{"== 2", "== 45", "== 45", "> 3", "> 999", "arg:WriteByte 62", "arg:g 4", "slice-lo 1"}
	wantStrs := []string{"other:lit", "other:lit", "other:y", "write:<p>", "write:>"}
	if !reflect.DeepEqual(ints, wantInts) {
		t.Errorf("integer literals of f: %v, want %v", ints, wantInts)
	}
	if !reflect.DeepEqual(strs, wantStrs) {
		t.Errorf("string literals of f: %v, want %v", strs, wantStrs)
	}
	// the whole generator on the probe tree: runs, and the set is sorted
	out := filepath.Join(tmp, "out")
	if err := os.MkdirAll(out, 0o755); err != nil {
		t.Fatal(err)
	}
	save := constPkgs
	constPkgs = [][2]string{{"probe", "probe"}}
	defer func() { constPkgs = save }()
	genConstFacts(tmp, out)
	txt, err := os.ReadFile(filepath.Join(out, "Consts.extracted.txt"))
	if err != nil {
		t.Fatal(err)
	}
	for _, want := range []string{
		`stringSet probe.tags understood=true ["a" "b" "c=false"]`,
		`byteConst probe.closer "-->"`,
		`regexp probe.badRe understood=false`,
		"regexp probe.okRe understood=true \"^[a-z]+\\\\d[a-z]+\"",
	} {
		if !strings.Contains(string(txt), want) {
			t.Errorf("extracted table lacks %q:\n%s", want, txt)
		}
	}
}
