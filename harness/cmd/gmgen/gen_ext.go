package main

// Extension facts (C11): what the code SAYS about trigger bytes and registrations, read with go/ast only.
//   parserTriggers   for every type in parser/*.go and extension/*.go with a `Trigger() []byte` method: the byte
//                    literals of the returned composite literal (`return nil` = no trigger: consulted on every line)
//   extRegistrations for every `Extend(m goldmark.Markdown)` method in extension/*.go: each value handed to
//                    parser.With{Inline,Block}Parsers / WithParagraphTransformers / WithASTTransformers /
//                    renderer.WithNodeRenderers through util.Prioritized(value, priority), and every other option
//                    passed to m.Parser().AddOptions / m.Renderer().AddOptions
//   ctorTypes        constructor function / package variable -> the concrete type it yields (`&T{…}`)
//   extVars          exported extension variables (extension.Strikethrough, …) -> their type
//   extendCalls      for every Extend method: the `X.Extend(m)` calls it makes (extension.GFM's member list)
//   defaultParsers   parser.Default{Block,Inline}Parsers / DefaultParagraphTransformers with priorities
// Anything the extractor does not understand is emitted as "?" so that the obligations in GM.Spec.ExtFacts fail.

import (
	"fmt"
	"go/ast"
	"go/token"
	"path/filepath"
	"sort"
	"strings"
)

func init() { factGenerators = append(factGenerators, genExtFacts) }

type trigFact struct {
	pkg, typ string
	bytes    []byte
	isNil    bool
	ok       bool
}

type regFact struct {
	ext, target, kind, value string
	prio                     int64
}

func sortedFiles(p *pkgFiles) []string {
	var fnames []string
	for n := range p.files {
		fnames = append(fnames, n)
	}
	sort.Strings(fnames)
	return fnames
}

func collectTriggers(p *pkgFiles, pkg string) []trigFact {
	var r []trigFact
	for _, fname := range sortedFiles(p) {
		for _, d := range p.files[fname].Decls {
			fd, ok := d.(*ast.FuncDecl)
			if !ok || fd.Body == nil || fd.Name.Name != "Trigger" || fd.Recv == nil {
				continue
			}
			_, typ := recvInfo(fd)
			f := trigFact{pkg: pkg, typ: typ}
			nret := 0
			good := true
			ast.Inspect(fd.Body, func(n ast.Node) bool {
				rs, ok := n.(*ast.ReturnStmt)
				if !ok {
					return true
				}
				nret++
				if len(rs.Results) != 1 {
					good = false
					return true
				}
				switch x := rs.Results[0].(type) {
				case *ast.Ident:
					if x.Name == "nil" {
						f.isNil = true
					} else {
						good = false
					}
				case *ast.CompositeLit:
					for _, el := range x.Elts {
						v, ok := intLit(el)
						if !ok || v < 0 || v > 255 {
							good = false
							continue
						}
						f.bytes = append(f.bytes, byte(v))
					}
				default:
					if s, ok := strLit(x); ok {
						f.bytes = append(f.bytes, []byte(s)...)
					} else {
						good = false
					}
				}
				return true
			})
			f.ok = good && nret == 1
			r = append(r, f)
		}
	}
	return r
}

// typeOfValue resolves an expression used as a registered value to (constructor-or-variable name, concrete type).
func exprName(e ast.Expr) string {
	switch x := e.(type) {
	case *ast.Ident:
		return x.Name
	case *ast.SelectorExpr:
		return exprName(x.X) + "." + x.Sel.Name
	case *ast.CallExpr:
		return exprName(x.Fun)
	case *ast.ParenExpr:
		return exprName(x.X)
	case *ast.UnaryExpr:
		return exprName(x.X)
	case *ast.CompositeLit:
		return exprName(x.Type)
	}
	return "?"
}

func addrLitType(e ast.Expr) string {
	if u, ok := e.(*ast.UnaryExpr); ok && u.Op == token.AND {
		e = u.X
	}
	if cl, ok := e.(*ast.CompositeLit); ok {
		if id, ok := cl.Type.(*ast.Ident); ok {
			return id.Name
		}
	}
	return ""
}

func (p *pkgFiles) findFunc(name string) *ast.FuncDecl {
	for _, fname := range sortedFiles(p) {
		for _, d := range p.files[fname].Decls {
			if fd, ok := d.(*ast.FuncDecl); ok && fd.Recv == nil && fd.Name.Name == name {
				return fd
			}
		}
	}
	return nil
}

// resolveType: the concrete type a package-level constructor or variable yields ("" when not understood)
func resolveType(p *pkgFiles, name string, depth int) string {
	if depth > 4 {
		return ""
	}
	if v := p.findVar(name); v != nil {
		if t := addrLitType(v); t != "" {
			return t
		}
		if ce, ok := v.(*ast.CallExpr); ok {
			if id, ok := ce.Fun.(*ast.Ident); ok {
				return resolveType(p, id.Name, depth+1)
			}
		}
		return ""
	}
	fd := p.findFunc(name)
	if fd == nil || fd.Body == nil {
		return ""
	}
	// every return statement must agree
	locals := map[string]string{}
	ast.Inspect(fd.Body, func(n ast.Node) bool {
		if as, ok := n.(*ast.AssignStmt); ok && as.Tok == token.DEFINE && len(as.Lhs) == 1 && len(as.Rhs) == 1 {
			if id, ok := as.Lhs[0].(*ast.Ident); ok {
				if t := addrLitType(as.Rhs[0]); t != "" {
					locals[id.Name] = t
				}
			}
		}
		return true
	})
	typ := ""
	good := true
	ast.Inspect(fd.Body, func(n ast.Node) bool {
		if _, ok := n.(*ast.FuncLit); ok {
			return false
		}
		rs, ok := n.(*ast.ReturnStmt)
		if !ok {
			return true
		}
		if len(rs.Results) != 1 {
			good = false
			return true
		}
		t := addrLitType(rs.Results[0])
		if t == "" {
			if id, ok := rs.Results[0].(*ast.Ident); ok {
				if lt, ok := locals[id.Name]; ok {
					t = lt
				} else {
					t = resolveType(p, id.Name, depth+1)
				}
			}
		}
		if t == "" || (typ != "" && typ != t) {
			good = false
		}
		typ = t
		return true
	})
	if !good {
		return ""
	}
	return typ
}

var regKinds = map[string]string{
	"WithInlineParsers": "inline", "WithBlockParsers": "block", "WithParagraphTransformers": "paragraphTransformer",
	"WithASTTransformers": "astTransformer", "WithNodeRenderers": "nodeRenderer",
}

func prioritized(e ast.Expr) (ast.Expr, int64, bool) {
	ce, ok := e.(*ast.CallExpr)
	if !ok || len(ce.Args) != 2 {
		return nil, 0, false
	}
	if exprName(ce.Fun) != "util.Prioritized" {
		return nil, 0, false
	}
	n, ok := intLit(ce.Args[1])
	return ce.Args[0], n, ok
}

func collectExtend(p *pkgFiles) (regs []regFact, calls [][2]string, valueNames map[string]bool) {
	valueNames = map[string]bool{}
	for _, fname := range sortedFiles(p) {
		for _, d := range p.files[fname].Decls {
			fd, ok := d.(*ast.FuncDecl)
			if !ok || fd.Body == nil || fd.Name.Name != "Extend" || fd.Recv == nil {
				continue
			}
			_, ext := recvInfo(fd)
			ast.Inspect(fd.Body, func(n ast.Node) bool {
				ce, ok := n.(*ast.CallExpr)
				if !ok {
					return true
				}
				se, ok := ce.Fun.(*ast.SelectorExpr)
				if !ok {
					return true
				}
				if se.Sel.Name == "Extend" {
					calls = append(calls, [2]string{ext, exprName(se.X)})
					return true
				}
				if se.Sel.Name != "AddOptions" {
					return true
				}
				target := "?"
				switch exprName(se.X) {
				case "m.Parser":
					target = "parser"
				case "m.Renderer":
					target = "renderer"
				}
				for _, a := range ce.Args {
					ac, ok := a.(*ast.CallExpr)
					name := exprName(a)
					short := name
					if i := strings.LastIndex(name, "."); i >= 0 {
						short = name[i+1:]
					}
					kind, isReg := regKinds[short]
					if !ok || !isReg {
						regs = append(regs, regFact{ext, target, "option", name, 0})
						continue
					}
					for _, pa := range ac.Args {
						v, prio, ok := prioritized(pa)
						if !ok {
							regs = append(regs, regFact{ext, target, kind, "?", 0})
							continue
						}
						vn := exprName(v)
						valueNames[vn] = true
						regs = append(regs, regFact{ext, target, kind, vn, prio})
					}
				}
				return false
			})
		}
	}
	return
}

func collectDefaults(p *pkgFiles) []regFact {
	var r []regFact
	for _, d := range []struct{ fn, kind string }{{"DefaultBlockParsers", "block"}, {"DefaultInlineParsers", "inline"},
		{"DefaultParagraphTransformers", "paragraphTransformer"}} {
		fd := p.findFunc(d.fn)
		if fd == nil || fd.Body == nil {
			r = append(r, regFact{"parser", "parser", d.kind, "?", 0})
			continue
		}
		ast.Inspect(fd.Body, func(n ast.Node) bool {
			cl, ok := n.(*ast.CompositeLit)
			if !ok {
				return true
			}
			for _, el := range cl.Elts {
				v, prio, ok := prioritized(el)
				if !ok {
					r = append(r, regFact{"parser", "parser", d.kind, "?", 0})
					continue
				}
				r = append(r, regFact{"parser", "parser", d.kind, exprName(v), prio})
			}
			return false
		})
	}
	return r
}

func genExtFacts(repo, out string) {
	pp := parseDir(filepath.Join(repo, "parser"))
	pe := parseDir(filepath.Join(repo, "extension"))
	trigs := append(collectTriggers(pp, "parser"), collectTriggers(pe, "extension")...)
	regs, calls, names := collectExtend(pe)
	defaults := collectDefaults(pp)

	var sb strings.Builder
	sb.WriteString(header)
	sb.WriteString("namespace GM.Gen\n\n")
	sb.WriteString("/-- a type with a `Trigger() []byte` method: package, type, the byte literals it returns, `return nil`?, understood? -/\n")
	sb.WriteString("structure TriggerFact where\n  pkg : String\n  typ : String\n  bytes : List UInt8\n  isNil : Bool\n  understood : Bool\nderiving Repr, DecidableEq\n\n")
	sb.WriteString("def parserTriggers : List TriggerFact := [\n")
	for i, t := range trigs {
		sep := ","
		if i == len(trigs)-1 {
			sep = ""
		}
		fmt.Fprintf(&sb, "  ⟨%q, %q, %s, %v, %v⟩%s\n", t.pkg, t.typ, leanBytes(t.bytes), t.isNil, t.ok, sep)
	}
	sb.WriteString("]\n\n")
	sb.WriteString("/-- one value handed to the parser/renderer by an `Extend` method (or by parser.Default…): who, to whom\n")
	sb.WriteString("    (parser/renderer), as what (inline, block, paragraphTransformer, astTransformer, nodeRenderer, option), the\n")
	sb.WriteString("    constructor or variable that yields the value, the priority -/\n")
	sb.WriteString("structure Registration where\n  ext : String\n  target : String\n  kind : String\n  value : String\n  prio : Int\nderiving Repr, DecidableEq\n\n")
	emitRegs := func(name string, rs []regFact) {
		fmt.Fprintf(&sb, "def %s : List Registration := [\n", name)
		for i, r := range rs {
			sep := ","
			if i == len(rs)-1 {
				sep = ""
			}
			fmt.Fprintf(&sb, "  ⟨%q, %q, %q, %q, %d⟩%s\n", r.ext, r.target, r.kind, r.value, r.prio, sep)
		}
		sb.WriteString("]\n\n")
	}
	emitRegs("extRegistrations", regs)
	emitRegs("defaultParsers", defaults)

	// constructor / variable -> concrete type
	var vn []string
	for n := range names {
		vn = append(vn, n)
	}
	for _, r := range defaults {
		if r.value != "?" {
			vn = append(vn, "parser:"+r.value)
		}
	}
	sort.Strings(vn)
	sb.WriteString("/-- constructor function or package variable (as written in the registration) ↦ the concrete type it yields; \"?\" = not understood -/\n")
	sb.WriteString("def ctorTypes : List (String × String) := [\n")
	for i, n := range vn {
		sep := ","
		if i == len(vn)-1 {
			sep = ""
		}
		p, key := pe, n
		if strings.HasPrefix(n, "parser:") {
			p, key = pp, strings.TrimPrefix(n, "parser:")
		}
		t := resolveType(p, key, 0)
		if t == "" {
			t = "?"
		}
		fmt.Fprintf(&sb, "  (%q, %q)%s\n", key, t, sep)
	}
	sb.WriteString("]\n\n")

	// exported extension variables -> type (only types that have an Extend method)
	extTypes := map[string]bool{}
	for _, fname := range sortedFiles(pe) {
		for _, d := range pe.files[fname].Decls {
			if fd, ok := d.(*ast.FuncDecl); ok && fd.Name.Name == "Extend" && fd.Recv != nil {
				_, t := recvInfo(fd)
				extTypes[t] = true
			}
		}
	}
	type ev struct{ name, typ string }
	var evs []ev
	for _, fname := range sortedFiles(pe) {
		for _, d := range pe.files[fname].Decls {
			gd, ok := d.(*ast.GenDecl)
			if !ok || gd.Tok != token.VAR {
				continue
			}
			for _, s := range gd.Specs {
				vs := s.(*ast.ValueSpec)
				for _, nm := range vs.Names {
					if !nm.IsExported() {
						continue
					}
					if t := resolveType(pe, nm.Name, 0); extTypes[t] {
						evs = append(evs, ev{nm.Name, t})
					}
				}
			}
		}
	}
	sb.WriteString("/-- exported extension variables (extension.X) ↦ their concrete type -/\n")
	sb.WriteString("def extVars : List (String × String) := [\n")
	for i, e := range evs {
		sep := ","
		if i == len(evs)-1 {
			sep = ""
		}
		fmt.Fprintf(&sb, "  (%q, %q)%s\n", e.name, e.typ, sep)
	}
	sb.WriteString("]\n\n")
	sb.WriteString("/-- `X.Extend(m)` calls inside Extend methods: (receiver type of the enclosing method, X) in source order -/\n")
	sb.WriteString("def extendCalls : List (String × String) := [\n")
	for i, c := range calls {
		sep := ","
		if i == len(calls)-1 {
			sep = ""
		}
		fmt.Fprintf(&sb, "  (%q, %q)%s\n", c[0], c[1], sep)
	}
	sb.WriteString("]\n\nend GM.Gen\n")
	writeIfChanged(filepath.Join(out, "ExtFacts.lean"), []byte(sb.String()))
}
