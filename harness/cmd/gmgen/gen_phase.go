package main

// Two-phase facts (C09): the order of the parser's phases in (*parser).Parse, and where the link reference
// map is written (AddReference) and read (Reference).

import (
	"fmt"
	"go/ast"
	"path/filepath"
	"sort"
	"strings"
)

func init() { factGenerators = append(factGenerators, genPhaseFacts) }

func genPhaseFacts(repo, out string) {
	p := parseDir(filepath.Join(repo, "parser"))
	var order []string
	type site struct{ file, fn, call string }
	var sites []site
	var fnames []string
	for n := range p.files {
		fnames = append(fnames, n)
	}
	sort.Strings(fnames)
	for _, fname := range fnames {
		for _, d := range p.files[fname].Decls {
			fd, ok := d.(*ast.FuncDecl)
			if !ok || fd.Body == nil {
				continue
			}
			recv, typ := recvInfo(fd)
			isParse := typ == "parser" && fd.Name.Name == "Parse"
			ast.Inspect(fd.Body, func(n ast.Node) bool {
				ce, ok := n.(*ast.CallExpr)
				if !ok {
					return true
				}
				se, ok := ce.Fun.(*ast.SelectorExpr)
				if !ok {
					return true
				}
				if isParse {
					if id, ok := se.X.(*ast.Ident); ok && id.Name == recv {
						switch se.Sel.Name {
						case "parseBlocks", "parseBlock", "walkBlock", "transformParagraph":
							order = append(order, se.Sel.Name)
						}
					}
					if se.Sel.Name == "Transform" {
						order = append(order, "astTransform")
					}
				}
				switch se.Sel.Name {
				case "AddReference", "Reference", "parseBlock", "parseBlocks":
					sites = append(sites, site{fname, fd.Name.Name, se.Sel.Name})
				}
				return true
			})
		}
	}
	var sb strings.Builder
	sb.WriteString(header)
	sb.WriteString("namespace GM.Gen\n\n")
	var q []string
	for _, o := range order {
		q = append(q, fmt.Sprintf("%q", o))
	}
	fmt.Fprintf(&sb, "/-- phase calls in (*parser).Parse, in source order -/\ndef parsePhaseOrder : List String := [%s]\n\n", strings.Join(q, ", "))
	sb.WriteString("/-- (file, enclosing function, callee) for AddReference / Reference / parseBlock / parseBlocks call sites in package parser -/\n")
	sb.WriteString("def refAndPhaseSites : List (String × String × String) := [\n")
	for i, s := range sites {
		sep := ","
		if i == len(sites)-1 {
			sep = ""
		}
		fmt.Fprintf(&sb, "  (%q, %q, %q)%s\n", s.file, s.fn, s.call, sep)
	}
	sb.WriteString("]\n\nend GM.Gen\n")
	writeIfChanged(filepath.Join(out, "PhaseFacts.lean"), []byte(sb.String()))
}
