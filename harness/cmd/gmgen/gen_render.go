package main

// Regenerated renderer facts: attribute allow-lists (every NewBytesFilterString / ExtendString variable of
// renderer/html and extension), the dangerous-scheme constants of html.go, the string literals through
// which `href="` / `src="` are emitted (with their enclosing function), and the default footnote strings.

import (
	"fmt"
	"go/ast"
	"go/token"
	"path/filepath"
	"sort"
	"strings"
)

func init() { factGenerators = append(factGenerators, genRenderFacts) }

type filterDef struct {
	name   string
	parent string // "" for NewBytesFilterString
	elems  []string
}

func splitFilter(s string) []string {
	parts := strings.Split(s, ",")
	if len(parts) > 0 && parts[len(parts)-1] == "" {
		parts = parts[:len(parts)-1]
	}
	return parts
}

func selName(e ast.Expr) string {
	switch x := e.(type) {
	case *ast.Ident:
		return x.Name
	case *ast.SelectorExpr:
		return x.Sel.Name
	}
	return ""
}

func collectFilters(p *pkgFiles) []filterDef {
	var r []filterDef
	var names []string
	for n := range p.files {
		names = append(names, n)
	}
	sort.Strings(names)
	for _, fn := range names {
		f := p.files[fn]
		for _, d := range f.Decls {
			gd, ok := d.(*ast.GenDecl)
			if !ok || gd.Tok != token.VAR {
				continue
			}
			for _, s := range gd.Specs {
				vs := s.(*ast.ValueSpec)
				for i, n := range vs.Names {
					if !strings.HasSuffix(n.Name, "AttributeFilter") || i >= len(vs.Values) {
						continue
					}
					switch v := vs.Values[i].(type) {
					case *ast.CallExpr:
						fun := selName(v.Fun)
						if len(v.Args) != 1 {
							die("filter %s: unexpected call shape", n.Name)
						}
						lit, ok := strLit(v.Args[0])
						if !ok {
							die("filter %s: non-literal argument", n.Name)
						}
						switch fun {
						case "NewBytesFilterString":
							r = append(r, filterDef{n.Name, "", splitFilter(lit)})
						case "ExtendString":
							se := v.Fun.(*ast.SelectorExpr)
							r = append(r, filterDef{n.Name, selName(se.X), splitFilter(lit)})
						default:
							die("filter %s: unexpected constructor %s", n.Name, fun)
						}
					case *ast.Ident, *ast.SelectorExpr:
						r = append(r, filterDef{n.Name, selName(v), nil})
					default:
						die("filter %s: unexpected initialiser", n.Name)
					}
				}
			}
		}
	}
	return r
}

func leanBytesList(ss []string) string {
	var parts []string
	for _, s := range ss {
		parts = append(parts, leanBytes([]byte(s)))
	}
	return "[" + strings.Join(parts, ", ") + "]"
}

type urlSite struct{ fn, lit string }

func collectURLSites(p *pkgFiles, pkg string) []urlSite {
	var r []urlSite
	var names []string
	for n := range p.files {
		names = append(names, n)
	}
	sort.Strings(names)
	for _, fn := range names {
		for _, d := range p.files[fn].Decls {
			fd, ok := d.(*ast.FuncDecl)
			if !ok || fd.Body == nil {
				continue
			}
			ast.Inspect(fd.Body, func(n ast.Node) bool {
				bl, ok := n.(*ast.BasicLit)
				if !ok || bl.Kind != token.STRING {
					return true
				}
				s, ok := strLit(bl)
				if !ok {
					return true
				}
				low := strings.ToLower(s)
				if strings.Contains(low, "href=") || strings.Contains(low, "src=") || strings.Contains(low, "action=") || strings.Contains(low, "srcset=") {
					r = append(r, urlSite{pkg + "." + fd.Name.Name, s})
				}
				return true
			})
		}
	}
	return r
}

func genRenderFacts(repo, out string) {
	html := parseDir(filepath.Join(repo, "renderer", "html"))
	ext := parseDir(filepath.Join(repo, "extension"))
	var sb strings.Builder
	sb.WriteString(header)
	sb.WriteString("namespace GM.Gen\n\n")
	defs := append(collectFilters(html), collectFilters(ext)...)
	// emit in dependency order (parents first)
	done := map[string]bool{}
	for len(done) < len(defs) {
		progress := false
		for _, d := range defs {
			if done[d.name] || (d.parent != "" && !done[d.parent]) {
				continue
			}
			if d.parent == "" {
				fmt.Fprintf(&sb, "def %s : List (List UInt8) := %s\n", d.name, leanBytesList(d.elems))
			} else if d.elems == nil {
				fmt.Fprintf(&sb, "def %s : List (List UInt8) := %s\n", d.name, d.parent)
			} else {
				fmt.Fprintf(&sb, "def %s : List (List UInt8) := %s ++ %s\n", d.name, d.parent, leanBytesList(d.elems))
			}
			done[d.name] = true
			progress = true
		}
		if !progress {
			die("attribute filters: unresolved parent")
		}
	}
	var fnames []string
	for _, d := range defs {
		fnames = append(fnames, "\""+d.name+"\"")
	}
	fmt.Fprintf(&sb, "def attributeFilterNames : List String := [%s]\n\n", strings.Join(fnames, ", "))

	// dangerous-scheme constants
	for _, n := range []string{"bDataImage", "bPng", "bGif", "bJpeg", "bWebp", "bSvg", "bJs", "bVb", "bFile", "bData", "dataPrefix", "replacementCharacter"} {
		e := html.findVar(n)
		s, ok := strLit(e)
		if !ok {
			die("html.%s: not a string literal", n)
		}
		fmt.Fprintf(&sb, "def %s : List UInt8 := %s\n", n, leanBytes([]byte(s)))
	}
	sb.WriteString("\n")

	// URL-bearing attribute emitters
	sites := append(collectURLSites(html, "html"), collectURLSites(ext, "extension")...)
	sb.WriteString("def urlAttrSites : List (String × List UInt8) := [\n")
	for i, s := range sites {
		sep := ","
		if i == len(sites)-1 {
			sep = ""
		}
		fmt.Fprintf(&sb, "  (%q, %s)%s\n", s.fn, leanBytes([]byte(s.lit)), sep)
	}
	sb.WriteString("]\n\nend GM.Gen\n")
	writeIfChanged(filepath.Join(out, "RenderFacts.lean"), []byte(sb.String()))
}
