package main

// Byte-slice write-site inventory (C12): one record per BYTE-SLICE WRITE PRIMITIVE in the non-test, non-verif-tagged
// Go files of goldmark, with an ORIGIN CLASS of the destination computed by a small data-flow analysis.
// Unlike the other fact generators this one type-checks the packages (go/types; goldmark's packages are loaded
// from the tree under test, the standard library through the "source" importer), so that "is this a []byte?" and
// "which function is called?" are decided by types and objects, never by names.
//
// Write primitives (kind)
//   index      x[i] = v, x[i] op= v, x[i]++          (x a byte slice or a pointer to a byte array)
//   deref      *p = v, (*p)++                         (p a *byte)
//   copy       copy(dst, ...)                         (dst a byte slice)
//   append     append(dst, ...)                       (dst a byte slice: stores in place when the capacity allows)
//   clear      clear(x)
//   writer:F   a []byte handed to a library function known to write through it (bytes.NewBuffer, utf8.EncodeRune,
//              strconv.Append*, binary Put*, io.ReadFull, Read methods, sort/slices in-place operations, ...)
//   ext:F      a []byte handed to a function outside goldmark that is neither a known writer nor on the reviewed
//              list of read-only library functions (conservative default)
//   arg:F#i    a []byte handed to goldmark's own function F (statically resolved) whose body writes through its
//              parameter i, directly or by handing it on (receiver = -1)
//
// Origin classes. The origin of an expression is the set of places the memory behind it can come from; for a
// local variable it is the union over the assignments that REACH the use (a flow-sensitive reaching-definitions
// pass over the structured control flow of the enclosing top-level function; variables assigned inside closures or
// whose address is taken, and functions using goto/fallthrough, fall back to "all assignments").
//   fresh    make, composite literal, []byte(string), nil, append onto fresh, Bytes() of a bytes.Buffer the function
//            created itself (not over foreign memory), results of library functions documented to return a copy,
//            results of goldmark functions whose every return value is fresh (or depends only on fresh arguments),
//            the destination of an append whose capacity is clipped to its length (x[a:b:b]: Go must reallocate)
//   cow      the receiver's buffer inside util.CopyOnWriteBuffer's own methods (GM.Props.C12 cow_* theorems)
//   cparam   a []byte parameter (or a slice/alias of one) of an unexported function that is only ever called
//            directly: the obligation moves to every call site (arg:F#i sites)
//   param    a []byte parameter / receiver of any other function or closure, or a slice/alias of one
//   call     result of a call that may return a view of its argument or of the source
//   field    a struct field (other than `cow`)
//   global   a package-level variable
//   unknown  anything else (element of a [][]byte, dereference, type assertion, address-taken variable, ...)
// Mixed origins are never fresh/cow/cparam; the class reported is the first of param, call, field, global, unknown present.

import (
	"bytes"
	"fmt"
	"go/ast"
	"go/build"
	"go/importer"
	"go/parser"
	"go/printer"
	"go/token"
	"go/types"
	"os"
	"path/filepath"
	"sort"
	"strings"
)

func init() { factGenerators = append(factGenerators, genSliceWrites) }

const swModule = "github.com/yuin/goldmark"

var swDirs = []struct{ dir, pkg string }{
	{".", "goldmark"}, {"ast", "ast"}, {"extension", "extension"}, {"extension/ast", "east"}, {"parser", "parser"},
	{"renderer", "renderer"}, {"renderer/html", "html"}, {"text", "text"}, {"util", "util"},
}

// ---------------------------------------------------------------------------------------------------------------
// loading and type checking

type swPkg struct {
	path, short string
	files       []*ast.File
	info        *types.Info
	tpkg        *types.Package
}

type swLoader struct {
	repo    string
	fset    *token.FileSet
	std     types.ImporterFrom
	pkgs    map[string]*swPkg
	loading map[string]bool
	errs    []string
}

func (l *swLoader) Import(path string) (*types.Package, error) { return l.ImportFrom(path, l.repo, 0) }

func (l *swLoader) ImportFrom(path, dir string, mode types.ImportMode) (*types.Package, error) {
	if path == swModule || strings.HasPrefix(path, swModule+"/") {
		p, err := l.load(path)
		if err != nil {
			return nil, err
		}
		return p.tpkg, nil
	}
	return l.std.ImportFrom(path, dir, mode)
}

func (l *swLoader) load(path string) (*swPkg, error) {
	if p, ok := l.pkgs[path]; ok {
		return p, nil
	}
	if l.loading[path] {
		return nil, fmt.Errorf("import cycle through %s", path)
	}
	l.loading[path] = true
	defer delete(l.loading, path)
	dir := filepath.Join(l.repo, strings.TrimPrefix(strings.TrimPrefix(path, swModule), "/"))
	ents, err := os.ReadDir(dir)
	if err != nil {
		return nil, err
	}
	ctx := build.Default
	ctx.BuildTags = nil // in particular: not `verif`
	p := &swPkg{path: path}
	for _, e := range ents {
		n := e.Name()
		if e.IsDir() || !strings.HasSuffix(n, ".go") || strings.HasSuffix(n, "_test.go") {
			continue
		}
		if ok, err := ctx.MatchFile(dir, n); err != nil || !ok {
			continue
		}
		f, err := parser.ParseFile(l.fset, filepath.Join(dir, n), nil, 0)
		if err != nil {
			return nil, err
		}
		p.files = append(p.files, f)
	}
	p.info = &types.Info{
		Types: map[ast.Expr]types.TypeAndValue{}, Defs: map[*ast.Ident]types.Object{}, Uses: map[*ast.Ident]types.Object{},
		Selections: map[*ast.SelectorExpr]*types.Selection{}, Implicits: map[ast.Node]types.Object{},
	}
	conf := types.Config{Importer: l, Error: func(err error) { l.errs = append(l.errs, err.Error()) }}
	p.tpkg, _ = conf.Check(path, l.fset, p.files, p.info)
	l.pkgs[path] = p
	return p, nil
}

// ---------------------------------------------------------------------------------------------------------------
// origins

type swOrigin map[string]bool // tags: "param:<i>", "param:lit", "cow", "call", "field", "global", "unknown"; empty = fresh

func (o swOrigin) add(p swOrigin) {
	for k := range p {
		o[k] = true
	}
}

func swTag(t string) swOrigin { return swOrigin{t: true} }

// only parameters of the enclosing top-level function (not of a closure)
func (o swOrigin) pureParam() bool {
	if len(o) == 0 {
		return false
	}
	for k := range o {
		if !strings.HasPrefix(k, "param:") || k == "param:lit" {
			return false
		}
	}
	return true
}

func (o swOrigin) paramIdx() []int {
	var r []int
	for k := range o {
		var i int
		if _, err := fmt.Sscanf(k, "param:%d", &i); err == nil {
			r = append(r, i)
		}
	}
	sort.Ints(r)
	return r
}

func (o swOrigin) class(deferrable bool) string {
	if len(o) == 0 {
		return "fresh"
	}
	if len(o) == 1 && o["cow"] {
		return "cow"
	}
	if deferrable && o.pureParam() {
		return "cparam"
	}
	for k := range o {
		if strings.HasPrefix(k, "param:") {
			return "param"
		}
	}
	for _, c := range []string{"call", "field", "global"} {
		if o[c] {
			return c
		}
	}
	if o["cow"] {
		return "field"
	}
	return "unknown"
}

func (o swOrigin) String() string {
	var ks []string
	for k := range o {
		ks = append(ks, k)
	}
	sort.Strings(ks)
	return strings.Join(ks, "+")
}

// library functions documented to return a newly allocated slice
var swFreshResult = map[string]bool{
	"bytes.Repeat": true, "bytes.ToLower": true, "bytes.ToUpper": true, "bytes.ToTitle": true, "bytes.Join": true,
	"bytes.Replace": true, "bytes.ReplaceAll": true, "bytes.Map": true, "os.ReadFile": true, "io.ReadAll": true,
}

// library functions whose result may alias their first argument (append-style): result origin = origin of argument 0;
// they also WRITE through argument 0
var swAppendStyle = map[string]bool{
	"strconv.AppendInt": true, "strconv.AppendUint": true, "strconv.AppendFloat": true, "strconv.AppendBool": true,
	"strconv.AppendQuote": true, "strconv.AppendQuoteRune": true, "strconv.AppendQuoteToASCII": true,
	"strconv.AppendQuoteRuneToASCII": true, "strconv.AppendQuoteToGraphic": true, "strconv.AppendQuoteRuneToGraphic": true,
	"unicode/utf8.AppendRune": true, "fmt.Append": true, "fmt.Appendf": true, "fmt.Appendln": true,
	"unicode/utf16.AppendRune": true, "encoding/binary.AppendUvarint": true, "encoding/binary.AppendVarint": true,
	"encoding/hex.AppendEncode": true, "encoding/hex.AppendDecode": true, "slices.Grow": true, "slices.Insert": true,
	"slices.Delete": true, "slices.Compact": true, "slices.Replace": true, "slices.Clip": true,
}

// library functions / methods that may store through a []byte argument. Matched by full name for functions,
// by ".Name" for methods of any library type (Read-like methods fill the slice they are given).
var swWriters = map[string]bool{
	"bytes.NewBuffer": true, "unicode/utf8.EncodeRune": true, "io.ReadFull": true, "io.ReadAtLeast": true,
	"sort.Slice": true, "sort.SliceStable": true, "sort.Sort": true, "sort.Stable": true,
	"slices.Sort": true, "slices.SortFunc": true, "slices.SortStableFunc": true, "slices.Reverse": true,
	"encoding/binary.PutUvarint": true, "encoding/binary.PutVarint": true,
	"encoding/hex.Encode": true, "encoding/hex.Decode": true, "crypto/rand.Read": true, "math/rand.Read": true,
	".Read": true, ".ReadAt": true, ".ReadFull": true, ".PutUint16": true, ".PutUint32": true, ".PutUint64": true,
	".Encode": true, ".Decode": true, ".Sum": true, ".AppendFormat": true,
}

// reviewed library functions / methods that only read the byte slices they are given (an io.Writer's Write
// "must not modify the slice data, even temporarily" — io.Writer contract). Anything not listed here and not a
// known writer is recorded as an ext: site.
var swReadOnly = map[string]bool{
	"bytes.Equal": true, "bytes.EqualFold": true, "bytes.HasPrefix": true, "bytes.HasSuffix": true, "bytes.Index": true,
	"bytes.IndexByte": true, "bytes.IndexAny": true, "bytes.IndexRune": true, "bytes.IndexFunc": true, "bytes.LastIndex": true,
	"bytes.LastIndexByte": true, "bytes.LastIndexAny": true, "bytes.LastIndexFunc": true, "bytes.Contains": true,
	"bytes.ContainsAny": true, "bytes.ContainsRune": true, "bytes.Count": true, "bytes.Compare": true,
	"bytes.Trim": true, "bytes.TrimSpace": true, "bytes.TrimLeft": true, "bytes.TrimRight": true, "bytes.TrimFunc": true,
	"bytes.TrimLeftFunc": true, "bytes.TrimRightFunc": true, "bytes.TrimPrefix": true, "bytes.TrimSuffix": true,
	"bytes.Split": true, "bytes.SplitN": true, "bytes.Fields": true, "bytes.FieldsFunc": true, "bytes.Cut": true,
	"bytes.NewReader": true, "bytes.Runes": true,
	"bytes.Repeat": true, "bytes.ToLower": true, "bytes.ToUpper": true, "bytes.ToTitle": true, "bytes.Join": true,
	"bytes.Replace": true, "bytes.ReplaceAll": true, "bytes.Map": true,
	"unicode/utf8.DecodeRune": true, "unicode/utf8.DecodeLastRune": true, "unicode/utf8.RuneCount": true,
	"unicode/utf8.Valid": true, "unicode/utf8.FullRune": true,
	"fmt.Sprintf": true, "fmt.Sprint": true, "fmt.Sprintln": true, "fmt.Fprintf": true, "fmt.Fprint": true, "fmt.Fprintln": true,
	"fmt.Printf": true, "fmt.Print": true, "fmt.Println": true, "fmt.Errorf": true,
	"unsafe.SliceData": true, "unsafe.String": true,
	".Write": true, ".Match": true, ".Find": true, ".FindIndex": true, ".FindSubmatch": true,
	".FindSubmatchIndex": true, ".FindAll": true, ".FindAllIndex": true, ".FindAllSubmatch": true, ".FindAllSubmatchIndex": true,
}

// ---------------------------------------------------------------------------------------------------------------
// per-function analysis

type swSite struct {
	pkg, fn, kind, dest string
	origin              swOrigin
	note                string
	cls                 string
	line, col           int
	file                string
}

// one definition of a local variable
type swDef struct {
	rhs     ast.Expr // nil: zero value (or a parameter's entry value when isParam)
	multi   bool     // result number idx of the call / comma-ok expression rhs
	idx     int
	elem    bool // element of the ranged rhs
	isParam bool
	param   int // parameter index of the enclosing top-level function; -1 receiver; -2 parameter of a closure
}

type swState map[types.Object]map[*swDef]bool

func (s swState) clone() swState {
	if s == nil {
		return nil
	}
	r := make(swState, len(s))
	for k, v := range s {
		r[k] = v // sets are never mutated in place
	}
	return r
}

func swJoin(a, b swState) swState {
	if a == nil {
		return b.clone()
	}
	if b == nil {
		return a
	}
	r := a.clone()
	for k, vb := range b {
		va, ok := r[k]
		if !ok {
			r[k] = vb
			continue
		}
		merged := false
		var m map[*swDef]bool
		for d := range vb {
			if !va[d] {
				if !merged {
					m = make(map[*swDef]bool, len(va)+len(vb))
					for x := range va {
						m[x] = true
					}
					merged = true
				}
				m[d] = true
			}
		}
		if merged {
			r[k] = m
		}
	}
	return r
}

func swStateEq(a, b swState) bool {
	if (a == nil) != (b == nil) || len(a) != len(b) {
		return false
	}
	for k, va := range a {
		vb, ok := b[k]
		if !ok || len(va) != len(vb) {
			return false
		}
		for d := range va {
			if !vb[d] {
				return false
			}
		}
	}
	return true
}

type swFrame struct {
	label      string
	isLoop     bool
	brk, cont  swState
	hasB, hasC bool
}

type swFunc struct {
	pkg      *swPkg
	name     string // "Type.Method" or "func"
	obj      *types.Func
	decl     *ast.FuncDecl
	body     ast.Node
	recvCow  bool
	recvObj  types.Object
	defs     map[types.Object][]*swDef // every definition of a local variable / parameter
	defOf    map[*ast.Ident]*swDef     // the definition made by this lhs identifier
	unstable map[types.Object]bool     // assigned inside a closure that does not declare it, or address taken
	addr     map[types.Object]bool
	reach    map[*ast.Ident]map[*swDef]bool
	giveUp   bool // goto / fallthrough: reaching definitions not computed
	frames   []*swFrame
	visiting map[*swDef]bool
	sites    []*swSite
	calls    []swCall
	returns  []*ast.ReturnStmt // of the top-level function itself (not of closures)
	results  []types.Object    // named results
	deferOK  bool
	deferred map[int]bool
	an       *swAnalysis
}

type swCall struct {
	call   *ast.CallExpr
	callee *types.Func
}

type swAnalysis struct {
	l         *swLoader
	funcs     []*swFunc
	byObj     map[*types.Func]*swFunc
	valueUse  map[*types.Func]bool // referenced other than as the callee of a direct call
	ifaceMeth map[string]bool      // method names of every interface type declared in goldmark
	summary   map[*types.Func][]swOrigin
	roCalls   map[string]int // reviewed read-only library callees that were handed a []byte (reported in the generated file)
}

func swIsByte(t types.Type) bool {
	b, ok := t.Underlying().(*types.Basic)
	return ok && (b.Kind() == types.Byte || b.Kind() == types.Uint8)
}

func swIsByteSlice(t types.Type) bool {
	if t == nil {
		return false
	}
	s, ok := t.Underlying().(*types.Slice)
	return ok && swIsByte(s.Elem())
}

func swIsByteArrayPtr(t types.Type) bool {
	if t == nil {
		return false
	}
	p, ok := t.Underlying().(*types.Pointer)
	if !ok {
		return false
	}
	a, ok := p.Elem().Underlying().(*types.Array)
	return ok && swIsByte(a.Elem())
}

func swIsByteArray(t types.Type) bool {
	if t == nil {
		return false
	}
	a, ok := t.Underlying().(*types.Array)
	return ok && swIsByte(a.Elem())
}

func swIsString(t types.Type) bool {
	if t == nil {
		return false
	}
	b, ok := t.Underlying().(*types.Basic)
	return ok && b.Info()&types.IsString != 0
}

func swIsBytesBuffer(t types.Type) bool {
	if t == nil {
		return false
	}
	if p, ok := t.(*types.Pointer); ok {
		t = p.Elem()
	}
	n, ok := t.(*types.Named)
	return ok && n.Obj().Pkg() != nil && n.Obj().Pkg().Path() == "bytes" && n.Obj().Name() == "Buffer"
}

func (l *swLoader) text(e ast.Node) string {
	var b bytes.Buffer
	printer.Fprint(&b, l.fset, e)
	return strings.Join(strings.Fields(b.String()), " ")
}

func (f *swFunc) typeOf(e ast.Expr) types.Type {
	if tv, ok := f.pkg.info.Types[e]; ok {
		return tv.Type
	}
	if id, ok := e.(*ast.Ident); ok {
		if o := f.objOf(id); o != nil {
			return o.Type()
		}
	}
	return nil
}

func (f *swFunc) objOf(id *ast.Ident) types.Object {
	if o := f.pkg.info.Uses[id]; o != nil {
		return o
	}
	return f.pkg.info.Defs[id]
}

func swIsLocal(o types.Object) bool {
	v, ok := o.(*types.Var)
	return ok && !v.IsField() && v.Pkg() != nil && v.Parent() != v.Pkg().Scope()
}

// callee resolves the called function object (nil for builtins, conversions, calls of function values)
func (f *swFunc) callee(c *ast.CallExpr) (fn *types.Func, builtin string, isConv bool) {
	fun := ast.Unparen(c.Fun)
	if tv, ok := f.pkg.info.Types[fun]; ok && tv.IsType() {
		return nil, "", true
	}
	var id *ast.Ident
	switch x := fun.(type) {
	case *ast.Ident:
		id = x
	case *ast.SelectorExpr:
		id = x.Sel
	case *ast.IndexExpr: // generic instantiation f[T](...)
		switch y := ast.Unparen(x.X).(type) {
		case *ast.Ident:
			id = y
		case *ast.SelectorExpr:
			id = y.Sel
		}
	}
	if id == nil {
		return nil, "", false
	}
	switch o := f.objOf(id).(type) {
	case *types.Func:
		return o, "", false
	case *types.Builtin:
		return nil, o.Name(), false
	}
	return nil, "", false
}

// name used in kinds / lists: "pkgpath.Func" for package functions, ".Method" for methods
func swFuncName(fn *types.Func) string {
	sig, _ := fn.Type().(*types.Signature)
	if sig != nil && sig.Recv() != nil {
		return "." + fn.Name()
	}
	if fn.Pkg() != nil {
		return fn.Pkg().Path() + "." + fn.Name()
	}
	return fn.Name()
}

func swInModule(fn *types.Func) bool {
	return fn.Pkg() != nil && (fn.Pkg().Path() == swModule || strings.HasPrefix(fn.Pkg().Path(), swModule+"/"))
}

// ---- reaching definitions ----

func (f *swFunc) newDef(o types.Object, d *swDef) *swDef {
	f.defs[o] = append(f.defs[o], d)
	return d
}

func (f *swFunc) defIdent(lhs ast.Expr, d swDef) {
	id, ok := ast.Unparen(lhs).(*ast.Ident)
	if !ok || id.Name == "_" {
		return
	}
	if o := f.objOf(id); o != nil && swIsLocal(o) {
		dd := d
		f.defOf[id] = f.newDef(o, &dd)
	}
}

// collectDefs: every definition of every local variable (closures included); which variables are unstable
func (f *swFunc) collectDefs() {
	var walk func(n ast.Node, lit *ast.FuncLit)
	inLit := func(o types.Object, lit *ast.FuncLit) bool {
		return lit == nil || (o.Pos() >= lit.Pos() && o.Pos() < lit.End())
	}
	markAssigned := func(lhs ast.Expr, lit *ast.FuncLit) {
		if id, ok := ast.Unparen(lhs).(*ast.Ident); ok {
			if o := f.objOf(id); o != nil && swIsLocal(o) && !inLit(o, lit) {
				f.unstable[o] = true
			}
		}
	}
	walk = func(root ast.Node, lit *ast.FuncLit) {
		ast.Inspect(root, func(n ast.Node) bool {
			switch x := n.(type) {
			case *ast.FuncLit:
				if x == lit {
					return true
				}
				for _, fl := range x.Type.Params.List {
					for _, nm := range fl.Names {
						if o := f.pkg.info.Defs[nm]; o != nil {
							f.newDef(o, &swDef{isParam: true, param: -2})
						}
					}
				}
				if x.Type.Results != nil {
					for _, fl := range x.Type.Results.List {
						for _, nm := range fl.Names {
							if o := f.pkg.info.Defs[nm]; o != nil {
								f.newDef(o, &swDef{})
							}
						}
					}
				}
				walk(x.Body, x)
				return false
			case *ast.AssignStmt:
				for i := range x.Lhs {
					markAssigned(x.Lhs[i], lit)
					if len(x.Lhs) == len(x.Rhs) {
						f.defIdent(x.Lhs[i], swDef{rhs: x.Rhs[i]})
					} else if len(x.Rhs) == 1 {
						f.defIdent(x.Lhs[i], swDef{rhs: x.Rhs[0], multi: true, idx: i})
					}
				}
			case *ast.IncDecStmt:
				markAssigned(x.X, lit)
			case *ast.ValueSpec:
				for i, nm := range x.Names {
					switch {
					case len(x.Values) == 0:
						f.defIdent(nm, swDef{})
					case len(x.Values) == len(x.Names):
						f.defIdent(nm, swDef{rhs: x.Values[i]})
					default:
						f.defIdent(nm, swDef{rhs: x.Values[0], multi: true, idx: i})
					}
				}
			case *ast.RangeStmt:
				if x.Key != nil {
					markAssigned(x.Key, lit)
					f.defIdent(x.Key, swDef{rhs: x.X, elem: true})
				}
				if x.Value != nil {
					markAssigned(x.Value, lit)
					f.defIdent(x.Value, swDef{rhs: x.X, elem: true})
				}
			case *ast.UnaryExpr:
				if x.Op == token.AND {
					if id, ok := ast.Unparen(x.X).(*ast.Ident); ok {
						if o := f.objOf(id); o != nil && swIsLocal(o) && (swIsByteSlice(o.Type()) || swIsBytesBuffer(o.Type())) {
							if swIsByteSlice(o.Type()) {
								f.addr[o] = true
							}
							f.unstable[o] = true
						}
					}
				}
			case *ast.BranchStmt:
				if x.Tok == token.GOTO || x.Tok == token.FALLTHROUGH {
					f.giveUp = true
				}
			case *ast.ReturnStmt:
				if lit == nil {
					f.returns = append(f.returns, x)
				}
			}
			return true
		})
	}
	walk(f.body, nil)
}

func (f *swFunc) setDef(st swState, o types.Object, d *swDef) {
	st[o] = map[*swDef]bool{d: true}
}

// expr records, for every use of a local variable inside e, the definitions reaching it; closures are analysed
// from an empty state (every variable they capture then falls back to all of its definitions)
func (f *swFunc) expr(e ast.Node, st swState) {
	if e == nil {
		return
	}
	ast.Inspect(e, func(n ast.Node) bool {
		switch x := n.(type) {
		case *ast.FuncLit:
			f.funcLit(x)
			return false
		case *ast.Ident:
			o := f.pkg.info.Uses[x]
			if o == nil || !swIsLocal(o) {
				return true
			}
			set, ok := st[o]
			if !ok {
				f.reach[x] = nil // present with nil: fall back to all definitions
				return true
			}
			cur, seen := f.reach[x]
			if seen && cur == nil {
				return true
			}
			if cur == nil {
				cur = map[*swDef]bool{}
				f.reach[x] = cur
			}
			for d := range set {
				cur[d] = true
			}
		}
		return true
	})
}

func (f *swFunc) funcLit(x *ast.FuncLit) {
	saved := f.frames
	f.frames = nil
	st := swState{}
	for _, fl := range x.Type.Params.List {
		for _, nm := range fl.Names {
			if o := f.pkg.info.Defs[nm]; o != nil && len(f.defs[o]) > 0 {
				f.setDef(st, o, f.defs[o][0])
			}
		}
	}
	if x.Type.Results != nil {
		for _, fl := range x.Type.Results.List {
			for _, nm := range fl.Names {
				if o := f.pkg.info.Defs[nm]; o != nil && len(f.defs[o]) > 0 {
					f.setDef(st, o, f.defs[o][0])
				}
			}
		}
	}
	f.stmt(x.Body, st, "")
	f.frames = saved
}

func (f *swFunc) assignIdent(lhs ast.Expr, st swState) {
	id, ok := ast.Unparen(lhs).(*ast.Ident)
	if !ok {
		return
	}
	if d := f.defOf[id]; d != nil {
		if o := f.objOf(id); o != nil {
			f.setDef(st, o, d)
		}
	}
}

func (f *swFunc) findFrame(label string, needLoop bool) *swFrame {
	for i := len(f.frames) - 1; i >= 0; i-- {
		fr := f.frames[i]
		if label != "" {
			if fr.label == label {
				return fr
			}
			continue
		}
		if !needLoop || fr.isLoop {
			return fr
		}
	}
	return nil
}

func (f *swFunc) stmts(list []ast.Stmt, st swState) swState {
	for _, s := range list {
		st = f.stmt(s, st, "")
	}
	return st
}

// stmt: abstract execution of one statement; a nil state means "not reachable" (uses in unreachable code get no
// reach entry and fall back to all definitions)
func (f *swFunc) stmt(s ast.Stmt, st swState, label string) swState {
	if s == nil || st == nil {
		return st
	}
	switch x := s.(type) {
	case *ast.BlockStmt:
		return f.stmts(x.List, st)
	case *ast.LabeledStmt:
		return f.stmt(x.Stmt, st, x.Label.Name)
	case *ast.ExprStmt:
		f.expr(x.X, st)
	case *ast.SendStmt:
		f.expr(x.Chan, st)
		f.expr(x.Value, st)
	case *ast.IncDecStmt:
		f.expr(x.X, st)
	case *ast.GoStmt:
		f.expr(x.Call, st)
	case *ast.DeferStmt:
		f.expr(x.Call, st)
	case *ast.AssignStmt:
		for _, r := range x.Rhs {
			f.expr(r, st)
		}
		for _, l := range x.Lhs {
			if _, isId := ast.Unparen(l).(*ast.Ident); !isId || x.Tok != token.ASSIGN && x.Tok != token.DEFINE {
				f.expr(l, st)
			}
		}
		st = st.clone()
		for _, l := range x.Lhs {
			f.assignIdent(l, st)
		}
	case *ast.DeclStmt:
		gd, ok := x.Decl.(*ast.GenDecl)
		if !ok {
			return st
		}
		st = st.clone()
		for _, sp := range gd.Specs {
			vs, ok := sp.(*ast.ValueSpec)
			if !ok {
				continue
			}
			for _, v := range vs.Values {
				f.expr(v, st)
			}
			for _, nm := range vs.Names {
				f.assignIdent(nm, st)
			}
		}
	case *ast.ReturnStmt:
		for _, r := range x.Results {
			f.expr(r, st)
		}
		return nil
	case *ast.BranchStmt:
		lbl := ""
		if x.Label != nil {
			lbl = x.Label.Name
		}
		switch x.Tok {
		case token.BREAK:
			if fr := f.findFrame(lbl, false); fr != nil {
				fr.brk, fr.hasB = swJoin(fr.brk, st), true
			} else {
				f.giveUp = true
			}
			return nil
		case token.CONTINUE:
			if fr := f.findFrame(lbl, true); fr != nil {
				fr.cont, fr.hasC = swJoin(fr.cont, st), true
			} else {
				f.giveUp = true
			}
			return nil
		default:
			f.giveUp = true
		}
	case *ast.IfStmt:
		st = f.stmt(x.Init, st, "")
		f.expr(x.Cond, st)
		a := f.stmt(x.Body, st.clone(), "")
		b := st
		if x.Else != nil {
			b = f.stmt(x.Else, st.clone(), "")
		}
		return swJoin(a, b)
	case *ast.ForStmt:
		st = f.stmt(x.Init, st, "")
		head := st
		for iter := 0; ; iter++ {
			fr := &swFrame{label: label, isLoop: true}
			f.frames = append(f.frames, fr)
			f.expr(x.Cond, head)
			b := f.stmt(x.Body, head.clone(), "")
			f.frames = f.frames[:len(f.frames)-1]
			b = swJoin(b, fr.cont)
			b = f.stmt(x.Post, b, "")
			next := swJoin(head, b)
			if fr.hasB {
				// states at break are part of the exit state; keep them across iterations by joining into next's shadow
				next = swJoinShadow(next, fr.brk)
			}
			if swStateEq(next, head) || iter > 50 {
				if iter > 50 {
					f.giveUp = true
				}
				return next
			}
			head = next
		}
	case *ast.RangeStmt:
		f.expr(x.X, st)
		head := st
		for iter := 0; ; iter++ {
			fr := &swFrame{label: label, isLoop: true}
			f.frames = append(f.frames, fr)
			h := head.clone()
			if x.Key != nil {
				if _, isId := ast.Unparen(x.Key).(*ast.Ident); !isId {
					f.expr(x.Key, h)
				}
				f.assignIdent(x.Key, h)
			}
			if x.Value != nil {
				if _, isId := ast.Unparen(x.Value).(*ast.Ident); !isId {
					f.expr(x.Value, h)
				}
				f.assignIdent(x.Value, h)
			}
			b := f.stmt(x.Body, h, "")
			f.frames = f.frames[:len(f.frames)-1]
			b = swJoin(b, fr.cont)
			next := swJoin(head, b)
			if fr.hasB {
				next = swJoinShadow(next, fr.brk)
			}
			if swStateEq(next, head) || iter > 50 {
				if iter > 50 {
					f.giveUp = true
				}
				return next
			}
			head = next
		}
	case *ast.SwitchStmt:
		st = f.stmt(x.Init, st, "")
		f.expr(x.Tag, st)
		return f.clauses(x.Body, st, label)
	case *ast.TypeSwitchStmt:
		st = f.stmt(x.Init, st, "")
		st = f.stmt(x.Assign, st, "")
		return f.clauses(x.Body, st, label)
	case *ast.SelectStmt:
		return f.clauses(x.Body, st, label)
	}
	return st
}

// swJoinShadow: the loop's exit state is head ∪ break states; since the exit state is over-approximated by the
// loop-head state (returned by the loop case), break states are folded into it
func swJoinShadow(next, brk swState) swState { return swJoin(next, brk) }

func (f *swFunc) clauses(body *ast.BlockStmt, st swState, label string) swState {
	fr := &swFrame{label: label}
	f.frames = append(f.frames, fr)
	var out swState
	hasDefault := false
	for _, c := range body.List {
		cs := st.clone()
		switch cc := c.(type) {
		case *ast.CaseClause:
			if cc.List == nil {
				hasDefault = true
			}
			for _, e := range cc.List {
				f.expr(e, cs)
			}
			out = swJoin(out, f.stmts(cc.Body, cs))
		case *ast.CommClause:
			if cc.Comm == nil {
				hasDefault = true
			}
			cs = f.stmt(cc.Comm, cs, "")
			out = swJoin(out, f.stmts(cc.Body, cs))
		}
	}
	f.frames = f.frames[:len(f.frames)-1]
	if !hasDefault {
		out = swJoin(out, st)
	}
	return swJoin(out, fr.brk)
}

func (f *swFunc) flow() {
	st := swState{}
	for o, ds := range f.defs {
		if len(ds) > 0 && ds[0].isParam && ds[0].param != -2 {
			f.setDef(st, o, ds[0])
		}
	}
	for _, o := range f.results {
		if len(f.defs[o]) > 0 {
			f.setDef(st, o, f.defs[o][0])
		}
	}
	switch b := f.body.(type) {
	case *ast.FuncDecl:
		f.stmt(b.Body, st, "")
	case ast.Expr:
		f.expr(b, st)
	}
}

// reaching: the definitions that can reach this use of a local variable (nil, false: none known)
func (f *swFunc) reaching(id *ast.Ident, o types.Object) []*swDef {
	all := f.defs[o]
	if f.giveUp || f.unstable[o] {
		return all
	}
	set, ok := f.reach[id]
	if !ok || set == nil {
		return all
	}
	var r []*swDef
	for _, d := range all { // keep a deterministic order
		if set[d] {
			r = append(r, d)
		}
	}
	return r
}

// ---- classification ----

func (f *swFunc) identOrigin(x *ast.Ident, rhsOrigin func(*swDef) swOrigin) swOrigin {
	o := f.objOf(x)
	switch v := o.(type) {
	case *types.Nil, *types.Const:
		return swOrigin{}
	case *types.Var:
		if v.IsField() {
			return swTag("field")
		}
		if !swIsLocal(o) {
			return swTag("global")
		}
		ds := f.reaching(x, o)
		if len(ds) == 0 {
			return swTag("unknown") // e.g. the variable of a type switch
		}
		r := swOrigin{}
		if f.addr[o] {
			r.add(swTag("unknown"))
		}
		for _, d := range ds {
			if f.visiting[d] {
				continue // cycle (x = append(x, ...), x = x[:n]): contributes nothing new
			}
			f.visiting[d] = true
			r.add(rhsOrigin(d))
			delete(f.visiting, d)
		}
		return r
	}
	return swTag("unknown")
}

func (f *swFunc) defOrigin(d *swDef) swOrigin {
	if d.isParam {
		if d.param == -2 {
			return swTag("param:lit")
		}
		return swTag(fmt.Sprintf("param:%d", d.param))
	}
	if d.rhs == nil {
		return swOrigin{}
	}
	if d.elem {
		return swTag("unknown")
	}
	if d.multi {
		if c, ok := ast.Unparen(d.rhs).(*ast.CallExpr); ok {
			return f.classifyCall(c, d.idx)
		}
		return swTag("unknown")
	}
	return f.classify(d.rhs)
}

// bufferOrigin: e denotes a bytes.Buffer; empty = created by this function and not constructed over foreign memory
func (f *swFunc) bufferOrigin(e ast.Expr) swOrigin {
	e = ast.Unparen(e)
	switch x := e.(type) {
	case *ast.UnaryExpr:
		if x.Op == token.AND {
			return f.bufferOrigin(x.X)
		}
	case *ast.StarExpr:
		return f.bufferOrigin(x.X)
	case *ast.CompositeLit:
		return swOrigin{}
	case *ast.CallExpr:
		fn, builtin, _ := f.callee(x)
		if builtin == "new" {
			return swOrigin{}
		}
		if fn != nil {
			switch swFuncName(fn) {
			case "bytes.NewBuffer":
				if len(x.Args) == 1 {
					return f.classify(x.Args[0])
				}
			case "bytes.NewBufferString":
				return swOrigin{}
			}
		}
		return swTag("call")
	case *ast.Ident:
		return f.identOrigin(x, func(d *swDef) swOrigin {
			if d.isParam {
				return swTag("unknown") // a buffer handed in: not ours
			}
			if d.rhs == nil {
				return swOrigin{}
			}
			if d.multi || d.elem {
				return swTag("unknown")
			}
			return f.bufferOrigin(d.rhs)
		})
	case *ast.SelectorExpr:
		return swTag("field")
	}
	return swTag("unknown")
}

// classify: where can the memory behind the byte slice e come from
func (f *swFunc) classify(e ast.Expr) swOrigin {
	e = ast.Unparen(e)
	switch x := e.(type) {
	case *ast.BasicLit, *ast.CompositeLit:
		return swOrigin{}
	case *ast.SliceExpr:
		t := f.typeOf(x.X)
		if swIsString(t) {
			return swOrigin{}
		}
		if swIsByteArray(t) {
			return f.classifyArray(x.X)
		}
		if swIsByteArrayPtr(t) {
			return swTag("unknown")
		}
		return f.classify(x.X)
	case *ast.SelectorExpr:
		if id, ok := ast.Unparen(x.X).(*ast.Ident); ok {
			if _, isPkg := f.objOf(id).(*types.PkgName); isPkg {
				return swTag("global")
			}
			if f.recvCow && f.recvObj != nil && f.objOf(id) == f.recvObj {
				return swTag("cow")
			}
		}
		return swTag("field")
	case *ast.Ident:
		return f.identOrigin(x, f.defOrigin)
	case *ast.CallExpr:
		return f.classifyCall(x, 0)
	}
	return swTag("unknown") // *p, x.(T), m[k], s[i] of a [][]byte, function literals, ...
}

// an array is a value: a local array (or a by-value array parameter) is this function's own memory
func (f *swFunc) classifyArray(e ast.Expr) swOrigin {
	e = ast.Unparen(e)
	switch x := e.(type) {
	case *ast.Ident:
		if o := f.objOf(x); o != nil && swIsLocal(o) {
			return swOrigin{}
		}
		return swTag("global")
	case *ast.SelectorExpr:
		return swTag("field")
	case *ast.CompositeLit:
		return swOrigin{}
	}
	return swTag("unknown")
}

// classifyCall: origin of result number idx of the call
func (f *swFunc) classifyCall(c *ast.CallExpr, idx int) swOrigin {
	fn, builtin, isConv := f.callee(c)
	if isConv {
		if len(c.Args) != 1 {
			return swTag("unknown")
		}
		at := f.typeOf(c.Args[0])
		if swIsString(at) {
			return swOrigin{} // []byte(string) copies
		}
		if id, ok := ast.Unparen(c.Args[0]).(*ast.Ident); ok {
			if _, isNil := f.objOf(id).(*types.Nil); isNil {
				return swOrigin{}
			}
		}
		if swIsByteSlice(at) {
			return f.classify(c.Args[0])
		}
		return swTag("unknown")
	}
	switch builtin {
	case "make", "new":
		return swOrigin{}
	case "append":
		if len(c.Args) == 0 {
			return swTag("unknown")
		}
		return f.classify(c.Args[0]) // may alias its first argument; a reallocation is fresh
	case "":
	default:
		return swTag("unknown")
	}
	if fn == nil {
		return swTag("call") // call of a function value
	}
	name := swFuncName(fn)
	if !swInModule(fn) {
		if swFreshResult[name] {
			return swOrigin{}
		}
		if swAppendStyle[name] && len(c.Args) > 0 {
			return f.classify(c.Args[0])
		}
		if name == ".Bytes" {
			if se, ok := ast.Unparen(c.Fun).(*ast.SelectorExpr); ok && swIsBytesBuffer(f.typeOf(se.X)) {
				r := f.bufferOrigin(se.X)
				if len(r) != 0 {
					r.add(swTag("call"))
				}
				return r
			}
		}
		return swTag("call")
	}
	// goldmark's own function with a body we have analysed: substitute the summary of its result
	g := f.an.byObj[fn]
	if g == nil || f.an.summary[fn] == nil || idx >= len(f.an.summary[fn]) {
		return swTag("call") // interface method, function without body
	}
	r := swOrigin{}
	for tag := range f.an.summary[fn][idx] {
		var i int
		if _, err := fmt.Sscanf(tag, "param:%d", &i); err == nil && tag != "param:lit" {
			arg := f.an.argExpr(swCall{c, fn}, i)
			if arg == nil {
				r.add(swTag("call"))
			} else {
				r.add(f.classify(arg))
			}
			continue
		}
		r.add(swTag("call")) // a field / global / view seen from the callee is "some call result" here
	}
	return r
}

// resultSummary: origins of the []byte results of this function in terms of its own parameters
func (f *swFunc) resultSummary() []swOrigin {
	if f.obj == nil {
		return nil
	}
	sig := f.obj.Type().(*types.Signature)
	n := sig.Results().Len()
	out := make([]swOrigin, n)
	for k := 0; k < n; k++ {
		out[k] = swOrigin{}
		if !swIsByteSlice(sig.Results().At(k).Type()) {
			continue
		}
		for _, r := range f.returns {
			switch {
			case len(r.Results) == n:
				out[k].add(f.classify(r.Results[k]))
			case len(r.Results) == 0 && k < len(f.results):
				for _, d := range f.defs[f.results[k]] {
					if !f.visiting[d] {
						f.visiting[d] = true
						out[k].add(f.defOrigin(d))
						delete(f.visiting, d)
					}
				}
			case len(r.Results) == 1:
				if c, ok := ast.Unparen(r.Results[0]).(*ast.CallExpr); ok {
					out[k].add(f.classifyCall(c, k))
				} else {
					out[k].add(swTag("unknown"))
				}
			default:
				out[k].add(swTag("unknown"))
			}
		}
	}
	return out
}

func (a *swAnalysis) newFunc(p *swPkg, name string, decl *ast.FuncDecl, body ast.Node) *swFunc {
	f := &swFunc{pkg: p, name: name, decl: decl, body: body, an: a,
		defs: map[types.Object][]*swDef{}, defOf: map[*ast.Ident]*swDef{}, unstable: map[types.Object]bool{}, addr: map[types.Object]bool{},
		reach: map[*ast.Ident]map[*swDef]bool{}, visiting: map[*swDef]bool{}, deferred: map[int]bool{}}
	if decl != nil {
		f.obj, _ = p.info.Defs[decl.Name].(*types.Func)
		if decl.Recv != nil && len(decl.Recv.List) > 0 {
			fl := decl.Recv.List[0]
			if len(fl.Names) > 0 {
				f.recvObj = p.info.Defs[fl.Names[0]]
				if f.recvObj != nil {
					f.newDef(f.recvObj, &swDef{isParam: true, param: -1})
				}
			}
			f.recvCow = p.path == swModule+"/util" && swRecvTypeName(decl) == "CopyOnWriteBuffer"
		}
		i := 0
		for _, fl := range decl.Type.Params.List {
			if len(fl.Names) == 0 {
				i++
			}
			for _, nm := range fl.Names {
				if o := p.info.Defs[nm]; o != nil {
					f.newDef(o, &swDef{isParam: true, param: i})
				}
				i++
			}
		}
		if decl.Type.Results != nil {
			for _, fl := range decl.Type.Results.List {
				for _, nm := range fl.Names {
					if o := p.info.Defs[nm]; o != nil {
						f.newDef(o, &swDef{})
						f.results = append(f.results, o)
					}
				}
			}
		}
	}
	f.collectDefs()
	if !f.giveUp {
		f.flow()
	}
	return f
}

// cowGuarded: the statement containing pos is preceded, at the top level of the method body, by
//   if !recv.<flag> { ...; recv.<buf> = <fresh>; ...; recv.<flag> = true }
// which is the shape the heap model's cowStep stands for (first write switches to a buffer of its own)
func (f *swFunc) cowGuarded(pos token.Pos) bool {
	if f.decl == nil || f.decl.Body == nil || f.recvObj == nil {
		return false
	}
	recvField := func(e ast.Expr) string {
		se, ok := ast.Unparen(e).(*ast.SelectorExpr)
		if !ok {
			return ""
		}
		id, ok := ast.Unparen(se.X).(*ast.Ident)
		if !ok || f.objOf(id) != f.recvObj {
			return ""
		}
		return se.Sel.Name
	}
	for _, st := range f.decl.Body.List {
		if st.End() > pos {
			break
		}
		is, ok := st.(*ast.IfStmt)
		if !ok || is.Init != nil || is.Else != nil {
			continue
		}
		ue, ok := ast.Unparen(is.Cond).(*ast.UnaryExpr)
		if !ok || ue.Op != token.NOT {
			continue
		}
		flag := recvField(ue.X)
		if flag == "" {
			continue
		}
		bufFresh, flagSet := false, false
		for _, bs := range is.Body.List {
			as, ok := bs.(*ast.AssignStmt)
			if !ok || as.Tok != token.ASSIGN || len(as.Lhs) != 1 || len(as.Rhs) != 1 {
				continue
			}
			fld := recvField(as.Lhs[0])
			if fld == flag {
				if id, ok := ast.Unparen(as.Rhs[0]).(*ast.Ident); ok && id.Name == "true" {
					flagSet = true
				}
			} else if fld != "" && swIsByteSlice(f.typeOf(as.Lhs[0])) {
				bufFresh = len(f.classify(as.Rhs[0])) == 0
			}
		}
		if bufFresh && flagSet {
			return true
		}
	}
	return false
}

func (f *swFunc) site(kind string, dest ast.Node, o swOrigin, note string) {
	if o["cow"] && !strings.HasPrefix(kind, "arg:") {
		if f.cowGuarded(dest.Pos()) {
			note = "cow:guarded"
		} else {
			o = swOrigin{"field": true}
			note = "cow:unguarded"
		}
	}
	pos := f.an.l.fset.Position(dest.Pos())
	f.sites = append(f.sites, &swSite{pkg: f.pkg.short, fn: f.name, kind: kind, dest: f.an.l.text(dest), origin: o, note: note,
		line: pos.Line, col: pos.Column, file: filepath.Base(pos.Filename)})
}

// pure: an expression whose two evaluations give the same value (identifier, literal, len/cap of those, arithmetic)
func (f *swFunc) pure(e ast.Expr) bool {
	switch x := ast.Unparen(e).(type) {
	case *ast.Ident, *ast.BasicLit:
		return true
	case *ast.BinaryExpr:
		return f.pure(x.X) && f.pure(x.Y)
	case *ast.SelectorExpr:
		return f.pure(x.X)
	case *ast.CallExpr:
		_, b, _ := f.callee(x)
		return (b == "len" || b == "cap") && len(x.Args) == 1 && f.pure(x.Args[0])
	}
	return false
}

func (f *swFunc) collectSites() {
	a := f.an
	indexStore := func(lhs ast.Expr) {
		if st, ok := ast.Unparen(lhs).(*ast.StarExpr); ok {
			if t := f.typeOf(lhs); t != nil && swIsByte(t) {
				f.site("deref", st.X, swTag("unknown"), "") // *p = c with p a *byte: where p points is not tracked
			}
			return
		}
		ix, ok := ast.Unparen(lhs).(*ast.IndexExpr)
		if !ok {
			return
		}
		t := f.typeOf(ix.X)
		switch {
		case swIsByteSlice(t):
			f.site("index", ix.X, f.classify(ix.X), "")
		case swIsByteArrayPtr(t):
			f.site("index", ix.X, swTag("unknown"), "") // p[i] = c with p a *[N]byte (possibly converted from a slice)
		case swIsByteArray(t):
			if _, isDeref := ast.Unparen(ix.X).(*ast.StarExpr); isDeref {
				f.site("index", ix.X, swTag("unknown"), "") // (*p)[i] = c
			}
			// any other byte ARRAY is a value of its own (a local, a field of a struct): it cannot alias a slice
		}
	}
	ast.Inspect(f.body, func(n ast.Node) bool {
		switch x := n.(type) {
		case *ast.AssignStmt:
			for _, l := range x.Lhs {
				indexStore(l)
			}
		case *ast.IncDecStmt:
			indexStore(x.X)
		case *ast.RangeStmt:
			if x.Tok == token.ASSIGN {
				if x.Key != nil {
					indexStore(x.Key)
				}
				if x.Value != nil {
					indexStore(x.Value)
				}
			}
		case *ast.CallExpr:
			fn, builtin, isConv := f.callee(x)
			if isConv {
				return true
			}
			switch builtin {
			case "append", "copy", "clear":
				if len(x.Args) > 0 && swIsByteSlice(f.typeOf(x.Args[0])) {
					o, note := f.classify(x.Args[0]), ""
					if se, ok := ast.Unparen(x.Args[0]).(*ast.SliceExpr); ok && builtin == "append" && se.Slice3 && se.High != nil && se.Max != nil &&
						a.l.text(se.High) == a.l.text(se.Max) && f.pure(se.High) && len(o) > 0 {
						// len == cap: an append of at least one element must reallocate, an append of none stores nothing
						o, note = swOrigin{}, "clipped:"+o.String()
					}
					f.site(builtin, x.Args[0], o, note)
				}
				return true
			case "":
			default:
				return true
			}
			if fn == nil {
				// a call of a function value: whatever goldmark function is behind it is inventoried on its own, with
				// its parameters classified `param`
				return true
			}
			if swInModule(fn) {
				f.calls = append(f.calls, swCall{x, fn})
				return true
			}
			name := swFuncName(fn)
			isWriter := swWriters[name] || swAppendStyle[name]
			if swReadOnly[name] && !isWriter {
				for _, arg := range x.Args {
					if swIsByteSlice(f.typeOf(arg)) {
						a.roCalls[strings.TrimPrefix(name, ".")]++
						break
					}
				}
				return true
			}
			kind := "ext:" + strings.TrimPrefix(name, ".")
			if isWriter {
				kind = "writer:" + strings.TrimPrefix(name, ".")
			}
			if se, ok := ast.Unparen(x.Fun).(*ast.SelectorExpr); ok && strings.HasPrefix(name, ".") && swIsByteSlice(f.typeOf(se.X)) {
				f.site(kind, se.X, f.classify(se.X), "")
			}
			for _, arg := range x.Args {
				if swIsByteSlice(f.typeOf(arg)) {
					f.site(kind, arg, f.classify(arg), "")
				}
			}
		}
		return true
	})
}

// ---------------------------------------------------------------------------------------------------------------

func swRecvTypeName(decl *ast.FuncDecl) string {
	_, typ := recvInfo(decl)
	if typ == "" && decl.Recv != nil && len(decl.Recv.List) > 0 { // generic receiver T[X]
		t := decl.Recv.List[0].Type
		if st, ok := t.(*ast.StarExpr); ok {
			t = st.X
		}
		if ix, ok := t.(*ast.IndexExpr); ok {
			if id, ok := ix.X.(*ast.Ident); ok {
				typ = id.Name
			}
		}
	}
	return typ
}

// argExpr: the expression passed for parameter i of the callee (receiver = -1); nil when it cannot be told
func (a *swAnalysis) argExpr(c swCall, i int) ast.Expr {
	sig, _ := c.callee.Type().(*types.Signature)
	if sig == nil {
		return nil
	}
	se, isSel := ast.Unparen(c.call.Fun).(*ast.SelectorExpr)
	if sig.Recv() != nil {
		if !isSel {
			return nil
		}
		if _, isMethodExpr := a.selIsType(c, se); isMethodExpr {
			return nil // T.m(recv, args...): not used in goldmark
		}
	}
	if i == -1 {
		if isSel && sig.Recv() != nil {
			return se.X
		}
		return nil
	}
	if sig.Variadic() && i >= sig.Params().Len()-1 {
		return nil
	}
	if len(c.call.Args) != sig.Params().Len() && !sig.Variadic() {
		return nil // f(g()) with a multi-value g
	}
	if i < len(c.call.Args) {
		return c.call.Args[i]
	}
	return nil
}

func (a *swAnalysis) selIsType(c swCall, se *ast.SelectorExpr) (types.Type, bool) {
	for _, p := range a.l.pkgs {
		if tv, ok := p.info.Types[se.X]; ok {
			return tv.Type, tv.IsType()
		}
	}
	return nil, false
}

func swAnalyse(repo string) (*swAnalysis, error) {
	fset := token.NewFileSet()
	std, ok := importer.ForCompiler(fset, "source", nil).(types.ImporterFrom)
	if !ok {
		return nil, fmt.Errorf("source importer unavailable")
	}
	l := &swLoader{repo: repo, fset: fset, std: std, pkgs: map[string]*swPkg{}, loading: map[string]bool{}}
	a := &swAnalysis{l: l, byObj: map[*types.Func]*swFunc{}, valueUse: map[*types.Func]bool{}, ifaceMeth: map[string]bool{},
		summary: map[*types.Func][]swOrigin{}, roCalls: map[string]int{}}
	var pkgs []*swPkg
	for _, d := range swDirs {
		path := swModule
		if d.dir != "." {
			path += "/" + d.dir
		}
		p, err := l.load(path)
		if err != nil {
			return nil, err
		}
		p.short = d.pkg
		pkgs = append(pkgs, p)
	}
	for _, p := range pkgs {
		for _, file := range p.files {
			// interface method names; uses of functions as values
			callFun := map[*ast.Ident]bool{}
			ast.Inspect(file, func(n ast.Node) bool {
				switch x := n.(type) {
				case *ast.InterfaceType:
					for _, m := range x.Methods.List {
						for _, nm := range m.Names {
							a.ifaceMeth[nm.Name] = true
						}
					}
				case *ast.CallExpr:
					switch y := ast.Unparen(x.Fun).(type) {
					case *ast.Ident:
						callFun[y] = true
					case *ast.SelectorExpr:
						callFun[y.Sel] = true
					}
				}
				return true
			})
			ast.Inspect(file, func(n ast.Node) bool {
				if id, ok := n.(*ast.Ident); ok && !callFun[id] {
					if fn, ok := p.info.Uses[id].(*types.Func); ok {
						a.valueUse[fn] = true
					}
				}
				return true
			})
			for _, d := range file.Decls {
				switch x := d.(type) {
				case *ast.FuncDecl:
					if x.Body == nil {
						continue
					}
					name := x.Name.Name
					if t := swRecvTypeName(x); t != "" {
						name = t + "." + name
					}
					f := a.newFunc(p, name, x, x)
					a.funcs = append(a.funcs, f)
					if f.obj != nil {
						a.byObj[f.obj] = f
					}
				case *ast.GenDecl:
					for _, sp := range x.Specs {
						vs, ok := sp.(*ast.ValueSpec)
						if !ok {
							continue
						}
						for i, v := range vs.Values {
							has := false
							ast.Inspect(v, func(n ast.Node) bool {
								if _, ok := n.(*ast.FuncLit); ok {
									has = true
								}
								return !has
							})
							if has {
								nm := "<package>"
								if i < len(vs.Names) {
									nm = "<var " + vs.Names[i].Name + ">"
								}
								a.funcs = append(a.funcs, a.newFunc(p, nm, nil, v))
							}
						}
					}
				}
			}
		}
	}
	// result summaries of goldmark's own functions: least fixpoint (they refer to each other at call sites)
	for _, f := range a.funcs {
		if f.obj != nil {
			a.summary[f.obj] = make([]swOrigin, f.obj.Type().(*types.Signature).Results().Len())
			for k := range a.summary[f.obj] {
				a.summary[f.obj][k] = swOrigin{}
			}
		}
	}
	for iter, changed := 0, true; changed && iter < 20; iter++ {
		changed = false
		for _, f := range a.funcs {
			if f.obj == nil {
				continue
			}
			s := f.resultSummary()
			for k := range s {
				if s[k].String() != a.summary[f.obj][k].String() {
					changed = true
				}
			}
			a.summary[f.obj] = s
		}
	}
	for _, f := range a.funcs {
		f.collectSites()
		// deferrable: unexported, never used as a value, not callable through an interface declared in goldmark
		if f.obj != nil && !f.obj.Exported() && !a.valueUse[f.obj] && f.obj.Name() != "init" && f.obj.Name() != "main" {
			sig := f.obj.Type().(*types.Signature)
			if sig.Recv() == nil || !a.ifaceMeth[f.obj.Name()] {
				f.deferOK = true
			}
		}
	}
	// which parameters are written through (directly, or by handing them on to such a parameter)
	for _, f := range a.funcs {
		if f.obj == nil {
			continue
		}
		for _, s := range f.sites {
			for _, i := range s.origin.paramIdx() {
				f.deferred[i] = true
			}
		}
	}
	for changed := true; changed; {
		changed = false
		for _, f := range a.funcs {
			if f.obj == nil {
				continue
			}
			for _, c := range f.calls {
				g := a.byObj[c.callee]
				if g == nil {
					continue
				}
				for i := range g.deferred {
					if arg := a.argExpr(c, i); arg != nil {
						for _, j := range f.classify(arg).paramIdx() {
							if !f.deferred[j] {
								f.deferred[j] = true
								changed = true
							}
						}
					}
				}
			}
		}
	}
	// every statically resolved call of such a function is a write site for the argument handed over
	for _, f := range a.funcs {
		for _, c := range f.calls {
			g := a.byObj[c.callee]
			if g == nil || len(g.deferred) == 0 {
				continue
			}
			var idx []int
			for i := range g.deferred {
				idx = append(idx, i)
			}
			sort.Ints(idx)
			for _, i := range idx {
				kind := fmt.Sprintf("arg:%s#%d", g.name, i)
				if arg := a.argExpr(c, i); arg != nil {
					f.site(kind, arg, f.classify(arg), "")
				} else {
					f.site(kind, c.call, swTag("unknown"), "")
				}
			}
		}
	}
	for _, f := range a.funcs {
		for _, s := range f.sites {
			s.cls = s.origin.class(f.deferOK)
		}
	}
	return a, nil
}

var swClassCtor = map[string]string{"fresh": ".fresh", "cow": ".cow", "cparam": ".cparam", "param": ".param", "call": ".call",
	"field": ".field", "global": ".global", "unknown": ".unknown"}

func genSliceWrites(repo, out string) {
	a, err := swAnalyse(repo)
	if err != nil {
		die("slice writes: %v", err)
	}
	var sites []*swSite
	for _, f := range a.funcs {
		sites = append(sites, f.sites...)
	}
	sort.SliceStable(sites, func(i, j int) bool {
		x, y := sites[i], sites[j]
		if x.pkg != y.pkg {
			return x.pkg < y.pkg
		}
		if x.file != y.file {
			return x.file < y.file
		}
		if x.line != y.line {
			return x.line < y.line
		}
		if x.col != y.col {
			return x.col < y.col
		}
		return x.kind < y.kind
	})
	var sb strings.Builder
	sb.WriteString(header)
	sb.WriteString("namespace GM.Gen\n\n")
	sb.WriteString("/-- origin class of the destination of a byte-slice write (see harness/cmd/gmgen/gen_slicewrites.go) -/\n")
	sb.WriteString("inductive Origin where\n  | fresh | cow | cparam | param | call | field | global | unknown\nderiving Repr, DecidableEq\n\n")
	sb.WriteString("/-- one byte-slice write primitive of the Go code: package, enclosing top-level function (Type.Method), kind of\n    primitive, text of the destination expression, origin class, origins in detail, file and line (information only) -/\n")
	sb.WriteString("structure SliceWrite where\n  pkg : String\n  fn : String\n  kind : String\n  dest : String\n  cls : Origin\n  origins : String\n  file : String\n  line : Nat\nderiving Repr\n\n")
	if len(a.l.errs) > 0 {
		fmt.Fprintf(&sb, "-- type checking reported %d error(s); first: %s\n\n", len(a.l.errs), strings.ReplaceAll(a.l.errs[0], "\n", " "))
	}
	var ro []string
	for k, v := range a.roCalls {
		ro = append(ro, fmt.Sprintf("%s x%d", k, v))
	}
	sort.Strings(ro)
	fmt.Fprintf(&sb, "-- library callees handed a []byte and taken to be read-only (reviewed list in gen_slicewrites.go): %s\n\n", strings.Join(ro, ", "))
	// chunks keep every list literal small
	n := 0
	for i := 0; i < len(sites); i += 48 {
		j := i + 48
		if j > len(sites) {
			j = len(sites)
		}
		fmt.Fprintf(&sb, "def sliceWritesChunk%d : List SliceWrite := [\n", n)
		for k := i; k < j; k++ {
			s := sites[k]
			sep := ","
			if k == j-1 {
				sep = ""
			}
			og := s.origin.String()
			if s.note != "" {
				og = s.note
			}
			fmt.Fprintf(&sb, "  ⟨%q, %q, %q, %q, %s, %q, %q, %d⟩%s\n", s.pkg, s.fn, s.kind, s.dest, swClassCtor[s.cls], og, s.file, s.line, sep)
		}
		sb.WriteString("]\n")
		n++
	}
	sb.WriteString("\ndef sliceWrites : List SliceWrite := ")
	if n == 0 {
		sb.WriteString("[]")
	}
	for i := 0; i < n; i++ {
		if i > 0 {
			sb.WriteString(" ++ ")
		}
		fmt.Fprintf(&sb, "sliceWritesChunk%d", i)
	}
	fmt.Fprintf(&sb, "\n\ndef sliceWriteCount : Nat := %d\n\nend GM.Gen\n", len(sites))
	writeIfChanged(filepath.Join(out, "SliceWrites.lean"), []byte(sb.String()))
}
