package main

// Constant facts (package `consts`): what the code SAYS about the constants the hand-written Lean models embody,
// read with go/parser + go/ast only (nothing is type-checked, nothing is executed). Output: <out>/Consts.lean
// (namespace GM.Gen.Consts) and <out>/Consts.extracted.txt (the same tables in readable form, for the evidence).
//
//   regexps      every `regexp.MustCompile(<expr>)` of the non-test, non-verif files of the packages below, keyed
//                "pkg.var" (or "pkg.func#k" inside a function), with the FULLY EVALUATED pattern: string literals,
//                `+`, parentheses and package-level string vars/consts that are never assigned to anywhere in the
//                package. Anything else -> understood = false (the obligations in GM.Spec.ConstFacts then fail).
//   stringSets   package-level `map[string]bool` / `map[string]struct{}` composite literals: the keys, SORTED
//                (a key mapped to `false` is listed as "key=false"); `[]string` literals in source order
//   byteConsts   package-level `[]byte("…")`, `[]byte{…}`, `[N]byte{…}` and string-valued vars/consts: the bytes
//   byteLists    package-level `[][]byte{…}` literals, in source order
//   intConsts    package-level integer constants (incl. simple `iota` blocks) and the bool/int fields of
//                package-level struct literals ("pkg.var.Field"); "stdlib.bufio.defaultBufSize" from GOROOT
//   funcInts     per function ("Recv.Method" or "Func"; closures belong to the enclosing declaration): the SORTED
//                multiset of (operator, integer) pairs for every comparison one side of which is an integer /
//                character literal or a package-level integer constant (normalised so that the literal is the
//                right operand), every literal slice bound ("slice-lo" / "slice-hi" / "slice-max"), every literal
//                in a `case` list ("case"), every `% literal` ("%") and every integer literal passed as a call argument
//                ("arg:<callee>", e.g. ("arg:IndentPosition", 4)). Sorted multisets are stable under
//                re-formatting, renaming of locals and re-ordering of branches.
//   funcStrs     per function: the SORTED multiset of (context, bytes) for every string literal of the body;
//                context "write" = the literal is (inside) an argument of a call whose selector begins with
//                `Write`/`RawWrite`/`SecureWrite`/`Fprintf` (the renderers' output), "other" otherwise

import (
	"fmt"
	"go/ast"
	"go/build"
	"go/parser"
	"go/token"
	"os"
	"path/filepath"
	"runtime"
	"sort"
	"strconv"
	"strings"
	"unicode/utf8"
)

func init() { factGenerators = append(factGenerators, genConstFacts) }

// packages whose constants are extracted: (directory under the repo, short name used in keys)
var constPkgs = [][2]string{
	{"parser", "parser"}, {"extension", "extension"}, {"renderer/html", "html"}, {"renderer", "renderer"},
	{"util", "util"}, {"text", "text"}, {"ast", "ast"}, {"extension/ast", "east"}, {".", "goldmark"},
}

// parseDirUntagged: like parseDir but skips files excluded by build constraints when NO tag is set (the `verif`
// hook files in particular) and, for GOOS/GOARCH/go-version constrained files, follows go/build.
func parseDirUntagged(dir string) *pkgFiles {
	fset := token.NewFileSet()
	ents, err := os.ReadDir(dir)
	if err != nil {
		die("%v", err)
	}
	ctx := build.Default
	ctx.BuildTags = nil
	p := &pkgFiles{fset: fset, files: map[string]*ast.File{}}
	for _, e := range ents {
		n := e.Name()
		if e.IsDir() || !strings.HasSuffix(n, ".go") || strings.HasSuffix(n, "_test.go") {
			continue
		}
		if ok, err := ctx.MatchFile(dir, n); err != nil || !ok {
			continue
		}
		f, err := parser.ParseFile(fset, filepath.Join(dir, n), nil, 0)
		if err != nil {
			die("%v", err)
		}
		p.files[n] = f
	}
	return p
}

type constPkg struct {
	name     string
	p        *pkgFiles
	vals     map[string]ast.Expr // package-level name -> initialiser
	assigned map[string]bool     // identifiers that occur as an assignment target / address-of operand anywhere
	ints     map[string]int64    // evaluated integer constants
}

func loadConstPkg(repo, dir, name string) *constPkg {
	c := &constPkg{name: name, p: parseDirUntagged(filepath.Join(repo, dir)), vals: map[string]ast.Expr{},
		assigned: map[string]bool{}, ints: map[string]int64{}}
	for _, fn := range sortedFiles(c.p) {
		f := c.p.files[fn]
		for _, d := range f.Decls {
			gd, ok := d.(*ast.GenDecl)
			if !ok || (gd.Tok != token.VAR && gd.Tok != token.CONST) {
				continue
			}
			var lastExprs []ast.Expr
			for si, s := range gd.Specs {
				vs := s.(*ast.ValueSpec)
				exprs := vs.Values
				if gd.Tok == token.CONST {
					if len(exprs) == 0 {
						exprs = lastExprs // implicit repetition
					} else {
						lastExprs = exprs
					}
				}
				for i, n := range vs.Names {
					if i >= len(exprs) || n.Name == "_" {
						continue
					}
					if len(vs.Values) > 0 {
						c.vals[n.Name] = exprs[i]
					}
					if gd.Tok == token.CONST {
						if v, ok := evalIota(exprs[i], int64(si), c); ok {
							c.ints[n.Name] = v
						}
					}
				}
			}
		}
		ast.Inspect(f, func(n ast.Node) bool {
			switch x := n.(type) {
			case *ast.AssignStmt:
				if x.Tok != token.DEFINE {
					for _, l := range x.Lhs {
						if id, ok := l.(*ast.Ident); ok {
							c.assigned[id.Name] = true
						}
					}
				}
			case *ast.IncDecStmt:
				if id, ok := x.X.(*ast.Ident); ok {
					c.assigned[id.Name] = true
				}
			case *ast.UnaryExpr:
				if id, ok := x.X.(*ast.Ident); ok && x.Op == token.AND {
					// &v of a string var would allow a write through the pointer; &byteSliceVar is how
					// htmlEscapeTable refers to its entries (read-only use), which does not concern strings
					c.assigned["&"+id.Name] = true
				}
			}
			return true
		})
	}
	return c
}

// evalIota evaluates the small integer-constant language used in const blocks: literals, iota, + - * << | and
// parentheses, conversions `T(x)`, references to earlier constants of the package.
func evalIota(e ast.Expr, iota int64, c *constPkg) (int64, bool) {
	switch x := e.(type) {
	case *ast.BasicLit:
		return intLit(x)
	case *ast.Ident:
		if x.Name == "iota" {
			return iota, true
		}
		v, ok := c.ints[x.Name]
		return v, ok
	case *ast.ParenExpr:
		return evalIota(x.X, iota, c)
	case *ast.UnaryExpr:
		v, ok := evalIota(x.X, iota, c)
		if !ok {
			return 0, false
		}
		switch x.Op {
		case token.SUB:
			return -v, true
		case token.ADD:
			return v, true
		}
		return 0, false
	case *ast.CallExpr: // conversion such as byte(0xff), OptionName is a string type (fails below)
		if len(x.Args) == 1 {
			if _, isStr := strLit(x.Args[0]); isStr {
				return 0, false
			}
			return evalIota(x.Args[0], iota, c)
		}
	case *ast.BinaryExpr:
		a, ok1 := evalIota(x.X, iota, c)
		b, ok2 := evalIota(x.Y, iota, c)
		if !ok1 || !ok2 {
			return 0, false
		}
		switch x.Op {
		case token.ADD:
			return a + b, true
		case token.SUB:
			return a - b, true
		case token.MUL:
			return a * b, true
		case token.SHL:
			if b >= 0 && b < 63 {
				return a << uint(b), true
			}
		case token.OR:
			return a | b, true
		}
	}
	return 0, false
}

// evalString: string literals, +, (), conversions []byte(x)/string(x)/T(x), package-level string vars/consts that
// are never assigned to and whose address is never taken.
func (c *constPkg) evalString(e ast.Expr, depth int) (string, bool) {
	if depth > 20 {
		return "", false
	}
	switch x := e.(type) {
	case *ast.BasicLit:
		if x.Kind == token.STRING {
			s, err := strconv.Unquote(x.Value)
			return s, err == nil
		}
	case *ast.BinaryExpr:
		if x.Op == token.ADD {
			a, ok1 := c.evalString(x.X, depth+1)
			b, ok2 := c.evalString(x.Y, depth+1)
			return a + b, ok1 && ok2
		}
	case *ast.ParenExpr:
		return c.evalString(x.X, depth+1)
	case *ast.Ident:
		v, ok := c.vals[x.Name]
		if !ok || c.assigned[x.Name] || c.assigned["&"+x.Name] {
			return "", false
		}
		return c.evalString(v, depth+1)
	case *ast.CallExpr:
		if len(x.Args) == 1 {
			switch f := x.Fun.(type) {
			case *ast.ArrayType, *ast.Ident:
				_ = f
				return c.evalString(x.Args[0], depth+1)
			}
		}
	}
	return "", false
}

func isByteElem(t ast.Expr) bool {
	id, ok := t.(*ast.Ident)
	return ok && (id.Name == "byte" || id.Name == "uint8")
}

// byteLit: `[]byte{…}` / `[N]byte{…}` of integer/char literals
func byteLit(cl *ast.CompositeLit, implicitByteSlice bool) ([]byte, bool) {
	if !implicitByteSlice {
		at, ok := cl.Type.(*ast.ArrayType)
		if !ok || !isByteElem(at.Elt) {
			return nil, false
		}
	}
	b := []byte{}
	for _, el := range cl.Elts {
		v, ok := intLit(el)
		if !ok || v < 0 || v > 255 {
			return nil, false
		}
		b = append(b, byte(v))
	}
	return b, true
}

type kv struct {
	key   string
	strs  []string
	bytes []byte
	blist [][]byte
	n     int64
	ok    bool
}

type funcLit struct {
	op  string // funcInts: operator; funcStrs: context
	n   int64
	str string
}

type funcFacts struct {
	pkg, fn string
	ints    []funcLit
	strs    []funcLit
}

func flipOp(op token.Token) token.Token {
	switch op {
	case token.LSS:
		return token.GTR
	case token.GTR:
		return token.LSS
	case token.LEQ:
		return token.GEQ
	case token.GEQ:
		return token.LEQ
	}
	return op
}

func isCmp(op token.Token) bool {
	switch op {
	case token.EQL, token.NEQ, token.LSS, token.LEQ, token.GTR, token.GEQ:
		return true
	}
	return false
}

func (c *constPkg) intOperand(e ast.Expr) (int64, bool) {
	if v, ok := intLit(e); ok {
		return v, true
	}
	switch x := e.(type) {
	case *ast.Ident:
		v, ok := c.ints[x.Name]
		return v, ok
	case *ast.ParenExpr:
		return c.intOperand(x.X)
	case *ast.CallExpr: // byte('x'), rune(0x10ffff), int64(…)
		if id, ok := x.Fun.(*ast.Ident); ok && len(x.Args) == 1 {
			switch id.Name {
			case "byte", "rune", "int", "int32", "int64", "uint8", "uint32", "uint", "uint64":
				return c.intOperand(x.Args[0])
			}
		}
	}
	return 0, false
}

// conversions and builtins whose integer arguments are not recorded as call arguments
var convNames = map[string]bool{"byte": true, "rune": true, "int": true, "int8": true, "int32": true, "int64": true, "uint8": true,
	"uint32": true, "uint": true, "uint64": true, "string": true, "make": true, "panic": true}

func writeCallName(call *ast.CallExpr) bool {
	n := selName(call.Fun)
	return strings.HasPrefix(n, "Write") || strings.HasPrefix(n, "RawWrite") || strings.HasPrefix(n, "SecureWrite") ||
		n == "Fprintf" || n == "Fprint"
}

func (c *constPkg) collectFunc(name string, body ast.Node) funcFacts {
	ff := funcFacts{pkg: c.name, fn: name}
	var walk func(n ast.Node, inWrite bool)
	walk = func(n ast.Node, inWrite bool) {
		ast.Inspect(n, func(m ast.Node) bool {
			switch x := m.(type) {
			case *ast.CallExpr:
				if callee := selName(x.Fun); callee != "" && !convNames[callee] {
					for _, a := range x.Args {
						if v, ok := intLit(a); ok { // literal only: `util.IndentPosition(line, off, 4)`
							ff.ints = append(ff.ints, funcLit{op: "arg:" + callee, n: v})
						}
					}
				}
				if !inWrite && writeCallName(x) {
					walk(x.Fun, false)
					for _, a := range x.Args {
						walk(a, true)
					}
					return false
				}
			case *ast.BasicLit:
				if x.Kind == token.STRING {
					if s, err := strconv.Unquote(x.Value); err == nil {
						ctx := "other"
						if inWrite {
							ctx = "write"
						}
						ff.strs = append(ff.strs, funcLit{op: ctx, str: s})
					}
				} else if x.Kind == token.CHAR && inWrite { // w.WriteByte('>')
					if v, ok := intLit(x); ok && v >= 0 && v < 0x80 {
						ff.strs = append(ff.strs, funcLit{op: "write", str: string(rune(v))})
					}
				}
			case *ast.BinaryExpr:
				if isCmp(x.Op) {
					lv, lok := c.intOperand(x.X)
					rv, rok := c.intOperand(x.Y)
					if rok && !lok {
						ff.ints = append(ff.ints, funcLit{op: x.Op.String(), n: rv})
					} else if lok && !rok {
						ff.ints = append(ff.ints, funcLit{op: flipOp(x.Op).String(), n: lv})
					}
				} else if x.Op == token.REM {
					if rv, ok := c.intOperand(x.Y); ok {
						ff.ints = append(ff.ints, funcLit{op: "%", n: rv})
					}
				}
			case *ast.SliceExpr:
				for i, b := range []ast.Expr{x.Low, x.High, x.Max} {
					if b == nil {
						continue
					}
					if v, ok := c.intOperand(b); ok {
						ff.ints = append(ff.ints, funcLit{op: []string{"slice-lo", "slice-hi", "slice-max"}[i], n: v})
					}
				}
			case *ast.CaseClause:
				for _, e := range x.List {
					if v, ok := c.intOperand(e); ok {
						ff.ints = append(ff.ints, funcLit{op: "case", n: v})
					}
				}
			}
			return true
		})
	}
	walk(body, false)
	sort.SliceStable(ff.ints, func(i, j int) bool {
		if ff.ints[i].op != ff.ints[j].op {
			return ff.ints[i].op < ff.ints[j].op
		}
		return ff.ints[i].n < ff.ints[j].n
	})
	sort.SliceStable(ff.strs, func(i, j int) bool {
		if ff.strs[i].op != ff.strs[j].op {
			return ff.strs[i].op < ff.strs[j].op
		}
		return ff.strs[i].str < ff.strs[j].str
	})
	return ff
}

// leanStr: a Lean string literal for valid UTF-8 text
func leanStr(s string) string {
	var sb strings.Builder
	sb.WriteByte('"')
	for _, r := range s {
		switch {
		case r == '\\':
			sb.WriteString(`\\`)
		case r == '"':
			sb.WriteString(`\"`)
		case r == '\n':
			sb.WriteString(`\n`)
		case r == '\t':
			sb.WriteString(`\t`)
		case r == '\r':
			sb.WriteString(`\r`)
		case r < 0x20 || r == 0x7f:
			fmt.Fprintf(&sb, `\x%02x`, r)
		default:
			sb.WriteRune(r)
		}
	}
	sb.WriteByte('"')
	return sb.String()
}

// emitChunked writes `def <name> : List <typ> := chunk0 ++ chunk1 ++ …` with at most 64 elements per chunk (a long
// literal exceeds the elaborator's recursion depth; same scheme as Entities).
func emitChunked(sb *strings.Builder, name, typ string, elems []string) {
	n := 0
	for i := 0; i < len(elems); i += 64 {
		j := i + 64
		if j > len(elems) {
			j = len(elems)
		}
		fmt.Fprintf(sb, "def %sChunk%d : List %s := [\n", name, n, typ)
		for k := i; k < j; k++ {
			sep := ","
			if k == j-1 {
				sep = ""
			}
			fmt.Fprintf(sb, "  %s%s\n", elems[k], sep)
		}
		sb.WriteString("]\n")
		n++
	}
	fmt.Fprintf(sb, "def %s : List %s := ", name, typ)
	if n == 0 {
		sb.WriteString("[]")
	}
	for i := 0; i < n; i++ {
		if i > 0 {
			sb.WriteString(" ++ ")
		}
		fmt.Fprintf(sb, "%sChunk%d", name, i)
	}
	sb.WriteString("\n\n")
}

func genConstFacts(repo, out string) {
	type regexpFact struct {
		key, pat string
		ok      bool
	}
	var regexps []regexpFact
	var sets, lists, bconsts, blists, iconsts []kv
	var funcs []funcFacts

	for _, pd := range constPkgs {
		dir := filepath.Join(repo, pd[0])
		if st, err := os.Stat(dir); err != nil || !st.IsDir() {
			continue
		}
		c := loadConstPkg(repo, pd[0], pd[1])
		// package-level declarations
		var names []string
		for n := range c.vals {
			names = append(names, n)
		}
		sort.Strings(names)
		for n, v := range c.ints {
			iconsts = append(iconsts, kv{key: c.name + "." + n, n: v})
		}
		seenRegexp := map[*ast.CallExpr]bool{}
		for _, n := range names {
			key := c.name + "." + n
			e := c.vals[n]
			if ue, ok := e.(*ast.UnaryExpr); ok && ue.Op == token.AND {
				e = ue.X
			}
			switch x := e.(type) {
			case *ast.CallExpr:
				if exprName(x.Fun) == "regexp.MustCompile" && len(x.Args) == 1 {
					pat, ok := c.evalString(x.Args[0], 0)
					ok = ok && utf8.ValidString(pat)
					regexps = append(regexps, regexpFact{key, pat, ok})
					seenRegexp[x] = true
					continue
				}
			case *ast.CompositeLit:
				switch t := x.Type.(type) {
				case *ast.MapType:
					kt, _ := t.Key.(*ast.Ident)
					if kt == nil || kt.Name != "string" {
						continue
					}
					vt := exprName(t.Value)
					_, isStruct := t.Value.(*ast.StructType)
					if vt != "bool" && !isStruct {
						continue
					}
					r := kv{key: key, ok: true}
					for _, el := range x.Elts {
						ke, ok := el.(*ast.KeyValueExpr)
						if !ok {
							r.ok = false
							continue
						}
						k, ok := c.evalString(ke.Key, 0)
						if !ok {
							r.ok = false
							continue
						}
						if id, isId := ke.Value.(*ast.Ident); isId && id.Name == "false" {
							k += "=false"
						} else if isId && id.Name != "true" {
							r.ok = false
						}
						r.strs = append(r.strs, k)
					}
					sort.Strings(r.strs)
					sets = append(sets, r)
					continue
				case *ast.ArrayType:
					if isByteElem(t.Elt) {
						if t.Len != nil || strings.HasPrefix(n, "_") {
							continue // fixed-size lookup tables and generated index tables: GM.Gen.UtilTables / Entities / CaseFold
						}
						if b, ok := byteLit(x, false); ok {
							bconsts = append(bconsts, kv{key: key, bytes: b, ok: true})
						}
						continue
					}
					if id, ok := t.Elt.(*ast.Ident); ok && id.Name == "string" {
						r := kv{key: key, ok: true}
						for _, el := range x.Elts {
							s, ok := c.evalString(el, 0)
							if !ok {
								r.ok = false
							}
							r.strs = append(r.strs, s)
						}
						lists = append(lists, r)
						continue
					}
					if at, ok := t.Elt.(*ast.ArrayType); ok && isByteElem(at.Elt) {
						r := kv{key: key, ok: true}
						for _, el := range x.Elts {
							if cl, isCl := el.(*ast.CompositeLit); isCl {
								b, ok := byteLit(cl, cl.Type == nil)
								if !ok {
									r.ok = false
								}
								r.blist = append(r.blist, b)
							} else if s, ok := c.evalString(el, 0); ok {
								r.blist = append(r.blist, []byte(s))
							} else {
								r.ok = false
								r.blist = append(r.blist, nil)
							}
						}
						blists = append(blists, r)
						continue
					}
				default:
					// struct literal: bool / int / string fields given by key
					for _, el := range x.Elts {
						ke, ok := el.(*ast.KeyValueExpr)
						if !ok {
							continue
						}
						kid, ok := ke.Key.(*ast.Ident)
						if !ok {
							continue
						}
						fkey := key + "." + kid.Name
						if id, ok := ke.Value.(*ast.Ident); ok && (id.Name == "true" || id.Name == "false") {
							v := int64(0)
							if id.Name == "true" {
								v = 1
							}
							iconsts = append(iconsts, kv{key: fkey, n: v})
						} else if v, ok := c.intOperand(ke.Value); ok {
							iconsts = append(iconsts, kv{key: fkey, n: v})
						} else if s, ok := c.evalString(ke.Value, 0); ok {
							bconsts = append(bconsts, kv{key: fkey, bytes: []byte(s), ok: true})
						}
					}
					continue
				}
			}
			if _, isInt := c.ints[n]; isInt {
				continue
			}
			if strings.HasPrefix(n, "_") {
				continue // generated entity / case-folding tables: GM.Gen.Entities / CaseFold
			}
			if s, ok := c.evalString(e, 0); ok {
				bconsts = append(bconsts, kv{key: key, bytes: []byte(s), ok: !c.assigned[n]})
			}
		}
		// functions (and regexps compiled inside functions)
		for _, fn := range sortedFiles(c.p) {
			for _, d := range c.p.files[fn].Decls {
				fd, ok := d.(*ast.FuncDecl)
				if !ok || fd.Body == nil {
					continue
				}
				name := fd.Name.Name
				if fd.Recv != nil {
					_, typ := recvInfo(fd)
					name = typ + "." + name
				}
				k := 0
				ast.Inspect(fd.Body, func(n ast.Node) bool {
					if ce, ok := n.(*ast.CallExpr); ok && exprName(ce.Fun) == "regexp.MustCompile" && len(ce.Args) == 1 && !seenRegexp[ce] {
						pat, ok := c.evalString(ce.Args[0], 0)
						regexps = append(regexps, regexpFact{fmt.Sprintf("%s.%s#%d", c.name, name, k), pat, ok && utf8.ValidString(pat)})
						k++
					}
					return true
				})
				ff := c.collectFunc(name, fd.Body)
				if len(ff.ints) > 0 || len(ff.strs) > 0 {
					funcs = append(funcs, ff)
				}
			}
		}
	}
	// the standard library's bufio default buffer size (Model/Bufio mirrors bufio.NewWriter)
	if src, err := parser.ParseFile(token.NewFileSet(), filepath.Join(runtime.GOROOT(), "src", "bufio", "bufio.go"), nil, 0); err == nil {
		for _, d := range src.Decls {
			gd, ok := d.(*ast.GenDecl)
			if !ok || gd.Tok != token.CONST {
				continue
			}
			for _, s := range gd.Specs {
				vs := s.(*ast.ValueSpec)
				for i, n := range vs.Names {
					if n.Name == "defaultBufSize" && i < len(vs.Values) {
						if v, ok := intLit(vs.Values[i]); ok {
							iconsts = append(iconsts, kv{key: "stdlib.bufio.defaultBufSize", n: v})
						}
					}
				}
			}
		}
	}

	sort.Slice(regexps, func(i, j int) bool { return regexps[i].key < regexps[j].key })
	for _, l := range []*[]kv{&sets, &lists, &bconsts, &blists, &iconsts} {
		s := *l
		sort.SliceStable(s, func(i, j int) bool { return s[i].key < s[j].key })
	}
	sort.SliceStable(funcs, func(i, j int) bool {
		if funcs[i].pkg != funcs[j].pkg {
			return funcs[i].pkg < funcs[j].pkg
		}
		return funcs[i].fn < funcs[j].fn
	})
	// two methods of the same name on the same receiver cannot exist; same-named functions in different files of
	// one package neither. Merge defensively (init functions): same key -> concatenated multisets.
	var merged []funcFacts
	for _, f := range funcs {
		if n := len(merged); n > 0 && merged[n-1].pkg == f.pkg && merged[n-1].fn == f.fn {
			merged[n-1].ints = append(merged[n-1].ints, f.ints...)
			merged[n-1].strs = append(merged[n-1].strs, f.strs...)
			continue
		}
		merged = append(merged, f)
	}
	funcs = merged

	var sb, txt strings.Builder
	sb.WriteString(header)
	sb.WriteString("namespace GM.Gen.Consts\n\n")
	sb.WriteString("structure RegexpFact where\n  name : String\n  pattern : String\n  understood : Bool\n  deriving Repr, DecidableEq\n\n")
	var el []string
	for _, r := range regexps {
		el = append(el, fmt.Sprintf("{ name := %q, pattern := %s, understood := %v }", r.key, leanStr(r.pat), r.ok))
		fmt.Fprintf(&txt, "regexp %s understood=%v %s\n", r.key, r.ok, strconv.Quote(r.pat))
	}
	emitChunked(&sb, "regexps", "RegexpFact", el)

	emitStrs := func(name string, l []kv, label string) {
		var el []string
		for _, r := range l {
			var q []string
			for _, s := range r.strs {
				q = append(q, leanStr(s))
			}
			el = append(el, fmt.Sprintf("(%q, %v, [%s])", r.key, r.ok, strings.Join(q, ", ")))
			fmt.Fprintf(&txt, "%s %s understood=%v %q\n", label, r.key, r.ok, r.strs)
		}
		emitChunked(&sb, name, "(String × Bool × List String)", el)
	}
	emitStrs("stringSets", sets, "stringSet")
	emitStrs("stringLists", lists, "stringList")

	el = nil
	for _, r := range bconsts {
		el = append(el, fmt.Sprintf("(%q, %s)", r.key, leanBytes(r.bytes)))
		fmt.Fprintf(&txt, "byteConst %s %q\n", r.key, r.bytes)
	}
	emitChunked(&sb, "byteConsts", "(String × List UInt8)", el)

	el = nil
	for _, r := range blists {
		var q []string
		for _, b := range r.blist {
			q = append(q, leanBytes(b))
		}
		el = append(el, fmt.Sprintf("(%q, %v, [%s])", r.key, r.ok, strings.Join(q, ", ")))
		fmt.Fprintf(&txt, "byteList %s understood=%v %q\n", r.key, r.ok, r.blist)
	}
	emitChunked(&sb, "byteLists", "(String × Bool × List (List UInt8))", el)

	el = nil
	for _, r := range iconsts {
		el = append(el, fmt.Sprintf("(%q, %d)", r.key, r.n))
		fmt.Fprintf(&txt, "intConst %s %d\n", r.key, r.n)
	}
	emitChunked(&sb, "intConsts", "(String × Int)", el)

	sb.WriteString("structure FuncInts where\n  pkg : String\n  fn : String\n  lits : List (String × Int)\n  deriving Repr, DecidableEq\n\n")
	sb.WriteString("structure FuncStrs where\n  pkg : String\n  fn : String\n  lits : List (String × List UInt8)\n  deriving Repr, DecidableEq\n\n")
	el = nil
	nInts, nStrs := 0, 0
	for _, f := range funcs {
		if len(f.ints) == 0 {
			continue
		}
		var q []string
		for _, l := range f.ints {
			q = append(q, fmt.Sprintf("(%q, %d)", l.op, l.n))
		}
		nInts += len(f.ints)
		el = append(el, fmt.Sprintf("{ pkg := %q, fn := %q, lits := [%s] }", f.pkg, f.fn, strings.Join(q, ", ")))
		fmt.Fprintf(&txt, "funcInts %s.%s %s\n", f.pkg, f.fn, strings.Join(q, " "))
	}
	emitChunked(&sb, "funcInts", "FuncInts", el)
	el = nil
	for _, f := range funcs {
		if len(f.strs) == 0 {
			continue
		}
		var q, t []string
		for _, l := range f.strs {
			q = append(q, fmt.Sprintf("(%q, %s)", l.op, leanBytes([]byte(l.str))))
			t = append(t, l.op+":"+strconv.Quote(l.str))
		}
		nStrs += len(f.strs)
		el = append(el, fmt.Sprintf("{ pkg := %q, fn := %q, lits := [%s] }", f.pkg, f.fn, strings.Join(q, ", ")))
		fmt.Fprintf(&txt, "funcStrs %s.%s %s\n", f.pkg, f.fn, strings.Join(t, " "))
	}
	emitChunked(&sb, "funcStrs", "FuncStrs", el)
	sb.WriteString("end GM.Gen.Consts\n")
	writeIfChanged(filepath.Join(out, "Consts.lean"), []byte(sb.String()))
	summary := fmt.Sprintf("consts: %d regexps, %d string sets, %d string lists, %d byte constants, %d byte lists, %d integer constants, "+
		"%d functions with %d integer literals, %d string literals\n", len(regexps), len(sets), len(lists), len(bconsts), len(blists),
		len(iconsts), len(funcs), nInts, nStrs)
	writeIfChanged(filepath.Join(out, "Consts.extracted.txt"), []byte(summary+txt.String()))
}
