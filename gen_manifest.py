#!/usr/bin/env python3
"""Regenerates MANIFEST.json from properties_cfg.py (claimed checks) and the list of all property ids."""
import json, os, sys
ROOT = os.path.dirname(os.path.abspath(__file__))
sys.path.insert(0, ROOT)
from properties_cfg import PROPS, NOT_CLAIMED

ids = [json.loads(l)["id"] for l in open(os.path.join(ROOT, "properties.jsonl"))]
checks = []
for pid in ids:
    if pid not in PROPS:
        continue
    c = PROPS[pid]
    checks.append({
        "property_id": pid,
        "quick_cmd": "./check %s --tier quick" % pid,
        "thorough_cmd": "./check %s --tier thorough" % pid,
        "evidence_file": "/verif/evidence/%s.json" % pid,
        "replay_cmd_template": "./check %s --replay {path}" % pid,
        "engine": "lean4-gm",
        "level_claimed": {"category": c["level"], "text": c["claim"], "design_ref": c.get("design_ref", "DESIGN.md section 7, " + pid)},
        "level_note": c["note"],
        "technique": c["technique"],
    })
na = [{"property_id": pid, "reason": NOT_CLAIMED.get(pid, "check not built yet in this round; see DESIGN.md section 7")} for pid in ids if pid not in PROPS]
m = {
    "version": 1,
    "setup_cmd": "./check setup",
    "hooks": {
        "guard": "verif",
        "enable": "go build -tags verif (the harness module replaces github.com/yuin/goldmark by /repo)",
        "baseline_off_cmd": "cd /repo && go test -vet=off -count=1 ./...",
        "source_commits": json.load(open(os.path.join(ROOT, "hooks.json"))) if os.path.exists(os.path.join(ROOT, "hooks.json")) else [],
        "add_only": True,
    },
    "engines": [{
        "name": "lean4-gm", "path": "/verif/lean",
        "serves_properties": [c["property_id"] for c in checks],
        "kind_free_text": "Lean 4 lake project GM: hand-written executable models (GM/Model), specs (GM/Spec), proofs (GM/Proof), property theorems (GM/Props), tables and facts regenerated from /repo by harness/cmd/gmgen (GM/Gen); tied to the Go code by harness/cmd/gmharness (differential line protocol against the compiled model driver) ",
    }],
    "checks": checks,
    "not_applicable": na,
    "notes": "All checks: regen from /repo -> lake build of the property's theorems -> #print axioms audit -> go build -tags verif against /repo -> correspondence + oracles -> evidence. See DESIGN.md.",
}
if not na:
    m["not_applicable"] = []
json.dump(m, open(os.path.join(ROOT, "MANIFEST.json"), "w"), indent=1)
try:
    import jsonschema
    jsonschema.validate(m, json.load(open("/root/.vp/MANIFEST.schema.json")))
    print("MANIFEST.json valid,", len(checks), "checks,", len(na), "not claimed")
except ImportError:
    print("MANIFEST.json written (jsonschema not available)")
